"""Emit pytenet OpGraph objects as Model/OpGraph.v literals and enumerate their symbolic meaning."""
from fractions import Fraction
import itertools
import emit as E


def coeff_gi(c):
    return E.gi(c)


def coeff_qi(c):
    return E.qi(c)


def graph(g, cf=coeff_gi, ring='GIring'):
    """OpGraph -> (mkgraph nodes edges t0 t1), dictionaries in insertion order"""
    nodes = E.lst(['(mknode %s %s %s %s)' % (E.z(n.nid), E.zlist(n.eids[0]), E.zlist(n.eids[1]), E.z(n.qnum))
                   for n in g.nodes.values()])
    edges = E.lst(['(@mkedge %s %s %s %s %s)' % (ring, E.z(e.eid), E.z(e.nids[0]), E.z(e.nids[1]),
                                             E.lst([E.pair(E.z(i), cf(c)) for i, c in e.opics]))
                   for e in g.edges.values()])
    return '(@mkgraph %s %s %s %s %s)' % (ring, nodes, edges, E.z(g.nid_terminal[0]), E.z(g.nid_terminal[1]))


def graph_json(g):
    return {'nodes': [[int(n.nid), [int(x) for x in n.eids[0]], [int(x) for x in n.eids[1]], int(n.qnum)] for n in g.nodes.values()],
            'edges': [[int(e.eid), int(e.nids[0]), int(e.nids[1]), [[int(i), complex(c).real, complex(c).imag] for i, c in e.opics]]
                      for e in g.edges.values()],
            't': [int(g.nid_terminal[0]), int(g.nid_terminal[1])]}


def path_poly(g, conv=Fraction):
    """independent enumeration: dict word(tuple of oids) -> coefficient, over all start->end paths"""
    out = {}
    t0, t1 = g.nid_terminal

    def rec(nid, word, coeff):
        if nid == t1 and not g.nodes[nid].eids[1]:
            for w, c in expand(word, coeff):
                out[w] = out.get(w, 0) + c
            return
        for eid in g.nodes[nid].eids[1]:
            e = g.edges[eid]
            rec(e.nids[1], word + [e.opics], coeff)

    def expand(word, coeff):
        for combo in itertools.product(*word):
            c = coeff
            for _, ci in combo:
                c = c * ci
            yield tuple(i for i, _ in combo), c
    rec(t0, [], 1)
    return {w: c for w, c in out.items() if c != 0}
