"""Seeded structured generators and independent dense references shared by the property plugins.

Nothing here calls pytenet's own contraction code for the *reference* values: dense vectors and matrices are
obtained by explicit einsum over the raw tensors.
"""
import numpy as np


def np_rng(rng):
    """numpy Generator derived from the harness' random.Random"""
    return np.random.default_rng(rng.getrandbits(32))


# ---------------------------------------------------------------- quantum numbers
def qvec(rs, n, klass):
    if klass == 'zero':
        return np.zeros(n, dtype=int)
    if klass == 'sorted':
        return np.sort(rs.integers(-1, 2, size=n))
    if klass == 'unsorted':
        return rs.integers(-2, 3, size=n)
    if klass == 'repeated':
        return np.full(n, int(rs.integers(-2, 3)))
    if klass == 'big':
        # encoded pairs (N << 16) + S as used by the Fermi-Hubbard model; neighbouring S for N >= 4 are 1e-5-close in relative terms
        pool = [[-(1 << 16) - 1, 0, (1 << 16), (1 << 16) + 1],
                [(5 << 16) - 1, (5 << 16), (5 << 16) + 1, (4 << 16) + 1],
                [(300 << 16) + 1, (300 << 16) + 2, (300 << 16), 0]][int(rs.integers(0, 3))]
        out = rs.choice(pool, size=n)
        if n >= 2 and pool[0] > (1 << 17) and rs.random() < 0.7:
            out[0], out[1] = pool[0], pool[1]       # two large charges that differ by one on the same leg
        return out
    raise ValueError(klass)


QCLASSES = ['zero', 'sorted', 'unsorted', 'repeated', 'big']


def bond_charges(rs, qd, L, dims, klass, q_total=None, connected=True):
    """bond quantum numbers qD[0..L] for bond dimensions dims (dims[0] = dims[L] = 1).
    With connected=True the partial sums of a random word are included so that the sector is not empty."""
    qd = np.asarray(qd)
    if klass == 'zero' or not np.any(qd):
        if klass == 'zero':
            return [np.zeros(D, dtype=int) for D in dims]
    word = rs.integers(0, len(qd), size=L)
    path = np.concatenate(([0], np.cumsum(qd[word])))
    qD = []
    for i, D in enumerate(dims):
        if klass == 'zero':
            q = np.zeros(D, dtype=int)
        else:
            reach = path[i]
            q = reach + qvec(rs, D, klass if klass != 'zero' else 'unsorted') * (int(np.max(np.abs(qd))) if np.any(qd) else 1)
            if connected:
                q[int(rs.integers(0, D))] = reach
            if klass == 'sorted':
                q = np.sort(q)
        qD.append(np.asarray(q, dtype=int))
    qD[0] = np.array([0])
    if q_total is not None:
        qD[-1] = np.array([q_total])
    else:
        qD[-1] = np.array([int(path[-1])]) if connected else np.array([int(rs.integers(-3, 4))])
    return qD


def fill_tensor(rs, shape, mask, entries, dtype):
    if entries == 'int':
        re = rs.integers(-3, 4, size=shape).astype(float)
        im = rs.integers(-3, 4, size=shape).astype(float)
    else:
        re = rs.standard_normal(shape)
        im = rs.standard_normal(shape)
    if dtype == 'complex':
        A = re + 1j * im
    elif dtype == 'real':
        A = re
    elif dtype == 'int':
        A = rs.integers(-3, 4, size=shape)
    else:
        raise ValueError(dtype)
    return np.where(mask, A, 0)


def rand_mps(rs, L, d, qclass='unsorted', Dmax=4, dtype='complex', entries='float', qd=None, dims=None,
             connected=True, rank_deficient=False, q_total=None):
    """random block-sparse MPS built through the public constructor"""
    import pytenet as ptn
    if qd is None:
        qd = np.zeros(d, dtype=int) if qclass == 'zero' else rs.integers(-1, 2, size=d)
    if dims is None:
        dims = [1] + [int(rs.integers(1, Dmax + 1)) for _ in range(L - 1)] + [1]
    qD = bond_charges(rs, qd, L, dims, qclass, q_total=q_total, connected=connected)
    psi = ptn.MPS(qd, qD, fill='postpone')
    for i in range(L):
        mask = ptn.qnumber_outer_sum([psi.qd, psi.qD[i], -psi.qD[i + 1]]) == 0
        psi.A[i] = fill_tensor(rs, mask.shape, mask, entries, dtype)
    if rank_deficient and L > 1:
        i = int(rs.integers(0, L - 1))
        D = psi.A[i].shape[2]
        if D > 1:
            # make two right-bond columns linearly dependent where charges allow, else zero one out
            a, b = rs.choice(D, size=2, replace=False)
            if psi.qD[i + 1][a] == psi.qD[i + 1][b]:
                psi.A[i][:, :, a] = 2 * psi.A[i][:, :, b]
            else:
                psi.A[i][:, :, a] = 0
    return psi


def rand_mpo(rs, L, d, qclass='unsorted', Dmax=3, dtype='complex', entries='float', qd=None, dims=None):
    import pytenet as ptn
    if qd is None:
        qd = np.zeros(d, dtype=int) if qclass == 'zero' else rs.integers(-1, 2, size=d)
    if dims is None:
        dims = [1] + [int(rs.integers(1, Dmax + 1)) for _ in range(L - 1)] + [1]
    if qclass == 'zero':
        qD = [np.zeros(D, dtype=int) for D in dims]
    else:
        qD = [qvec(rs, D, qclass) for D in dims]
        qD[0] = np.array([0]); qD[-1] = np.array([0])
        # make sure charge 0 (carried by identity-like terms) is available on every bond
        for q in qD[1:-1]:
            q[int(rs.integers(0, len(q)))] = 0
    op = ptn.MPO(qd, qD, fill='postpone')
    for i in range(L):
        mask = ptn.qnumber_outer_sum([op.qd, -op.qd, op.qD[i], -op.qD[i + 1]]) == 0
        op.A[i] = fill_tensor(rs, mask.shape, mask, entries, dtype)
    return op


def hermitian_mpo(rs, L, d, qclass='zero', Dmax=2, dtype='complex', entries='float', qd=None):
    """O + O^dagger assembled tensor-wise (independent of add_mpo): block structure [O | O^dag] by hand"""
    import pytenet as ptn
    O = rand_mpo(rs, L, d, qclass, Dmax, dtype, entries, qd=qd)
    Od_A = [a.conj().transpose((1, 0, 2, 3)) for a in O.A]
    Od_qD = [-q for q in O.qD]
    H = ptn.MPO(O.qd, [np.array([0])] + [np.concatenate((O.qD[i], Od_qD[i])) for i in range(1, L)] + [np.array([0])], fill='postpone')
    for i in range(L):
        a, b = O.A[i], Od_A[i]
        if L == 1:
            H.A[i] = a + b
        elif i == 0:
            H.A[i] = np.concatenate((a, b), axis=3)
        elif i == L - 1:
            H.A[i] = np.concatenate((a, b), axis=2)
        else:
            top = np.concatenate((a, np.zeros(a.shape[:3] + (b.shape[3],), dtype=a.dtype)), axis=3)
            bot = np.concatenate((np.zeros(b.shape[:3] + (a.shape[3],), dtype=a.dtype), b), axis=3)
            H.A[i] = np.concatenate((top, bot), axis=2)
    return H


# ---------------------------------------------------------------- independent dense references
def mps_dense(Alist):
    """dense vector of an MPS from its raw tensors (d, Dl, Dr), first site most significant"""
    v = np.ones((1, 1), dtype=complex)           # (flat physical, right bond)
    for A in Alist:
        # v[p, a] * A[s, a, b] -> v'[p, s, b]
        v = np.einsum('pa,sab->psb', v, A).reshape(v.shape[0] * A.shape[0], A.shape[2])
    assert v.shape[1] == 1
    return v[:, 0]


def mpo_dense(Alist):
    """dense matrix of an MPO from raw tensors (d, d, Dl, Dr)"""
    m = np.ones((1, 1, 1), dtype=complex)        # (row, col, right bond)
    for A in Alist:
        m = np.einsum('rca,stab->rsctb', m, A)
        m = m.reshape(m.shape[0] * m.shape[1], m.shape[2] * m.shape[3], m.shape[4])
    assert m.shape[2] == 1
    return m[:, :, 0]


def is_qsparse_ref(A, qnums):
    """independent re-implementation: every non-zero entry has charge sum zero"""
    A = np.asarray(A)
    idx = np.argwhere(A != 0)
    for ix in idx:
        if sum(int(q[i]) for q, i in zip(qnums, ix)) != 0:
            return False
    return True


def mps_sparsity_ok(psi):
    if len(psi.qD) != len(psi.A) + 1:
        return 'len(qD) != nsites + 1'
    for i, A in enumerate(psi.A):
        if not isinstance(psi.qD[i], np.ndarray) or not isinstance(psi.qD[i + 1], np.ndarray):
            return 'qD[%d] is not an ndarray' % i
        if A.shape != (len(psi.qd), len(psi.qD[i]), len(psi.qD[i + 1])):
            return 'shape of A[%d] %s does not match quantum-number lists (%d,%d,%d)' % (i, A.shape, len(psi.qd), len(psi.qD[i]), len(psi.qD[i + 1]))
        if not is_qsparse_ref(A, [psi.qd, psi.qD[i], -np.asarray(psi.qD[i + 1])]):
            return 'A[%d] violates block sparsity' % i
    return None


def mpo_sparsity_ok(op):
    if len(op.qD) != len(op.A) + 1:
        return 'len(qD) != nsites + 1'
    for i, A in enumerate(op.A):
        if A.shape != (len(op.qd), len(op.qd), len(op.qD[i]), len(op.qD[i + 1])):
            return 'shape of A[%d] %s does not match quantum-number lists' % (i, A.shape)
        if not is_qsparse_ref(A, [op.qd, -np.asarray(op.qd), op.qD[i], -np.asarray(op.qD[i + 1])]):
            return 'A[%d] violates block sparsity' % i
    return None


def rel(a, b):
    """scale-aware distance"""
    a = np.asarray(a); b = np.asarray(b)
    return float(np.linalg.norm(a - b) / (1.0 + max(np.linalg.norm(a), np.linalg.norm(b))))


def relayout(a, k):
    """the same array in another memory layout (values, shape and dtype unchanged): k % 4 == 1 Fortran order, 2 a non-contiguous
    view into a larger buffer, 3 a view with negative strides of a reversed copy; 0 unchanged"""
    a = np.asarray(a)
    k = k % 4
    if k == 0 or a.ndim == 0 or a.size == 0:
        return a
    if k == 1:
        return np.asfortranarray(a)
    if k == 2:
        big = np.zeros(tuple(n + 1 for n in a.shape), dtype=a.dtype)
        big[tuple(slice(0, n) for n in a.shape)] = a
        return big[tuple(slice(0, n) for n in a.shape)]
    rev = np.ascontiguousarray(a[..., ::-1])
    return rev[..., ::-1]
