"""Independent dense references for the built-in Hamiltonians (written from the documented formulas,
not from the code): Kronecker sums over sites, own fermionic operators with Jordan-Wigner strings.

Conventions (read off the docstrings and the quantum-number layout of the library):
  * first site is the most significant tensor factor;
  * fermionic mode k of n modes:  a_k = I^{(k)} (x) a (x) Z^{(n-1-k)}  (Z string to the right), a = [[0,1],[0,0]];
  * spinful sites: modes ordered (site 0 up, site 0 down, site 1 up, ...), local basis |n_up n_dn>.
"""
import itertools
import numpy as np


def kron_all(ops):
    out = np.identity(1)
    for o in ops:
        out = np.kron(out, o)
    return out


def site_op(op, i, L, d):
    return kron_all([op if k == i else np.identity(d) for k in range(L)])


def two_site(op0, op1, i, L, d):
    return kron_all([op0 if k == i else (op1 if k == i + 1 else np.identity(d)) for k in range(L)])


# ---------------------------------------------------------------- spin / boson models
def ising(L, J, h, g):
    X = np.array([[0., 1.], [1., 0.]]); Z = np.array([[1., 0.], [0., -1.]])
    H = np.zeros((2 ** L, 2 ** L))
    for i in range(L - 1):
        H = H + J * two_site(Z, Z, i, L, 2)
    for i in range(L):
        H = H + h * site_op(Z, i, L, 2) + g * site_op(X, i, L, 2)
    return H


def spin_ops(s2):
    """spin-s operators for 2s = s2 (Sx, Sy, Sz), basis m = s, s-1, ..., -s"""
    s = s2 / 2.0
    ms = [s - k for k in range(s2 + 1)]
    d = len(ms)
    Sz = np.diag(ms)
    Sp = np.zeros((d, d))
    for k in range(1, d):
        m = ms[k]
        Sp[k - 1, k] = np.sqrt(s * (s + 1) - m * (m + 1))
    Sx = (Sp + Sp.T) / 2
    Sy = (Sp - Sp.T) / (2j)
    return Sx, Sy, Sz


def xxz(L, J, D, h, s2=1):
    Sx, Sy, Sz = spin_ops(s2)
    d = s2 + 1
    H = np.zeros((d ** L, d ** L), dtype=complex)
    for i in range(L - 1):
        H = H + J * (two_site(Sx, Sx, i, L, d) + two_site(Sy, Sy, i, L, d)) + D * two_site(Sz, Sz, i, L, d)
    for i in range(L):
        H = H - h * site_op(Sz, i, L, d)
    return H


def bose_hubbard(d, L, t, U, mu):
    b = np.diag(np.sqrt(np.arange(1, d, dtype=float)), 1)
    n = np.diag(np.arange(d, dtype=float))
    H = np.zeros((d ** L, d ** L))
    for i in range(L - 1):
        H = H - t * (two_site(b.T, b, i, L, d) + two_site(b, b.T, i, L, d))
    for i in range(L):
        H = H + 0.5 * U * site_op(n @ (n - np.identity(d)), i, L, d) - mu * site_op(n, i, L, d)
    return H


# ---------------------------------------------------------------- fermions
def modes(n):
    """annihilation operators a_0..a_{n-1} on n modes with Z strings to the right"""
    a = np.array([[0., 1.], [0., 0.]]); Z = np.array([[1., 0.], [0., -1.]]); I = np.identity(2)
    return [kron_all([I] * k + [a] + [Z] * (n - 1 - k)) for k in range(n)]


def check_car(ops):
    """canonical anti-commutation relations of the reference operators (sanity of the reference itself)"""
    n = len(ops)
    for i in range(n):
        for j in range(n):
            ac = ops[i] @ ops[j].conj().T + ops[j].conj().T @ ops[i]
            assert np.allclose(ac, np.identity(ac.shape[0]) if i == j else 0)
            assert np.allclose(ops[i] @ ops[j] + ops[j] @ ops[i], 0)


def fermi_hubbard(L, t, U, mu):
    a = modes(2 * L)
    ad = [x.T for x in a]
    dim = 4 ** L
    H = np.zeros((dim, dim))
    for i in range(L - 1):
        for s in (0, 1):
            p, q = 2 * i + s, 2 * (i + 1) + s
            H = H - t * (ad[p] @ a[q] + ad[q] @ a[p])
    I = np.identity(dim)
    for i in range(L):
        nu, nd = ad[2 * i] @ a[2 * i], ad[2 * i + 1] @ a[2 * i + 1]
        H = H + U * (nu - 0.5 * I) @ (nd - 0.5 * I) - mu * (nu + nd)
    return H


def linear_fermionic(coeff, create):
    L = len(coeff)
    a = modes(L)
    out = np.zeros((2 ** L, 2 ** L), dtype=complex)
    for i in range(L):
        out = out + coeff[i] * (a[i].T if create else a[i])
    return out


def molecular(tkin, vint):
    L = tkin.shape[0]
    a = modes(L); ad = [x.T for x in a]
    H = np.zeros((2 ** L, 2 ** L), dtype=complex)
    for i in range(L):
        for j in range(L):
            if tkin[i, j] != 0:
                H = H + tkin[i, j] * (ad[i] @ a[j])
    for i, j, k, l in itertools.product(range(L), repeat=4):
        if vint[i, j, k, l] != 0:
            H = H + 0.5 * vint[i, j, k, l] * (ad[i] @ ad[j] @ a[l] @ a[k])
    return H


def spin_molecular(tkin, vint):
    L = tkin.shape[0]
    a = modes(2 * L); ad = [x.T for x in a]
    H = np.zeros((4 ** L, 4 ** L), dtype=complex)
    for i in range(L):
        for j in range(L):
            if tkin[i, j] != 0:
                for s in (0, 1):
                    H = H + tkin[i, j] * (ad[2 * i + s] @ a[2 * j + s])
    for i, j, k, l in itertools.product(range(L), repeat=4):
        if vint[i, j, k, l] != 0:
            for s in (0, 1):
                for t in (0, 1):
                    H = H + 0.5 * vint[i, j, k, l] * (ad[2 * i + s] @ ad[2 * j + t] @ a[2 * l + t] @ a[2 * k + s])
    return H


# ---------------------------------------------------------------- operator Schmidt rank
def schmidt_ranks(M, d, L, tol=1e-10):
    """operator Schmidt rank of the d^L x d^L matrix M across every cut 1..L-1"""
    ranks = []
    T = M.reshape([d] * L + [d] * L)
    for cut in range(1, L):
        # group (row, col) indices of the first `cut` sites against the rest
        perm = list(range(cut)) + list(range(L, L + cut)) + list(range(cut, L)) + list(range(L + cut, 2 * L))
        X = T.transpose(perm).reshape(d ** (2 * cut), d ** (2 * (L - cut)))
        s = np.linalg.svd(X, compute_uv=False)
        ranks.append(int(np.sum(s > tol * max(1.0, s[0]))))
    return ranks
