"""Fingerprint of the modelled sources (pytenet/*.py, comments and layout ignored: sha256 of the ast dump per file).

harness/fingerprints.json holds the fingerprint of the tree on which the models were last validated (the pinned commit plus the
fix: commits of this work).  When the current tree differs, the quick tier of every check draws further batches of cases
(core.py, '[F] ...'): a changed source is exactly the situation in which a sampled tie deserves more samples.  A differing
fingerprint is never a violation by itself.   Update after a deliberate change of /repo:  python harness/fingerprint.py --update"""
import ast, hashlib, json, os, sys

HERE = os.path.dirname(os.path.abspath(__file__))
STORE = os.path.join(HERE, 'fingerprints.json')


def current(repo=None):
    repo = repo or os.environ.get('VERIF_REPO', '/repo')
    pkg = os.path.join(repo, 'pytenet')
    out = {}
    for fn in sorted(os.listdir(pkg)):
        if fn.endswith('.py'):
            src = open(os.path.join(pkg, fn), encoding='utf-8').read()
            try:
                import warnings
                with warnings.catch_warnings():
                    warnings.simplefilter('ignore')
                    dump = ast.dump(ast.parse(src))
            except SyntaxError:
                dump = src
            out[fn] = hashlib.sha256(dump.encode()).hexdigest()
    return out


def changed_files(repo=None):
    """names of the files whose fingerprint differs from the stored one (added / removed files included); [] if none"""
    cur = current(repo)
    try:
        old = json.load(open(STORE))['files']
    except Exception:
        return sorted(cur)
    return sorted(f for f in set(cur) | set(old) if cur.get(f) != old.get(f))


if __name__ == '__main__':
    if '--update' in sys.argv:
        json.dump({'comment': 'sha256 of ast.dump per file of /repo/pytenet at the tree the models were last validated on; see fingerprint.py',
                   'files': current('/repo')}, open(STORE, 'w'), indent=1)
        print('updated', STORE)
    else:
        print(changed_files() or 'unchanged')
