"""writeset.py — static, fail-closed write-set and result-freshness analysis of /repo/pytenet (C19, second tie).

The sources are PARSED (Python `ast`), never imported.  For every function / method the analysis computes, by an
interprocedural fixpoint over function summaries,

  mutated   the parameters whose referents (anything reachable from them) the function may write,
  stores    for each parameter the other parameters whose objects may become reachable from it,
  ret       which parameters the returned value may be (alias / view) or may contain,

and from these, for every public operation named in Model/Alias.v `desc_of`, the derived descriptor.

Abstract domain (one per analysed function):
  location   ('P', p)  the region of parameter p: the object p refers to and everything reachable from it (collapsed)
             ('A', site) an object allocated by the function at that expression (call results of fresh-returning
                       functions, displays, comprehensions, arithmetic, constructor calls, ...)
             ('R', f)  whatever a call of the function-valued parameter f returns
             ('G',)    module / class level state
  value      set of locations the value may BE (views are collapsed onto their base: reshape, transpose, slicing, .T,
             .real, np.asarray, ... keep the location), optional tuple structure, optional known constant / length
  contents   location -> locations stored in it (flow-insensitive, weak updates); variable bindings are flow-sensitive
             (strong update on rebinding, join over branches, fixpoint over loops).
A write through a value whose location set contains ('P', p) makes p "possibly mutated" and records the statement.

Policies (every one is part of the trusted base and repeated in props/c19.py TRUSTED):
  * external functions (numpy, scipy, itertools, copy, builtins) are classified by the tables below; a call of an
    external function that falls under no table and not under the default rule, or of a method name found in no
    table and in no class of the library, makes the enclosing function UNKNOWN (= may write every parameter, result may
    alias everything). Default rule (default_pure): a numpy / scipy.linalg / scipy.sparse / scipy.special / itertools /
    math / cmath function in no table, called without out= / copy= / overwrite_*= keywords and not a ufunc `.at`, a
    random generator, an iterator / buffer / I/O / setter function, writes none of its arguments; its result is fresh
    storage that may also be (a view of) or contain any of its arguments;
  * `np.einsum` is treated as fresh only with two or more array operands (with one operand it can return a view);
  * `.copy()` is ndarray.copy (deep) unless the receiver is a list/dict/set allocated in the same function or was read
    from a field that some class of the library initialises with a list/dict/set (`psi.A.copy()`): then shallow;
  * `a + b`, `a * b`, ... on operands of unknown type are numeric (fresh ndarray/scalar); list concatenation and
    repetition are recognised when an operand is a list/tuple allocated in the same function or such a container field;
  * parameter annotations `int/float/complex/bool/str` and `Sequence[int]`-like annotations are trusted: such
    parameters (resp. their elements) are immutable scalars;
  * dictionary keys are hashable, hence treated as immutable;
  * function-valued parameters (`Afunc`) are handled symbolically (region R) and instantiated with the lambda /
    nested function / library function passed at the call site, whose body is analysed in place; any other callable
    value (callables stored in data) may write its arguments and everything reachable from itself;
  * unsupported syntax (try/with/global/nonlocal/yield/await/star-arguments/walrus/match/exec/eval/setattr/getattr...)
    makes the enclosing function UNKNOWN.
Not seen at all: aliasing created inside C code of numpy/scipy beyond the tables, ctypes/buffer tricks, `__dict__`
manipulation, monkey patching, threads.
"""
import ast, os, sys, json, time

# ------------------------------------------------------------------------------------------------------------------
# trusted tables
# ------------------------------------------------------------------------------------------------------------------
SCALAR_TYPES = {'int', 'float', 'complex', 'bool', 'str'}
SEQ_TYPES = {'Sequence', 'list', 'tuple', 'List', 'Tuple', 'Iterable', 'Collection', 'set', 'frozenset'}
EXT_MODULES = {'numpy', 'scipy', 'scipy.linalg', 'scipy.sparse', 'copy', 'itertools', 'warnings', 'queue', 'enum',
               'collections.abc', 'typing', 'collections', 'math', 'numpy.linalg'}

# external functions returning a deep-fresh object (no part of the result is shared with an argument); none of them
# writes to an argument unless `out=` is given (handled separately)
EXT_FRESH = {
    'numpy.array',         # copies by default (copy=True)
    'numpy.zeros', 'numpy.ones', 'numpy.empty', 'numpy.full', 'numpy.identity', 'numpy.eye', 'numpy.arange',
    'numpy.zeros_like', 'numpy.ones_like', 'numpy.empty_like',
    'numpy.block', 'numpy.concatenate', 'numpy.stack', 'numpy.hstack', 'numpy.vstack',   # always allocate the result
    'numpy.tensordot', 'numpy.kron', 'numpy.dot', 'numpy.outer', 'numpy.matmul',          # BLAS results
    'numpy.where',         # 3-argument form allocates; 1-argument form returns fresh index arrays
    'numpy.argsort', 'numpy.cumsum', 'numpy.intersect1d', 'numpy.sort', 'numpy.unique',
    'numpy.exp', 'numpy.sqrt', 'numpy.abs', 'numpy.conj', 'numpy.conjugate', 'numpy.add.outer',  # ufuncs without out=
    'numpy.linalg.norm', 'numpy.linalg.qr', 'numpy.linalg.svd', 'numpy.linalg.eigh', 'numpy.linalg.inv',
    'numpy.random.default_rng',
    'scipy.linalg.eigh_tridiagonal', 'scipy.linalg.expm',
    'scipy.sparse.csr_array', 'scipy.sparse.csc_array', 'scipy.sparse.hstack',   # built from dense input: new buffers
    'copy.deepcopy',
    'queue.Queue',
}
# external functions with scalar / immutable results
EXT_SCALAR = {'numpy.any', 'numpy.all', 'numpy.allclose', 'numpy.array_equal', 'numpy.issubdtype', 'numpy.finfo',
              'numpy.vdot', 'numpy.isclose', 'numpy.prod', 'numpy.sum', 'numpy.max', 'numpy.min', 'numpy.ndim',
              'numpy.shape', 'numpy.size', 'numpy.trace', 'warnings.warn', 'math.sqrt'}
# external functions whose result may be (a view of) their first argument
EXT_VIEW = {'numpy.reshape', 'numpy.transpose', 'numpy.asarray', 'numpy.ravel', 'numpy.squeeze', 'numpy.real',
            'numpy.imag', 'numpy.diag', 'numpy.diagonal', 'numpy.ascontiguousarray', 'numpy.atleast_1d',
            'numpy.atleast_2d', 'numpy.swapaxes', 'numpy.moveaxis', 'numpy.expand_dims', 'numpy.asanyarray',
            'numpy.broadcast_to', 'numpy.flip', 'numpy.triu', 'numpy.tril'}
# external functions writing to the argument at the given position
EXT_MUTATE = {'numpy.copyto': 0, 'numpy.fill_diagonal': 0, 'numpy.put': 0, 'numpy.place': 0, 'numpy.putmask': 0,
              'numpy.random.shuffle': 0, 'numpy.put_along_axis': 0}
# external functions returning a fresh container / iterator over the ELEMENTS of their arguments (shallow)
EXT_SHALLOW = {'copy.copy', 'itertools.product', 'itertools.combinations', 'itertools.permutations',
               'itertools.chain', 'itertools.accumulate',
               'collections.deque', 'collections.OrderedDict', 'collections.defaultdict', 'collections.Counter'}
EXT_SHALLOW_KIND = {'copy.copy': 'obj', 'collections.deque': 'queue', 'collections.OrderedDict': 'dict', 'collections.defaultdict': 'dict',
                    'collections.Counter': 'dict'}

BUILTIN_SCALAR = {'len', 'abs', 'int', 'float', 'complex', 'bool', 'str', 'hash', 'isinstance', 'issubclass', 'print',
                  'all', 'any', 'round', 'id', 'type', 'repr', 'callable', 'divmod', 'pow', 'ord', 'chr', 'format'}
BUILTIN_ELEM = {'max', 'min', 'next'}                 # return one of the arguments / one of their elements
BUILTIN_SHALLOW = {'list': 'list', 'tuple': 'list', 'set': 'set', 'frozenset': 'set', 'sorted': 'list',
                   'reversed': 'iter', 'enumerate': 'iter', 'zip': 'iter', 'iter': 'iter', 'dict': 'dict'}
BUILTIN_FAIL = {'setattr', 'getattr', 'exec', 'eval', 'globals', 'locals', 'vars', 'delattr', '__import__', 'compile',
                'super', 'map', 'filter', 'open', 'input', 'memoryview', 'bytearray', 'hasattr', 'object'}

# methods (on values that are not instances of a library class)
M_MUT_STORE = {'append', 'extend', 'insert', 'add', 'update', 'setdefault', 'put', 'appendleft'}   # write receiver, keep args
M_MUT = {'fill', 'sort', 'remove', 'pop', 'clear', 'reverse', 'discard', 'difference_update', 'intersection_update',
         'symmetric_difference_update', 'resize', 'setflags', 'itemset', 'popitem', 'partition', 'byteswap',
         'popleft', '__setitem__', '__delitem__',
         # numpy.random.Generator methods advance the generator state
         'normal', 'shuffle', 'standard_normal', 'integers', 'random', 'uniform', 'choice', 'permutation'}
M_MUT_RETURNS_ELEM = {'pop', 'popitem', 'setdefault', 'popleft'}
M_VIEW = {'reshape', 'transpose', 'view', 'ravel', 'squeeze', 'swapaxes', 'diagonal', '__getitem__',
          'conj', 'conjugate'}      # ndarray.conj() returns the array ITSELF for real dtypes
M_FRESH = {'flatten', 'toarray', 'todense', 'tolist', 'dot', 'cumsum', 'round', 'nonzero', 'argsort', 'tocsr', 'tocsc',
           'multiply', 'tobytes'}
M_SCALAR = {'index', 'count', 'empty', 'qsize', 'sum', 'prod', 'mean', 'min', 'max', 'any', 'all', 'item', 'trace',
            'join', 'format', 'startswith', 'endswith', 'lower', 'upper', 'strip', 'split', 'is_integer', 'bit_length'}
M_ELEM = {'get', 'values', 'items', 'keys'}           # pure, result made of elements of the receiver
ATTR_VIEW = {'T', 'real', 'imag', 'flat', 'H'}
ATTR_SCALAR = {'shape', 'ndim', 'dtype', 'size', 'itemsize', 'nbytes', 'eps', 'strides'}
ALL_M = M_MUT_STORE | M_MUT | M_VIEW | M_FRESH | M_SCALAR | M_ELEM | {'copy', 'astype'}

BUILTIN_KINDS = {'list', 'dict', 'set', 'array', 'iter', 'queue'}

G = ('G',)


def is_alloc(l):
    return l[0] == 'A'


# ------------------------------------------------------------------------------------------------------------------
# abstract values
# ------------------------------------------------------------------------------------------------------------------
class V:
    __slots__ = ('locs', 'tup', 'const', 'length', 'fn', 'es', 'cls', 'cf')

    def __init__(self, locs=frozenset(), tup=None, const=None, length=None, fn=None, es=False, cls=None, cf=False):
        self.locs = frozenset(locs)
        self.tup = tup          # tuple of V (transparent immutable tuple) or None
        self.const = const      # ('c', python constant) | ('range', lo, hi) | None
        self.length = length
        self.fn = fn            # callable reference
        self.es = es            # elements are immutable scalars (trusted annotation)
        self.cls = cls          # frozenset of library class names the value is an instance of, or None
        self.cf = cf            # read directly from a field that some library class initialises with a list/dict/set

    def flat(self):
        if self.tup is None:
            return self.locs
        s = set(self.locs)
        for e in self.tup:
            s |= e.flat()
        return frozenset(s)

    def key(self):
        return (self.locs, None if self.tup is None else tuple(e.key() for e in self.tup), self.const, self.length,
                self.fn if self.fn is None or self.fn[0] != 'lambda' else ('lambda', id(self.fn[1])), self.es, self.cls, self.cf)

    def plain(self):
        """forget tuple structure / constants (used when a value is stored or passed somewhere imprecise)"""
        return V(self.flat(), es=self.es, cls=self.cls)


EMPTY = V()


def vjoin(a, b):
    if a is None:
        return b
    if b is None:
        return a
    if a is b:
        return a
    tup = None
    if a.tup is not None and b.tup is not None and len(a.tup) == len(b.tup):
        tup = tuple(vjoin(x, y) for x, y in zip(a.tup, b.tup))
        locs = a.locs | b.locs
    else:
        locs = a.flat() | b.flat()
    fn = a.fn if a.fn == b.fn else None
    if a.fn != b.fn and (a.fn is not None and a.fn[0] not in ('cparam',) or b.fn is not None and b.fn[0] not in ('cparam',)):
        fn = ('multi',)     # two different callables: calling it is an unknown call
    return V(locs, tup, a.const if a.const == b.const else None, a.length if a.length == b.length else None,
             fn, a.es and b.es if (a.locs or a.tup) and (b.locs or b.tup) else (a.es or b.es),
             (a.cls | b.cls) if a.cls is not None and b.cls is not None else None, a.cf or b.cf)


def env_join(e1, e2):
    if e1 is None:
        return e2
    if e2 is None:
        return e1
    out = dict(e1)
    for k, v in e2.items():
        out[k] = vjoin(out[k], v) if k in out else v
    return out


def env_key(e):
    if e is None:
        return None
    return tuple(sorted((k, v.key()) for k, v in e.items()))


# ------------------------------------------------------------------------------------------------------------------
# program model: modules, classes, functions (parsed, never imported)
# ------------------------------------------------------------------------------------------------------------------
class Func:
    def __init__(self, qual, module, cls, node, kind, file):
        self.qual, self.module, self.cls, self.node, self.kind, self.file = qual, module, cls, node, kind, file
        a = node.args
        self.special = bool(a.vararg or a.kwarg or a.kwonlyargs or a.posonlyargs)
        self.params = [x.arg for x in a.args]
        self.ann = {x.arg: x.annotation for x in a.args}
        nd = len(a.defaults)
        self.defaults = dict(zip(self.params[len(self.params) - nd:], a.defaults))


class Program:
    def __init__(self, root):
        self.root = root
        self.modules = {}      # module name -> dict(names=..., file=..., tree=...)
        self.funcs = {}        # qual -> Func
        self.classes = {}      # class qual -> dict(methods={name: qual}, props=set, enum=bool, attrs={name: 'G'|'S'}, bases)
        self.methods_by_name = {}
        self.props_by_name = {}
        self.errors = []
        self.container_fields = set()   # names X with `self.X = <list/dict/set expression>` in some method of some class
        pkg = os.path.join(root, 'pytenet')
        for fn in sorted(os.listdir(pkg)):
            if fn.endswith('.py'):
                self.load(os.path.join(pkg, fn), fn[:-3])
        for m in self.modules.values():
            self.resolve_imports(m)
        self.link_bases()

    def link_bases(self):
        """single / multiple inheritance between classes of the library: methods, properties and class attributes that a class
        does not define itself are looked up in its bases (depth first, left to right, first hit wins -- equal to Python's MRO
        for tree-shaped hierarchies; diamonds are rejected).  A base that is not a class of the library makes the program
        unanalysable (fail closed), except the enum bases."""
        lin = {}

        def linear(cq, stack=()):
            if cq in lin:
                return lin[cq]
            info = self.classes[cq]
            out = []
            if cq in stack:
                self.errors.append('class %s: cyclic inheritance' % cq)
                return out
            for b in ([] if info['enum'] else info['bases']):
                mod = self.modules[info['module']]
                r = mod['names'].get(b)
                if b == 'object':
                    continue
                if r is None or r[0] != 'class' or r[1] not in self.classes:
                    self.errors.append('%s: class %s has base class %s, which is not a class of the library (inheritance from '
                                       'external classes is not modelled)' % (mod['file'], info['name'], b))
                    continue
                for x in [r[1]] + linear(r[1], stack + (cq,)):
                    if x in out:
                        self.errors.append('class %s: base class %s is reached twice (diamond inheritance is not modelled)' % (cq, x))
                    else:
                        out.append(x)
            lin[cq] = out
            return out
        for cq in list(self.classes):
            info = self.classes[cq]
            info['mro'] = linear(cq)
        for cq, info in self.classes.items():
            for b in info['mro']:
                bi = self.classes[b]
                for m, q in bi['own_methods'].items():
                    info['methods'].setdefault(m, q)
                for a, k in bi['own_attrs'].items():
                    info['attrs'].setdefault(a, k)
                info['props'] |= {m for m in bi['own_props'] if info['methods'].get(m) == bi['own_methods'].get(m)}

    def load(self, path, modname):
        src = open(path, encoding='utf-8').read()
        try:
            import warnings
            with warnings.catch_warnings():
                warnings.simplefilter('ignore')
                tree = ast.parse(src, filename=path)
        except SyntaxError as e:
            self.errors.append('%s: syntax error %s' % (path, e))
            return
        mod = {'name': modname, 'file': os.path.basename(path), 'tree': tree, 'names': {}, 'src': src.split('\n'),
               'imports': [], 'star': []}
        self.modules[modname] = mod
        for st in tree.body:
            if isinstance(st, ast.FunctionDef):
                q = modname + '.' + st.name
                self.funcs[q] = Func(q, modname, None, st, 'func', mod['file'])
                mod['names'][st.name] = ('func', q)
            elif isinstance(st, ast.ClassDef):
                self.load_class(st, modname, mod)
            elif isinstance(st, (ast.Import, ast.ImportFrom)):
                mod['imports'].append(st)
            elif isinstance(st, (ast.Assign, ast.AnnAssign, ast.AugAssign)):
                tg = st.targets if isinstance(st, ast.Assign) else [st.target]
                for t in tg:
                    for n in ast.walk(t):
                        if isinstance(n, ast.Name):
                            mod['names'][n.id] = ('global', n.id)
            elif isinstance(st, ast.Expr) and isinstance(st.value, ast.Constant):
                pass
            else:
                self.errors.append('%s:%d: unsupported module-level statement %s' % (mod['file'], st.lineno, type(st).__name__))

    def load_class(self, st, modname, mod):
        cq = modname + '.' + st.name
        bases = [ast.unparse(b) for b in st.bases]
        info = {'methods': {}, 'props': set(), 'enum': any(b.split('.')[-1] in ('IntEnum', 'Enum', 'IntFlag') for b in bases),
                'attrs': {}, 'bases': bases, 'name': st.name, 'module': modname}
        self.classes[cq] = info
        mod['names'][st.name] = ('class', cq)
        for b in st.body:
            if isinstance(b, ast.FunctionDef):
                kind = 'method'
                for d in b.decorator_list:
                    dn = ast.unparse(d)
                    if dn == 'classmethod':
                        kind = 'classmethod'
                    elif dn == 'staticmethod':
                        kind = 'static'
                    elif dn == 'property':
                        kind = 'property'
                    else:
                        kind = 'unsupported-decorator'
                q = cq + '.' + b.name
                for n in ast.walk(b):
                    if isinstance(n, ast.Assign) and any(isinstance(t, ast.Attribute) for t in n.targets) and self._containerish(n.value):
                        for t in n.targets:
                            if isinstance(t, ast.Attribute):
                                self.container_fields.add(t.attr)
                self.funcs[q] = Func(q, modname, cq, b, kind, mod['file'])
                info['methods'][b.name] = q
                self.methods_by_name.setdefault(b.name, []).append(q)
                if kind == 'property':
                    info['props'].add(b.name)
                    self.props_by_name.setdefault(b.name, []).append(q)
            elif isinstance(b, (ast.Assign, ast.AnnAssign)):
                tg = b.targets if isinstance(b, ast.Assign) else [b.target]
                for t in tg:
                    if isinstance(t, ast.Name):
                        val = b.value
                        scalar = info['enum'] or isinstance(val, ast.Constant) or \
                            (isinstance(val, ast.UnaryOp) and isinstance(val.operand, ast.Constant))
                        info['attrs'][t.id] = 'S' if scalar else 'G'
            elif isinstance(b, ast.Expr) and isinstance(b.value, ast.Constant):
                pass
            elif isinstance(b, ast.Pass):
                pass
            else:
                self.errors.append('%s:%d: unsupported class-level statement %s' % (mod['file'], b.lineno, type(b).__name__))
        info['own_methods'] = dict(info['methods'])
        info['own_attrs'] = dict(info['attrs'])
        info['own_props'] = set(info['props'])

    @staticmethod
    def _containerish(v):
        if isinstance(v, (ast.List, ast.ListComp, ast.Dict, ast.DictComp, ast.Set, ast.SetComp)):
            return True
        if isinstance(v, ast.Call) and isinstance(v.func, ast.Name) and v.func.id in ('list', 'dict', 'set', 'sorted'):
            return True
        if isinstance(v, ast.BinOp):
            return Program._containerish(v.left) or Program._containerish(v.right)
        if isinstance(v, ast.Tuple):
            return any(Program._containerish(x) for x in v.elts)
        return False

    def resolve_imports(self, mod):
        for st in mod['imports']:
            if isinstance(st, ast.Import):
                for a in st.names:
                    mod['names'][a.asname or a.name.split('.')[0]] = ('module', a.name if a.asname else a.name.split('.')[0])
            else:
                if st.level >= 1:
                    src = self.modules.get(st.module or '')
                    for a in st.names:
                        if a.name == '*':
                            if src is None:
                                self.errors.append('%s:%d: star import from unknown module' % (mod['file'], st.lineno))
                            else:       # relative star import: every top-level name of that module
                                for k, v in src['names'].items():
                                    mod['names'].setdefault(k, v)
                        elif src is not None and a.name in src['names']:
                            mod['names'][a.asname or a.name] = src['names'][a.name]
                        else:
                            mod['names'][a.asname or a.name] = ('unresolved', '%s.%s' % (st.module, a.name))
                else:
                    for a in st.names:
                        mod['names'][a.asname or a.name] = ('ext', '%s.%s' % (st.module, a.name))

    def where(self, f, node):
        return '%s:%d' % (f.file, getattr(node, 'lineno', 0))

    def srcline(self, f, node):
        try:
            return self.modules[f.module]['src'][node.lineno - 1].strip()
        except Exception:
            return ''


def _imm(ann):
    if isinstance(ann, ast.Name) and ann.id in SCALAR_TYPES:
        return True
    if isinstance(ann, ast.Constant) and (ann.value is Ellipsis or (isinstance(ann.value, str) and ann.value in SCALAR_TYPES)):
        return True
    if isinstance(ann, ast.Subscript) and isinstance(ann.value, ast.Name) and ann.value.id in ('tuple', 'Tuple'):
        elts = ann.slice.elts if isinstance(ann.slice, ast.Tuple) else [ann.slice]
        return all(_imm(e) for e in elts)
    return False


def scalar_ann(ann):     # 'S' immutable scalar / tuple of scalars; 'E' container whose ELEMENTS are immutable
    if ann is None:
        return None
    if _imm(ann):
        return 'S'
    if isinstance(ann, ast.Subscript) and isinstance(ann.value, ast.Name) and ann.value.id in SEQ_TYPES:
        elts = ann.slice.elts if isinstance(ann.slice, ast.Tuple) else [ann.slice]
        return 'E' if elts and all(_imm(e) for e in elts) else None
    return None


# ------------------------------------------------------------------------------------------------------------------
# summaries
# ------------------------------------------------------------------------------------------------------------------
class RetV:
    __slots__ = ('toks', 'fresh', 'cont', 'tup', 'cls', 'akind', 'es', 'length', 'wit')

    def __init__(self, toks=frozenset(), fresh=False, cont=frozenset(), tup=None, cls=None, akind=None, es=False,
                 length=None, wit=None):
        self.toks, self.fresh, self.cont, self.tup = frozenset(toks), fresh, frozenset(cont), tup
        self.cls, self.akind, self.es, self.length, self.wit = cls, akind, es, length, wit or {}

    def key(self):
        return (self.toks, self.fresh, self.cont, None if self.tup is None else tuple(t.key() for t in self.tup),
                self.cls, self.akind, self.es, self.length)

    def all_tokens(self):
        s = set(self.toks) | set(self.cont)
        for t in self.tup or ():
            s |= t.all_tokens()
        return s

    def all_cont(self):
        s = set(self.cont)
        for t in self.tup or ():
            s |= t.all_cont()
        return s


class Summ:
    def __init__(self):
        self.mutated = {}      # param -> witness
        self.stores = {}       # param -> {token: witness}
        self.ret = RetV()
        self.cbargs = {}       # callable param -> set of tokens passed to it
        self.cbmut = {}        # callable param -> witness: its result is written
        self.cbcalled = set()
        self.gmut = None
        self.unknown = []

    def key(self):
        return (tuple(sorted(self.mutated)), tuple(sorted((p, tuple(sorted(map(str, d)))) for p, d in self.stores.items())),
                self.ret.key(), tuple(sorted((p, tuple(sorted(map(str, s)))) for p, s in self.cbargs.items())),
                tuple(sorted(self.cbmut)), tuple(sorted(self.cbcalled)), self.gmut is not None, len(self.unknown) > 0)


# ------------------------------------------------------------------------------------------------------------------
# analysis of one function (in one context)
# ------------------------------------------------------------------------------------------------------------------
class FA:
    def __init__(self, an, func, ctx):
        self.an, self.f, self.ctx = an, func, dict(ctx)
        self.P = an.prog
        self.mod = self.P.modules[func.module]
        self.contents, self.cwit, self.akind = {}, {}, {}
        self.mut, self.cbargs, self.cbmut, self.cbcalled, self.gmut, self.unk = {}, {}, {}, set(), None, []
        self.rets = None
        self.defs = {}
        self.loops = []
        self.depth = 0
        self.deps = set()
        self.ctx_invalid = False

    # ---- helpers
    def where(self, node):
        return '%s:%d' % (self.f.file, getattr(node, 'lineno', 0))

    def text(self, node):
        try:
            s = ast.unparse(node)
        except Exception:
            s = type(node).__name__
        s = ' '.join(s.split())
        return s if len(s) <= 90 else s[:87] + '...'

    def unknown(self, reason, node):
        msg = '%s at %s' % (reason, self.where(node))
        if msg not in self.unk:
            self.unk.append(msg)

    def top(self):
        return V([('P', p) for p in self.f.params] + [G])

    def alloc(self, node, tag, kind):
        l = ('A', (getattr(node, 'lineno', 0), getattr(node, 'col_offset', 0), tag))
        if kind is not None:
            self.akind[l] = kind if self.akind.get(l, kind) == kind else 'mixed'
        return l

    def reach(self, locs):
        seen = set()
        todo = list(locs)
        while todo:
            l = todo.pop()
            if l in seen:
                continue
            seen.add(l)
            todo.extend(self.contents.get(l, ()))
        return frozenset(seen)

    def sub(self, v, sliced=False):
        """value of an element / field / iteration variable of v"""
        if v.es:
            return V(v.flat(), es=True) if sliced else EMPTY
        s = set()
        for l in v.flat():
            s.add(l)
            s |= self.contents.get(l, set())
        return V(s)

    def state_size(self):
        return (sum(len(x) for x in self.contents.values()), len(self.mut), len(self.unk), len(self.cbmut),
                sum(len(x) for x in self.cbargs.values()), len(self.cbcalled), self.gmut is not None)

    def chain(self, node, p):
        """alias chain: assignments through which the root name of `node` came to refer to parameter p"""
        out, seen = [], set()
        names = [n.id for n in ast.walk(node) if isinstance(n, ast.Name)]
        for _ in range(4):
            nxt = []
            for nm in names:
                if nm in seen or nm == p:
                    continue
                seen.add(nm)
                for (ln, txt, ps, rhs_names) in self.defs.get(nm, []):
                    if p in ps:
                        out.append('%s at %s:%d' % (txt, self.f.file, ln))
                        nxt += rhs_names
            names = nxt
            if not names:
                break
        return out[:5]

    def mutate(self, locs, node, desc, via=None):
        for l in locs:
            if l[0] == 'P':
                p = l[1]
                if p in self.ctx:
                    self.ctx_invalid = True
                if p not in self.mut:
                    w = '%s at %s' % (desc, self.where(node))
                    ch = self.chain(node, p)
                    if ch:
                        w += ' [alias: ' + '; '.join(ch) + ']'
                    if via:
                        w += ' -> ' + via
                    self.mut[p] = w
            elif l[0] == 'R':
                if l[1] not in self.cbmut:
                    self.cbmut[l[1]] = '%s at %s' % (desc, self.where(node)) + (' -> ' + via if via else '')
            elif l[0] == 'G':
                if self.gmut is None:
                    self.gmut = '%s at %s' % (desc, self.where(node)) + (' -> ' + via if via else '')

    def store(self, targets, v, node, via=None):
        """objects of value v become reachable from every location in `targets`"""
        if v.fn is not None and v.fn[0] == 'lambda':
            self.unknown('closure stored in a data structure', node)
        vals = v.flat()
        if not vals:
            return
        for t in targets:
            c = self.contents.setdefault(t, set())
            for m in vals:
                if m != t and m not in c:
                    c.add(m)
                    self.cwit[(t, m)] = '%s at %s' % (self.text(node), self.where(node)) + (' -> ' + via if via else '')

    def tok(self, l):
        return 'FRESH' if l[0] == 'A' else l

    def truth(self, v):
        if v.const is not None and v.const[0] == 'c':
            try:
                return bool(v.const[1])
            except Exception:
                return None
        return None

    # ---- expressions
    def ev(self, e, env):
        m = getattr(self, 'ev_' + type(e).__name__, None)
        if m is None:
            self.unknown('unsupported expression %s' % type(e).__name__, e)
            return self.top()
        return m(e, env)

    def ev_Constant(self, e, env):
        if isinstance(e.value, (int, bool, str, type(None), float)) and not isinstance(e.value, complex):
            return V(const=('c', e.value), length=len(e.value) if isinstance(e.value, str) else None)
        return EMPTY

    def ev_JoinedStr(self, e, env):
        for x in e.values:
            if isinstance(x, ast.FormattedValue):
                self.ev(x.value, env)
        return EMPTY

    def ev_Name(self, e, env):
        if e.id in env:
            return env[e.id]
        r = self.mod['names'].get(e.id)
        if r is not None:
            k = r[0]
            if k in ('func', 'class'):
                return V(fn=(k, r[1]))
            if k in ('module', 'ext'):
                return V(fn=('ext', r[1]))
            if k == 'global':
                return V([G])
            self.unknown('unresolved import %s' % r[1], e)
            return self.top()
        if e.id in BUILTIN_SCALAR or e.id in BUILTIN_ELEM or e.id in BUILTIN_SHALLOW or e.id in ('range', 'sum') or e.id in BUILTIN_FAIL:
            return V(fn=('builtin', e.id))
        if e.id.endswith(('Error', 'Exception', 'Warning')) or e.id in ('NotImplemented', 'Ellipsis', 'StopIteration', 'KeyboardInterrupt'):
            return V(fn=('builtin', 'exc'))
        self.unknown('unresolved name %s' % e.id, e)
        return self.top()

    def ev_Lambda(self, e, env):
        a = e.args
        if a.vararg or a.kwarg or a.kwonlyargs or a.posonlyargs or a.defaults:
            self.unknown('lambda with special parameters', e)
        return V(fn=('lambda', e, dict(env)))

    def ev_Attribute(self, e, env):
        v = self.ev(e.value, env)
        a = e.attr
        if v.fn is not None and not v.locs:
            if v.fn[0] == 'ext':
                return V(fn=('ext', v.fn[1] + '.' + a))
            if v.fn[0] == 'class':
                ci = self.P.classes[v.fn[1]]
                if a in ci['methods']:
                    return V(fn=('func', ci['methods'][a]))
                if ci['enum'] or ci['attrs'].get(a) == 'S':
                    return EMPTY
                if a in ci['attrs']:
                    return V([G])
                self.unknown('unknown class attribute %s.%s' % (v.fn[1], a), e)
                return V([G])
            if v.fn[0] == 'lclass':
                return EMPTY
            if v.fn[0] == 'builtin':
                return EMPTY
        if a in ATTR_SCALAR:
            return EMPTY
        if a in ATTR_VIEW:
            return V(v.flat(), es=v.es)
        res = None
        cands = self.P.props_by_name.get(a, [])
        allprops = False
        if v.cls is not None:
            cands, allprops = [], True
            for c in v.cls:
                ci = self.P.classes.get(c)
                if ci is not None and a in ci['props'] and ci['methods'].get(a) is not None:    # own or inherited property
                    if ci['methods'][a] not in cands:
                        cands.append(ci['methods'][a])
                else:
                    allprops = False
        for q in cands:
            res = vjoin(res, self.call_func(q, [v], {}, e, env))
        if v.cls is not None and cands and allprops:
            return res if res is not None else EMPTY
        g = self.sub(v)
        if a in self.P.container_fields:
            g = V(g.locs, cf=True)
        return vjoin(res, g)

    def _is_slice(self, s):
        if isinstance(s, ast.Slice):
            return True
        if isinstance(s, ast.Tuple):
            return any(self._is_slice(x) for x in s.elts)
        if isinstance(s, ast.Constant) and s.value is Ellipsis:
            return True
        return False

    def ev_Slice(self, e, env):
        for x in (e.lower, e.upper, e.step):
            if x is not None:
                self.ev(x, env)
        return EMPTY

    def ev_Subscript(self, e, env):
        v = self.ev(e.value, env)
        i = self.ev(e.slice, env)
        if v.tup is not None and i.const is not None and i.const[0] == 'c' and isinstance(i.const[1], int) and not isinstance(i.const[1], bool):
            k = i.const[1]
            if -len(v.tup) <= k < len(v.tup):
                return v.tup[k]
        if v.fn is not None and not v.locs and v.fn[0] in ('ext', 'class', 'builtin'):
            return EMPTY          # type expressions such as tuple[int, int]
        return self.sub(v, self._is_slice(e.slice))

    def ev_Starred(self, e, env):
        self.unknown('starred expression', e)
        return self.top()

    def ev_Tuple(self, e, env):
        if any(isinstance(x, ast.Starred) for x in e.elts):
            self.unknown('starred element', e)
        es = tuple(self.ev(x, env) for x in e.elts)
        s = set()
        for x in es:
            s |= x.flat()
        return V(s, tup=es, length=len(es))

    def _display(self, e, elts, kind, env):
        if any(isinstance(x, ast.Starred) for x in elts):
            self.unknown('starred element', e)
        a = self.alloc(e, kind, kind)
        for x in elts:
            if x is not None:
                self.store([a], self.ev(x, env), e)
        return a

    def ev_List(self, e, env):
        return V([self._display(e, e.elts, 'list', env)], length=len(e.elts))

    def ev_Set(self, e, env):
        return V([self._display(e, e.elts, 'set', env)])

    def ev_Dict(self, e, env):
        for k in e.keys:
            if k is None:
                self.unknown('dict unpacking', e)
            else:
                self.ev(k, env)          # keys are hashable: treated as immutable
        return V([self._display(e, e.values, 'dict', env)])

    def _comp(self, e, elt_nodes, kind, env):
        env2 = dict(env)
        for g in e.generators:
            if g.is_async:
                self.unknown('async comprehension', e)
            self.bind_iter(g.target, g.iter, env2)
            for c in g.ifs:
                self.ev(c, env2)
        a = self.alloc(e, kind, kind)
        for k in range(2):     # twice: contents are weak, a second pass sees what the first stored
            for x in elt_nodes:
                self.store([a], self.ev(x, env2), e)
        return V([a])

    def ev_ListComp(self, e, env):
        return self._comp(e, [e.elt], 'list', env)

    def ev_SetComp(self, e, env):
        return self._comp(e, [e.elt], 'set', env)

    def ev_GeneratorExp(self, e, env):
        return self._comp(e, [e.elt], 'iter', env)

    def ev_DictComp(self, e, env):
        return self._comp(e, [e.value, e.key], 'dict', env)

    def ev_IfExp(self, e, env):
        t = self.truth(self.ev(e.test, env))
        if t is True:
            return self.ev(e.body, env)
        if t is False:
            return self.ev(e.orelse, env)
        return vjoin(self.ev(e.body, env), self.ev(e.orelse, env))

    def ev_BoolOp(self, e, env):
        r = None
        for x in e.values:
            r = vjoin(r, self.ev(x, env))
        return V(r.flat(), es=r.es, cls=r.cls)

    def ev_UnaryOp(self, e, env):
        v = self.ev(e.operand, env)
        if isinstance(e.op, ast.Not):
            t = self.truth(v)
            return V(const=('c', not t)) if t is not None else EMPTY
        if v.const is not None and v.const[0] == 'c' and isinstance(v.const[1], (int, float)) and isinstance(e.op, ast.USub):
            return V(const=('c', -v.const[1]))
        self.dunder(['__neg__', '__pos__', '__invert__'], [v], e, env, True)
        if not v.flat():
            return EMPTY
        return V([self.alloc(e, 'unary', 'array')])     # -a, +a, ~a allocate (numeric policy)

    _FOLD = {ast.Add: lambda a, b: a + b, ast.Sub: lambda a, b: a - b, ast.Mult: lambda a, b: a * b,
             ast.FloorDiv: lambda a, b: a // b if b else None, ast.Mod: lambda a, b: a % b if b else None}
    _DUNDER = {ast.Add: 'add', ast.Sub: 'sub', ast.Mult: 'mul', ast.MatMult: 'matmul', ast.Div: 'truediv',
               ast.FloorDiv: 'floordiv', ast.Mod: 'mod', ast.Pow: 'pow', ast.BitAnd: 'and', ast.BitOr: 'or',
               ast.BitXor: 'xor', ast.LShift: 'lshift', ast.RShift: 'rshift'}

    def dunder(self, names, args, node, env, typed_only=False):
        """operators may dispatch to library classes.  Arithmetic operators: only when the left operand is known (by
        annotation or construction) to be an instance of a library class -- operands of unknown type are numeric
        (policy); comparisons / membership tests: the summaries of every library method of that name are applied"""
        res = None
        if typed_only and args[0].cls is None:
            return None
        for nm in names:
            for q in self.P.methods_by_name.get(nm, []):
                f = self.P.funcs[q]
                if args[0].cls is not None and f.cls not in args[0].cls and typed_only:
                    continue
                res = vjoin(res, self.call_func(q, [a.plain() for a in args[:len(f.params)]], {}, node, env))
        return res

    def is_listy(self, v):
        fl = v.flat()
        return v.tup is not None or v.cf or (bool(fl) and all(is_alloc(l) and self.akind.get(l) in ('list',) for l in fl))

    def ev_BinOp(self, e, env):
        l = self.ev(e.left, env)
        r = self.ev(e.right, env)
        op = type(e.op)
        if l.const is not None and r.const is not None and l.const[0] == 'c' and r.const[0] == 'c' and op in self._FOLD \
                and type(l.const[1]) is int and type(r.const[1]) is int:
            x = self._FOLD[op](l.const[1], r.const[1])
            if x is not None:
                return V(const=('c', x))
        nm = self._DUNDER.get(op)
        res = None
        if nm is not None and (l.flat() or r.flat()):
            res = self.dunder(['__%s__' % nm], [l, r], e, env, True)
            r2 = self.dunder(['__r%s__' % nm], [r, l], e, env, True)
            res = vjoin(res, r2)
        if not l.flat() and not r.flat():
            return EMPTY
        if op in (ast.Add, ast.Mult) and (self.is_listy(l) or self.is_listy(r)):
            a = self.alloc(e, 'binop', 'list')          # list concatenation / repetition: shallow
            for x in (l, r):
                if x.flat():
                    self.store([a], self.sub(x) if not x.tup else x, e)
            out = V([a])
        else:
            out = V([self.alloc(e, 'binop', 'array')])   # numeric policy: arithmetic allocates its result
        return vjoin(res, out) if res is not None else out

    _CMP = {ast.Eq: lambda a, b: a == b, ast.NotEq: lambda a, b: a != b, ast.Lt: lambda a, b: a < b,
            ast.LtE: lambda a, b: a <= b, ast.Gt: lambda a, b: a > b, ast.GtE: lambda a, b: a >= b}

    def ev_Compare(self, e, env):
        vals = [self.ev(e.left, env)] + [self.ev(c, env) for c in e.comparators]
        if any(v.flat() for v in vals):
            names = set()
            for o in e.ops:
                if isinstance(o, (ast.Eq, ast.NotEq, ast.In, ast.NotIn)):
                    names |= {'__eq__', '__ne__', '__hash__', '__contains__'}
                elif not isinstance(o, (ast.Is, ast.IsNot)):
                    names |= {'__lt__', '__le__', '__gt__', '__ge__'}
            allv = V(self.reach(frozenset().union(*[v.flat() for v in vals])))
            if allv.locs:
                self.dunder(sorted(names), [allv, allv], e, env)
        if len(e.ops) == 1 and type(e.ops[0]) in self._CMP:
            a, b = vals
            if a.const is not None and b.const is not None and a.const[0] == 'c' and b.const[0] == 'c':
                try:
                    return V(const=('c', bool(self._CMP[type(e.ops[0])](a.const[1], b.const[1]))))
                except Exception:
                    pass
        return EMPTY

    # ---- calls
    def ev_Call(self, e, env):
        if any(isinstance(a, ast.Starred) for a in e.args) or any(k.arg is None for k in e.keywords):
            self.unknown('star-arguments in a call', e)
            for a in e.args:
                self.ev(a.value if isinstance(a, ast.Starred) else a, env)
            return self.top()
        f = e.func
        if (isinstance(f, ast.Attribute) and isinstance(f.value, ast.Call) and isinstance(f.value.func, ast.Name)
                and f.value.func.id == 'super' and not f.value.args and not f.value.keywords
                and self.f.cls is not None and self.f.kind == 'method' and self.f.params):
            # super().m(...) inside a method: the next definition of m along the bases of the enclosing class, bound to self
            q = None
            for b in self.P.classes[self.f.cls].get('mro', []):
                q = self.P.classes[b]['own_methods'].get(f.attr)
                if q is not None:
                    break
            args = [self.ev(a, env) for a in e.args]
            kw = {k.arg: self.ev(k.value, env) for k in e.keywords}
            if q is None:
                if f.attr == '__init__' and not self.P.classes[self.f.cls].get('mro'):
                    return EMPTY                      # object.__init__
                self.unknown('super().%s not found in the library bases of %s' % (f.attr, self.f.cls), e)
                return self.top()
            me = ast.copy_location(ast.Name(id=self.f.params[0], ctx=ast.Load()), e)
            return self.call_func(q, [self.ev(me, env)] + args, kw, e, env)
        if isinstance(f, ast.Attribute):
            rv = self.ev(f.value, env)
            args = [self.ev(a, env) for a in e.args]
            kw = {k.arg: self.ev(k.value, env) for k in e.keywords}
            if rv.fn is not None and not rv.locs:
                if rv.fn[0] == 'ext':
                    return self.call_ext(rv.fn[1] + '.' + f.attr, args, kw, e, env)
                if rv.fn[0] == 'class':
                    ci = self.P.classes[rv.fn[1]]
                    q = ci['methods'].get(f.attr)
                    if q is None:
                        self.unknown('unknown class method %s.%s' % (rv.fn[1], f.attr), e)
                        return self.top()
                    return self.call_func(q, args, kw, e, env)
            return self.call_method(rv, f.attr, args, kw, e, env)
        fv = self.ev(f, env)
        args = [self.ev(a, env) for a in e.args]
        kw = {k.arg: self.ev(k.value, env) for k in e.keywords}
        return self.call_value(fv, args, kw, e, env)

    def call_value(self, fv, args, kw, e, env):
        fn = fv.fn
        if fn is not None:
            k = fn[0]
            if k == 'builtin':
                return self.call_builtin(fn[1], args, kw, e, env)
            if k == 'ext':
                return self.call_ext(fn[1], args, kw, e, env)
            if k == 'func':
                return self.call_func(fn[1], args, kw, e, env)
            if k == 'class':
                return self.construct(fn[1], args, kw, e, env)
            if k == 'lambda':
                if kw:
                    self.unknown('keyword arguments to a local closure', e)
                return self.inline(fn, args, e, env)
            if k == 'cparam' and fv.locs == frozenset([('P', fn[1])]):
                g = fn[1]
                self.cbcalled.add(g)
                s = self.cbargs.setdefault(g, set())
                for a in list(args) + list(kw.values()):
                    if a.fn is not None and a.fn[0] == 'lambda':
                        self.unknown('closure passed to a function-valued parameter', e)
                    for l in self.reach(a.flat()):
                        s.add(self.tok(l))
                return V([('R', g)])
        if fv.cls is not None:
            return self.call_method(fv, '__call__', args, kw, e, env)
        return self.call_unknown(fv, args, kw, e, 'call of a callable of unknown origin')

    def call_unknown(self, fv, args, kw, e, why):
        """a callable stored in data / of unknown origin: may write its arguments and whatever it can reach itself;
        its result may be any of those objects"""
        s = set(self.reach(fv.flat()))
        for a in list(args) + list(kw.values()):
            if a.fn is not None and a.fn[0] == 'lambda':
                self.unknown('closure passed to an unknown callable', e)
            s |= self.reach(a.flat())
        self.mutate(s, e, '%s `%s` (may write its arguments and captured state)' % (why, self.text(e)))
        a = self.alloc(e, 'ucall', None)
        self.store([a], V(s), e)
        return V(s | {a})

    PURE_STDLIB = ('itertools.', 'math.', 'cmath.', 'fractions.', 'numbers.')

    def default_pure(self, name, kw):
        if any(k in ('out', 'copy', 'casting', 'subok') or k.startswith('overwrite') for k in kw):
            return False
        last = name.rsplit('.', 1)[-1]
        if name.startswith('numpy.'):
            # excluded: generators / global state, ufunc methods that write (at), buffer and iterator tricks, I/O, setters
            if name.startswith(('numpy.random.', 'numpy.lib.', 'numpy.ctypeslib.', 'numpy.testing.', 'numpy.ndarray.')):
                return False
            if last in ('at', 'nditer', 'ndindex', 'frombuffer', 'memmap', 'fromfile', 'load', 'save', 'savez', 'savetxt',
                        'loadtxt', 'genfromtxt', 'require', 'may_share_memory', 'shares_memory', 'vectorize', 'frompyfunc',
                        'apply_along_axis', 'apply_over_axes', 'fromfunction', 'piecewise', 'nan_to_num', 'errstate'):
                return False
            if last.startswith(('set', 'seterr')):
                return False
            return True
        if name.startswith('scipy.'):
            if '.blas' in name or '.lapack' in name or last.startswith(('get_', 'set')):
                return False
            if name.startswith(('scipy.linalg.', 'scipy.sparse.', 'scipy.special.')):
                return True
            return False
        return name.startswith(self.PURE_STDLIB)

    def check_out(self, kw, e):
        if 'out' in kw:
            self.mutate(kw['out'].flat(), e, 'numpy out= argument in `%s`' % self.text(e))

    def call_ext(self, name, args, kw, e, env):
        self.check_out(kw, e)
        if isinstance(e, ast.Call):
            for x in list(e.args) + [k.value for k in e.keywords]:
                if ast.unparse(x) in ('object', "'O'", "'object'", 'np.object_', 'numpy.object_', 'np.dtype(object)'):
                    self.unknown('object dtype requested from %s (arrays of references are not modelled)' % name, e)
        allv = list(args) + list(kw.values())
        for a in allv:
            if a.fn is not None and a.fn[0] == 'lambda':
                self.unknown('closure passed to external function %s' % name, e)
        if name == 'numpy.einsum':
            # string form einsum('ij,jk->ik', a, b): operands follow the string;
            # interleaved form einsum(op0, sub0, op1, sub1, ..., [out_sub]): operands are the even positions
            nops = len(args) - 1 if (args and args[0].const is not None) else len(args) // 2
            if nops >= 2:
                return V([self.alloc(e, 'ext', 'array')])
            return V(frozenset().union(*[a.flat() for a in args]) | {self.alloc(e, 'ext', 'array')})
        if name in EXT_FRESH:
            if name == 'numpy.array' and 'copy' in kw:
                return V(args[0].flat() | {self.alloc(e, 'ext', 'array')}) if args else self.top()
            kind = 'queue' if name == 'queue.Queue' else ('obj' if name == 'copy.deepcopy' else 'array')
            if name == 'numpy.where' and len(args) == 1:
                a = self.alloc(e, 'ext', 'array')
                return V([a], tup=None)
            return V([self.alloc(e, 'ext', kind)], cls=(args[0].cls if name == 'copy.deepcopy' and args else None))
        if name in EXT_SCALAR:
            return EMPTY
        if name in EXT_VIEW:
            if not args:
                return self.top()
            return V(args[0].flat() | {self.alloc(e, 'ext', 'array')}, es=args[0].es)
        if name in EXT_MUTATE:
            k = EXT_MUTATE[name]
            if k < len(args):
                self.mutate(args[k].flat(), e, '%s writes its argument %d in `%s`' % (name, k, self.text(e)))
            return EMPTY
        if name in EXT_SHALLOW:
            if name == 'collections.defaultdict' and args and ((args[0].fn is not None and args[0].fn[0] != 'builtin') or args[0].locs):
                self.unknown('collections.defaultdict with a default factory (called implicitly on lookups)', e)
            a = self.alloc(e, 'ext', EXT_SHALLOW_KIND.get(name, 'iter'))
            for x in allv:
                self.store([a], self.sub(x), e)
            return V([a], cls=(args[0].cls if name == 'copy.copy' and args else None))
        if self.default_pure(name, kw):
            # default for numpy / scipy / pure stdlib functions found in no table: they write none of their arguments
            # (the functions that do are listed in EXT_MUTATE, or take out= / copy= / overwrite_*= keywords, which are
            # excluded here); the result is treated as fresh storage that MAY ALSO be, or contain, any argument (view)
            a = self.alloc(e, 'ext', 'array' if name.startswith(('numpy.', 'scipy.')) else 'iter')
            locs = {a}
            for x in allv:
                locs |= x.flat()
                self.store([a], self.sub(x), e)
            return V(frozenset(locs))
        self.unknown('external function %s is in no table' % name, e)
        return self.top()

    def call_builtin(self, name, args, kw, e, env):
        allv = list(args) + list(kw.values())
        if name == 'exc':
            return EMPTY
        if name in BUILTIN_FAIL:
            self.unknown('builtin %s' % name, e)
            return self.top()
        if name == 'len':
            if args and args[0].length is not None:
                return V(const=('c', args[0].length))
            self.dunder(['__len__'], [args[0]], e, env, True) if args else None
            return EMPTY
        if name == 'range':
            cs = [a.const[1] if a.const is not None and a.const[0] == 'c' and type(a.const[1]) is int else None for a in args]
            if cs and all(c is not None for c in cs) and len(cs) <= 2:
                lo, hi = (0, cs[0]) if len(cs) == 1 else (cs[0], cs[1])
                return V(const=('range', lo, hi))
            return V(const=('range', None, None))
        if name in BUILTIN_SCALAR:
            if name in ('int', 'float', 'bool', 'abs') and args and args[0].const is not None and args[0].const[0] == 'c' \
                    and isinstance(args[0].const[1], (int, float, bool)):
                try:
                    return V(const=('c', {'int': int, 'float': float, 'bool': bool, 'abs': abs}[name](args[0].const[1])))
                except Exception:
                    pass
            if name in ('hash', 'str', 'repr', 'print', 'format', 'abs', 'int', 'float', 'bool', 'complex', 'round'):
                for a in allv:
                    if a.cls is not None:
                        self.dunder(['__hash__', '__str__', '__repr__', '__abs__', '__int__', '__float__', '__bool__'], [a], e, env, True)
            return EMPTY
        if name == 'sum':
            if not any(a.flat() for a in allv):
                return EMPTY
            return V([self.alloc(e, 'sum', 'array')])        # numeric policy: 0 + x0 + x1 + ... allocates
        if name in BUILTIN_ELEM:
            s = set()
            for a in args:
                s |= a.flat() | self.sub(a).flat()
            if 'default' in kw:
                s |= kw['default'].flat()
            if 'key' in kw:
                self.unknown('key= function', e)
            return V(s)
        if name in BUILTIN_SHALLOW:
            if 'key' in kw:
                self.unknown('key= function', e)
            a = self.alloc(e, name, BUILTIN_SHALLOW[name])
            for x in args:
                self.store([a], self.sub(x), e)
            ln = args[0].length if name in ('list', 'tuple', 'sorted') and len(args) == 1 and args[0].tup is not None else None
            return V([a], length=ln)
        self.unknown('builtin %s' % name, e)
        return self.top()

    def construct(self, cq, args, kw, e, env):
        ci = self.P.classes[cq]
        a = self.alloc(e, 'new', 'obj:' + cq)
        selfv = V([a], cls=frozenset([cq]))
        if ci['enum']:
            return EMPTY
        q = ci['methods'].get('__init__')
        if q is not None:
            self.call_func(q, [selfv] + list(args), kw, e, env)
        elif args or kw:
            self.unknown('constructor arguments for class without __init__', e)
        return selfv

    def resolve_method(self, rv, name, e):
        """-> (library candidates, external semantics apply?)"""
        cands = self.P.methods_by_name.get(name, [])
        if rv.cls is not None:
            c2, miss = [], False
            for c in rv.cls:
                q = self.P.classes[c]['methods'].get(name) if c in self.P.classes else None     # own or inherited
                if q is None:
                    miss = True
                elif q not in c2:
                    c2.append(q)
            return c2, miss
        fl = rv.flat()
        if fl and all(is_alloc(l) and self.akind.get(l) in BUILTIN_KINDS for l in fl):
            return [], True
        return cands, name in ALL_M

    def arity_ok(self, f, nargs, kw):
        params = f.params[1:]            # self / cls is bound by the call
        if f.special:
            return True
        if nargs > len(params) or any(k not in params[nargs:] for k in kw):
            return False
        return all(p in f.defaults or p in kw for p in params[nargs:])

    def call_method(self, rv, name, args, kw, e, env):
        cands, ext = self.resolve_method(rv, name, e)
        cands = [q for q in cands if self.arity_ok(self.P.funcs[q], len(args), kw)]
        if not cands and not (ext and name in ALL_M):
            # neither a library method nor a tabulated external method: a callable stored in a field, or a method of an
            # unknown type -- may write the receiver, everything reachable from it, and its arguments
            return self.call_unknown(self.sub(rv), args, kw, e, 'call of unknown method / stored callable')
        res = None
        for q in cands:
            f = self.P.funcs[q]
            if f.kind in ('classmethod', 'static'):
                res = vjoin(res, self.call_func(q, args, kw, e, env))
            else:
                res = vjoin(res, self.call_func(q, [rv] + list(args), kw, e, env))
        if ext and name in ALL_M:
            res = vjoin(res, self.ext_method(rv, name, args, kw, e, env))
        return res if res is not None else EMPTY

    def ext_method(self, rv, name, args, kw, e, env):
        self.check_out(kw, e)
        allv = list(args) + list(kw.values())
        for a in allv:
            if a.fn is not None and a.fn[0] == 'lambda':
                self.unknown('closure passed to method .%s()' % name, e)
        fl = rv.flat()
        if name in M_MUT_STORE:
            self.mutate(fl, e, 'mutating method call `%s`' % self.text(e))
            for x in allv:
                self.store(fl, self.sub(x) if name in ('extend', 'update') else x, e)
            return self.sub(rv) if name in M_MUT_RETURNS_ELEM else EMPTY
        if name in M_MUT:
            self.mutate(fl, e, 'mutating method call `%s`' % self.text(e))
            if name in M_MUT_RETURNS_ELEM:
                return self.sub(rv)
            if name in ('normal', 'standard_normal', 'integers', 'random', 'uniform', 'choice', 'permutation'):
                return V([self.alloc(e, 'm', 'array')])
            return EMPTY
        if name == 'get' and fl and all(is_alloc(l) and self.akind.get(l) == 'queue' for l in fl):
            self.mutate(fl, e, 'Queue.get')
            return self.sub(rv)
        if name in M_VIEW:
            return V(fl | ({self.alloc(e, 'm', 'array')} if fl else set()), es=rv.es)
        if name == 'copy':
            a = self.alloc(e, 'copy', None)
            if rv.cf or (fl and all(is_alloc(l) and self.akind.get(l) in ('list', 'dict', 'set') for l in fl)):
                self.akind[a] = 'list' if rv.cf else self.akind.get(next(iter(fl)))
                self.store([a], self.sub(rv), e)        # shallow copy of a container (local, or a list/dict/set-valued field)
            else:
                self.akind[a] = 'array'                 # policy: ndarray.copy()
            return V([a])
        if name == 'astype':
            if 'copy' in kw:
                return V(fl | {self.alloc(e, 'm', 'array')})
            return V([self.alloc(e, 'm', 'array')])
        if name in M_FRESH:
            return V([self.alloc(e, 'm', 'array')])
        if name in M_SCALAR:
            return EMPTY
        if name in M_ELEM:
            r = self.sub(rv)
            if 'default' in kw:
                r = vjoin(r, kw['default'])
            if name == 'get' and len(args) > 1:
                r = vjoin(r, args[1])
            return V(r.flat())
        self.unknown('method .%s()' % name, e)
        return self.top()

    # ---- calls of library functions: summary application
    def call_func(self, q, args, kw, e, env):
        f = self.P.funcs.get(q)
        if f is None:
            self.unknown('unknown function %s' % q, e)
            return self.top()
        if f.special or f.kind == 'unsupported-decorator':
            self.unknown('callee %s has star-parameters or an unsupported decorator' % q, e)
            return self.top()
        params = f.params[1:] if f.kind == 'classmethod' else f.params
        if len(args) > len(params):
            self.unknown('too many arguments for %s' % q, e)
            return self.top()
        bound = dict(zip(params, args))
        for k, v in kw.items():
            if k not in params or k in bound:
                self.unknown('bad keyword %s for %s' % (k, q), e)
                return self.top()
            bound[k] = v
        ctx = tuple(sorted((p, v.length) for p, v in bound.items() if v.length is not None and (v.flat() or v.tup is not None)))
        S = self.an.summary(q, ctx, self)
        return self.apply(S, f, bound, e, env)

    def apply(self, S, f, bound, e, env):
        name = f.qual
        if S.unknown:
            s = set()
            for v in bound.values():
                s |= self.reach(v.flat())
            s.add(G)
            why = 'callee %s is not analysable (%s)' % (name, S.unknown[0])
            self.mutate(s, e, 'call `%s`' % self.text(e), via=why)
            a = self.alloc(e, 'call', None)
            self.store(list(s | {a}), V(s), e, via=why)
            for v in bound.values():
                if v.fn is not None and v.fn[0] == 'lambda':
                    self.unknown('closure passed to unanalysable callee %s' % name, e)
            return V(s | {a})
        rmap = {}

        def tokmap(t):
            if t == 'FRESH':
                return frozenset([self.alloc(e, 'cbarg', None)])
            if t[0] == 'P':
                v = bound.get(t[1])
                return self.reach(v.flat()) if v is not None else frozenset()
            if t[0] == 'R':
                return rmap.get(t[1], frozenset([G]))
            return frozenset([t])

        # 1. function-valued parameters the callee calls
        for fp in sorted(S.cbcalled):
            av = bound.get(fp)
            passed = set()
            for t in S.cbargs.get(fp, ()):
                passed |= tokmap(t)
            passed = frozenset(passed)
            if av is None:
                rmap[fp] = frozenset()
                continue
            fn = av.fn
            if fn is not None and fn[0] == 'lambda':
                n = len(fn[1].args.args)
                r = self.inline(fn, [V(passed)] * n, e, env)
                rmap[fp] = r.flat()
            elif fn is not None and fn[0] == 'cparam' and av.locs == frozenset([('P', fn[1])]):
                g = fn[1]
                self.cbcalled.add(g)
                self.cbargs.setdefault(g, set()).update(self.tok(l) for l in passed)
                rmap[fp] = frozenset([('R', g)])
            elif fn is not None and fn[0] == 'func':
                fq = self.P.funcs[fn[1]]
                n = len(fq.params) - (1 if fq.kind == 'classmethod' else 0)
                rmap[fp] = self.call_func(fn[1], [V(passed)] * n, {}, e, env).flat()
            elif fn is not None and fn[0] in ('ext', 'builtin'):
                rmap[fp] = passed | {self.alloc(e, 'cbres', None)}
            else:
                s = passed | self.reach(av.flat())
                self.mutate(s, e, 'callable of unknown origin passed as `%s` to %s' % (fp, name))
                rmap[fp] = s
        for fp, av in bound.items():
            if av.fn is not None and av.fn[0] == 'lambda':
                # the callee may call it (handled above) but must not keep it, return it, or hand it to code that is
                # not analysed: its captured variables are invisible there
                if fp in S.mutated or any(('P', fp) in d for d in S.stores.values()) or ('P', fp) in S.ret.all_tokens() \
                        or any(('P', fp) in c for c in S.cbargs.values()):
                    self.unknown('closure escapes through %s' % name, e)
        # 2. stores
        for p, d in S.stores.items():
            if p not in bound:
                continue
            tg = self.reach(bound[p].flat())
            for t, w in d.items():
                self.store(tg, V(tokmap(t)), e, via=w)
        # 3. writes
        for p, w in S.mutated.items():
            if p in bound:
                self.mutate(self.reach(bound[p].flat()), e, 'call `%s` passes it as parameter `%s` of %s' % (self.text(e), p, name), via=w)
        for fp, w in S.cbmut.items():
            self.mutate(rmap.get(fp, frozenset([G])), e, 'call `%s`: %s writes the result of its callable `%s`' % (self.text(e), name, fp), via=w)
        if S.gmut:
            self.mutate([G], e, 'call `%s`' % self.text(e), via=S.gmut)
        # 4. result
        return self.inst(S.ret, tokmap, e, 'call')

    def inst(self, rv, tokmap, e, tag):
        locs = set()
        for t in rv.toks:
            locs |= tokmap(t)
        if rv.fresh:
            a = self.alloc(e, tag, rv.akind)
            locs.add(a)
            for t in rv.cont:
                self.store([a], V(tokmap(t)), e, via=rv.wit.get(t))
        tup = None
        if rv.tup is not None:
            tup = tuple(self.inst(x, tokmap, e, '%s.%d' % (tag, i)) for i, x in enumerate(rv.tup))
            for x in tup:
                locs |= x.flat()
        return V(locs, tup=tup, es=rv.es, cls=rv.cls, length=rv.length)

    def inline(self, fn, args, e, env):
        """a lambda / nested function of THIS function, analysed in place with the current bindings of its free variables"""
        node, snap = fn[1], fn[2]
        if self.depth >= 3:
            self.unknown('recursive local closure', e)
            return self.top()
        ps = [a.arg for a in node.args.args]
        if len(args) != len(ps):
            self.unknown('arity mismatch calling a local closure', e)
            return self.top()
        env2 = env_join(dict(snap), dict(env))
        for p, a in zip(ps, args):
            env2[p] = a
        self.depth += 1
        try:
            if isinstance(node, ast.Lambda):
                return self.ev(node.body, env2)
            saved, savedloops = self.rets, self.loops
            self.rets, self.loops = None, []
            self.block(node.body, env2)
            r = self.rets if self.rets is not None else EMPTY
            self.rets, self.loops = saved, savedloops
            return r
        finally:
            self.depth -= 1

    # ---- iteration and binding
    def bind_iter(self, target, it, env):
        """bind the loop target(s) for `for target in it`; returns True when the iteration is known to be non-empty"""
        nonempty = False
        txt = 'for %s in %s' % (self.text(target), self.text(it))
        if isinstance(it, ast.Call) and isinstance(it.func, ast.Name) and it.func.id in ('enumerate', 'zip') \
                and it.func.id not in env and not it.keywords and not any(isinstance(a, ast.Starred) for a in it.args):
            vs = [self.ev(a, env) for a in it.args]
            if it.func.id == 'enumerate':
                parts = [EMPTY, self.sub(vs[0]) if vs else EMPTY]
            else:
                parts = [self.sub(v) for v in vs]
            el = V(frozenset().union(*[p.flat() for p in parts]) if parts else (), tup=tuple(parts))
            self.bind(target, el, env, it, txt)
            return False
        v = self.ev(it, env)
        if v.const is not None and v.const[0] == 'range':
            if v.const[1] is not None and v.const[1] < v.const[2]:
                nonempty = True
            self.bind(target, EMPTY, env, it, txt)
            return nonempty
        if v.tup is not None:
            el = None
            for x in v.tup:
                el = vjoin(el, x)
            nonempty = len(v.tup) > 0
            self.bind(target, el if el is not None else EMPTY, env, it, txt)
            return nonempty
        self.dunder(['__iter__', '__next__'], [v], it, env, True)
        self.bind(target, self.sub(v), env, it, txt)
        return False

    def bind(self, target, v, env, node, txt=None):
        if isinstance(target, ast.Name):
            if v.length is not None and v.tup is None:
                v = V(v.locs, None, v.const, None, v.fn, v.es, v.cls, v.cf)     # a list may change its length later
            env[target.id] = v
            ps = sorted(l[1] for l in self.reach(v.flat()) if l[0] == 'P')
            d = self.defs.setdefault(target.id, [])
            rec = (getattr(node, 'lineno', 0), txt or self.text(node), tuple(ps),
                   tuple(n.id for n in ast.walk(node) if isinstance(n, ast.Name) and n.id != target.id))
            if rec not in d:
                d.append(rec)
        elif isinstance(target, (ast.Tuple, ast.List)):
            if any(isinstance(x, ast.Starred) for x in target.elts):
                self.unknown('starred assignment target', target)
            if v.tup is not None and len(v.tup) == len(target.elts):
                for t, x in zip(target.elts, v.tup):
                    self.bind(t, x, env, node, txt)
            else:
                el = self.sub(v)
                for t in target.elts:
                    self.bind(t.value if isinstance(t, ast.Starred) else t, el, env, node, txt)
        elif isinstance(target, ast.Attribute):
            o = self.ev(target.value, env)
            if o.fn is not None and not o.locs and o.fn[0] in ('class', 'ext'):
                self.mutate([G], target, 'assignment to class/module attribute `%s`' % self.text(target))
            self.mutate(o.flat(), target, 'attribute assignment `%s = ...`' % self.text(target))
            self.store(o.flat(), v, node)
        elif isinstance(target, ast.Subscript):
            o = self.ev(target.value, env)
            self.ev(target.slice, env)
            self.mutate(o.flat(), target, 'item assignment `%s = ...`' % self.text(target))
            if o.flat() and all(is_alloc(l) and self.akind.get(l) == 'array' for l in o.flat()):
                pass    # ndarray.__setitem__ on an array allocated here copies the VALUES of v (numeric dtypes; requesting
                        # an object dtype from an external function makes the enclosing function UNKNOWN): no reference kept
            else:
                self.store(o.flat(), v, node)
        else:
            self.unknown('unsupported assignment target %s' % type(target).__name__, target)

    # ---- statements
    def block(self, stmts, env):
        for s in stmts:
            if env is None:
                return None
            m = getattr(self, 'st_' + type(s).__name__, None)
            if m is None:
                self.unknown('unsupported statement %s' % type(s).__name__, s)
                continue
            env = m(s, env)
        return env

    def st_Expr(self, s, env):
        self.ev(s.value, env)
        return env

    def st_Pass(self, s, env):
        return env

    def st_Assert(self, s, env):
        self.ev(s.test, env)
        if s.msg is not None:
            self.ev(s.msg, env)
        return env

    def st_Raise(self, s, env):
        if s.exc is not None:
            self.ev(s.exc, env)
        return None

    def st_Return(self, s, env):
        v = self.ev(s.value, env) if s.value is not None else EMPTY
        if v.fn is not None and v.fn[0] == 'lambda':
            self.unknown('closure returned', s)
        self.rets = vjoin(self.rets, v)
        return None

    def st_Assign(self, s, env):
        v = self.ev(s.value, env)
        for t in s.targets:
            self.bind(t, v, env, s)
        return env

    def st_AnnAssign(self, s, env):
        if s.value is not None:
            self.bind(s.target, self.ev(s.value, env), env, s)
        return env

    def st_AugAssign(self, s, env):
        v = self.ev(s.value, env)
        t = s.target
        if isinstance(t, ast.Name):
            cur = env.get(t.id)
            if cur is None:
                cur = self.ev(ast.Name(id=t.id, ctx=ast.Load(), lineno=s.lineno, col_offset=s.col_offset), env)
            self.mutate(cur.flat(), s, 'augmented assignment `%s` (in place for arrays and lists)' % self.text(s))
            new = set(cur.flat())
            if cur.flat() or v.flat():
                a = self.alloc(s, 'aug', 'array')     # scalars and tuples are rebound to a new value
                new.add(a)
                if self.is_listy(cur) or self.is_listy(v):
                    self.store(list(cur.flat()) + [a], self.sub(v), s)
            self.bind(t, V(new), env, s)
        elif isinstance(t, (ast.Attribute, ast.Subscript)):
            o = self.ev(t.value, env)
            if isinstance(t, ast.Subscript):
                self.ev(t.slice, env)
            el = self.sub(o, isinstance(t, ast.Subscript) and self._is_slice(t.slice))
            self.mutate(o.flat() | el.flat(), s, 'augmented assignment `%s`' % self.text(s))
            self.store(o.flat(), v, s)
        else:
            self.unknown('unsupported augmented assignment target', s)
        return env

    def st_Delete(self, s, env):
        for t in s.targets:
            if isinstance(t, ast.Name):
                env.pop(t.id, None)
            elif isinstance(t, (ast.Attribute, ast.Subscript)):
                o = self.ev(t.value, env)
                self.mutate(o.flat(), s, 'del `%s`' % self.text(t))
            else:
                self.unknown('unsupported del target', s)
        return env

    def st_If(self, s, env):
        t = self.truth(self.ev(s.test, env))
        if t is True:
            return self.block(s.body, env)
        if t is False:
            return self.block(s.orelse, env)
        e1 = self.block(s.body, dict(env))
        e2 = self.block(s.orelse, dict(env))
        return env_join(e1, e2)

    def _loop(self, s, env, head_fn):
        env0 = env
        self.loops.append({'brk': None, 'cont': None})
        head = dict(env0)
        e1 = None
        nonempty = False
        for _ in range(40):
            k0 = (env_key(head), self.state_size())
            e = dict(head)
            nonempty = head_fn(e)
            e1 = self.block(s.body, e)
            L = self.loops[-1]
            e1 = env_join(e1, L['cont'])
            L['cont'] = None
            newhead = env_join(head, e1)
            if (env_key(newhead), self.state_size()) == k0:
                break
            head = newhead
        else:
            self.unknown('loop analysis did not converge', s)
        L = self.loops.pop()
        out = e1 if nonempty else env_join(dict(head), e1)
        if s.orelse:
            out = self.block(s.orelse, out) if out is not None else None
        return env_join(out, L['brk'])

    def st_For(self, s, env):
        return self._loop(s, env, lambda e: self.bind_iter(s.target, s.iter, e))

    def st_While(self, s, env):
        def head(e):
            self.ev(s.test, e)
            return False
        return self._loop(s, env, head)

    def st_Break(self, s, env):
        if not self.loops:
            self.unknown('break outside loop', s)
            return None
        self.loops[-1]['brk'] = env_join(self.loops[-1]['brk'], dict(env))
        return None

    def st_Continue(self, s, env):
        if not self.loops:
            self.unknown('continue outside loop', s)
            return None
        self.loops[-1]['cont'] = env_join(self.loops[-1]['cont'], dict(env))
        return None

    def st_FunctionDef(self, s, env):
        a = s.args
        if a.vararg or a.kwarg or a.kwonlyargs or a.posonlyargs or a.defaults or s.decorator_list:
            self.unknown('nested function with special parameters', s)
        for n in ast.walk(s):
            if isinstance(n, (ast.Nonlocal, ast.Global, ast.Yield, ast.YieldFrom)):
                self.unknown('nonlocal/global/yield in nested function', s)
        env[s.name] = V(fn=('lambda', s, dict(env)))
        return env

    def st_ClassDef(self, s, env):
        enum = any(ast.unparse(b).split('.')[-1] in ('IntEnum', 'Enum') for b in s.bases)
        if not enum or any(not isinstance(b, (ast.Assign, ast.Expr, ast.Pass)) for b in s.body):
            self.unknown('nested class that is not a plain Enum', s)
        env[s.name] = V(fn=('lclass', s.name))
        return env

    def st_Import(self, s, env):
        self.unknown('local import', s)
        return env

    st_ImportFrom = st_Import

    # ---- whole function
    def run(self):
        f = self.f
        S = Summ()
        if f.special or f.kind == 'unsupported-decorator':
            S.unknown = ['star-parameters or unsupported decorator in %s at %s:%d' % (f.qual, f.file, f.node.lineno)]
            return S
        for n in ast.walk(f.node):
            if isinstance(n, (ast.Try, ast.With, ast.Global, ast.Nonlocal, ast.Yield, ast.YieldFrom, ast.Await, ast.NamedExpr,
                              ast.AsyncFor, ast.AsyncWith, ast.AsyncFunctionDef)) or type(n).__name__ in ('Match', 'TryStar'):
                self.unknown('unsupported syntax %s' % type(n).__name__, n)
        env = {}
        for i, p in enumerate(f.params):
            if f.kind == 'classmethod' and i == 0:
                env[p] = V(fn=('class', f.cls))
                continue
            sa = scalar_ann(f.ann.get(p))
            cls = None
            if f.cls is not None and i == 0 and f.kind in ('method', 'property'):
                cls = frozenset([f.cls])
            else:
                a = f.ann.get(p)
                if isinstance(a, ast.Name):
                    r = self.mod['names'].get(a.id)
                    if r is not None and r[0] == 'class':
                        cls = frozenset([r[1]])
            if sa == 'S':
                env[p] = EMPTY
            else:
                env[p] = V([('P', p)], fn=('cparam', p), es=(sa == 'E'), cls=cls, length=self.ctx.get(p))
        for p, d in f.defaults.items():
            if not isinstance(d, (ast.Constant, ast.Name, ast.Attribute)) and \
                    not (isinstance(d, ast.UnaryOp) and isinstance(d.operand, ast.Constant)):
                self.unknown('default value of parameter %s is not a constant (shared mutable default?)' % p, d)
        self.block(f.node.body, env)
        if self.ctx_invalid:
            S.unknown = ['context invalid']      # the caller falls back to the context-free summary
            return S
        S.unknown = list(self.unk)
        S.mutated = dict(self.mut)
        S.cbargs = {k: set(v) for k, v in self.cbargs.items()}
        S.cbmut = dict(self.cbmut)
        S.cbcalled = set(self.cbcalled)
        S.gmut = self.gmut
        for p in f.params:
            d = {}
            for l in self.reach([('P', p)]):
                if l[0] != 'A' and l != ('P', p):
                    d[l] = self.path_witness([('P', p)], l)
            if d:
                S.stores[p] = d
        S.ret = self.summarize(self.rets if self.rets is not None else EMPTY)
        return S

    def path_witness(self, srcs, dst):
        """statements along one containment path from srcs to dst"""
        prev = {}
        todo = list(srcs)
        seen = set(srcs)
        while todo:
            l = todo.pop(0)
            if l == dst:
                break
            for m in self.contents.get(l, ()):
                if m not in seen:
                    seen.add(m)
                    prev[m] = l
                    todo.append(m)
        out = []
        l = dst
        while l in prev:
            w = self.cwit.get((prev[l], l))
            if w and w not in out:
                out.append(w)
            l = prev[l]
        return ' <- '.join(out) if out else ''

    def summarize(self, v):
        toks = set()
        cont = set()
        wit = {}
        fresh = False
        kinds = set()
        for l in v.locs:
            if l[0] == 'A':
                fresh = True
                kinds.add(self.akind.get(l))
                for m in self.reach([l]):
                    if m[0] != 'A':
                        cont.add(m)
                        if m not in wit:
                            wit[m] = self.path_witness([l], m)
            else:
                toks.add(l)
        tup = None
        if v.tup is not None:
            tup = tuple(self.summarize(x) for x in v.tup)
        ak = kinds.pop() if len(kinds) == 1 else None
        return RetV(toks, fresh, cont, tup, v.cls, ak, v.es, v.length if v.tup is not None else None, wit)


# ------------------------------------------------------------------------------------------------------------------
# interprocedural fixpoint
# ------------------------------------------------------------------------------------------------------------------
class Analyzer:
    MAXCTX = 16

    def __init__(self, root):
        self.prog = Program(root)
        self.summ = {}        # (qual, ctx) -> Summ
        self.deps = {}        # key -> set of keys whose analyses used it
        self.dirty = []
        self.nctx = {}
        self.runs = 0

    def summary(self, q, ctx, caller):
        key = (q, ctx)
        if ctx and key not in self.summ:
            n = self.nctx.get(q, 0)
            if n >= self.MAXCTX:
                key = (q, ())
            else:
                self.nctx[q] = n + 1
        if key not in self.summ:
            self.summ[key] = Summ()
            self.dirty.append(key)
        S = self.summ[key]
        if key[1] and S.unknown and S.unknown[0] == 'context invalid':
            key = (q, ())
            if key not in self.summ:
                self.summ[key] = Summ()
                self.dirty.append(key)
            S = self.summ[key]
        self.deps.setdefault(key, set()).add(caller.key)
        return S

    def solve(self):
        for q in self.prog.funcs:
            self.summ[(q, ())] = Summ()
            self.dirty.append((q, ()))
        guard = 0
        while self.dirty:
            key = self.dirty.pop(0)
            guard += 1
            if guard > 20000:
                raise RuntimeError('interprocedural fixpoint did not converge')
            fa = FA(self, self.prog.funcs[key[0]], key[1])
            fa.key = key
            try:
                S = fa.run()
            except RecursionError:
                S = Summ()
                S.unknown = ['recursion limit while analysing %s' % key[0]]
            self.runs += 1
            if S.key() != self.summ[key].key():
                # monotone growth: keep witnesses of the first discovery
                old = self.summ[key]
                for p, w in old.mutated.items():
                    if p in S.mutated:
                        S.mutated[p] = w
                self.summ[key] = S
                for d in self.deps.get(key, ()):
                    if d not in self.dirty:
                        self.dirty.append(d)
            else:
                pass
        return self


# ------------------------------------------------------------------------------------------------------------------
# the public operations of Model/Alias.v `desc_of` and the concrete functions behind them
# ------------------------------------------------------------------------------------------------------------------
OPS = [
    ('mps_add', ['mps.MPS.__add__', 'mps.add_mps']), ('mps_sub', ['mps.MPS.__sub__']),
    ('mpo_add', ['mpo.MPO.__add__', 'mpo.add_mpo']), ('mpo_sub', ['mpo.MPO.__sub__']),
    ('mpo_matmul', ['mpo.MPO.__matmul__', 'mpo.multiply_mpo']),
    ('apply_operator', ['operation.apply_operator']),
    ('vdot', ['operation.vdot']), ('norm', ['operation.norm']), ('operator_average', ['operation.operator_average']),
    ('operator_inner_product', ['operation.operator_inner_product']),
    ('operator_density_average', ['operation.operator_density_average']),
    ('as_vector', ['mps.MPS.as_vector']), ('as_matrix', ['mpo.MPO.as_matrix']), ('from_vector', ['mps.MPS.from_vector']),
    ('split_mps_tensor', ['mps.split_mps_tensor']), ('merge_mps_tensor_pair', ['mps.merge_mps_tensor_pair']),
    ('merge_mpo_tensor_pair', ['mpo.merge_mpo_tensor_pair']),
    ('qr', ['bond_ops.qr']), ('split_matrix_svd', ['bond_ops.split_matrix_svd']),
    ('retained_bond_indices', ['bond_ops.retained_bond_indices']),
    ('from_opchains', ['opgraph.OpGraph.from_opchains']), ('from_opgraph', ['mpo.MPO.from_opgraph']),
    ('mpo_identity', ['mpo.MPO.identity']), ('graph_as_matrix', ['opgraph.OpGraph.as_matrix']),
    ('compute_right_operator_blocks', ['operation.compute_right_operator_blocks']),
    ('apply_local_hamiltonian', ['operation.apply_local_hamiltonian']),
    ('apply_local_bond_contraction', ['operation.apply_local_bond_contraction']),
    ('hamiltonian_constructor', ['hamiltonian.*_mpo']),
    ('mps_orthonormalize', ['mps.MPS.orthonormalize']), ('mpo_orthonormalize', ['mpo.MPO.orthonormalize']),
    ('mps_compress', ['mps.MPS.compress']),
    ('tdvp_singlesite', ['evolution.integrate_local_singlesite']), ('tdvp_twosite', ['evolution.integrate_local_twosite']),
    ('dmrg_singlesite', ['minimization.calculate_ground_state_local_singlesite']),
    ('dmrg_twosite', ['minimization.calculate_ground_state_local_twosite']),
    ('graph_add', ['opgraph.OpGraph.add']), ('graph_simplify', ['opgraph.OpGraph.simplify']),
    ('graph_flip', ['opgraph.OpGraph.flip']),
]
# operations whose result is an MPS / MPO / OpGraph (sharing clause of the property)
RESULT_OBJECT_OPS = {'mps_add', 'mps_sub', 'mpo_add', 'mpo_sub', 'mpo_matmul', 'apply_operator', 'from_vector', 'from_opchains',
                     'from_opgraph', 'mpo_identity', 'hamiltonian_constructor'}
# constructors whose copying behaviour is reported explicitly
CONSTRUCTORS = ['mps.MPS.__init__', 'mpo.MPO.__init__', 'opgraph.OpGraph.__init__', 'opgraph.OpGraphNode.__init__',
                'opgraph.OpGraphEdge.__init__', 'opchain.OpChain.__init__']
# descriptors (python copy of desc_of, used only for the messages of `prop`; the Coq check uses desc_of itself)
DESC = {'mps_orthonormalize': 0, 'mpo_orthonormalize': 0, 'mps_compress': 0, 'graph_add': 0, 'graph_simplify': 0, 'graph_flip': 0,
        'tdvp_singlesite': 1, 'tdvp_twosite': 1, 'dmrg_singlesite': 1, 'dmrg_twosite': 1}


def analyze(root):
    """-> JSON-serialisable report"""
    t0 = time.time()
    old = sys.getrecursionlimit()
    sys.setrecursionlimit(max(old, 6000))
    try:
        an = Analyzer(root).solve()
    finally:
        sys.setrecursionlimit(old)
    P = an.prog
    rows, violations, sharing, notes = [], [], [], []
    for op, pats in OPS:
        quals = []
        for pat in pats:
            if '*' in pat:
                mod, pn = pat.split('.', 1)
                suffix = pn.lstrip('*')
                found = sorted(q for q, f in P.funcs.items() if f.module == mod and f.cls is None and f.node.name.endswith(suffix)
                               and not f.node.name.startswith('_'))
                if not found:
                    rows.append({'op': op, 'func': pat, 'writes': None, 'params': [], 'why': ['no function matches %s' % pat]})
                quals += found
            else:
                quals.append(pat)
        for q in quals:
            f = P.funcs.get(q)
            if f is None:
                rows.append({'op': op, 'func': q, 'writes': None, 'params': [], 'why': ['function %s not found in the source' % q]})
                violations.append('%s: function %s not found in the source (fail closed)' % (op, q))
                continue
            S = an.summ[(q, ())]
            params = f.params[1:] if f.kind == 'classmethod' else f.params
            if S.unknown or P.errors:
                why = (S.unknown + P.errors)[:3]
                rows.append({'op': op, 'func': q, 'writes': None, 'params': params, 'why': why})
                violations.append('%s: %s cannot be analysed (counts as "may write every operand"): %s' % (op, q, '; '.join(why)))
                continue
            ws = sorted(params.index(p) for p in S.mutated if p in params)
            row = {'op': op, 'func': q, 'writes': ws, 'params': params, 'why': [S.mutated[params[k]] for k in ws]}
            if S.gmut:
                row['writes'] = None
                row['why'] = ['writes module/class level state: ' + S.gmut]
                violations.append('%s: %s may write module/class level state: %s' % (op, q, S.gmut))
            rows.append(row)
            allowed = DESC.get(op)
            for k in ws:
                if k != allowed:
                    violations.append('%s: %s may mutate parameter %s: %s' % (op, q, params[k], S.mutated[params[k]]))
            # result freshness
            if op in RESULT_OBJECT_OPS:
                for t in sorted(S.ret.toks, key=str):
                    if t[0] == 'P':
                        sharing.append('%s: %s may return (a view of) its parameter %s itself' % (op, q, t[1]))
                for t in sorted(S.ret.all_cont(), key=str):
                    if t[0] in ('P', 'G'):
                        w = S.ret.wit.get(t, '')
                        sharing.append('%s: the result of %s may share state with %s: %s' %
                                       (op, q, 'parameter ' + t[1] if t[0] == 'P' else 'module/class level state', w or '(through a callee)'))
            else:
                for t in sorted(S.ret.all_tokens(), key=str):
                    if t != 'FRESH' and t[0] == 'P' and not (allowed is not None and allowed < len(params) and t[1] == params[allowed]):
                        notes.append('%s: %s returns a plain array/number that may be a view of (or contain) its parameter %s '
                                     '(not a violation: the sharing clause speaks about returned MPS/MPO/graphs)' % (op, q, t[1]))
            if op not in RESULT_OBJECT_OPS and allowed is not None and allowed < len(params):
                tgt = params[allowed]
                for t, w in sorted(S.stores.get(tgt, {}).items(), key=str):
                    if t[0] == 'P':
                        sharing.append('%s: %s may make objects of parameter %s reachable from its target %s: %s' % (op, q, t[1], tgt, w))
    ctors = {}
    for q in CONSTRUCTORS:
        if (q, ()) in an.summ:
            S = an.summ[(q, ())]
            d = S.stores.get('self', {})
            ctors[q] = {'keeps_references_to': sorted(t[1] for t in d if t[0] == 'P'), 'unknown': S.unknown[:2]}
    unk = sorted(q for (q, c), S in an.summ.items() if not c and S.unknown)
    return {'rows': rows, 'violations': violations, 'sharing': sharing, 'notes': notes, 'constructors': ctors,
            'unanalysable_functions': unk, 'source_errors': P.errors,
            'stats': {'functions': len(P.funcs), 'summaries': len(an.summ), 'analyses': an.runs, 'wall_s': round(time.time() - t0, 2)},
            'root': root}


def gallina_table(rep):
    rows = []
    for r in rep['rows']:
        w = 'None' if r['writes'] is None else '(Some [%s])' % '; '.join('%d%%nat' % k for k in r['writes'])
        rows.append('(Op_%s, %s)' % (r['op'], w))
    return '[' + '; '.join(rows) + ']'


if __name__ == '__main__':
    root = sys.argv[1] if len(sys.argv) > 1 else os.environ.get('VERIF_REPO', '/repo')
    rep = analyze(root)
    if '--json' in sys.argv:
        print(json.dumps(rep, indent=1))
    else:
        for r in rep['rows']:
            print('%-30s %-55s %s' % (r['op'], r['func'], 'UNKNOWN' if r['writes'] is None else [r['params'][k] for k in r['writes']]))
            if r['writes'] is None or '-v' in sys.argv:
                for w in r['why']:
                    print('      ' + w)
        print('violations:')
        for v in rep['violations']:
            print('  ' + v)
        print('sharing:')
        for v in rep['sharing']:
            print('  ' + v)
        print('notes:')
        for v in rep['notes']:
            print('  ' + v)
        print('constructors:', json.dumps(rep['constructors']))
        print('unanalysable:', rep['unanalysable_functions'])
        print('source errors:', rep['source_errors'])
        print(rep['stats'])
