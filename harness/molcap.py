"""C07 helpers: capture what the molecular Hamiltonian constructors hand to OpGraph.from_opchains / MPO.from_opgraph
(by wrapping the names pytenet.hamiltonian uses, from outside), exact dyadic coefficient tensors, Gallina emitters."""
from fractions import Fraction
import numpy as np
import emit as E


# ------------------------------------------------------------------ exact coefficients
def dyadic(x, k=8):
    """round every entry (real and imaginary part) to a multiple of 1/k: float arithmetic on the result is exact"""
    x = np.asarray(x)
    if np.iscomplexobj(x):
        return (np.round(x.real * k) + 1j * np.round(x.imag * k)) / k
    return np.round(x * k) / k


def frac(x):
    x = complex(x)
    return Fraction(x.real), Fraction(x.imag)


def qi_lit(c):
    re, im = frac(c)
    if im == 0:
        if re == 0:
            return 'q0'
        if re.denominator == 1:
            return '(qz %s)' % E.z(re.numerator)
        return '(qr %s %d)' % (E.z(re.numerator), re.denominator)
    den = int(np.lcm(re.denominator, im.denominator))
    return '(qq %s %s %d)' % (E.z(int(re * den)), E.z(int(im * den)), den)


PREAMBLE = (E.QC_PREAMBLE +
            'Definition q0 : QI := (qcm 0 1, qcm 0 1).\n'
            'Definition qz (n : Z) : QI := (qcm n 1, qcm 0 1).\n'
            'Definition qr (n : Z) (d : positive) : QI := (qcm n d, qcm 0 1).\n'
            'Definition qq (n m : Z) (d : positive) : QI := (qcm n d, qcm m d).\n'
            'Definition qhalf : QI := qr 1 2.\n'
            'Definition ch (o q : list Z) (c : QI) (i : nat) : chain QIring := @mkchain QIring o q c i.\n'
            'Definition ed (i a b : Z) (o : list (Z * QI)) : gedge QIring := @mkedge QIring i a b o.\n'
            'Definition mq (r c : nat) (d : list (list QI)) : mx QIring := @mkmx QIring r c d.\n')


def tab_lit(a):
    a = np.asarray(a)
    if a.ndim == 0:
        return qi_lit(a)
    return E.lst([tab_lit(x) for x in a])


def chain_lit(c):
    return '(ch %s %s %s %s)' % (E.zlist(c['oids']), E.zlist(c['qnums']), qi_lit(complex(c['re'], c['im'])), E.nat(c['istart']))


def graph_lit(gj):
    nodes = E.lst(['(mknode %s %s %s %s)' % (E.z(n[0]), E.zlist(n[1]), E.zlist(n[2]), E.z(n[3])) for n in gj['nodes']])
    edges = E.lst(['(ed %s %s %s %s)' % (E.z(e[0]), E.z(e[1]), E.z(e[2]),
                                         E.lst([E.pair(E.z(i), qi_lit(complex(a, b))) for i, a, b in e[3]]))
                   for e in gj['edges']])
    return '(@mkgraph QIring %s %s %s %s)' % (nodes, edges, E.z(gj['t'][0]), E.z(gj['t'][1]))


def mx_lit(a):
    a = np.asarray(a)
    return '(mq %s %s %s)' % (E.nat(a.shape[0]), E.nat(a.shape[1]), E.lst([E.lst([qi_lit(x) for x in row]) for row in a]))


def big_nat(n):
    n = max(int(n), 1)
    if n < 3000:
        return E.nat(n)
    k = int(n ** 0.5) + 1
    return '(%d * %d)%%nat' % (k, k)


def bfs_fuel(gj):
    """number of dequeues of is_consistent's level search (both directions), + slack"""
    nodes = {n[0]: n for n in gj['nodes']}
    edges = {e[0]: e for e in gj['edges']}
    worst = 0
    for direction in (0, 1):
        q = [gj['t'][direction]]
        cnt = 0
        while q and cnt < 2000000:
            nid = q.pop()
            cnt += 1
            for eid in nodes[nid][1 + (1 - direction)]:
                q.append(edges[eid][1 + (1 - direction)])
        worst = max(worst, cnt)
    return worst + 3


# ------------------------------------------------------------------ capture
def graph_json(g):
    return {'nodes': [[int(n.nid), [int(x) for x in n.eids[0]], [int(x) for x in n.eids[1]], int(n.qnum)] for n in g.nodes.values()],
            'edges': [[int(e.eid), int(e.nids[0]), int(e.nids[1]),
                       [[int(i), float(complex(c).real), float(complex(c).imag)] for i, c in e.opics]] for e in g.edges.values()],
            't': [int(g.nid_terminal[0]), int(g.nid_terminal[1])]}


def capture(kind, t, v, optimize):
    """run (spin_)molecular_hamiltonian_mpo(t, v, optimize) with OpGraph.from_opchains and MPO.from_opgraph wrapped;
    returns {'chains', 'L', 'idn'} (optimize=True only), 'graph', 'qd', 'opmap', 'pairmap' or {'error': ...}"""
    import pytenet.hamiltonian as H
    rec = {}
    orig_og, orig_mpo = H.OpGraph, H.MPO

    class RecOG(orig_og):
        @classmethod
        def from_opchains(cls, chains, length, oid_identity):
            rec['chains'] = [{'oids': [int(x) for x in c.oids], 'qnums': [int(x) for x in c.qnums],
                              're': float(complex(c.coeff).real), 'im': float(complex(c.coeff).imag), 'istart': int(c.istart)}
                             for c in chains]
            rec['L'] = int(length)
            rec['idn'] = int(oid_identity)
            return orig_og.from_opchains(chains, length, oid_identity)

    class RecMPO(orig_mpo):
        @classmethod
        def from_opgraph(cls, qd, graph, opmap, compute_nid_map=False):
            rec['graph'] = graph_json(graph)
            rec['qd'] = [int(x) for x in qd]
            rec['opmap'] = {int(k): np.asarray(m).tolist() for k, m in opmap.items()}
            return orig_mpo.from_opgraph(qd, graph, opmap, compute_nid_map=compute_nid_map)

    H.OpGraph, H.MPO = RecOG, RecMPO
    try:
        f = H.molecular_hamiltonian_mpo if kind == 'mol' else H.spin_molecular_hamiltonian_mpo
        try:
            mpo = f(t, v, optimize=optimize)
        except Exception as e:
            rec['error'] = type(e).__name__
            return rec, None
    finally:
        H.OpGraph, H.MPO = orig_og, orig_mpo
    rec['pairmap'] = [[int(a), int(b), int(o)] for (a, b), o in H.SpinOperatorConverter.oid_single_pair_map.items()]
    return rec, mpo
