"""
Core of the verification harness: proof stage (A), correspondence stage (B),
implementation-level property search (C), verdict, evidence and replay files.

A property plugin (harness/props/cXX.py) provides

  PROP            'C18'
  COQ_IMPORTS     list of 'PT.Model.Foo' modules the case files import
  COQ_PREAMBLE    optional extra Gallina text placed after the imports of every case file
  RULE            text: how cases are generated and what makes one non-trivial/distinct
  cases(rng, tier) -> list of JSON-serialisable case dicts ('quick' | 'thorough' | 'search')
  impl(case)      -> JSON-serialisable result of running /repo's implementation
                     (exceptions mapped to {'error': <class name>})
  prop(case, result) -> list of strings, each a violated clause of the property (stage C)
  coq(case, result)  -> Gallina term of type bool: "the model run on this case agrees with
                     the implementation's result" (stage B); None to skip the case
  klass(case, result) -> short string used for the input-distribution histogram
  nontrivial(case, result) -> bool
  optional: coq_diag(case, result) -> Gallina term printed for a failing case
  optional: SHARD (cases per coqc file), IMPL_PARALLEL (bool), corpus() -> list of cases
  optional: finding_key(case, result, msgs) -> str used to match known_findings.json
"""
import os, sys, json, time, subprocess, hashlib, random, re, importlib, traceback, shutil
import fcntl
from concurrent.futures import ThreadPoolExecutor

VERIF = os.path.dirname(os.path.dirname(os.path.abspath(__file__)))
COQ = os.path.join(VERIF, 'coq')
REPO = os.environ.get('VERIF_REPO', '/repo')
NPROC = int(os.environ.get('VERIF_NPROC', '16'))

FORBIDDEN = re.compile(r'\b(Admitted|admit|Axiom|Axioms|Parameter|Parameters|Conjecture|Hypothesis|Variable)\b'
                       r'|Unset\s+Guard|bypass_check|type-in-type|impredicative-set|Admit\s+Obligations|native_compute')


def log(*a):
    print(*a, flush=True)


def sh(cmd, timeout, cwd=None, env=None):
    """run a shell command under a timeout; return (rc, output)"""
    try:
        p = subprocess.run(cmd, shell=True, cwd=cwd, env=env, timeout=timeout,
                           stdout=subprocess.PIPE, stderr=subprocess.STDOUT, text=True, errors='replace')
        return p.returncode, p.stdout
    except subprocess.TimeoutExpired as e:
        out = e.stdout.decode(errors='replace') if isinstance(e.stdout, bytes) else (e.stdout or '')
        return 124, out + '\n[timeout after %ds]' % timeout


# ----------------------------------------------------------------------------
# stage A: proof obligations
# ----------------------------------------------------------------------------

def plugin_imports(pid):
    """COQ_IMPORTS of a plugin, read textually (no import of the plugin needed)"""
    path = os.path.join(VERIF, 'harness', 'props', pid.lower() + '.py')
    if not os.path.exists(path):
        return []
    m = re.search(r'^COQ_IMPORTS\s*=\s*\[(.*?)\]', open(path).read(), re.M | re.S)
    return re.findall(r'[\'"]([A-Za-z_.0-9]+)[\'"]', m.group(1)) if m else []


def cone(pids):
    """files (relative to coq/) in the dependency cone of Properties/<pid>.v and of the modules the plugin's case files
    import, from the Require lines"""
    todo = ['Properties/%s.v' % p for p in pids]
    for p in pids:
        todo += [m.replace('PT.', '', 1).replace('.', '/') + '.v' for m in plugin_imports(p)]
    seen = []
    while todo:
        f = todo.pop()
        if f in seen or not os.path.exists(os.path.join(COQ, f)):
            continue
        seen.append(f)
        src = open(os.path.join(COQ, f), encoding='utf-8', errors='replace').read()
        src = re.sub(r'\(\*.*?\*\)', ' ', src, flags=re.S)
        for m in re.finditer(r'From\s+PT\s+Require\s+(?:Import|Export)\s+(.*?)\.(?=\s|$)', src, flags=re.S):
            for mod in m.group(1).split():
                todo.append(mod.replace('PT.', '', 1).replace('.', '/') + '.v')
        for m in re.finditer(r'(?<!PT\s)Require\s+(?:Import|Export)\s+(.*?)\.(?=\s|$)', src, flags=re.S):
            for mod in m.group(1).split():
                if mod.startswith('PT.'):
                    todo.append(mod.replace('PT.', '', 1).replace('.', '/') + '.v')
    return sorted(seen)


def coq_build(pids=None, timeout=3000):
    """full .vo build (coq_makefile, no -vos) of the dependency cone of the given properties' theorem files
    (all properties with a Properties/*.v file if none given), serialised by a lock"""
    os.makedirs(COQ, exist_ok=True)
    if pids is None:
        pids = sorted(f[:-2] for f in os.listdir(os.path.join(COQ, 'Properties')) if f.endswith('.v'))
    tag = pids[0] if len(pids) == 1 else 'all'
    files = cone(pids)
    lock = open(os.path.join(COQ, '.build.lock'), 'w')
    fcntl.flock(lock, fcntl.LOCK_EX)
    try:
        with open(os.path.join(COQ, '_CoqProject.%s' % tag), 'w') as f:
            f.write('-Q . PT\n' + '\n'.join(files) + '\n')
        rc, out = sh('coq_makefile -f _CoqProject.%s -o Makefile.%s >/dev/null && timeout %d make -f Makefile.%s -j%d 2>&1'
                     % (tag, tag, timeout, tag, NPROC), timeout + 60, cwd=COQ)
        ok = (rc == 0)
        return ok, out[-4000:], files
    finally:
        fcntl.flock(lock, fcntl.LOCK_UN)
        lock.close()


def scan_sources(files=None):
    """textual scan of the development for forbidden constructs; returns list of hits.
    Section-local Variable/Hypothesis are allowed (they are discharged at End); the scan
    checks that every such line lies inside a Section."""
    hits = []
    for root, _, files in os.walk(COQ):
        for f in files:
            if not f.endswith('.v'):
                continue
            path = os.path.join(root, f)
            if files is not None and os.path.relpath(path, COQ) not in files:
                continue
            depth = 0
            in_comment = 0
            for ln, line in enumerate(open(path, encoding='utf-8', errors='replace'), 1):
                # strip comments (nesting aware, line based approximation)
                out = ''
                i = 0
                while i < len(line):
                    if line.startswith('(*', i):
                        in_comment += 1; i += 2; continue
                    if line.startswith('*)', i) and in_comment:
                        in_comment -= 1; i += 2; continue
                    if not in_comment:
                        out += line[i]
                    i += 1
                if re.match(r'\s*Section\b', out):
                    depth += 1
                if re.match(r'\s*End\b', out) and depth > 0:
                    depth -= 1
                for m in FORBIDDEN.finditer(out):
                    w = m.group(0)
                    if w in ('Variable', 'Hypothesis') and depth > 0:
                        continue
                    hits.append('%s:%d: %s' % (os.path.relpath(path, VERIF), ln, w))
    return hits


def proof_stage(pid, thorough=False):
    """build, re-check Properties/<pid>.v, collect Print Assumptions output"""
    t0 = time.time()
    res = {'ok': False, 'obligations': 0, 'discharged': 0, 'assumptions': [], 'cmds': [], 'log': '',
           'theorems': [], 'failed': None}
    ok, out, files = coq_build([pid])
    res['files'] = files
    res['cmds'].append('cd coq && coq_makefile -f _CoqProject.%s -o Makefile.%s && make -f Makefile.%s -j%d   (full .vo build of the %d files in the dependency cone of Properties/%s.v)' % (pid, pid, pid, NPROC, len(files), pid))
    if not ok:
        res['log'] = out[-4000:]
        res['failed'] = 'make (see log)'
    hits = scan_sources(files)
    if hits:
        res['failed'] = 'forbidden construct: ' + '; '.join(hits[:5])
        ok = False
    pfile = os.path.join(COQ, 'Properties', pid + '.v')
    if not os.path.exists(pfile):
        res['failed'] = 'missing ' + pfile
        return res
    src = open(pfile).read()
    names = re.findall(r'^\s*(?:Theorem|Example|Corollary)\s+(\w+)', src, re.M)
    res['theorems'] = names
    res['obligations'] = len(names)
    cmd = 'coqc -Q . PT Properties/%s.v' % pid
    res['cmds'].append('cd coq && ' + cmd)
    rc, out2 = sh('timeout 900 ' + cmd, 960, cwd=COQ)
    if rc == 0 and ok:
        res['discharged'] = len(names)
        res['ok'] = True
    else:
        m = re.search(r'line (\d+)', out2)
        if m:
            upto = '\n'.join(src.split('\n')[:int(m.group(1))])
            done = re.findall(r'^\s*(?:Theorem|Example|Corollary)\s+(\w+)', upto, re.M)
            res['discharged'] = max(0, len(done) - 1)
            res['failed'] = res['failed'] or ('%s: %s' % (done[-1] if done else pid, out2.strip()[-600:]))
        else:
            res['failed'] = res['failed'] or out2.strip()[-600:] or 'coqc failed'
        res['log'] += out2[-4000:]
    # Print Assumptions output
    ass = []
    cur = None
    for line in out2.split('\n'):
        if line.startswith('Closed under the global context'):
            ass.append('Closed under the global context')
        elif line.startswith('Axioms:'):
            cur = []
            ass.append(cur)
        elif cur is not None:
            if line.strip() == '' :
                cur = None
            else:
                cur.append(line.strip())
    flat = []
    for a in ass:
        flat.append(a if isinstance(a, str) else 'Axioms: ' + ' '.join(a))
    res['assumptions'] = flat
    if thorough and res['ok']:
        cmd = 'coqchk -silent -o -Q . PT PT.Properties.%s' % pid
        res['cmds'].append('cd coq && ' + cmd)
        rc, out3 = sh('timeout 1500 ' + cmd, 1560, cwd=COQ)
        res['coqchk'] = out3.strip()[-3000:]
        if rc != 0:
            res['ok'] = False
            res['failed'] = 'coqchk: ' + out3.strip()[-600:]
    res['wall_s'] = round(time.time() - t0, 1)
    return res


# ----------------------------------------------------------------------------
# stage B: evaluating the model inside Coq
# ----------------------------------------------------------------------------

def _run_shard(args):
    path, = args
    rc, out = sh('timeout 900 coqc -Q %s PT %s' % (COQ, path), 960, cwd=os.path.dirname(path))
    return rc, out


def run_coq_terms(workdir, imports, preamble, terms, shard=200, tag='cases'):
    """terms: list of Gallina bool terms (or None). returns list of True/False/None(skipped)/'error:...'"""
    os.makedirs(workdir, exist_ok=True)
    idx = [i for i, t in enumerate(terms) if t is not None]
    shards = [idx[k:k + shard] for k in range(0, len(idx), shard)]
    files = []
    for k, sh_idx in enumerate(shards):
        path = os.path.join(workdir, '%s_%d.v' % (tag, k))
        with open(path, 'w') as f:
            f.write('From Coq Require Import ZArith QArith Qcanon List Bool.\n')
            for m in imports:
                f.write('From PT Require Import %s.\n' % m.replace('PT.', '', 1))
            f.write('Import ListNotations.\nOpen Scope Z_scope.\n')
            f.write(preamble or '')
            f.write('\n')
            for i in sh_idx:
                f.write('Definition case_%d : bool :=\n  %s.\n' % (i, terms[i]))
                f.write('Eval vm_compute in case_%d.\n' % i)
        files.append(path)
    res = [None] * len(terms)
    logs = []
    with ThreadPoolExecutor(max_workers=NPROC) as ex:
        outs = list(ex.map(_run_shard, [(p,) for p in files]))
    for (rc, out), sh_idx, path in zip(outs, shards, files):
        vals = re.findall(r'=\s*(true|false)\s*:\s*bool', out)
        if rc != 0 or len(vals) != len(sh_idx):
            logs.append('%s: rc=%d %s' % (path, rc, out.strip()[-800:]))
            # attribute results as far as they go, rest are errors
            for n, i in enumerate(sh_idx):
                res[i] = (vals[n] == 'true') if n < len(vals) else 'error: coqc rc=%d' % rc
        else:
            for v, i in zip(vals, sh_idx):
                res[i] = (v == 'true')
    return res, logs


def run_coq_diag(workdir, imports, preamble, term, tag='diag'):
    os.makedirs(workdir, exist_ok=True)
    path = os.path.join(workdir, tag + '.v')
    with open(path, 'w') as f:
        f.write('From Coq Require Import ZArith QArith Qcanon List Bool.\n')
        for m in imports:
            f.write('From PT Require Import %s.\n' % m.replace('PT.', '', 1))
        f.write('Import ListNotations.\nOpen Scope Z_scope.\n')
        f.write(preamble or '')
        f.write('\nEval vm_compute in (%s).\n' % term)
    rc, out = sh('timeout 300 coqc -Q %s PT %s' % (COQ, path), 330, cwd=workdir)
    return out.strip()[-3000:]


# ----------------------------------------------------------------------------
# known findings
# ----------------------------------------------------------------------------

def load_known(pid):
    path = os.path.join(VERIF, 'known_findings.json')
    if not os.path.exists(path):
        return []
    data = json.load(open(path))
    return [e for e in data.get('findings', []) if e.get('property') == pid and e.get('status') == 'open']


# ----------------------------------------------------------------------------
# orchestration
# ----------------------------------------------------------------------------

class CaseTimeout(Exception):
    pass


def _alarm(signum, frame):
    raise CaseTimeout()


def _impl_one(args):
    plugin_name, case = args
    plugin = importlib.import_module(plugin_name)
    import signal
    limit = int(getattr(plugin, 'CASE_TIMEOUT', 120))
    old = None
    try:
        # a code change may make an operation loop forever: bound every single case (SIGALRM, main thread of the worker)
        old = signal.signal(signal.SIGALRM, _alarm)
        signal.alarm(limit)
    except (ValueError, AttributeError):
        old = None
    try:
        return plugin.impl(case)
    except CaseTimeout:
        return {'error': 'Timeout', 'detail': 'the implementation did not return within %d s on this case' % limit}
    except Exception as e:  # harness-level failure inside impl: keep it visible
        return {'error': type(e).__name__, 'detail': ''.join(traceback.format_exception_only(type(e), e)).strip()[:300]}
    finally:
        try:
            signal.alarm(0)
            if old is not None:
                signal.signal(signal.SIGALRM, old)
        except (ValueError, AttributeError):
            pass


def run_impl(plugin, cases):
    if getattr(plugin, 'IMPL_PARALLEL', False) and len(cases) > 8:
        import multiprocessing as mp
        with mp.get_context('fork').Pool(NPROC) as pool:
            return pool.map(_impl_one, [(plugin.__name__, c) for c in cases], chunksize=max(1, len(cases) // (4 * NPROC)))
    return [_impl_one((plugin.__name__, c)) for c in cases]


def write_replay(pid, payload):
    d = os.path.join(VERIF, 'replays', pid)
    os.makedirs(d, exist_ok=True)
    blob = json.dumps(payload, sort_keys=True, default=str)
    h = hashlib.sha1(blob.encode()).hexdigest()[:12]
    path = os.path.join(d, h + '.json')
    with open(path, 'w') as f:
        json.dump(payload, f, indent=1, sort_keys=True, default=str)
    return path


def case_digest(c):
    return hashlib.sha1(json.dumps(c, sort_keys=True, default=str).encode()).hexdigest()


def main(argv=None):
    import argparse
    ap = argparse.ArgumentParser()
    ap.add_argument('pid')
    ap.add_argument('--tier', default=os.environ.get('VERIF_TIER', 'quick'))
    ap.add_argument('--replay', default=None)
    ap.add_argument('--no-proof', action='store_true', help='skip stage A (development use only)')
    args = ap.parse_args(argv)
    pid = args.pid
    tier = args.tier if args.tier in ('quick', 'thorough') else 'quick'
    seed = int(os.environ.get('VERIF_SEED', '0') or 0)
    t0 = time.time()
    sys.path.insert(0, os.path.join(VERIF, 'harness'))
    plugin = importlib.import_module('props.' + pid.lower())
    # private scratch directory per invocation (concurrent runs of the same check must not share case files)
    work = os.path.join(VERIF, '.work', '%s.%d' % (pid, os.getpid()))
    shutil.rmtree(work, ignore_errors=True)
    os.makedirs(work, exist_ok=True)
    import atexit
    atexit.register(lambda: shutil.rmtree(work, ignore_errors=True))
    imports = plugin.COQ_IMPORTS
    preamble = getattr(plugin, 'COQ_PREAMBLE', '')
    shard = getattr(plugin, 'SHARD', 200)

    if args.replay:
        return replay(plugin, pid, args.replay, work)

    violations = []   # (kind, replay path, suffix)
    known_lines = []
    known = load_known(pid)

    # ---- stage A
    if args.no_proof:
        A = {'ok': True, 'obligations': 0, 'discharged': 0, 'assumptions': [], 'cmds': [], 'theorems': [], 'failed': None}
    else:
        A = proof_stage(pid, thorough=(tier == 'thorough'))
    log('[A] proof stage: ok=%s obligations=%d discharged=%d %s' % (A['ok'], A['obligations'], A['discharged'], A.get('failed') or ''))

    # ---- cases
    rng = random.Random(seed * 1000003 + 17)
    cases = []
    if hasattr(plugin, 'corpus'):
        cases += plugin.corpus()
    cases += plugin.cases(rng, tier)
    # ---- escalation: when the modelled sources differ from the tree the models were last validated on (harness/fingerprint.py), the
    #      quick tier draws further batches of cases; a differing fingerprint is never a violation by itself
    escalated = []
    try:
        import fingerprint
        escalated = fingerprint.changed_files()
    except Exception as e:
        log('[F] fingerprint unavailable: %s' % e)
    if escalated and tier == 'quick':
        nb = int(os.environ.get('VERIF_ESCALATE', '2') or 0)
        for k in range(nb):
            cases += plugin.cases(random.Random(seed * 1000003 + 17 + 7919 * (k + 1)), 'quick')
        log('[F] sources changed since the models were validated (%s): %d further batches of cases' % (', '.join(escalated), nb))
    results = run_impl(plugin, cases)

    # ---- stage C: property predicate on the implementation
    c_fail = []
    for c, r in zip(cases, results):
        try:
            msgs = plugin.prop(c, r)
        except Exception as e:
            msgs = ['property predicate raised %s: %s' % (type(e).__name__, e)]
        if msgs:
            c_fail.append((c, r, msgs))
    log('[C] implementation-level property: %d cases, %d failing' % (len(cases), len(c_fail)))

    # ---- stage B: correspondence
    terms = []
    for c, r in zip(cases, results):
        try:
            terms.append(plugin.coq(c, r))
        except Exception as e:
            terms.append(None)
            log('[B] emitter failed on a case: %s' % e)
    coq_res, coq_logs = run_coq_terms(work, imports, preamble, terms, shard=shard)
    b_fail = [(c, r, t, v) for c, r, t, v in zip(cases, results, terms, coq_res) if t is not None and v is not True]
    n_corr = sum(1 for t in terms if t is not None)
    log('[B] correspondence: %d cases evaluated in Coq, %d mismatching' % (n_corr, len(b_fail)))
    for l in coq_logs[:3]:
        log('    ' + l[:600])

    # ---- verdict
    def is_known(c, r, msgs):
        if not known:
            return None
        key = plugin.finding_key(c, r, msgs) if hasattr(plugin, 'finding_key') else None
        for e in known:
            if key is not None and e.get('key') == key:
                return e
        return None

    for c, r, msgs in c_fail:
        e = is_known(c, r, msgs)
        if e:
            line = 'KNOWN-FINDING: property=%s %s' % (pid, e.get('what', e.get('key')))
            if line not in known_lines:
                known_lines.append(line)
            continue
        # a plugin may declare a failing case to be a broken tie (e.g. a static analysis of the source that no longer derives the
        # modelled descriptor) rather than a concrete failing input: reported with the suffix no-failing-input-found
        noinput = bool(hasattr(plugin, 'no_input') and plugin.no_input(c, r, msgs))
        path = write_replay(pid, {'property': pid, 'kind': 'tie' if noinput else 'impl', 'seed': seed, 'case': c, 'result': r, 'violated': msgs,
                                  'how': './check %s --replay <this file>' % pid})
        violations.append(('tie' if noinput else 'impl', path, ' no-failing-input-found' if noinput else ''))
        if len(violations) >= 5:
            break

    need_search = False
    only_ties = bool(violations) and all(k == 'tie' for k, _, _ in violations)
    if not violations:
        if not A['ok']:
            need_search = True
        if b_fail:
            need_search = True
    if only_ties:
        need_search = True       # a broken tie: look for a concrete failing input as well
    if need_search:
        found = None
        # the mismatching correspondence cases are the first candidates: already checked by C above (clean),
        # so look further: other seeds, the 'search' tier of the generator
        budget = float(os.environ.get('VERIF_SEARCH_S', '120' if tier == 'quick' else '300'))
        ts = time.time()
        k = 0
        evals = 0
        while time.time() - ts < budget and found is None:
            k += 1
            rng2 = random.Random(seed * 7919 + k)
            cs = plugin.cases(rng2, 'search')
            rs = run_impl(plugin, cs)
            for c, r in zip(cs, rs):
                evals += 1
                try:
                    msgs = plugin.prop(c, r)
                except Exception as e:
                    msgs = ['property predicate raised %s: %s' % (type(e).__name__, e)]
                if msgs and not is_known(c, r, msgs):
                    found = (c, r, msgs)
                    break
        log('[S] extended search: %d further evaluations, %s' % (evals, 'failing input found' if found else 'no failing input'))
        if found:
            c, r, msgs = found
            path = write_replay(pid, {'property': pid, 'kind': 'impl', 'seed': seed, 'case': c, 'result': r, 'violated': msgs,
                                      'how': './check %s --replay <this file>' % pid})
            violations.append(('impl', path, ''))
        else:
            if only_ties and A['ok'] and not b_fail:
                pass             # the tie violations stand as reported, without a failing input
            elif b_fail:
                c, r, t, v = b_fail[0]
                diag = ''
                if hasattr(plugin, 'coq_diag'):
                    try:
                        diag = run_coq_diag(work, imports, preamble, plugin.coq_diag(c, r))
                    except Exception as e:
                        diag = 'diag failed: %s' % e
                path = write_replay(pid, {'property': pid, 'kind': 'correspondence', 'seed': seed, 'case': c, 'impl_result': r,
                                          'coq_term': t, 'coq_value': v, 'model_output': diag,
                                          'mismatching_cases': len(b_fail),
                                          'what': 'the Coq model and the implementation disagree on this case; the theorems of '
                                                  'Properties/%s.v therefore no longer speak about the code' % pid,
                                          'how': './check %s --replay <this file>' % pid})
                violations.append(('correspondence', path, ' no-failing-input-found'))
            else:
                path = write_replay(pid, {'property': pid, 'kind': 'proof', 'seed': seed, 'failed': A.get('failed'),
                                          'log': A.get('log', '')[-3000:],
                                          'what': 'proof obligation of Properties/%s.v no longer checks' % pid})
                violations.append(('proof', path, ' no-failing-input-found'))

    # ---- evidence
    hist = {}
    nontriv = set()
    for c, r in zip(cases, results):
        try:
            k = plugin.klass(c, r)
        except Exception:
            k = '?'
        hist[k] = hist.get(k, 0) + 1
        try:
            if plugin.nontrivial(c, r):
                nontriv.add(case_digest(c))
        except Exception:
            pass
    samples = []
    src_path = os.path.join(COQ, 'Properties', pid + '.v')
    if os.path.exists(src_path):
        src = open(src_path).read()
        for m in re.finditer(r'^\s*(Theorem|Corollary)\s+(\w+)\s*:?(.*?)\.\s*$\s*Proof', src, re.M | re.S):
            samples.append({'theorem': m.group(2), 'statement': ' '.join(m.group(3).split())[:700]})
            if len(samples) >= 6:
                break
    def _clip(x, n=3000):
        t = json.dumps(x, default=str)
        return x if len(t) <= n else (t[:n] + ' ... [%d characters clipped]' % (len(t) - n))
    for c, r in list(zip(cases, results))[:3]:
        samples.append({'case': _clip(c), 'impl_result': _clip(r)})
    trusted = ['Coq 8.16.1 kernel (coqc); vm_compute for Examples and for evaluating the model in the correspondence check; no native_compute']
    trusted += ['Print Assumptions: ' + a for a in sorted(set(A['assumptions']))] or []
    trusted += getattr(plugin, 'TRUSTED', [])
    ev = {
        'property_id': pid, 'tier': tier, 'seed': seed, 'level': 'proof',
        'coverage': {
            'obligations': A['obligations'], 'discharged': A['discharged'],
            'checker_cmd': ' ; '.join(A['cmds']),
            'trusted_base': trusted,
            'theorems': A['theorems'],
            'evaluations': len(cases),
            'distinct_nontrivial': len(nontriv),
            'rule': getattr(plugin, 'RULE', ''),
            'samples': samples,
            'correspondence': {'form': getattr(plugin, 'FORM', ''), 'cases_evaluated_in_coq': n_corr,
                               'mismatches': len(b_fail), 'input_distribution': hist},
            'impl_property_search': {'evaluations': len(cases), 'failing': len(c_fail)},
            'partial': getattr(plugin, 'PARTIAL', ''),
            'sources_changed_since_validation': escalated,
        },
        'assumptions': getattr(plugin, 'ASSUMPTIONS', []),
        'wall_s': round(time.time() - t0, 1),
        'violations': len(violations),
    }
    os.makedirs(os.path.join(VERIF, 'evidence'), exist_ok=True)
    # development runs without the proof stage do not produce evidence
    ev_path = os.path.join(work, 'evidence.json') if args.no_proof else os.path.join(VERIF, 'evidence', pid + '.json')
    with open(ev_path, 'w') as f:
        json.dump(ev, f, indent=1, default=str)

    for l in known_lines:
        log(l)
    if violations:
        for kind, path, suffix in violations:
            log('VIOLATION property=%s replay=%s%s' % (pid, path, suffix))
        return 1
    log('OK property=%s tier=%s cases=%d obligations=%d/%d wall=%.0fs' % (pid, tier, len(cases), A['discharged'], A['obligations'], time.time() - t0))
    return 0


def replay(plugin, pid, path, work):
    data = json.load(open(path))
    kind = data.get('kind')
    if kind == 'proof':
        A = proof_stage(pid)
        log('proof stage: ok=%s %s' % (A['ok'], A.get('failed') or ''))
        if not A['ok']:
            log('VIOLATION property=%s replay=%s no-failing-input-found' % (pid, path))
            return 1
        return 0
    c = data['case']
    r = _impl_one((plugin.__name__, c))
    msgs = plugin.prop(c, r)
    log('case: %s' % json.dumps(c)[:2000])
    log('implementation result: %s' % json.dumps(r, default=str)[:2000])
    if msgs:
        log('violated clauses: %s' % msgs)
        noinput = bool(hasattr(plugin, 'no_input') and plugin.no_input(c, r, msgs))
        log('VIOLATION property=%s replay=%s%s' % (pid, path, ' no-failing-input-found' if noinput else ''))
        return 1
    t = plugin.coq(c, r)
    if t is not None:
        coq_build([pid])
        res, logs = run_coq_terms(work, plugin.COQ_IMPORTS, getattr(plugin, 'COQ_PREAMBLE', ''), [t], tag='replay')
        log('model agrees with implementation: %s' % res[0])
        if res[0] is not True:
            if hasattr(plugin, 'coq_diag'):
                log('model output: ' + run_coq_diag(work, plugin.COQ_IMPORTS, getattr(plugin, 'COQ_PREAMBLE', ''), plugin.coq_diag(c, r)))
            log('VIOLATION property=%s replay=%s no-failing-input-found' % (pid, path))
            return 1
    log('replay clean')
    return 0


if __name__ == '__main__':
    sys.exit(main())
