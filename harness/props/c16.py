"""C16 — operator-graph rewrites (pytenet/opgraph.py: merge_edges, _simplify_step, simplify, flip,
rename_node_id, rename_edge_id, add) preserve the denoted operator and graph consistency.

Form E.  A case is an initial graph (explicit constructor arguments, or operator chains / trees handed to
from_opchains / from_optrees), a list of further graphs for `add`, and a seed for the rewrite program.  The
program is chosen in `impl` from the *current* graph (a mergeable pair found by the harness, existing ids, ...),
every rewrite is applied to the real object, and the whole graph is recorded after each rewrite.  The Coq term
replays the recorded program on the model (Model/Rewrites.v) and compares the whole graph after EACH rewrite
(`graph_eqb`: dictionaries in insertion order, edge-id lists in order, coefficients exactly).
"""
import copy, itertools, random
import numpy as np
import emit as E
import graphemit as GE

PROP = 'C16'
COQ_IMPORTS = ['PT.Base.Scalar', 'PT.Model.OpGraph', 'PT.Model.Rewrites']
FORM = ('E (exact): the recorded rewrite program is replayed on the Gallina model by vm_compute; after every rewrite the '
        'whole graph (node/edge dictionaries in insertion order, edge-id lists, opics with Gaussian-integer coefficients, '
        'terminal ids) must equal the implementation\'s; requests the implementation rejects must be rejected by the model; '
        'set-intersection iteration orders of add are recorded inputs checked to enumerate the intersection')
RULE = ('random consistent layered graphs: length 1..5, interior widths 1..4, every node on a start-end path, parallel edges, '
        'edges with 1-3 operators and coefficients in {-2..2, 0, +-i} from a small per-layer palette (so equal opics and '
        'cancellations are frequent), node charges in {0,1} (sometimes encoded pairs 65537, 131072), node/edge ids sampled from a small range with negatives in random '
        'dictionary order; tries (operator trees, one node per prefix) and outputs of from_opchains / from_optrees; the second '
        'graph of add has the same length and ids drawn from the same range (collisions are the rule). Rewrite programs of '
        '3-10 (quick) / up to 30 (thorough) steps: simplify, merge_edges on a harness-found mergeable pair (either branch, '
        'either direction, either argument order), rename_node_id, rename_edge_id, flip, add, and invalid requests '
        '(rename onto an existing id / of a missing id, merge of a non-mergeable pair, bad direction, missing edge id). '
        'non-trivial = some rewrite changed the number of edges or an add had shared ids; distinct by case digest')
SHARD = 6
IMPL_PARALLEL = True
TRUSTED = ['hand-written Gallina mirror of the rewrites (Model/Rewrites.v on Model/OpGraph.v), tied to the code by exact agreement '
           'of the whole graph after every rewrite of every generated program',
           'free-algebra path enumeration graphemit.path_poly and the dense numpy Kronecker reference in harness/props/c16.py (search only)']
PARTIAL = ('proved for all well-formed graphs over any commutative ring (Properties/C16.v): flip, rename_node_id, rename_edge_id, '
           'merge_edges (both branches, both directions, under exactly the guards the code asserts), simplify (denotation, '
           'well-formedness, counts, and that no assertion fires / no fuel runs out), add (colliding ids, any enumeration order of '
           'the shared ids; both graphs of equal length >= 1), and every finite sequence of these rewrites. Well-formedness WF is '
           'stronger than is_consistent: it also demands unique keys / duplicate-free edge-id lists (constructor invariants), a level '
           'for every node and no dangling nodes; WF implies that the is_consistent mirror never answers False, but its exponential '
           'path re-enumeration finishing within a fixed fuel is evaluated per case, not proved. Not covered by the proofs: '
           'merge_edges(eid, eid) (aliasing), graphs with dangling nodes (is_consistent accepts them; simplify can then delete the '
           'terminal node and raise KeyError), that "the other graph is untouched" (value semantics in the model; checked on the '
           'implementation in every add case).')
ASSUMPTIONS = ['the iteration order of  self.nodes.keys() & other.nodes.keys()  inside OpGraph.add equals the order observed by the '
               'harness on equal dictionaries immediately before the call (same process, same hash seed); the theorems hold for '
               'every enumeration of the intersection']

MAXWORDS = 4000


# ----------------------------------------------------------------------------------------------
# graph specifications (JSON) and generators
# ----------------------------------------------------------------------------------------------

COEFFS = [[1, 0], [1, 0], [1, 0], [-1, 0], [2, 0], [-2, 0], [0, 1], [0, -1], [0, 0], [1, 1]]


def _rand_opics(rng, noids):
    k = rng.choice([1, 1, 1, 2, 2, 3])
    oids = rng.sample(range(noids), min(k, noids))
    if rng.random() < 0.15:      # duplicate operator id in the constructor argument (merged by OpGraphEdge.__init__)
        oids.append(rng.choice(oids))
    rng.shuffle(oids)
    return [[o] + list(rng.choice(COEFFS[:8] if rng.random() < 0.9 else COEFFS)) for o in oids]


def _near_palette(rng, noids):
    """edges with the same operators whose coefficients are different but close in the sense of numpy.isclose (relative 1e-5):
    200000 and 200001, or 3 + 200000 i and 3 + 200001 i. Used in at most one layer per graph: all products stay below 2^53"""
    base = _rand_opics(rng, noids)
    big = rng.choice([200000, -200000, 300000])
    a = [[o, big if k == 0 else x, y] for k, (o, x, y) in enumerate(base)]
    b = [[o, big + (1 if big > 0 else -1) if k == 0 else x, y] for k, (o, x, y) in enumerate(base)]
    if rng.random() < 0.3:
        a = [[o, y, x] for o, x, y in a]; b = [[o, y, x] for o, x, y in b]       # the close parts imaginary
    return [a, b] + ([_rand_opics(rng, noids)] if rng.random() < 0.5 else [])


def _palette(rng, noids, near=False):
    if near:
        return _near_palette(rng, noids)
    n = rng.randint(1, 3)
    pal = [_rand_opics(rng, noids) for _ in range(n)]
    if rng.random() < 0.4:
        # a cancelling partner: same operators, negated coefficients
        p = rng.choice(pal)
        pal.append([[o, -a, -b] for o, a, b in p])
    return pal


def _assemble(rng, layers_q, abstract_edges, canonical=False):
    """layers_q: list over layers of lists of node charges; abstract_edges: (layer, i, j, opics).
    returns a constructor-level spec with random ids and random dictionary orders"""
    keys = [(t, i) for t, l in enumerate(layers_q) for i in range(len(l))]
    n, m = len(keys), len(abstract_edges)
    if canonical:
        nids = list(range(n)); eids = list(range(m))
    else:
        nids = rng.sample(range(-4, max(24, n + 8)), n)
        eids = rng.sample(range(-4, max(36, m + 8)), m)
    nid = dict(zip(keys, nids))
    ein = {k: [] for k in keys}; eout = {k: [] for k in keys}
    edges = []
    order = list(range(m))
    if not canonical:
        rng.shuffle(order)
    for idx in order:
        t, i, j, opics = abstract_edges[idx]
        eid = eids[idx]
        edges.append([eid, [nid[(t, i)], nid[(t + 1, j)]], opics])
        eout[(t, i)].append(eid); ein[(t + 1, j)].append(eid)
    if not canonical:
        for k in keys:
            rng.shuffle(ein[k]); rng.shuffle(eout[k])
        rng.shuffle(edges)
        rng.shuffle(keys)
    nodes = [[nid[k], ein[k], eout[k], layers_q[k[0]][k[1]]] for k in keys]
    L = len(layers_q) - 1
    return {'kind': 'ctor', 'nodes': nodes, 'edges': edges, 't': [nid[(0, 0)], nid[(L, 0)]], 'L': L}


def gen_layered(rng, L, canonical=False):
    noids = rng.randint(1, 3)
    widths = [1] + [rng.randint(1, 4) for _ in range(L - 1)] + [1]
    qs = [0, 0, 0, 1] if rng.random() < 0.6 else [0]
    if rng.random() < 0.15:
        qs = [0, 0, 65537, 65537, 131072]      # encoded charge pairs (N << 16) + S: equal values that are not the same int object
    layers_q = [[rng.choice(qs) for _ in range(w)] for w in widths]
    layers_q[0] = [0]
    ae = []
    near_layer = rng.randrange(L) if rng.random() < 0.2 else None
    for t in range(L):
        pal = _palette(rng, noids, near=(t == near_layer))
        pick = lambda: copy.deepcopy(rng.choice(pal)) if rng.random() < 0.85 else _rand_opics(rng, noids)
        has_in = set()
        for i in range(widths[t]):
            j = rng.randrange(widths[t + 1]); has_in.add(j)
            ae.append((t, i, j, pick()))
        for j in range(widths[t + 1]):
            if j not in has_in:
                ae.append((t, rng.randrange(widths[t]), j, pick()))
        for _ in range(rng.choice([0, 0, 1, 2, 3])):
            if rng.random() < 0.5 and ae:
                # parallel edge
                t2, i, j, _o = rng.choice([e for e in ae if e[0] == t])
                ae.append((t, i, j, pick()))
            else:
                ae.append((t, rng.randrange(widths[t]), rng.randrange(widths[t + 1]), pick()))
    return _assemble(rng, layers_q, ae, canonical)


def gen_trie(rng, L, canonical=False):
    """operator tree from the start node, one node per prefix, all leaves joined at the end node"""
    noids = rng.randint(1, 3)
    near_layer = rng.randrange(L) if rng.random() < 0.2 else None
    pals = [_palette(rng, noids, near=(t == near_layer)) for t in range(L)]
    useq = rng.random() < 0.5
    bigq = [0, 65537, 65537, 131072] if rng.random() < 0.15 else None
    layers_q = [[0]] + [[] for _ in range(L - 1)] + [[0]]
    ae = []
    budget = [rng.randint(4, 14)]

    def rec(t, i):
        nch = rng.choice([1, 1, 2, 2, 3]) if budget[0] > 0 else 1
        for _ in range(nch):
            budget[0] -= 1
            op = copy.deepcopy(rng.choice(pals[t]))
            if t == L - 1:
                ae.append((t, i, 0, op))
            else:
                layers_q[t + 1].append(rng.choice(bigq if bigq else [0, 0, 1]) if useq else 0)
                j = len(layers_q[t + 1]) - 1
                ae.append((t, i, j, op))
                rec(t + 1, j)
    rec(0, 0)
    return _assemble(rng, layers_q, ae, canonical)


def gen_chains(rng, L):
    noids = 3
    chains = []
    for _ in range(rng.randint(1, 6)):
        istart = rng.randrange(L)
        ln = rng.randint(1, L - istart)
        oids = [rng.randint(1, noids) for _ in range(ln)]
        qn = [0] + [rng.choice([0, 0, 1, -1]) for _ in range(ln - 1)] + [0]
        chains.append([oids, qn, rng.choice([1, -1, 2, -2, 3]), istart])
    if rng.random() < 0.3:
        c = copy.deepcopy(rng.choice(chains)); c[2] = -c[2] if rng.random() < 0.5 else c[2]
        chains.append(c)
    return {'kind': 'chains', 'chains': chains, 'L': L}


def gen_trees(rng, L):
    def node(depth, maxd):
        if depth == maxd or (depth > 0 and rng.random() < 0.25):
            return {'q': 0, 'ch': []}
        return {'q': rng.choice([0, 0, 1]) if depth > 0 else 0,
                'ch': [[rng.randint(1, 3), rng.choice([1, -1, 2]), node(depth + 1, maxd)] for _ in range(rng.choice([1, 2, 2, 3]))]}
    trees = []
    for _ in range(rng.randint(1, 3)):
        istart = rng.randrange(L)
        root = node(0, L - istart)
        if not root['ch']:
            root['ch'] = [[1, 1, {'q': 0, 'ch': []}]]
        trees.append([root, istart])
    return {'kind': 'trees', 'trees': trees, 'L': L}


def gen_graph(rng, L, allow_lib=True):
    r = rng.random()
    if allow_lib and r < 0.12:
        return gen_chains(rng, L)
    if allow_lib and r < 0.22:
        return gen_trees(rng, L)
    if r < 0.62:
        return gen_layered(rng, L, canonical=rng.random() < 0.15)
    return gen_trie(rng, L, canonical=rng.random() < 0.15)


def cases(rng, tier):
    n = {'quick': 500, 'thorough': 1500, 'search': 150}[tier]
    out = []
    for k in range(n):
        L = rng.choice([1, 2, 2, 3, 3, 3, 4, 4, 5])
        nops = rng.randint(3, 10) if tier != 'thorough' else rng.choice([3, 6, 10, 15, 20, 30])
        out.append({'g': gen_graph(rng, L), 'others': [gen_graph(rng, L) for _ in range(3 if nops <= 10 else 6)],
                    'nops': nops, 'opseed': rng.getrandbits(32), 'L': L})
    return out


def corpus():
    # hand-made: parallel cancelling edges; colliding ids in add; node merge blocked by charges
    a = {'kind': 'ctor', 'L': 2, 't': [0, 2],
         'nodes': [[0, [], [0, 1, 2], 0], [1, [0], [3], 0], [3, [1], [4], 0], [4, [2], [5], 1], [2, [3, 4, 5], [], 0]],
         'edges': [[0, [0, 1], [[0, 1, 0]]], [1, [0, 3], [[0, 1, 0]]], [2, [0, 4], [[0, 1, 0]]],
                   [3, [1, 2], [[1, 1, 0]]], [4, [3, 2], [[1, -1, 0]]], [5, [4, 2], [[1, 2, 0], [0, 0, 1]]]]}
    return [{'g': a, 'others': [copy.deepcopy(a), copy.deepcopy(a)], 'nops': 8, 'opseed': s, 'L': 2} for s in (1, 2, 3)]


# ----------------------------------------------------------------------------------------------
# running the implementation
# ----------------------------------------------------------------------------------------------

def _c(a, b):
    return a if b == 0 else complex(a, b)


def build(spec):
    from pytenet.opgraph import OpGraph, OpGraphNode, OpGraphEdge
    if spec['kind'] == 'ctor':
        nodes = [OpGraphNode(nid, ein, eout, q) for nid, ein, eout, q in spec['nodes']]
        edges = [OpGraphEdge(eid, nids, [(o, _c(a, b)) for o, a, b in opics]) for eid, nids, opics in spec['edges']]
        return OpGraph(nodes, edges, spec['t'])
    if spec['kind'] == 'chains':
        from pytenet.opchain import OpChain
        return OpGraph.from_opchains([OpChain(o, q, c, i) for o, q, c, i in spec['chains']], spec['L'], 0)
    if spec['kind'] == 'trees':
        from pytenet.optree import OpTree, OpTreeNode, OpTreeEdge

        def mk(nd):
            return OpTreeNode([OpTreeEdge(o, c, mk(ch)) for o, c, ch in nd['ch']], nd['q'])
        return OpGraph.from_optrees([OpTree(mk(r), i) for r, i in spec['trees']], spec['L'], 0)
    raise ValueError(spec['kind'])


def _poly(g):
    p = GE.path_poly(g)
    return sorted([[list(w), complex(c).real, complex(c).imag] for w, c in p.items()])


def _mergeable_pairs(g):
    """independent search for the pairs merge_edges accepts: (eid1, eid2, direction, branch)"""
    out = []
    for d in (0, 1):
        for node in g.nodes.values():
            for e1, e2 in itertools.permutations(node.eids[1 - d], 2):
                a, b = g.edges[e1], g.edges[e2]
                if a.nids[1 - d] == b.nids[1 - d]:
                    out.append((e1, e2, d, 'same'))
                    continue
                n1, n2 = g.nodes[a.nids[1 - d]], g.nodes[b.nids[1 - d]]
                if a.opics == b.opics and len(n1.eids[d]) == 1 and len(n2.eids[d]) == 1 and n1.qnum == n2.qnum:
                    out.append((e1, e2, d, 'node'))
    return out


def _asmat_ok(g, rng_np, poly):
    """as_matrix(direction 0) == as_matrix(direction 1) == dense reference of the path polynomial"""
    oids = sorted({i for e in g.edges.values() for i, _ in e.opics})
    opmap = {i: rng_np.integers(-2, 3, size=(2, 2)).astype(float) for i in oids}
    m0 = np.asarray(g.as_matrix(opmap, 0)); m1 = np.asarray(g.as_matrix(opmap, 1))
    ref = 0
    for w, re, im in poly:
        t = np.identity(1)
        for o in w:
            t = np.kron(t, opmap[o])
        ref = ref + _c(re, im) * t
    if not poly:
        return bool(np.array_equal(m0, m1) and not np.any(m0))
    return bool(np.array_equal(m0, m1) and np.array_equal(m0, ref))


def _bfs_cost(g):
    """number of dequeues of is_consistent's level check (it re-enumerates all path prefixes)"""
    tot = 0
    for d in (0, 1):
        cnt = {g.nid_terminal[d]: 1}
        while cnt:
            tot += sum(cnt.values())
            nxt = {}
            for nid, c in cnt.items():
                for eid in g.nodes[nid].eids[1 - d]:
                    k = g.edges[eid].nids[1 - d]
                    nxt[k] = nxt.get(k, 0) + c
            cnt = nxt
            if tot > 10 ** 6:
                return tot
    return tot


def impl(case):
    try:
        g = build(case['g'])
    except Exception as e:
        return {'error': type(e).__name__, 'stage': 'build'}
    rng = random.Random(case['opseed'])
    rng_np = np.random.default_rng(case['opseed'])
    res = {'g0': GE.graph_json(g), 'consistent0': bool(g.is_consistent()), 'steps': []}
    others = list(case['others'])
    poly = _poly(g)
    res['poly0'] = poly
    for _ in range(case['nops']):
        if len(poly) > MAXWORDS:
            break
        kinds = ['simplify', 'merge', 'merge', 'rennode', 'renedge', 'flip', 'step']
        if others:
            kinds += ['add', 'add']
        if rng.random() < 0.18:
            kinds = ['bad_rennode', 'bad_renedge', 'bad_merge', 'bad_merge']
        kind = rng.choice(kinds)
        st = {'kind': kind, 'poly_before': poly, 'n_before': [len(g.nodes), len(g.edges)]}
        call = None
        nids = list(g.nodes.keys()); eids = list(g.edges.keys())
        if kind == 'simplify':
            st['op'] = ['simplify']; call = lambda h: h.simplify()
        elif kind == 'step':
            d = rng.randrange(2)
            if not hasattr(g, '_simplify_step'):
                continue        # a private helper of simplify(): exercised only while the implementation has it
            st['op'] = ['step', d]; call = lambda h: h._simplify_step(d)
        elif kind == 'merge':
            mp = _mergeable_pairs(g)
            if not mp:
                continue
            npairs = [x for x in mp if x[3] == 'node']
            e1, e2, d, br = rng.choice(npairs if (npairs and rng.random() < 0.6) else mp)
            st['op'] = ['merge', e1, e2, d]; st['branch'] = br
            call = lambda h: h.merge_edges(e1, e2, d)
        elif kind == 'rennode':
            cur = rng.choice(nids)
            new = rng.choice([x for x in range(-6, 40) if x not in g.nodes])
            st['op'] = ['rennode', cur, new]; call = lambda h: h.rename_node_id(cur, new)
        elif kind == 'renedge':
            cur = rng.choice(eids)
            new = rng.choice([x for x in range(-6, 60) if x not in g.edges])
            st['op'] = ['renedge', cur, new]; call = lambda h: h.rename_edge_id(cur, new)
        elif kind == 'flip':
            st['op'] = ['flip']; call = lambda h: h.flip()
        elif kind == 'add':
            try:
                other = build(others.pop())
            except Exception as e:
                return {'error': type(e).__name__, 'stage': 'build-other'}
            if rng.random() < 0.3:
                other.flip(); other.flip()
            st['other'] = GE.graph_json(other)
            st['poly_other'] = _poly(other)
            # iteration orders of the two set intersections, observed on equal dictionaries right before the call
            st['sn'] = [int(x) for x in list(g.nodes.keys() & copy.deepcopy(other).nodes.keys())]
            # the edge intersection is taken after the node renames, which do not touch edge keys
            st['se'] = [int(x) for x in list(g.edges.keys() & copy.deepcopy(other).edges.keys())]
            st['op'] = ['add']
            call = lambda h: h.add(other)
        elif kind == 'bad_rennode':
            if rng.random() < 0.7:
                cur, new = rng.choice(nids), rng.choice(nids)
            else:
                cur, new = rng.choice([x for x in range(-6, 40) if x not in g.nodes]), rng.randrange(40, 50)
            st['op'] = ['rennode', cur, new]; st['expect_error'] = 'ValueError'
            call = lambda h: h.rename_node_id(cur, new)
        elif kind == 'bad_renedge':
            if rng.random() < 0.7:
                cur, new = rng.choice(eids), rng.choice(eids)
            else:
                cur, new = rng.choice([x for x in range(-6, 60) if x not in g.edges]), rng.randrange(60, 70)
            st['op'] = ['renedge', cur, new]; st['expect_error'] = 'ValueError'
            call = lambda h: h.rename_edge_id(cur, new)
        elif kind == 'bad_merge':
            ok = {(a, b, d) for a, b, d, _ in _mergeable_pairs(g)}
            r = rng.random()
            if r < 0.1:
                e1, e2, d = rng.choice(eids), rng.choice(eids), 2
                st['expect_error'] = 'ValueError'
            elif r < 0.2:
                e1, e2, d = rng.choice(eids), rng.choice([x for x in range(-6, 60) if x not in g.edges]), rng.randrange(2)
                st['expect_error'] = 'KeyError'
            else:
                cand = [(a, b, d) for a in eids for b in eids for d in (0, 1) if a != b and (a, b, d) not in ok]
                # prefer pairs sharing the base node (the later assertions), else any pair
                near = [(a, b, d) for a, b, d in cand if g.edges[a].nids[d] == g.edges[b].nids[d]]
                pool = near if (near and rng.random() < 0.7) else cand
                if not pool:
                    continue
                e1, e2, d = rng.choice(pool)
                st['expect_error'] = 'AssertionError'
            st['op'] = ['merge', e1, e2, d]
            call = lambda h: h.merge_edges(e1, e2, d)
        # invalid requests run on a copy: the implementation mutates before it raises
        target = copy.deepcopy(g) if 'expect_error' in st else g
        try:
            call(target)
            st['error'] = None
        except Exception as e:
            st['error'] = type(e).__name__
        if st['error'] is not None:
            st['after'] = None
            if 'expect_error' not in st:
                # a valid request raised: the object may be half-updated, stop the program here
                st['after_broken'] = True
                res['steps'].append(st)
                break
            res['steps'].append(st)
            continue
        g = target
        st['after'] = GE.graph_json(g)
        st['n_after'] = [len(g.nodes), len(g.edges)]
        try:
            st['consistent'] = bool(g.is_consistent())
        except Exception as e:
            st['consistent'] = 'raised ' + type(e).__name__
        try:
            poly = _poly(g)
            st['poly_after'] = poly
            st['asmat_ok'] = _asmat_ok(g, rng_np, poly) if len(poly) <= MAXWORDS else True
        except Exception as e:
            st['poly_after'] = None
            st['asmat_ok'] = 'raised ' + type(e).__name__
            res['steps'].append(st)
            break
        st['full'] = _bfs_cost(g) <= 1500
        if kind == 'add':
            st['other_after'] = GE.graph_json(other)
        res['steps'].append(st)
    return res


# ----------------------------------------------------------------------------------------------
# stage C: the property on the implementation
# ----------------------------------------------------------------------------------------------

def _pd(p):
    return {tuple(w): complex(re, im) for w, re, im in p}


def prop(case, r):
    if 'error' in r:
        return ['building the input graph raised %s' % r['error']]
    msgs = []
    if not r['consistent0']:
        msgs.append('generated input graph is not consistent (generator defect)')
    for k, st in enumerate(r['steps']):
        tag = 'step %d %s: ' % (k, st['op'])
        if 'expect_error' in st:
            if st['error'] is None:
                msgs.append(tag + 'invalid request accepted (expected %s)' % st['expect_error'])
            elif st['error'] != st['expect_error']:
                msgs.append(tag + 'invalid request raised %s, expected %s' % (st['error'], st['expect_error']))
            continue
        if st['error'] is not None:
            msgs.append(tag + 'valid request raised %s' % st['error'])
            continue
        if st['consistent'] is not True:
            msgs.append(tag + 'graph fails is_consistent() afterwards (%s)' % st['consistent'])
        if st['poly_after'] is None:
            msgs.append(tag + 'graph cannot be enumerated afterwards (%s)' % st['asmat_ok'])
            continue
        before, after = _pd(st['poly_before']), _pd(st['poly_after'])
        kind = st['op'][0]
        if kind == 'flip':
            want = {tuple(reversed(w)): c for w, c in before.items()}
        elif kind == 'add':
            want = dict(before)
            for w, c in _pd(st['poly_other']).items():
                want[w] = want.get(w, 0) + c
            want = {w: c for w, c in want.items() if c != 0}
            if st['other'] != st['other_after']:
                msgs.append(tag + 'the other graph was modified')
        else:
            want = before
        if after != want:
            diff = [w for w in set(after) | set(want) if after.get(w, 0) != want.get(w, 0)]
            msgs.append(tag + 'denoted operator changed, e.g. word %s: %s instead of %s' % (
                list(diff[0]), after.get(diff[0], 0), want.get(diff[0], 0)))
        if kind in ('simplify', 'step', 'merge'):
            if st['n_after'][0] > st['n_before'][0] or st['n_after'][1] > st['n_before'][1]:
                msgs.append(tag + 'number of nodes/edges increased %s -> %s' % (st['n_before'], st['n_after']))
        if st['asmat_ok'] is not True:
            msgs.append(tag + 'as_matrix(direction=0) / as_matrix(direction=1) / dense reference disagree (%s)' % st['asmat_ok'])
    return msgs


# ----------------------------------------------------------------------------------------------
# stage B: the Gallina term
# ----------------------------------------------------------------------------------------------

def gj_lit(j):
    nodes = E.lst(['(mknode %s %s %s %s)' % (E.z(n[0]), E.zlist(n[1]), E.zlist(n[2]), E.z(n[3])) for n in j['nodes']])
    edges = E.lst(['(@mkedge GIring %s %s %s %s)' % (E.z(e[0]), E.z(e[1]), E.z(e[2]),
                                                   E.lst([E.pair(E.z(i), E.gi(complex(re, im))) for i, re, im in e[3]]))
                   for e in j['edges']])
    return '(@mkgraph GIring %s %s %s %s)' % (nodes, edges, E.z(j['t'][0]), E.z(j['t'][1]))


def _rw_lit(st):
    op = st['op']
    if op[0] == 'simplify':
        return '(@RSimplify GIring)'
    if op[0] == 'step':
        return '(@RStep GIring %s)' % E.nat(op[1])
    if op[0] == 'merge':
        return '(@RMerge GIring %s %s %s)' % (E.z(op[1]), E.z(op[2]), E.nat(op[3]))
    if op[0] == 'rennode':
        return '(@RRenameNode GIring %s %s)' % (E.z(op[1]), E.z(op[2]))
    if op[0] == 'renedge':
        return '(@RRenameEdge GIring %s %s)' % (E.z(op[1]), E.z(op[2]))
    if op[0] == 'flip':
        return '(@RFlip GIring)'
    if op[0] == 'add':
        return '(@RAdd GIring %s %s %s)' % (gj_lit(st['other']), E.zlist(st['sn']), E.zlist(st['se']))
    raise ValueError(op)


def _steps_lit(r):
    items = []
    for st in r['steps']:
        exp = 'None' if st['after'] is None else '(Some %s)' % gj_lit(st['after'])
        items.append('(%s, %s, %s)' % (_rw_lit(st), exp, E.boolean(bool(st.get('full')))))
        if st.get('after_broken'):
            # a valid request raised: the model must not fail here (a mismatch), and the program stops
            break
    return E.lst(items)


def coq(case, r):
    if 'error' in r:
        return None
    return 'check_run %s %s' % (gj_lit(r['g0']), _steps_lit(r))


def coq_diag(case, r):
    return 'run_seq %s %s' % (gj_lit(r['g0']), _steps_lit(r))


def klass(case, r):
    if 'error' in r:
        return 'build-error'
    ops = set()
    for st in r['steps']:
        k = st['kind']
        if k == 'merge':
            k = 'merge-' + st.get('branch', '?')
        if k in ('simplify', 'step') and st.get('n_after') and st['n_after'] != st['n_before']:
            k += '+'
        if k == 'add' and (st.get('sn') or st.get('se')):
            k = 'add-collide'
        ops.add(k)
    shrink = any(st.get('n_after') and st['n_after'][1] < st['n_before'][1] for st in r['steps'])
    coll = 'add-collide' in ops
    return '%s/L%d/%s%s%s' % (case['g']['kind'], case['L'], 'shrinks' if shrink else 'static',
                              '/collide' if coll else '', '/reject' if any('expect_error' in s for s in r['steps']) else '')


def nontrivial(case, r):
    if 'error' in r:
        return False
    return any((st.get('n_after') and st['n_after'][1] != st['n_before'][1]) or st.get('sn') or st.get('se') for st in r['steps'])
