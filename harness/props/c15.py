"""C15 — Krylov approximations are bounded, and exact once the Krylov space is exhausted (pytenet/krylov.py:104-133)."""
import numpy as np
import emit as E
from props import krylov_common as KC

PROP = 'C15'
COQ_IMPORTS = ['PT.Base.Scalar', 'PT.Base.Field', 'PT.Model.Krylov']
COQ_PREAMBLE = KC.COQ_PREAMBLE
FORM = ('R (replay): numpy.linalg.norm, numpy.exp (calls issued from krylov.py), scipy eigh_tridiagonal and expm recorded; the internal '
        'lanczos_iteration / arnoldi_iteration output is captured and checked step-wise as in C14 (every loop pass re-run by the model '
        'from the implementation\'s state); the post-processing of eigh_krylov / expm_krylov (both branches) is run by the model on that '
        'output with the recorded primitive answers as oracles (answering only on arguments equal to the recorded ones up to 1e-9) and '
        'must reproduce the returned Ritz values/vectors resp. the returned vector to 1e-9; when at most 2 Krylov vectors are returned '
        'the complete model functions eigh_krylov / expm_krylov are additionally run end to end. Comparison inside Coq in exact rationals.')
RULE = ('n in 1..7, numiter in 1..n+2 (numiter > n included), numeig in 1..numiter+1; eigh_krylov on real symmetric / complex Hermitian matrices; '
        'expm_krylov with hermitian=True on Hermitian and hermitian=False on general and Hermitian matrices; dt real, imaginary and complex '
        '(|dt| <= 1/2); generic / degenerate / scalar / zero matrices (dyadic entries), start vectors generic, real, invariant subspace, eigenvector. '
        'non-trivial = at least two Krylov vectors; distinct by full input')
SHARD = 6
IMPL_PARALLEL = True
TRUSTED = ['hand-written Gallina mirror of krylov.py (Model/Krylov.v), tied to the code by the replay above',
           'contracts of numpy.linalg.norm, scipy.linalg.eigh_tridiagonal (T U = U diag w, U orthogonal), numpy.exp (|exp(it)| = 1 for real t)',
           'numpy/scipy reference computations (eigvalsh, dense expm, re-orthogonalised Krylov basis) in the plugin (stage C search only)']
PARTIAL = ('proved for the model (Properties/C15.v), all n >= 1, every numiter >= 1 incl. numiter > n and early termination: Hermitian expm_krylov '
           'preserves the norm for unimodular phases AND (C15_expm_hermitian_energy, linear self-adjoint A, eigh answer with U^T U = I, T U = U diag(w), '
           '(U U^T) e_0 = e_0) the energy <x|A x> = <v|A v> -- the conserving-solver contract consumed by C08 (C08_tdvp1_conserves_lapack), no invariance of the Krylov space needed; '
           'Ritz vectors orthonormal with Ritz values as Rayleigh quotients; every Ritz value >= every '
           'lower bound of the Rayleigh quotients of A (so >= smallest eigenvalue); theta_min <v,v> <= <v,Av>; for linear A with A V = V T: '
           'p(A) v = ||v|| V p(T) e_0 for every polynomial p (both branches). '
           'EXHAUSTION (C15_exhausted_* / C15_expm_exhausted_*, C14_*_exact_breakdown_AV_V?): when the iteration stops on an EXACTLY vanishing '
           'residual (warning issued and numpy.linalg.norm answered 0 on the last residual, which by the norm contract forces the residual '
           'vector to be 0; or, more generally, the residual recomputed from the returned state is the zero vector) the relation A V = V T '
           'is derived for all returned columns (Lanczos and Arnoldi), hence p(A) v = ||v|| V p(T) e_0 for every polynomial with no extra '
           'hypothesis; every returned Ritz pair is an exact unit eigenpair of A, every Ritz value is an eigenvalue reachable from v, the lowest '
           'Ritz value is <= every real eigenvalue with an eigenvector not orthogonal to v (so it EQUALS the smallest reachable eigenvalue), and v '
           'lies in the span of the Ritz vectors; expm_krylov(hermitian=True) returns E v for EVERY linear operator E that multiplies each '
           'lam-eigenvector of A by dexp(dt lam) -- i.e. "equals exp(dt A) v" relative to that defining property of the matrix exponential on '
           'eigenvectors (no matrix exponential is constructed in Coq); expm_krylov(hermitian=False) likewise under the analogous contract '
           'for scipy.linalg.expm on the call issued (expm(dt H) u = dexp(dt lam) u whenever H u = lam u) AND the extra hypothesis that e_0 is a '
           'combination of eigenvectors of H (diagonalisable case only; Jordan blocks not covered). '
           'NOT proved: anything for a small but non-zero residual (floating-point breakdown) and the full-dimension case numiter = n without '
           'breakdown (needs V^H V = I ==> V V^H = I for square V over an ordered field); the existence of exp(dt A) itself and the general '
           'non-diagonalisable branch. These remain searched numerically against scipy.linalg.expm / numpy.linalg.eigvalsh in stage C, for both '
           'values of the hermitian flag.')
ASSUMPTIONS = ['cases with a recorded loop norm in [100 n eps max(1, max|A v0|), 1e-6 max|A_ij|) are excluded from the correspondence (class "ambiguous")']

SPECS = ['generic'] * 10 + ['degenerate'] * 6 + ['scalar', 'zero']
STARTS = ['generic'] * 4 + ['real'] + ['invariant'] * 3 + ['eigvec']
DTS = [(0.0, 0.5), (0.0, -0.25), (0.25, 0.0), (-0.5, 0.0), (0.125, 0.375), (-0.25, -0.5), (0.0, 1.0), (0.0, 0.0)]


def _case(rng, kind, n, m, cplx, spectrum, start, herm_matrix, flag=None, dt=None, numeig=None):
    A, v = KC.gen_problem(rng, n, herm_matrix, cplx, spectrum, start)
    real_v = bool(np.all(v.imag == 0)) and rng.random() < 0.7
    c = {'kind': kind, 'n': n, 'm': m, 'A': KC.c2j(A), 'v': KC.c2j(v), 'real_A': not cplx, 'real_v': real_v,
         'spectrum': spectrum, 'start': start, 'herm_matrix': herm_matrix}
    if kind == 'eigh':
        c['numeig'] = numeig
    else:
        c['hermitian'] = flag
        c['dt'] = list(dt)
    return c


def cases(rng, tier):
    out = []
    out.append(_case(rng, 'eigh', 1, 1, False, 'generic', 'generic', True, numeig=1))
    out.append(_case(rng, 'eigh', 1, 3, True, 'generic', 'generic', True, numeig=2))
    out.append(_case(rng, 'expm', 1, 1, True, 'generic', 'generic', True, flag=True, dt=(0.0, 0.5)))
    out.append(_case(rng, 'expm', 1, 2, True, 'generic', 'generic', False, flag=False, dt=(0.25, 0.5)))
    out.append(_case(rng, 'expm', 3, 5, True, 'zero', 'generic', True, flag=True, dt=(0.0, 0.5)))
    out.append(_case(rng, 'expm', 3, 5, False, 'scalar', 'real', True, flag=False, dt=(0.0, 0.5)))
    # maps returning their own argument or a view of it (identity, exchange matrix)
    for af, n in (('identity-alias', 3), ('reverse-view', 3), ('reverse-view', 4)):
        Amat = np.eye(n) if af == 'identity-alias' else np.eye(n)[::-1]
        for kind in ('eigh', 'expm-h', 'expm-g'):
            if kind == 'eigh':
                c = _case(rng, 'eigh', n, 2, False, 'generic', 'generic', True, numeig=1)
            else:
                c = _case(rng, 'expm', n, 3, False, 'generic', 'generic', True, flag=(kind == 'expm-h'), dt=(0.0, 0.5) if kind == 'expm-h' else (0.25, 0.5))
            c['A'] = KC.c2j(Amat); c['real_A'] = True; c['afunc'] = af; c['spectrum'] = af
            out.append(c)
    N = {'quick': 100, 'thorough': 900, 'search': 300}[tier]
    sizes = [2, 3, 3, 3, 4, 4, 4, 5, 5, 6, 7] if tier != 'quick' else [2, 2, 3, 3, 3, 3, 4, 4, 4, 4, 5, 5, 5, 6, 7]
    for _ in range(N):
        n = rng.choice(sizes)
        m = 1 if rng.random() < 0.08 else rng.randint(2, n + 2)
        if rng.random() < 0.3:
            m = n
        cplx = rng.random() < 0.55
        spectrum, start = rng.choice(SPECS), rng.choice(STARTS)
        if rng.random() < 0.35:
            out.append(_case(rng, 'eigh', n, m, cplx, spectrum, start, True, numeig=rng.randint(1, m + 1)))
        else:
            flag = rng.random() < 0.5
            herm_matrix = flag or rng.random() < 0.3
            dt = rng.choice(DTS) if not flag else rng.choice(DTS[:2] + DTS[:2] + DTS)
            out.append(_case(rng, 'expm', n, m, cplx, spectrum, start, herm_matrix, flag=flag, dt=dt))
    KC.add_magnitudes(rng, out)
    return out


RECLISTS = ('norms', 'exps', 'eighs', 'expms', 'lanczos', 'arnoldi', 'warns')


def _afunc(case, A):
    """the matrix-free map: usually x -> A x; for the identity / exchange matrix also as a map returning its argument / a view"""
    return {'identity-alias': (lambda x: x), 'reverse-view': (lambda x: x[::-1])}.get(case.get('afunc'), lambda x: A @ x)


def impl(case):
    import pytenet.krylov as kr
    A, v = KC.make_arrays(case)
    try:
        with KC.Recorder() as rec:
            rec.patch_iterations()
            try:
                # a second call of the same routine on another vector of the same length follows before the first result is read:
                # results of successive calls must not share storage (recorded norms etc. of the second call are dropped below)
                v2 = np.asarray(v)[::-1] * (2.0 - 0.5j) + 1.0
                if case['kind'] == 'eigh':
                    w, u = kr.eigh_krylov(_afunc(case, A), v, case['m'], case['numeig'])
                    snap = {nm: len(getattr(rec, nm)) for nm in RECLISTS}
                    try:
                        kr.eigh_krylov(_afunc(case, A), v2, case['m'], case['numeig'])
                    except Exception:
                        pass
                    r = {'w': [float(x) for x in w], 'u': KC.c2j(np.asarray(u).T), 'ushape': list(np.shape(u)), 'wshape': list(np.shape(w))}
                else:
                    x = kr.expm_krylov(_afunc(case, A), v, complex(*case['dt']), case['m'], hermitian=case['hermitian'])
                    snap = {nm: len(getattr(rec, nm)) for nm in RECLISTS}
                    try:
                        kr.expm_krylov(_afunc(case, A), v2, complex(*case['dt']), case['m'], hermitian=case['hermitian'])
                    except Exception:
                        pass
                    r = {'x': KC.c2j(x), 'xshape': list(np.shape(x))}
                for nm in RECLISTS:
                    del getattr(rec, nm)[snap[nm]:]
            finally:
                for nm in ('lanczos_iteration', 'arnoldi_iteration'):
                    if nm in rec._saved:
                        setattr(kr, nm, rec._saved[nm])
    except Exception as e:
        return {'error': type(e).__name__}
    r['norms'] = rec.norms
    r['hook_lost'] = list(getattr(rec, 'missing', []))
    r['warn'] = any(c == 'RuntimeWarning' for c, _ in rec.warns)
    r['other_warnings'] = sorted({c for c, _ in rec.warns if c != 'RuntimeWarning'})
    if rec.lanczos:
        r['lz'] = KC.lanczos_json(rec.lanczos[0])
    if rec.arnoldi:
        r['ar'] = KC.arnoldi_json(rec.arnoldi[0])
    if rec.eighs:
        d, e, w, U = rec.eighs[0]
        r['eigh'] = {'d': [float(t) for t in d], 'e': [float(t) for t in e], 'w': [float(t) for t in w],
                     'U': [[float(t) for t in row] for row in np.asarray(U)]}
    if rec.exps:
        a, b = rec.exps[0]
        r['exp'] = {'arg': KC.c2j(a), 'val': KC.c2j(b)}
    if rec.expms:
        a, b = rec.expms[0]
        r['expm'] = {'arg': KC.c2j(a), 'val': KC.c2j(b)}
    r['ncalls'] = [len(rec.lanczos), len(rec.arnoldi), len(rec.eighs), len(rec.exps), len(rec.expms)]
    return r


def _krylov_basis(A, v, d):
    """orthonormal basis of the Krylov space by re-orthogonalised Gram-Schmidt (independent dense reference)"""
    Q = []
    x = v.astype(complex)
    for _ in range(d):
        for _ in range(2):
            for q in Q:
                x = x - np.vdot(q, x) * q
        x = x / np.linalg.norm(x)
        Q.append(x)
        x = A @ x
    return np.array(Q).T


def prop(case, r):
    msgs = []
    if 'error' in r:
        return ['routine raised %s' % r['error']]
    A, v = KC.make_arrays(case)
    A = np.asarray(A, dtype=complex)
    v = np.asarray(v, dtype=complex)
    n, m = case['n'], case['m']
    d = KC.krylov_dim(A, v)
    sc = np.abs(A).max() if np.abs(A).max() > 0 else 1.0
    it = r.get('lz') or r.get('ar')
    k = len(it['V']) if it else min(m, d)      # no recorded iteration (hook lost): the clauses on the returned quantities still apply
    if r['other_warnings']:
        msgs.append('unexpected warnings: %s' % r['other_warnings'])
    if k < min(m, d):
        msgs.append('iteration stopped at %d although the Krylov space has dimension %d' % (k, d))
    if case['kind'] == 'eigh':
        q = min(case['numeig'], k)
        w = np.array(r['w'])
        U = KC.j2c(r['u']).T if r['u'] else np.zeros((n, 0), dtype=complex)
        if r['wshape'] != [q] or r['ushape'] != [n, q]:
            return msgs + ['inconsistent output sizes w %s u %s (k=%d numeig=%d)' % (r['wshape'], r['ushape'], k, case['numeig'])]
        if not np.all(np.isfinite(w)) or not np.all(np.isfinite(U)):
            return msgs + ['non-finite output']
        lam = np.linalg.eigvalsh(A)
        ray = (np.vdot(v, A @ v) / np.vdot(v, v)).real
        if q >= 1:
            if w[0] < lam[0] - 1e-9 * sc:
                msgs.append('lowest Ritz value %.12g below the smallest eigenvalue %.12g' % (w[0], lam[0]))
            if w[0] > ray + 1e-9 * sc:
                msgs.append('lowest Ritz value %.12g above the Rayleigh quotient of the start vector %.12g' % (w[0], ray))
            if m >= d:
                Q = _krylov_basis(A, v, d)
                ref = np.linalg.eigvalsh(Q.conj().T @ A @ Q)[0]
                if abs(w[0] - ref) > 1e-8 * sc:
                    msgs.append('Krylov space exhausted but lowest Ritz value %.12g differs from the smallest reachable eigenvalue %.12g' % (w[0], ref))
        if k <= d:
            if np.abs(U.conj().T @ U - np.eye(q)).max() > 1e-8:
                msgs.append('Ritz vectors not orthonormal')
            if np.abs(np.diag(U.conj().T @ A @ U).real - w).max() > 1e-8 * sc if q else False:
                msgs.append('Ritz values are not the Rayleigh quotients of the Ritz vectors')
            if np.any(np.diff(w) < -1e-12 * sc):
                msgs.append('Ritz values not ascending')
    else:
        from scipy.linalg import expm
        dt = complex(*case['dt'])
        x = KC.j2c(r['x']) if r['x'] else np.zeros(0, dtype=complex)
        if r['xshape'] != [n]:
            return msgs + ['result has shape %s' % r['xshape']]
        if not np.all(np.isfinite(x)):
            return msgs + ['non-finite output']
        nv = np.linalg.norm(v)
        if case['hermitian'] and dt.real == 0:
            if abs(np.linalg.norm(x) - nv) > 1e-9 * (1 + nv):
                msgs.append('norm not preserved for imaginary time step: %.15g vs %.15g' % (np.linalg.norm(x), nv))
        if m >= d:
            Eref = expm(dt * A)
            ref = Eref @ v
            scale = nv * max(1.0, np.linalg.norm(Eref, 2))
            if np.abs(x - ref).max() > 1e-8 * scale:
                msgs.append('Krylov space exhausted (dim %d, numiter %d) but result differs from expm(dt A) v by %.3g' % (d, m, np.abs(x - ref).max()))
    return msgs


def _full(it):
    return len(it['V']) <= 2


def corpus():
    # pre-repair failing inputs of finding F9 (absolute breakdown test of the Lanczos iteration; recorded as K4 before the repair) - run first
    import json, os
    return (json.load(open(os.path.join(os.path.dirname(__file__), 'c15_k4_cases.json')))
            + [json.load(open(os.path.join(os.path.dirname(__file__), 'c15_k4b_case.json')))])      # open finding K4 (what F9 left over)


def finding_key(case, r, msgs):
    """open known finding K4 (the part fix F9 could not reach): the breakdown tolerance of lanczos_iteration is 100 n eps max(1, max|A v0|).
    When the start vector lies (numerically) in the KERNEL of an operator with entries >> 1, max|A v0| is rounding noise, the tolerance
    stays absolute, the noise of the vanishing residual (about 1e-16 max|A_ij|) passes it and eigh_krylov returns an eigenvalue that is
    not reachable from the start vector. Identified by: only this clause fails and a recorded loop norm lies in the noise window
    [tolerance of this call, 1e-6 max|A_ij|)"""
    if (case['kind'] == 'eigh' and 'error' not in r and len(msgs) == 1 and msgs[0].startswith('Krylov space exhausted but lowest Ritz value')
            and KC.ambiguous(r['norms'], case['n'], KC.case_scale(case), KC.case_thr(case))):
        return 'eigh-krylov-breakdown-test-kernel-start-large-operator'
    return None


def coq(case, r):
    if r.get('hook_lost'):
        return 'false'       # a name the recorder hooks into is gone from pytenet.krylov: the tie is broken
    if 'error' in r or case.get('mag'):
        return None      # magnitude regimes: implementation-level property only (the tolerances of the Coq-side oracle lookup are absolute)
    n, m = case['n'], case['m']
    if KC.ambiguous(r['norms'], n, KC.case_scale(case), KC.case_thr(case)):
        return None
    v = KC.j2c(case['v'])
    head = KC.lanczos_args(case, r, r['norms'])
    if case['kind'] == 'eigh':
        lz, eg = r['lz'], r['eigh']
        return 'check_eigh %s %s %s %s %s %s %s %s %s %s' % (
            head, E.boolean(_full(lz)), KC.cvec(v), E.nat(m), E.nat(case['numeig']), KC.lanczos_out(lz, r['warn']),
            KC.qdlist(eg['w']), KC.rmat(eg['U']), KC.qdlist(r['w']), KC.cmat(KC.j2c(r['u'])) if r['u'] else '[]')
    dt = KC.qdc(complex(*case['dt']))
    res = KC.cvec(KC.j2c(r['x']))
    if case['hermitian']:
        lz, eg, ex = r['lz'], r['eigh'], r['exp']
        etab = E.lst([E.pair(KC.qdc(a), KC.qdc(b)) for a, b in zip(KC.j2c(ex['arg']), KC.j2c(ex['val']))])
        return 'check_expm_h %s %s %s %s %s %s %s %s %s %s' % (
            head, E.boolean(_full(lz)), KC.cvec(v), dt, E.nat(m), KC.lanczos_out(lz, r['warn']),
            KC.qdlist(eg['w']), KC.rmat(eg['U']), etab, res)
    ar, em = r['ar'], r['expm']
    return 'check_expm_g %s %s %s %s %s %s %s %s %s' % (
        head, E.boolean(_full(ar)), KC.cvec(v), dt, E.nat(m), KC.arnoldi_out(ar, r['warn']),
        KC.cmat(KC.j2c(em['arg'])), KC.cmat(KC.j2c(em['val'])), res)


def klass(case, r):
    if 'error' in r:
        return '%s/error:%s' % (case['kind'], r['error'])
    it = r.get('lz') or r.get('ar')
    k = len(it['V'])
    n, m = case['n'], case['m']
    mm = 'm>n' if m > n else ('m=n' if m == n else 'm<n')
    term = 'breakdown' if r['warn'] else 'complete'
    amb = '/ambiguous' if KC.ambiguous(r['norms'], n, KC.case_scale(case), KC.case_thr(case)) else ''
    if case['kind'] == 'eigh':
        br = 'eigh'
    else:
        dt = complex(*case['dt'])
        br = 'expm-%s/dt-%s' % ('lanczos' if case['hermitian'] else ('arnoldi-hermA' if case['herm_matrix'] else 'arnoldi'),
                                'zero' if dt == 0 else 'imag' if dt.real == 0 else 'real' if dt.imag == 0 else 'cplx')
    return '%s/%s/%s/%s/%s%s' % (br, 'real' if case['real_A'] else 'cplx', case['spectrum'] if case['spectrum'] in ('generic', 'degenerate') else 'trivialA',
                                 mm, term, amb)


def nontrivial(case, r):
    it = r.get('lz') or r.get('ar') if 'error' not in r else None
    return bool(it) and len(it['V']) >= 2
