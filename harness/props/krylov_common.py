"""Shared helpers of the C14 / C15 plugins (pytenet/krylov.py): generators of small dyadic matrices and
start vectors, exact Krylov dimension, recording wrappers around the numerical primitives, Gallina emitters."""
import sys, warnings
from fractions import Fraction
import numpy as np
import emit as E

THR_AMBIG = 1e-6          # recorded loop norms in [100*n*eps, THR_AMBIG) : breakdown decision ill conditioned

COQ_PREAMBLE = 'Definition tol9 : Qc := Q2Qc (Qmake 1 1000000000).\n'


# ---------------------------------------------------------------- exact rationals
def dy(x):
    """float -> (mantissa, exponent) with x = mantissa / 2**exponent"""
    fr = Fraction(float(x))
    e = fr.denominator.bit_length() - 1
    assert fr.denominator == 1 << e
    return fr.numerator, e


def qd(x):
    n, e = dy(x)
    return '(qd %s %d%%N)' % (E.z(n), e)


def qdc(z):
    z = complex(z)
    a, ea = dy(z.real)
    b, eb = dy(z.imag)
    return '(qdc %s %d%%N %s %d%%N)' % (E.z(a), ea, E.z(b), eb)


def qdlist(xs):
    return E.lst([qd(x) for x in xs])


def cvec(xs):
    return E.lst([qdc(x) for x in xs])


def cmat(rows):
    return E.lst([cvec(r) for r in rows])


def rmat(rows):
    return E.lst([qdlist(r) for r in rows])


def c2j(a):
    """complex ndarray -> nested [re, im] lists (exact: floats survive JSON)"""
    a = np.asarray(a, dtype=complex)
    if a.ndim == 1:
        return [[float(z.real), float(z.imag)] for z in a]
    return [c2j(r) for r in a]


def j2c(l):
    a = np.array(l, dtype=float)
    return a[..., 0] + 1j * a[..., 1]


# ---------------------------------------------------------------- generators
def _house(rng, n, cplx):
    """dyadic Householder reflection I - 2 u u^H / (u^H u) with u^H u a power of two"""
    if n == 1:
        return np.eye(1, dtype=complex)
    nz = rng.choice([k for k in (2, 4) if k <= n])
    idx = rng.sample(range(n), nz)
    u = np.zeros(n, dtype=complex)
    for i in idx:
        u[i] = rng.choice([1, -1, 1j, -1j] if cplx else [1, -1])
    return np.eye(n, dtype=complex) - 2 * np.outer(u, u.conj()) / nz


def _rot(rng, n, cplx):
    H = _house(rng, n, cplx)
    if n >= 3 and rng.random() < 0.7:
        H = H @ _house(rng, n, cplx)
    return H


def _rand_c(rng, cplx, den=4, lim=8):
    re = rng.randint(-lim, lim) / den
    im = rng.randint(-lim, lim) / den if cplx else 0.0
    return complex(re, im)


def _rand_herm(rng, n, cplx):
    A = np.zeros((n, n), dtype=complex)
    for i in range(n):
        A[i, i] = rng.randint(-8, 8) / 4
        for j in range(i + 1, n):
            A[i, j] = _rand_c(rng, cplx)
            A[j, i] = A[i, j].conjugate()
    return A


def _rand_gen(rng, n, cplx):
    return np.array([[_rand_c(rng, cplx) for _ in range(n)] for _ in range(n)], dtype=complex)


def _rand_vec(rng, n, cplx):
    while True:
        v = np.array([_rand_c(rng, cplx, den=2, lim=6) for _ in range(n)], dtype=complex)
        if np.any(v != 0):
            return v


def gen_problem(rng, n, herm, cplx, spectrum, start):
    """returns (A, v, tag). spectrum: generic | degenerate | scalar | zero ; start: generic | real | invariant | eigvec"""
    if spectrum == 'zero':
        A = np.zeros((n, n), dtype=complex)
    elif spectrum == 'scalar':
        A = (rng.randint(-6, 6) / 2) * np.eye(n, dtype=complex)
    elif spectrum == 'degenerate':
        # few distinct integer eigenvalues, rotated by dyadic reflections (general: plus a nilpotent part)
        nd = rng.randint(2, 3) if n >= 4 else min(2, n)
        vals = rng.sample(range(-4, 5), nd)
        diag = vals + [rng.choice(vals) for _ in range(n - nd)]
        rng.shuffle(diag)
        D = np.diag([complex(x) for x in diag])
        if not herm:
            for i in range(n - 1):
                if rng.random() < 0.3:
                    D[i, i + 1] = _rand_c(rng, cplx)
        R = _rot(rng, n, cplx)
        A = R @ D @ R.conj().T
    else:
        A = _rand_herm(rng, n, cplx) if herm else _rand_gen(rng, n, cplx)
    if start in ('invariant', 'eigvec') and n >= 2:
        p = 1 if start == 'eigvec' else (rng.randint(2, n - 1) if n >= 3 else 1)
        B = _rand_herm(rng, p, cplx) if herm else _rand_gen(rng, p, cplx)
        Cb = _rand_herm(rng, n - p, cplx) if herm else _rand_gen(rng, n - p, cplx)
        M = np.zeros((n, n), dtype=complex)
        M[:p, :p] = B
        M[p:, p:] = Cb
        if not herm:
            for i in range(p):
                for j in range(p, n):
                    M[i, j] = _rand_c(rng, cplx)
        R = _rot(rng, n, cplx)
        A = R @ M @ R.conj().T
        x = np.zeros(n, dtype=complex)
        x[:p] = _rand_vec(rng, p, cplx)
        v = R @ x
    elif start == 'real':
        v = _rand_vec(rng, n, False)
    else:
        v = _rand_vec(rng, n, True)
    if not cplx:
        assert np.all(A.imag == 0)
    return A, v


# ---------------------------------------------------------------- exact Krylov dimension
def _frac_rank(rows):
    rows = [list(r) for r in rows]
    rank = 0
    ncol = len(rows[0]) if rows else 0
    for c in range(ncol):
        piv = None
        for r in range(rank, len(rows)):
            if rows[r][c] != 0:
                piv = r
                break
        if piv is None:
            continue
        rows[rank], rows[piv] = rows[piv], rows[rank]
        pv = rows[rank][c]
        for r in range(rank + 1, len(rows)):
            if rows[r][c] != 0:
                f = rows[r][c] / pv
                rows[r] = [a - f * b for a, b in zip(rows[r], rows[rank])]
        rank += 1
    return rank


def krylov_dim(A, v):
    """dimension of span_C{v, Av, A^2 v, ...} in exact rational arithmetic (real embedding)"""
    n = len(v)
    Ar = [[Fraction(float(A[i, j].real)) for j in range(n)] for i in range(n)]
    Ai = [[Fraction(float(A[i, j].imag)) for j in range(n)] for i in range(n)]
    xr = [Fraction(float(z.real)) for z in v]
    xi = [Fraction(float(z.imag)) for z in v]
    rows = []
    for _ in range(n):
        rows.append(xr + xi)                      # x
        rows.append([-t for t in xi] + xr)        # i x
        yr = [sum(Ar[i][j] * xr[j] - Ai[i][j] * xi[j] for j in range(n)) for i in range(n)]
        yi = [sum(Ar[i][j] * xi[j] + Ai[i][j] * xr[j] for j in range(n)) for i in range(n)]
        xr, xi = yr, yi
    r = _frac_rank(rows)
    assert r % 2 == 0
    return r // 2


def add_magnitudes(rng, cases, share=0.2):
    """magnitude regimes: the operator multiplied by a power of two (exact), the time step of expm_krylov divided by it, so
    that the mathematical answer is the same up to the factor; the breakdown test of the iterations is absolute
    (100 n eps), so factors stay above 2^-30 ~ 1e-9 (non-zero residual norms of the families here stay above 1e-11)"""
    for c in cases:
        if c.get('afunc') or c.get('start') == 'zero-vector' or c.get('spectrum') == 'zero' or rng.random() >= share:
            continue
        k = rng.choice([-30, -27, -24, -20, 20, 30])
        f = 2.0 ** k
        c['A'] = [[[re * f, im * f] for re, im in row] for row in c['A']] if c['A'] and isinstance(c['A'][0][0], (list, tuple)) else c['A']
        if 'dt' in c and c['dt'] is not None:
            c['dt'] = (c['dt'][0] / f, c['dt'][1] / f)
        c['mag'] = k


# ---------------------------------------------------------------- recording
class Recorder:
    """patches numpy.linalg.norm / numpy.exp (calls issued from pytenet/krylov.py only) and the names
    eigh_tridiagonal, expm, lanczos_iteration, arnoldi_iteration of pytenet.krylov while active"""

    def __init__(self):
        self.norms, self.exps, self.eighs, self.expms, self.lanczos, self.arnoldi, self.warns = [], [], [], [], [], [], []

    def __enter__(self):
        import pytenet.krylov as kr
        self.kr = kr
        self._norm, self._exp = np.linalg.norm, np.exp
        # names that a harmless refactoring may rename / import differently: hooks that cannot be placed are recorded in
        # `missing` (the correspondence then reports a broken tie, 'no-failing-input-found'); the implementation still runs
        self._saved = {k: getattr(kr, k) for k in ('eigh_tridiagonal', 'expm', 'lanczos_iteration', 'arnoldi_iteration') if hasattr(kr, k)}
        self.missing = [k for k in ('eigh_tridiagonal', 'expm', 'lanczos_iteration', 'arnoldi_iteration') if not hasattr(kr, k)]
        rec = self

        def from_krylov():
            return sys._getframe(2).f_code.co_filename.replace('\\', '/').endswith('pytenet/krylov.py')

        def norm(x, *a, **k):
            r = rec._norm(x, *a, **k)
            if from_krylov():
                rec.norms.append(float(r))
            return r

        def exp(x, *a, **k):
            r = rec._exp(x, *a, **k)
            if from_krylov():
                rec.exps.append((np.array(x, dtype=complex).ravel().copy(), np.array(r, dtype=complex).ravel().copy()))
            return r

        def eigh(d, e, *a, **k):
            w, u = rec._saved['eigh_tridiagonal'](d, e, *a, **k)
            rec.eighs.append((np.array(d, dtype=float).copy(), np.array(e, dtype=float).copy(), np.array(w).copy(), np.array(u).copy()))
            return w, u

        def expm(M, *a, **k):
            r = rec._saved['expm'](M, *a, **k)
            rec.expms.append((np.array(M, dtype=complex).copy(), np.array(r, dtype=complex).copy()))
            return r

        def lanczos(*a, **k):
            out = rec._saved['lanczos_iteration'](*a, **k)
            rec.lanczos.append(tuple(np.array(o).copy() for o in out))
            return out

        def arnoldi(*a, **k):
            out = rec._saved['arnoldi_iteration'](*a, **k)
            rec.arnoldi.append(tuple(np.array(o).copy() for o in out))
            return out

        np.linalg.norm, np.exp = norm, exp
        if 'eigh_tridiagonal' in self._saved:
            kr.eigh_tridiagonal = eigh
        if 'expm' in self._saved:
            kr.expm = expm
        self._cw = warnings.catch_warnings(record=True)
        self._wl = self._cw.__enter__()
        warnings.simplefilter('always')
        self._patch_iter = (lanczos, arnoldi)
        return self

    def patch_iterations(self):
        if 'lanczos_iteration' in self._saved:
            self.kr.lanczos_iteration = self._patch_iter[0]
        if 'arnoldi_iteration' in self._saved:
            self.kr.arnoldi_iteration = self._patch_iter[1]

    def __exit__(self, *exc):
        np.linalg.norm, np.exp = self._norm, self._exp
        for k, f in self._saved.items():
            setattr(self.kr, k, f)
        self.warns = [(w.category.__name__, str(w.message)) for w in self._wl]
        self._cw.__exit__(*exc)
        return False


def make_arrays(case):
    A = j2c(case['A'])
    v = j2c(case['v'])
    if case.get('real_A'):
        A = A.real.copy()
    if case.get('real_v'):
        v = v.real.copy()
    return A, v


def lanczos_json(out):
    alpha, beta, V = out
    return {'alpha': [float(x) for x in alpha], 'beta': [float(x) for x in beta], 'V': c2j(np.asarray(V).T),
            'Vshape': list(np.shape(V)), 'alpha_dtype': str(np.asarray(alpha).dtype), 'beta_dtype': str(np.asarray(beta).dtype)}


def arnoldi_json(out):
    H, V = out
    return {'H': c2j(H), 'Hshape': list(np.shape(H)), 'V': c2j(np.asarray(V).T), 'Vshape': list(np.shape(V))}


def thr_of(n, mag=1.0):
    """breakdown tolerance of lanczos_iteration / arnoldi_iteration: 100 n eps max(1, max_i |(A v0)_i|)"""
    return 100 * n * np.finfo(float).eps * max(1.0, float(mag))


def case_mag(case):
    """max_i |(A v0)_i| for the normalised start vector, computed exactly as krylov.py does (V[0] is a complex row)"""
    A, v = make_arrays(case)
    v = np.asarray(v)
    nv = np.linalg.norm(v)
    if not nv > 0:
        return 1.0
    V0 = np.zeros(len(v), dtype=complex)
    V0[:] = v / nv
    af = case.get('afunc')
    w = V0 if af == 'identity-alias' else (V0[::-1] if af == 'reverse-view' else A @ V0)
    return float(np.max(np.abs(w))) if len(w) else 1.0


def case_thr(case):
    return thr_of(len(case['v']), case_mag(case))


def case_scale(case):
    """largest modulus of an entry of the operator (1 for the zero operator)"""
    a = np.abs(j2c(case['A'])).max() if case['A'] else 0.0
    return float(a) if a > 0 else 1.0


def ambiguous(norms, n, scale=1.0, thr=None):
    """a loop norm close to (but not below) the breakdown threshold: floating point noise decides. The test of the code is
    absolute (100 n eps); rounding noise and genuine residuals both scale with the operator, hence the window does too"""
    t = thr_of(n) if thr is None else thr
    return any(t <= b < THR_AMBIG * scale for b in norms[1:])


# ---------------------------------------------------------------- numerical relations (stage C)
def tridiag(alpha, beta):
    k = len(alpha)
    T = np.diag(np.asarray(alpha, dtype=float)).astype(complex)
    for i in range(min(len(beta), k - 1)):
        T[i, i + 1] = T[i + 1, i] = beta[i]
    return T


def rel_lanczos(A, v, m, r, d, tol=1e-8):
    """violated clauses of C14 for a lanczos_iteration result r (json form); d = exact Krylov dimension"""
    msgs = []
    n = len(v)
    alpha, beta = np.array(r['alpha'], dtype=float), np.array(r['beta'], dtype=float)
    V = j2c(r['V']).T if r['V'] else np.zeros((n, 0), dtype=complex)
    k = V.shape[1]
    if list(r['Vshape']) != [n, k] or len(alpha) != k or len(beta) != k - 1 or not (1 <= k <= m):
        msgs.append('inconsistent output sizes: V %s alpha %d beta %d numiter %d' % (r['Vshape'], len(alpha), len(beta), m))
        return msgs
    if r['alpha_dtype'] != 'float64' or r['beta_dtype'] != 'float64':
        msgs.append('coefficients are not real arrays')
    if r['warn'] != (k < m):
        msgs.append('shortened output without breakdown warning or vice versa (k=%d, numiter=%d, warn=%s)' % (k, m, r['warn']))
    if k < min(m, d):
        msgs.append('iteration stopped at %d although the Krylov space has dimension %d' % (k, d))
    L = min(k, d)
    sc = np.abs(A).max() if np.abs(A).max() > 0 else 1.0
    VL = V[:, :L]
    if not np.all(np.isfinite(VL)) or not np.all(np.isfinite(alpha)) or not np.all(np.isfinite(beta)):
        msgs.append('non-finite output')
        return msgs
    if np.abs(VL.conj().T @ VL - np.eye(L)).max() > tol:
        msgs.append('Lanczos vectors not orthonormal')
    if abs(np.linalg.norm(v) * abs(np.vdot(V[:, 0], v)) - np.vdot(v, v).real) > tol * (1 + np.vdot(v, v).real):
        msgs.append('first Lanczos vector is not the normalised start vector')
    if np.any(beta[:L - 1] <= 0):
        msgs.append('off-diagonal coefficient not positive')
    T = tridiag(alpha[:L], beta[:max(L - 1, 0)])
    if np.abs(VL.conj().T @ (A @ VL) - T).max() > tol * sc:
        msgs.append('V^H A V differs from the tridiagonal matrix')
    if L >= 2:
        # three-term recurrence for the leading columns:  A V[:, :L-1] = V[:, :L] T[:L, :L-1]
        if np.abs(A @ VL[:, :L - 1] - VL @ T[:, :L - 1]).max() > tol * sc:
            msgs.append('three-term recurrence violated')
    if L == d and np.abs(A @ VL - VL @ T).max() > tol * sc:
        msgs.append('A V = V T violated although the Krylov space is exhausted')
    return msgs


def rel_arnoldi(A, v, m, r, d, tol=1e-8):
    msgs = []
    n = len(v)
    H = j2c(r['H']) if r['H'] else np.zeros((0, 0), dtype=complex)
    V = j2c(r['V']).T if r['V'] else np.zeros((n, 0), dtype=complex)
    k = V.shape[1]
    if list(r['Vshape']) != [n, k] or list(r['Hshape']) != [k, k] or not (1 <= k <= m):
        msgs.append('inconsistent output sizes: V %s H %s numiter %d' % (r['Vshape'], r['Hshape'], m))
        return msgs
    if r['warn'] != (k < m):
        msgs.append('shortened output without breakdown warning or vice versa (k=%d, numiter=%d, warn=%s)' % (k, m, r['warn']))
    if k < min(m, d):
        msgs.append('iteration stopped at %d although the Krylov space has dimension %d' % (k, d))
    L = min(k, d)
    sc = np.abs(A).max() if np.abs(A).max() > 0 else 1.0
    VL, HL = V[:, :L], H[:L, :L]
    if not np.all(np.isfinite(VL)) or not np.all(np.isfinite(HL)):
        msgs.append('non-finite output')
        return msgs
    if np.abs(VL.conj().T @ VL - np.eye(L)).max() > tol:
        msgs.append('Arnoldi vectors not orthonormal')
    if abs(np.linalg.norm(v) * abs(np.vdot(V[:, 0], v)) - np.vdot(v, v).real) > tol * (1 + np.vdot(v, v).real):
        msgs.append('first Arnoldi vector is not the normalised start vector')
    if np.any(np.tril(H, -2) != 0):
        msgs.append('H is not upper Hessenberg')
    sub = np.array([HL[j + 1, j] for j in range(L - 1)])
    if np.any(np.abs(sub.imag) > 0) or np.any(sub.real <= 0):
        msgs.append('subdiagonal of H not real positive')
    if np.abs(VL.conj().T @ (A @ VL) - HL).max() > tol * sc:
        msgs.append('V^H A V differs from H')
    if L >= 2 and np.abs(A @ VL[:, :L - 1] - VL @ HL[:, :L - 1]).max() > tol * sc:
        msgs.append('Arnoldi relation A v_j = sum_i H_ij v_i violated')
    if L == d and np.abs(A @ VL - VL @ HL).max() > tol * sc:
        msgs.append('A V = V H violated although the Krylov space is exhausted')
    return msgs


# ---------------------------------------------------------------- Gallina terms
def lanczos_args(case, lz, norms):
    """tol thr A rs ... for check_lanczos and friends"""
    A = j2c(case['A'])
    return 'QcF tol9 %s %s %s' % (qd(case_thr(case)), cmat(A), qdlist(norms))


def lanczos_out(lz, warn):
    return '%s %s %s %s' % (qdlist(lz['alpha']), qdlist(lz['beta']), cmat(j2c(lz['V'])) if lz['V'] else '[]', E.boolean(warn))


def arnoldi_out(ar, warn):
    return '%s %s %s' % (cmat(j2c(ar['H'])) if ar['H'] else '[]', cmat(j2c(ar['V'])) if ar['V'] else '[]', E.boolean(warn))
