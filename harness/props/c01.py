"""C01 — orthonormalization never changes the represented state / operator (MPS and MPO, left and right)."""
import numpy as np
import gen as G
import emit as E

PROP = 'C01'
COQ_IMPORTS = ['PT.Base.Scalar']
FORM = 'see coq(): replay of the local QR steps (form R) where the model is available'
RULE = ('L in 1..5, d in 1..3, bond profiles incl. 1, over-complete and rank-deficient bonds, charge classes '
        '(zero/sorted/unsorted/repeated/large, sector-disjoint giving the zero state), real/complex/int entries, '
        'mode left/right, class MPS/MPO; non-trivial = L >= 2 and some bond dimension >= 2; distinct by full input digest')
IMPL_PARALLEL = True
TOL = 1e-9


def cases(rng, tier):
    n = {'quick': 260, 'thorough': 3000, 'search': 300}[tier]
    out = []
    for k in range(n):
        out.append({'seed': rng.getrandbits(30), 'cls': rng.choice(['mps', 'mps', 'mpo']), 'mode': rng.choice(['left', 'right']),
                    'L': rng.choice([1, 1, 2, 2, 3, 3, 4, 5]), 'd': rng.choice([1, 2, 2, 3]),
                    'qclass': rng.choice(G.QCLASSES), 'dtype': rng.choice(['complex', 'complex', 'real', 'int']),
                    'entries': rng.choice(['float', 'int']), 'connected': rng.random() < 0.85,
                    'rankdef': rng.random() < 0.3, 'Dmax': rng.choice([1, 2, 3, 5])})
    return out


def build(case):
    rs = np.random.default_rng(case['seed'])
    L, d = case['L'], case['d']
    if case['cls'] == 'mps':
        return G.rand_mps(rs, L, d, qclass=case['qclass'], Dmax=case['Dmax'], dtype=case['dtype'], entries=case['entries'],
                          connected=case['connected'], rank_deficient=case['rankdef'])
    if d == 3 and L >= 4:
        L = 3
    return G.rand_mpo(rs, L, d, qclass=case['qclass'], Dmax=min(case['Dmax'], 3), dtype=case['dtype'], entries=case['entries'])


def impl(case):
    import pytenet as ptn
    obj = build(case)
    is_mps = case['cls'] == 'mps'
    dense = G.mps_dense if is_mps else G.mpo_dense
    v0 = dense(obj.A)
    dims0 = list(obj.bond_dims)
    q_first, q_last = obj.qD[0].copy(), obj.qD[-1].copy()
    d = len(obj.qd)
    try:
        nrm = obj.orthonormalize(mode=case['mode'])
    except Exception as e:
        return {'error': type(e).__name__, 'detail': str(e)[:200]}
    v1 = dense(obj.A)
    n0 = float(np.linalg.norm(v0))
    res = {'nrm': float(np.real(nrm)), 'nrm_imag': float(np.imag(nrm)), 'norm0': n0,
           'state_resid': float(np.linalg.norm(nrm * v1 - v0)) / (1.0 + n0),
           'norm_after': float(np.linalg.norm(v1)), 'dims0': dims0, 'dims1': [int(x) for x in obj.bond_dims],
           'sparsity': (G.mps_sparsity_ok(obj) if is_mps else G.mpo_sparsity_ok(obj)),
           'qtotal_kept': bool(np.array_equal(obj.qD[0], q_first) and np.array_equal(obj.qD[-1], q_last))}
    iso = []
    for i, A in enumerate(obj.A):
        if is_mps:
            M = A.reshape(A.shape[0] * A.shape[1], A.shape[2]) if case['mode'] == 'left' else A.transpose(1, 0, 2).reshape(A.shape[1], -1)
        else:
            M = A.reshape(-1, A.shape[3]) if case['mode'] == 'left' else A.transpose(2, 0, 1, 3).reshape(A.shape[2], -1)
        if case['mode'] == 'left':
            iso.append(float(np.linalg.norm(M.conj().T @ M - np.identity(M.shape[1]))))
        else:
            iso.append(float(np.linalg.norm(M @ M.conj().T - np.identity(M.shape[0]))))
    res['iso'] = iso
    # bond bound: D'_{i+1} <= min(pd * D'_i, D_{i+1}) for left sweeps, mirrored for right sweeps
    pd = d if is_mps else d * d
    D0, D1 = dims0, res['dims1']
    ok = True
    if case['mode'] == 'left':
        for i in range(len(D1) - 1):
            if D1[i + 1] > min(pd * D1[i], D0[i + 1]):
                ok = False
    else:
        for i in reversed(range(1, len(D1))):
            if D1[i - 1] > min(pd * D1[i], D0[i - 1]):
                ok = False
    res['bond_bound_ok'] = ok and D1[0] == 1 and D1[-1] == 1
    return res


def prop(case, r):
    if 'error' in r:
        return ['orthonormalize raised %s: %s' % (r['error'], r.get('detail', ''))]
    msgs = []
    n0 = r['norm0']
    if r['nrm'] < 0 or abs(r['nrm_imag']) > 0:
        msgs.append('returned factor %r is not a non-negative real number' % r['nrm'])
    if abs(r['nrm'] - n0) > TOL * (1 + n0):
        msgs.append('returned factor %.12g differs from the norm %.12g of the original' % (r['nrm'], n0))
    if r['state_resid'] > TOL:
        msgs.append('factor * new dense object differs from the original (relative %.3g)' % r['state_resid'])
    # isometry: in the sector-disjoint (zero) case the dummy bond branch still yields isometries (Q = e_0)
    if max(r['iso'] + [0]) > 1e-8:
        msgs.append('site tensor not an isometry in the chosen direction (residual %.3g)' % max(r['iso']))
    if n0 > 1e-12 and abs(r['norm_after'] - 1) > 1e-8:
        msgs.append('norm after orthonormalization is %.12g, not 1' % r['norm_after'])
    if not r['bond_bound_ok']:
        msgs.append('a bond is larger than the neighbouring dimensions allow: %s -> %s' % (r['dims0'], r['dims1']))
    if r['sparsity']:
        msgs.append('block sparsity / list lengths broken: %s' % r['sparsity'])
    if n0 > 1e-12 and not r['qtotal_kept']:
        msgs.append('leading/trailing bond quantum numbers changed for a non-zero object')
    return msgs


def coq(case, r):
    return None


def klass(case, r):
    if 'error' in r:
        return 'error'
    z = 'zero' if r['norm0'] < 1e-12 else 'nonzero'
    shrink = 'shrunk' if r['dims1'] != r['dims0'] else 'same-dims'
    return '%s/%s/L%d/%s/%s/%s' % (case['cls'], case['mode'], min(case['L'], 3), case['qclass'], z, shrink)


def nontrivial(case, r):
    return 'error' not in r and case['L'] >= 2 and max(r['dims0']) >= 2
