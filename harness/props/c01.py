"""C01 — orthonormalization never changes the represented state / operator (MPS and MPO, left and right)."""
import numpy as np
import gen as G
import emit as E
import bondops_common as BC
import orth_common as OC

PROP = 'C01'
COQ_IMPORTS = OC.COQ_IMPORTS
COQ_PREAMBLE = OC.COQ_PREAMBLE
SHARD = 6
FORM = ('R (replay of the whole sweep): on the replayed subset (L <= 3, bond dimensions <= 3, MPO with d <= 2; at most %d + 24 charged-bond MPO cases in quick) every '
        'numpy.linalg.qr call issued during MPS/MPO.orthonormalize is recorded; input tensors, charges and the recorded (argument, Q, R) table are '
        'shipped as exact rationals and Model/Orthonormalize.v mps_orthonormalize / mpo_orthonormalize is evaluated by vm_compute over Q(i) with the table '
        '(nearest recorded argument, entry-wise 1e-9*(1+scale)) as oracle; compared inside Coq: qd and every qD exactly, all shapes exactly, every tensor '
        'entry and the returned factor within 1e-9*(1+scale) in exact rational arithmetic; an oracle lookup miss makes the model fail = mismatch. '
        'Cases whose recorded table is ambiguous for a nearest-argument lookup are skipped (class suffix /amb). All generated cases go through prop.' % 110)
TRUSTED = ['hand-written Gallina mirror of MPS.orthonormalize / MPO.orthonormalize and their local QR functions (Model/Orthonormalize.v, on top of Model/BondOps.v block_qr) tied to the code by the replay on every run',
           'numpy.linalg.qr (LAPACK geqrf/orgqr): contract Q R = B, Q^H Q = I, shapes, real diagonal of R; assumed in the theorems only for the issued calls; measured on every recorded call (1e-12; diagonal exactly real)',
           'the MPO statements are about the MPS view (pair (s,t) as physical index s*d+t, charge qd[s]-qd[t]); the view itself is validated by the replay of MPO.orthonormalize',
           'independent numpy re-implementation of the clauses (dense contraction) in harness/props/c01.py (search only)']
PARTIAL = ('proved for all inputs (Properties/C01.v, all closed under the global context): C01_orth_left_spec, C01_orth_right_spec (MPS) and C01_mpo_orth_left_spec, '
           'C01_mpo_orth_right_spec (MPO through the physical-pair view): for every ordered field, L >= 1, d >= 1, bond profile with first/last dimension 1 and all bonds >= 1, '
           'all charges, every well-formed block-sparse object and every QR oracle meeting LAPACK\'s contract (shapes, Q R = B, Q^H Q = I, real diagonal of R) on the issued calls: '
           'the model does not fail; factor >= 0; amp psi w = factor * amp psi\' w for every word; factor^2 = <psi|psi>; <psi\'|psi\'> = 1 (also for zero states); every site an '
           'isometry in the sweep direction; result well-formed and block sparse under the new bond charges; new bond <= min(pd * previous new bond, old bond); '
           'C01_orth_empty (no sites: returns 1). '
           'Validated numerically on every generated input only: that numpy.linalg.qr meets the contract (measured per call), rounding (isometry exact in the theorem, 1e-8 in prop), '
           'that the code computes what the model computes (replay, form R, on the replayed subset).')
ASSUMPTIONS = ['binary64 values are read as exact rationals; float arithmetic after a primitive (R @ Anext) is compared with tolerance 1e-9*(1+scale)']
NREPLAY = {'quick': 110, 'thorough': 600, 'search': 0}
NREPLAY_CHARGED = {'quick': 24, 'thorough': 150, 'search': 0}
RULE = ('L in 1..5, d in 1..3, bond profiles incl. 1, over-complete and rank-deficient bonds, charge classes '
        '(zero/sorted/unsorted/repeated/large, sector-disjoint giving the zero state), real/complex/int entries, '
        'mode left/right, class MPS/MPO, plus an MPO stream with bond charges drawn from the differences qd[s]-qd[t]; non-trivial = L >= 2 and some bond dimension >= 2; distinct by full input digest')
IMPL_PARALLEL = True
TOL = 1e-9


def cases(rng, tier):
    n = {'quick': 520, 'thorough': 3000, 'search': 300}[tier]
    out = []
    for k in range(n):
        out.append({'seed': rng.getrandbits(30), 'cls': rng.choice(['mps', 'mps', 'mpo']), 'mode': rng.choice(['left', 'right']),
                    'L': rng.choice([1, 1, 2, 2, 3, 3, 4, 5]), 'd': rng.choice([1, 2, 2, 3]),
                    'qclass': rng.choice(G.QCLASSES), 'dtype': rng.choice(['complex', 'complex', 'real', 'int']),
                    'entries': rng.choice(['float', 'int']), 'connected': rng.random() < 0.85,
                    'rankdef': rng.random() < 0.3, 'Dmax': rng.choice([1, 2, 3, 5])})
    # additional MPO stream with charged bonds (bond charges drawn from the differences qd[s] - qd[t], so that off-diagonal
    # blocks s != t are populated); appended after the original stream, which is left unchanged
    for k in range({'quick': 80, 'thorough': 400, 'search': 40}[tier]):
        out.append({'seed': rng.getrandbits(30), 'cls': 'mpo', 'mode': rng.choice(['left', 'right']), 'L': rng.choice([1, 2, 2, 3, 3, 4]),
                    'd': rng.choice([2, 2, 3]), 'qclass': 'charged', 'dtype': rng.choice(['complex', 'real']), 'entries': rng.choice(['float', 'int']),
                    'connected': True, 'rankdef': False, 'Dmax': rng.choice([2, 3]), 'charged': True})
    for k in range({'quick': 10, 'thorough': 60, 'search': 10}[tier]):
        out.append({'seed': rng.getrandbits(30), 'cls': 'mps', 'mode': rng.choice(['left', 'right']), 'L': rng.choice([3, 4, 4]), 'd': 4,
                    'qclass': 'fermi', 'dtype': rng.choice(['complex', 'real']), 'entries': 'float', 'connected': True, 'rankdef': False,
                    'Dmax': 16, 'fermi': True})
    # per-site dtypes (a real or integer tensor is swept before / after a complex one) and magnitude regimes (every tensor times a
    # power of two: exact; the norm of the whole object goes down to 2^-150 or up to 2^100)
    for c in out:
        u = rng.random()
        if u < 0.15 and c['L'] >= 2:
            c['dtype'] = 'complex'
            c['sitedtypes'] = [rng.choice(['real', 'complex', 'int' if c['entries'] == 'int' else 'real']) for _ in range(c['L'])]
        elif u < 0.30:
            c['mag'] = rng.choice([-30, -24, -20, -10, 20])
        if rng.random() < 0.2:
            c['layout'] = rng.randrange(1, 4)
    # the replayed subset (correspondence inside Coq): small enough for exact rational arithmetic
    left = NREPLAY[tier]
    left_c = NREPLAY_CHARGED[tier]
    for c in out:
        small = c['L'] <= 3 and c['Dmax'] <= 3 and (c['cls'] == 'mps' or c['d'] <= 2) and not c.get('mag')   # the Coq-side tolerances are absolute
        if small and c.get('charged') and left_c > 0:
            c['replay'] = True
            left_c -= 1
        elif small and not c.get('charged') and left > 0:
            c['replay'] = True
            left -= 1
    return out


def _charged_mpo(rs, L, d, Dmax, dtype, entries):
    import pytenet as ptn
    while True:
        qd = rs.integers(-1, 2, size=d)
        if len(set(int(x) for x in qd)) > 1:
            break
    if d == 3 and L >= 4:
        L = 3
    dims = [1] + [int(rs.integers(1, Dmax + 1)) for _ in range(L - 1)] + [1]
    diffs = sorted({int(a) - int(b) for a in qd for b in qd})
    qD = [np.array([int(rs.choice(diffs)) for _ in range(D)], dtype=int) for D in dims]
    qD[0] = np.array([0])
    qD[-1] = np.array([int(rs.choice(diffs))]) if L > 1 and rs.random() < 0.5 else np.array([0])
    op = ptn.MPO(qd, qD, fill='postpone')
    for i in range(L):
        mask = ptn.qnumber_outer_sum([op.qd, -op.qd, op.qD[i], -op.qD[i + 1]]) == 0
        op.A[i] = G.fill_tensor(rs, mask.shape, mask, entries, dtype)
    return op


def build(case):
    obj = _build(case)
    for i, t in enumerate(case.get('sitedtypes') or []):
        if i < len(obj.A) and t != 'complex':
            obj.A[i] = np.ascontiguousarray(obj.A[i].real).astype(np.int64 if t == 'int' else np.float64)
    if case.get('mag'):
        f = 2.0 ** case['mag']
        obj.A = [a * f for a in obj.A]
    if case.get('layout'):
        # site tensors in other memory layouts (Fortran order, non-contiguous views, negative strides)
        obj.A = [G.relayout(a, case['layout'] + i) for i, a in enumerate(obj.A)]
    return obj


def _build(case):
    rs = np.random.default_rng(case['seed'])
    if case.get('fermi'):
        # Fermi-Hubbard sector structure: encoded charge pairs (N << 16) + S, several S per N on every bond, N up to 2 L
        import tdgen as T
        H = T.hamiltonian('fermi', case['L'], rs)
        return T.state(H, rs, complete=True, dtype=case['dtype'])
    L, d = case['L'], case['d']
    if case.get('charged'):
        return _charged_mpo(rs, L, d, case['Dmax'], case['dtype'], case['entries'])
    if case['cls'] == 'mps':
        return G.rand_mps(rs, L, d, qclass=case['qclass'], Dmax=case['Dmax'], dtype=case['dtype'], entries=case['entries'],
                          connected=case['connected'], rank_deficient=case['rankdef'])
    if d == 3 and L >= 4:
        L = 3
    return G.rand_mpo(rs, L, d, qclass=case['qclass'], Dmax=min(case['Dmax'], 3), dtype=case['dtype'], entries=case['entries'])


def impl(case):
    import pytenet as ptn
    obj = build(case)
    is_mps = case['cls'] == 'mps'
    dense = G.mps_dense if is_mps else G.mpo_dense
    v0 = dense(obj.A)
    dims0 = list(obj.bond_dims)
    q_first, q_last = obj.qD[0].copy(), obj.qD[-1].copy()
    d = len(obj.qd)
    rec = BC.Recorder()
    inp = OC.obj_to_json(obj) if case.get('replay') else None
    try:
        with rec.patch_qr():
            nrm = obj.orthonormalize(mode=case['mode'])
    except Exception as e:
        return {'error': type(e).__name__, 'detail': str(e)[:200]}
    v1 = dense(obj.A)
    n0 = float(np.linalg.norm(v0))
    res = {'nrm': float(np.real(nrm)), 'nrm_imag': float(np.imag(nrm)), 'norm0': n0,
           'state_resid': float(np.linalg.norm(nrm * v1 - v0)) / (n0 if n0 > 0 else 1.0),
           'norm_after': float(np.linalg.norm(v1)), 'dims0': dims0, 'dims1': [int(x) for x in obj.bond_dims],
           'sparsity': (G.mps_sparsity_ok(obj) if is_mps else G.mpo_sparsity_ok(obj)),
           'qtotal_kept': bool(np.array_equal(obj.qD[0], q_first) and np.array_equal(obj.qD[-1], q_last))}
    iso = []
    for i, A in enumerate(obj.A):
        if is_mps:
            M = A.reshape(A.shape[0] * A.shape[1], A.shape[2]) if case['mode'] == 'left' else A.transpose(1, 0, 2).reshape(A.shape[1], -1)
        else:
            M = A.reshape(-1, A.shape[3]) if case['mode'] == 'left' else A.transpose(2, 0, 1, 3).reshape(A.shape[2], -1)
        if case['mode'] == 'left':
            iso.append(float(np.linalg.norm(M.conj().T @ M - np.identity(M.shape[1]))))
        else:
            iso.append(float(np.linalg.norm(M @ M.conj().T - np.identity(M.shape[0]))))
    res['iso'] = iso
    # bond bound: D'_{i+1} <= min(pd * D'_i, D_{i+1}) for left sweeps, mirrored for right sweeps
    pd = d if is_mps else d * d
    D0, D1 = dims0, res['dims1']
    ok = True
    if case['mode'] == 'left':
        for i in range(len(D1) - 1):
            if D1[i + 1] > min(pd * D1[i], D0[i + 1]):
                ok = False
    else:
        for i in reversed(range(1, len(D1))):
            if D1[i - 1] > min(pd * D1[i], D0[i - 1]):
                ok = False
    res['bond_bound_ok'] = ok and D1[0] == 1 and D1[-1] == 1
    calls = OC.qr_calls_json(rec)
    res['lapack'] = OC.qr_contract_msgs(calls)
    res['ncalls'] = len(calls)
    if inp is not None:
        res['rec'] = {'inp': inp, 'out': OC.obj_to_json(obj), 'calls': calls}
    return res


def prop(case, r):
    if 'error' in r:
        return ['orthonormalize raised %s: %s' % (r['error'], r.get('detail', ''))]
    msgs = []
    n0 = r['norm0']
    zthr = 1e-12 * 2.0 ** (case.get('mag', 0) * case['L'])      # 'zero object' threshold follows the magnitude regime
    if r['nrm'] < 0 or abs(r['nrm_imag']) > 0:
        msgs.append('returned factor %r is not a non-negative real number' % r['nrm'])
    if abs(r['nrm'] - n0) > TOL * (n0 if n0 > zthr else max(zthr, 1e-300) / 1e-12 if case.get('mag') else 1 + n0):
        msgs.append('returned factor %.12g differs from the norm %.12g of the original' % (r['nrm'], n0))
    if r['state_resid'] > TOL:
        msgs.append('factor * new dense object differs from the original (relative %.3g)' % r['state_resid'])
    # isometry: in the sector-disjoint (zero) case the dummy bond branch still yields isometries (Q = e_0)
    if max(r['iso'] + [0]) > 1e-8:
        msgs.append('site tensor not an isometry in the chosen direction (residual %.3g)' % max(r['iso']))
    if n0 > zthr and abs(r['norm_after'] - 1) > 1e-8:
        msgs.append('norm after orthonormalization is %.12g, not 1' % r['norm_after'])
    if not r['bond_bound_ok']:
        msgs.append('a bond is larger than the neighbouring dimensions allow: %s -> %s' % (r['dims0'], r['dims1']))
    if r['sparsity']:
        msgs.append('block sparsity / list lengths broken: %s' % r['sparsity'])
    if n0 > zthr and not r['qtotal_kept']:
        msgs.append('leading/trailing bond quantum numbers changed for a non-zero object')
    msgs += r.get('lapack', [])
    return msgs


def _replay(case, r):
    """(eps, ambiguous) for a replayed case, None if the case is not replayed"""
    if 'error' in r or 'rec' not in r:
        return None
    rc = r['rec']
    scale = max(OC.scale_of(rc['inp']['A'], rc['out']['A'], [c[k] for c in rc['calls'] for k in ('arg', 'Q', 'R')]), abs(r['nrm']))
    eps = OC.eps_for(scale)
    amb = OC.lookup_ambiguous([OC.j2t(c['arg']) for c in rc['calls']], [(OC.j2t(c['Q']), OC.j2t(c['R'])) for c in rc['calls']], float(eps))
    return eps, amb


def coq(case, r):
    rp = _replay(case, r)
    if rp is None or rp[1]:
        return None
    eps, _ = rp
    rc = r['rec']
    left = E.boolean(case['mode'] == 'left')
    if case['cls'] == 'mps':
        return 'check_orth_mps (F:=QcF) %s %s %s %s %s %s' % (left, E.qc(eps), OC.qr_table(rc['calls']), OC.mps_lit(rc['inp']),
                                                              OC.mps_lit(rc['out']), E.qc(r['nrm']))
    return 'check_orth_mpo (F:=QcF) %s %s %s %s %s %s' % (left, E.qc(eps), OC.qr_table(rc['calls']), OC.mpo_lit(rc['inp']),
                                                          OC.mpo_lit(rc['out']), E.qc(r['nrm']))


def coq_diag(case, r):
    rp = _replay(case, r)
    if rp is None:
        return 'true'
    eps, _ = rp
    rc = r['rec']
    left = E.boolean(case['mode'] == 'left')
    if case['cls'] == 'mps':
        return 'mps_orthonormalize (F:=QcF) (qr_aoracle %s %s) %s %s' % (E.qc(eps), OC.qr_table(rc['calls']), left, OC.mps_lit(rc['inp']))
    return 'mpo_orthonormalize (F:=QcF) (qr_aoracle %s %s) %s %s' % (E.qc(eps), OC.qr_table(rc['calls']), left, OC.mpo_lit(rc['inp']))


def klass(case, r):
    if 'error' in r:
        return 'error'
    z = 'zero' if r['norm0'] < 1e-12 * 2.0 ** (case.get('mag', 0) * case['L']) else 'nonzero'
    shrink = 'shrunk' if r['dims1'] != r['dims0'] else 'same-dims'
    rp = _replay(case, r)
    tag = '' if rp is None else ('/replayed-amb' if rp[1] else '/replayed')
    return '%s/%s/L%d/%s/%s/%s%s' % (case['cls'], case['mode'], min(case['L'], 3), case['qclass'], z, shrink, tag)


def nontrivial(case, r):
    return 'error' not in r and case['L'] >= 2 and max(r['dims0']) >= 2
