"""C18 — Hopcroft-Karp matching and Koenig vertex cover (pytenet/bipartite_graph.py)."""
import itertools, random
import emit as E

PROP = 'C18'
COQ_IMPORTS = ['PT.Model.Bipartite']
FORM = 'E (exact): model evaluated by vm_compute on the same edge lists; matching and both cover lists compared exactly'
RULE = ('quick: every edge set of every partition up to 3x3 and of the rectangular partitions 3x4, 4x3, 2x5, 5x2 (edge list in seeded random order, sometimes with duplicates) '
        'plus seeded samples of 4x4, 5x5 and larger graphs of all densities, long augmenting-path families; '
        'thorough: additionally every 4x4 edge set and more/larger samples. '
        'non-trivial = at least two edges sharing a vertex (matching < number of edges possible); distinct by (nu, nv, edge list)')
SHARD = 400
IMPL_PARALLEL = True
TRUSTED = ['hand-written Gallina mirror of bipartite_graph.py (Model/Bipartite.v) tied to the code by exact agreement on every generated graph',
           'brute-force / augmenting-path reference implementations in harness/props/c18.py (search only)']
PARTIAL = ('Nothing in the property statement is left unproved about the model. Proved in Coq for ALL graphs and sizes '
           '(Properties/C18.v, every theorem closed under the global context): '
           'C18_mvc_total — for every in-range edge list (no edges and duplicate edges included) HopcroftKarp() and minimum_vertex_cover() '
           'both return: no fuel of outer (nu+2 phases) / bfs_loop (nu+2 dequeues) / dfs / explore (depth nu+2) is exhausted and the size '
           'assertion |cover| = |matching| passes; the matching consists of existing pairwise vertex-disjoint edges and is MAXIMUM; the cover '
           'lists are in range, strictly increasing, touch every edge, have total size equal to the maximum matching size (Koenig) and are '
           'therefore MINIMUM. Intermediate theorems: C18_mk_bg_edges (constructor: edge set = list, duplicates suppressed, adj_v transpose of adj_u), '
           'C18_hk_matching_valid (mu/mv invariant through bfs/dfs/phase/outer), C18_hk_maximum and C18_hk_total_maximum (HopcroftKarp() alone '
           'terminates and is maximum: BFS layering invariant, a failing DFS removes only vertices without layered path to NIL, every phase augments), '
           'C18_bfs_terminates, C18_konig_cover_valid / C18_cover_of_any_matching (cover valid for any matching), C18_weak_duality, '
           'C18_certificate_optimal, C18_mvc_certified, C18_checkers_sound. '
           'Outside the model, hence not covered by these theorems: the interpreter recursion limit (see assumptions); the link between model '
           'and code is the exact correspondence check on the generated graphs.')
ASSUMPTIONS = ['CPython set iteration order does not influence minimum_vertex_cover (results are combined by set operations and sorted)',
               'the recursion of __add_augmenting_path and _explore_alternating_paths stays below sys.getrecursionlimit(): the proved depth bound is '
               'num_u + 2, but with the default limit of 1000 a graph with an alternating path through more than ~1000 U-vertices makes the real '
               'routines raise RecursionError (observed: n=1200, edges (i,i) for i<n-1, (i,i-1) for i>=1, (0,n-1): HopcroftKarp() and '
               'minimum_vertex_cover() both raise RecursionError; n=600 is fine)']


def _shuffle_dup(rng, edges):
    edges = list(edges)
    rng.shuffle(edges)
    if edges and rng.random() < 0.3:
        for _ in range(rng.randint(1, 3)):
            edges.insert(rng.randrange(len(edges) + 1), rng.choice(edges))
    return edges


def _all_edge_sets(a, b):
    pairs = [(u, v) for u in range(a) for v in range(b)]
    for mask in range(1 << len(pairs)):
        yield [pairs[k] for k in range(len(pairs)) if mask >> k & 1]


def _random_graph(rng, a, b, p):
    return [(u, v) for u in range(a) for v in range(b) if rng.random() < p]


def _path_family(rng, n):
    # u_i -- v_i and u_{i+1} -- v_i : forces long augmenting paths depending on order
    edges = []
    for i in range(n):
        edges.append((i, i))
        if i + 1 < n:
            edges.append((i + 1, i))
    return edges


def _staircases(rng, sizes, shuffle_components=False):
    """many-phase family: disjoint components; the component of size k has edges (u_i, v_{i+1}) [listed first] and (u_i, v_i):
    the greedy first phase leaves u_k free and the only augmenting path of that component runs through all its 2k vertices,
    so components of pairwise different sizes force one Hopcroft-Karp phase per size"""
    comps = list(sizes)
    if shuffle_components:
        rng.shuffle(comps)
    edges, off = [], 0
    for k in comps:
        for i in range(k):
            if i + 1 < k:
                edges.append((off + i, off + i + 1))
            edges.append((off + i, off + i))
        off += k
    return off, edges


def cases(rng, tier):
    out = []
    def add(a, b, edges):
        out.append({'nu': a, 'nv': b, 'edges': [list(e) for e in edges]})
    if tier in ('quick', 'thorough'):
        for a in range(1, 4):
            for b in range(1, 4):
                for es in _all_edge_sets(a, b):
                    add(a, b, _shuffle_dup(rng, es))
    # rectangular partitions exhaustively as well (index arithmetic that confuses num_u and num_v shows only for num_u != num_v)
    if tier in ('quick', 'thorough'):
        for a, b in ((3, 4), (4, 3), (2, 5), (5, 2)):
            for es in _all_edge_sets(a, b):
                add(a, b, _shuffle_dup(rng, es))
    if tier == 'thorough':
        for es in _all_edge_sets(4, 4):
            add(4, 4, _shuffle_dup(rng, es))
        for es in _all_edge_sets(3, 5):
            add(3, 5, _shuffle_dup(rng, es))
    n_s = {'quick': 600, 'thorough': 6000, 'search': 1500}[tier]
    for _ in range(n_s):
        a, b = rng.choice([(4, 4), (4, 4), (5, 5), (3, 5), (5, 2), (4, 6), (6, 6), (2, 7)])
        add(a, b, _shuffle_dup(rng, _random_graph(rng, a, b, rng.choice([0.1, 0.3, 0.5, 0.7, 0.9]))))
    n_l = {'quick': 40, 'thorough': 400, 'search': 60}[tier]
    for _ in range(n_l):
        a, b = rng.randint(7, 60 if tier != 'quick' else 25), rng.randint(7, 60 if tier != 'quick' else 25)
        add(a, b, _shuffle_dup(rng, _random_graph(rng, a, b, rng.choice([0.02, 0.05, 0.1, 0.3, 0.6, 0.95]))))
    # graphs that need many phases (more than sqrt(num_u))
    for sizes in ([[2, 3, 4, 5], [1, 2, 3, 4, 5, 6], [3, 5, 7, 9]] if tier != 'thorough' else
                  [[2, 3, 4, 5], [1, 2, 3, 4, 5, 6], [3, 5, 7, 9], [1, 2, 3, 4, 5, 6, 7, 8, 9], [2, 4, 6, 8, 10, 12]]):
        n, e = _staircases(rng, sizes)
        add(n, n, e)
        n, e = _staircases(rng, sizes, shuffle_components=True)
        add(n, n, e)
    # several hundred vertices (the graphs met by the optimized molecular construction have 49 x 484 vertices at L = 9): implementation
    # level only (maximum matching and Koenig cover against the independent references)
    for a, b, p in {'quick': ((49, 484, 0.03), (300, 280, 0.008), (600, 30, 0.05)),
                    'thorough': ((49, 484, 0.03), (300, 280, 0.008), (600, 30, 0.05), (484, 49, 0.1), (700, 700, 0.002), (260, 260, 0.02)),
                    'search': ((49, 484, 0.03), (300, 280, 0.008))}[tier]:
        add(a, b, _shuffle_dup(rng, _random_graph(rng, a, b, p)))
        out[-1]['big'] = True
    for n in ([3, 5, 8, 13] if tier == 'quick' else [3, 5, 8, 13, 21, 34, 55]):
        e = _path_family(rng, n)
        add(n, n, e)
        add(n, n, list(reversed(e)))
        add(n, n, _shuffle_dup(rng, e))
    return out


def impl(case):
    from pytenet.bipartite_graph import BipartiteGraph, HopcroftKarp, minimum_vertex_cover
    edges = [tuple(e) for e in case['edges']]
    try:
        g = BipartiteGraph(case['nu'], case['nv'], edges)
        hk = HopcroftKarp(g)
        m = hk()
        m2 = hk()          # the solver object may be invoked again: it resets its own state
        uc, vc = minimum_vertex_cover(g)
    except RecursionError:
        return {'error': 'RecursionError'}
    except Exception as e:
        return {'error': type(e).__name__}
    return {'matching': [[int(u), int(v)] for u, v in m], 'matching2': [[int(u), int(v)] for u, v in m2], 'uc': [int(x) for x in uc], 'vc': [int(x) for x in vc]}


def _max_matching_size(nu, nv, edges):
    """independent reference: simple augmenting paths (Kuhn)"""
    adj = [[] for _ in range(nu)]
    for u, v in edges:
        if v not in adj[u]:
            adj[u].append(v)
    mv = [-1] * nv

    def aug(u, seen):
        for v in adj[u]:
            if v in seen:
                continue
            seen.add(v)
            if mv[v] == -1 or aug(mv[v], seen):
                mv[v] = u
                return True
        return False
    import sys
    sys.setrecursionlimit(10000)
    return sum(1 for u in range(nu) if aug(u, set()))


def prop(case, r):
    msgs = []
    if 'error' in r:
        return ['routine raised %s' % r['error']]
    nu, nv = case['nu'], case['nv']
    eset = {tuple(e) for e in case['edges']}
    m = [tuple(p) for p in r['matching']]
    if any(p not in eset for p in m):
        msgs.append('matching contains a non-edge')
    if len({u for u, _ in m}) != len(m) or len({v for _, v in m}) != len(m):
        msgs.append('matching edges share a vertex')
    best = _max_matching_size(nu, nv, eset)
    if len(m) != best:
        msgs.append('matching size %d but maximum is %d' % (len(m), best))
    m2 = [tuple(p) for p in r.get('matching2', r['matching'])]
    if any(p not in eset for p in m2) or len({u for u, _ in m2}) != len(m2) or len({v for _, v in m2}) != len(m2) or len(m2) != best:
        msgs.append('second invocation of the same solver object returns an invalid or non-maximum matching (size %d, maximum %d)' % (len(m2), best))
    uc, vc = r['uc'], r['vc']
    if any(not (0 <= u < nu) for u in uc) or any(not (0 <= v < nv) for v in vc):
        msgs.append('cover vertex out of range')
    if any(u not in uc and v not in vc for u, v in eset):
        msgs.append('cover misses an edge')
    if len(set(uc)) + len(set(vc)) != best or len(uc) != len(set(uc)) or len(vc) != len(set(vc)):
        msgs.append('cover size %d differs from maximum matching size %d' % (len(uc) + len(vc), best))
    return msgs


def coq(case, r):
    if case.get('big'):
        return None
    if 'error' in r:
        # the model never raises; a raising implementation can only agree with a model that runs out of fuel
        return 'match run %s %s %s with (Some _, Some _) => false | _ => true end' % (
            E.nat(case['nu']), E.nat(case['nv']), E.lst([E.pair(E.z(u), E.z(v)) for u, v in case['edges']]))
    t = 'check_run %s %s %s %s %s %s' % (
        E.nat(case['nu']), E.nat(case['nv']),
        E.lst([E.pair(E.z(u), E.z(v)) for u, v in case['edges']]),
        E.lst([E.pair(E.z(u), E.z(v)) for u, v in r['matching']]),
        E.zlist(r['uc']), E.zlist(r['vc']))
    # the model is a pure function: a re-invocation returns the same matching
    t += ' && zzlist_eqb %s %s' % (E.lst([E.pair(E.z(u), E.z(v)) for u, v in r['matching']]),
                                   E.lst([E.pair(E.z(u), E.z(v)) for u, v in r.get('matching2', r['matching'])]))
    return t


def coq_diag(case, r):
    return 'run %s %s %s' % (E.nat(case['nu']), E.nat(case['nv']),
                             E.lst([E.pair(E.z(u), E.z(v)) for u, v in case['edges']]))


def klass(case, r):
    n = max(case['nu'], case['nv'])
    size = '<=3' if n <= 3 else ('4-6' if n <= 6 else ('7+' if n < 200 else '200+'))
    ne = len({tuple(e) for e in case['edges']})
    dens = ne / (case['nu'] * case['nv'])
    d = 'empty' if ne == 0 else ('sparse' if dens < 0.34 else ('mid' if dens < 0.67 else 'dense'))
    dup = 'dup' if ne != len(case['edges']) else 'nodup'
    return '%s/%s/%s' % (size, d, dup)


def nontrivial(case, r):
    es = {tuple(e) for e in case['edges']}
    us = [u for u, _ in es]; vs = [v for _, v in es]
    return len(es) >= 2 and (len(set(us)) < len(us) or len(set(vs)) < len(vs))
