"""C10 — DMRG energies are variational, consistent with the returned state and monotone."""
import itertools
import numpy as np
import gen as G
import tdgen as T
import emit as E
import sweeprec as SR

PROP = 'C10'
COQ_IMPORTS = SR.COQ_IMPORTS
COQ_PREAMBLE = SR.PREAMBLE
SHARD = 4
FORM = SR.FORM_TEXT % 'calculate_ground_state_local_singlesite / calculate_ground_state_local_twosite'
TRUSTED = SR.TRUSTED + [
    'hand-written Gallina model of the local eigensolver of minimization.py AS REPAIRED (numiter = min(numiter, Astart.size) before eigh_krylov): '
    'keig_lanczos_cap = _minimize_local_energy (Proofs/LinkSolversCap.v: keig_lanczos of Proofs/LinkSolvers.v run with Nat.min numiter (site_size A) iterations, '
    'site_size A = length A * sdl A * sdr A = Astart.size for a one-site tensor (d, Dl, Dr) and for the merged two-site tensor (d*d, Dl, Dr)); keig_lanczos (no cap) '
    'models the code before the repair and its theorems are kept; the sweep-level trace correspondence wraps _minimize_local_energy from outside and is blind to the cap '
    '(it records the caller\'s numiter), the Krylov routine underneath is tied to krylov.py by the C14 / C15 correspondence']
PARTIAL = ('proved (Properties/C10.v, all closed under the global context): C10_dmrg1_whole_run -- for single-site DMRG, every L >= 2, every number of sweeps and '
           'every bond profile, over Cx F for an arbitrary ordered field F: the returned state is normalised, the last reported energy equals <psi|H|psi> of '
           'the returned state, the reported energies are non-increasing, none exceeds the energy of the normalised start state, each is >= lam for every lam '
           'with H >= lam; relative to the contracts of the oracle calls the run issues, read off the emitted trace (block QR: LAPACK contract; local eigensolver: '
           'Ritz contract |A\'| = 1, theta = <A\'|H_eff A\'>, theta <A|A> <= <A|H_eff A>; orthonormalize returns right-isometric tensors). C10_dmrg2_whole_run -- the '
           'same five conclusions for two-site DMRG with zero split tolerance, every L >= 2, every number of sweeps and every bond profile, relative to the contracts '
           'of the calls the run issues (Ritz contract for the merged two-site problem; every split_mps_tensor call is exact: the minimiser factors entrywise through '
           'the two answers and the factor that did not receive the singular values is an isometry -- \'right\': A[i] left-isometric, \'left\': A[i+1] right-isometric; '
           'LAPACK contract for the final QR of each sweep); induction over the two-site schedule with the two-site mixed-canonical invariant. Also the per-local-problem '
           'versions, which energy a sweep records, the call schedules of both algorithms; non-vacuity of both whole-run theorems on rational instances (L = 2 single-site, '
           'L = 3 two-site with an exact rational split oracle). '
           'LINK (C10_dmrg1_whole_run_lapack, Proofs/Link*.v): the single-site whole-run theorem with the eigensolver argument instantiated by the concrete Krylov-based '
           'solver keig_lanczos = _minimize_local_energy (eigh_krylov of Model/Krylov.v, numeig = 1, over the row-major flatten/unflatten bridge): the only remaining '
           'hypotheses are LAPACK-level contracts on the calls actually issued (block QR; numpy.linalg.norm, sound breakdown test, eigh_tridiagonal with U^T U = I, '
           'T U = U diag(w), ascending w, (U U^T) e_0 = e_0), right-isometry of orthonormalize, Hermiticity of the MPO (word-level, as in C04_heff_hermitian) and H >= lam for the '
           'variational clause; self-adjointness of every local effective Hamiltonian and non-vanishing of every start tensor are derived from the sweep invariant; per call: '
           'C10_keig_from_krylov (also covers the merged two-site calls). LINK, TWO-SITE (C10_dmrg2_whole_run_lapack, Proofs/Link2*.v): the two-site whole-run theorem '
           '(tol_split = 0) with the eigensolver argument instantiated by keig_lanczos applied to the merged two-site problem (physical dimension d*d, merged MPO tensor, '
           'flattened length d*d*Dl*Dr): the only remaining hypotheses are LAPACK-level contracts on the calls actually issued (block QR of the final normalisation; '
           'numpy.linalg.norm, sound breakdown test, eigh_tridiagonal with U^T U = I, T U = U diag(w), ascending w, (U U^T) e_0 = e_0), the exact-split contract on every '
           'SPLITL / SPLITR entry, right-isometry of orthonormalize, Hermiticity of the MPO and H >= lam for the variational clause; self-adjointness of every merged effective '
           'Hamiltonian is derived from the two-site invariant Z2 (C04_two_site_is_projection + mpo_herm; C10_two_site_invariant_gives_local_problem), non-vanishing of every '
           'merged start tensor from norm one; per entry: C10_eig2_entry_from_krylov; lock-step induction over the two-site schedule (C10_dmrg2_lapack_to_ritz); non-vacuity: '
           'the L = 3 rational instance run with the REAL eigensolver (numiter = 1, exact rational split and QR oracles), all hypotheses but H >= lam checked by kernel '
           'evaluation and the theorem applied to it (C10_dmrg2_whole_run_lapack_nonvacuous, C10_dmrg2_whole_run_lapack_example). '
           'REPAIRED SOLVER (cap): the LINK theorems above are about keig_lanczos = _minimize_local_energy WITHOUT the cap (the code before the repair; kept, still true). '
           'The current code starts with numiter = min(numiter, Astart.size); its model is keig_lanczos_cap = keig_lanczos run with min(numiter, site_size A) iterations '
           '(Proofs/LinkSolversCap.v), and the end-to-end theorems are re-established for it: C10_keig_cap_from_krylov (one call meets the Ritz contract; the primitives\' '
           'contracts are required on the calls of the CAPPED Lanczos run; 1 <= min(numiter, size) follows from 1 <= numiter and the non-zero start tensor, which forces '
           'd*Dl*Dr >= 1 -- C10_nonzero_tensor_has_entries; a zero-size tensor makes the code raise in lanczos_iteration and the model return its error value), '
           'C10_dmrg1_lapack_to_ritz_cap, C10_dmrg1_whole_run_lapack_cap, C10_eig2_entry_cap_from_krylov, C10_dmrg2_lapack_to_ritz_cap, C10_dmrg2_whole_run_lapack_cap '
           '(same hypotheses and five conclusions as the uncapped versions, trace contracts lrtr_cap_ok / lrtr2_cap_ok = the uncapped ones with the capped count on every '
           'EIG / EIG2 entry; Proofs/LinkRunDMRGCap.v redoes the lock-step inductions generically in the eigensolver), C10_keig_cap_is_keig_when_small (no cap, same solver); '
           'non-vacuity with a cap that bites (numiter = 25 > Astart.size): one call on the size-2 problem (C10_keig_cap_from_krylov_nonvacuous, min(25, 2) = 2), whole '
           'single-site and two-site runs on two spins with H = Z(x)Z, every eigensolver entry of size 2 resp. 4 < 25, first call running exactly the capped 2 iterations, '
           'ground energy -1 reached from E0 = -7/25 (C10_dmrg1_whole_run_lapack_cap_nonvacuous / _example, C10_dmrg2_whole_run_lapack_cap_nonvacuous / _example). '
           'NOT proved: reaching the exact ground energy on a complete manifold (spectral theory), splits with tol > 0, that the '
           'FLOATING-POINT primitives (LAPACK QR / eigh_tridiagonal / norm, hence the floating-point Lanczos) meet their exact contracts (measured), that the floating-point SVD split meets the exact-split contract (at tol = 0 this is what '
           'C03_merge_split_id and C12_block_svd_spec prove of the split model in exact arithmetic; here only its consequences are measured), rounding (measured by prop()); '
           'H is an argument no model function returns or updates')
ASSUMPTIONS = SR.ASSUMPTIONS
RULE = ('Hermitian MPOs (XXZ, Ising, Bose-Hubbard, Fermi-Hubbard, random Hermitian with/without charges), L in 2..5, d >= 2, any bond profile, '
        '1..3 sweeps, 2..6 Lanczos iterations (complete-manifold cases: enough iterations), repeated invocations, real-valued and complex states (real states meet complex Hermitian MPOs); two-site with zero split tolerance; '
        'non-trivial = max bond >= 2; distinct by input digest')
IMPL_PARALLEL = True


def cases(rng, tier):
    n = {'quick': 150, 'thorough': 1500, 'search': 150}[tier]
    out = []
    for k in range(n):
        model = rng.choice(T.MODELS)
        L = rng.choice([2, 2, 3, 3, 4, 5])
        if model in ('bose', 'fermi'):
            L = min(L, 3)
        out.append({'kind': rng.choice(['single', 'two']), 'model': model, 'L': L, 'seed': rng.getrandbits(30),
                    'sweeps': rng.choice([1, 2, 3]), 'numiter': rng.choice([2, 3, 4, 6]), 'repeat': rng.choice([1, 1, 2]),
                    'Dmax': rng.choice([1, 2, 3, 4]), 'complete': rng.random() < 0.3, 'scale': rng.choice([1.0, 3.0]),
                    'sdtype': 'real' if rng.random() < 0.35 else 'complex',
                    # the start state as a caller may hand it over: as generated, or already normalised and LEFT-canonical
                    # (normalised, but not in the right-canonical form the sweep needs); between repeated invocations the
                    # state may have been re-gauged by the caller
                    'prep': rng.choice(['none', 'none', 'left', 'left']), 'between': rng.choice(['none', 'left', 'right'])})
        if rng.random() < (0.4 if out[-1]['complete'] else 0.1):
            out[-1]['hmag'] = rng.choice([-24, -27, 10])       # Hamiltonian times 2^hmag (exact): energy scale 6e-8, 7e-9 / 1e3
    # local problems smaller than the number of Lanczos iterations (bond dimension one or two, short chains): the Krylov space of a
    # local solve is exhausted before numiter_lanczos (finding F8)
    for k in range({'quick': 24, 'thorough': 200, 'search': 60}[tier]):
        out.append({'kind': rng.choice(['single', 'single', 'two']), 'model': rng.choice(['ising', 'ising', 'xxz', 'randherm']),
                    'L': rng.choice([2, 2, 3, 4]), 'seed': rng.getrandbits(30), 'sweeps': rng.choice([3, 4]),
                    'numiter': rng.choice([4, 5, 6]), 'repeat': 2, 'Dmax': rng.choice([1, 1, 2]), 'complete': False, 'scale': 1.0,
                    'sdtype': rng.choice(['real', 'complex']), 'prep': rng.choice(['none', 'left']), 'between': rng.choice(['none', 'right'])})
    # two sites, two-site DMRG, PRODUCT start state (bond dimension one: a single non-zero entry per tensor in a charge sector): the merged
    # tensor is the whole state, so one local solve with enough Lanczos iterations must reach the exact (sector) ground energy
    for k in range({'quick': 10, 'thorough': 60, 'search': 20}[tier]):
        out.append({'kind': 'two', 'model': rng.choice(['xxz', 'xxz', 'ising', 'bose', 'randherm']), 'L': 2, 'seed': rng.getrandbits(30),
                    'sweeps': rng.choice([1, 2]), 'numiter': 6, 'repeat': 1, 'Dmax': 1, 'complete': False, 'full2': True, 'scale': 1.0,
                    'sdtype': rng.choice(['real', 'complex']), 'prep': 'none', 'between': 'none'})
    SR.mark_replay(out, {'quick': 24, 'thorough': 120, 'search': 0}[tier], 'sweeps')
    return out


def corpus():
    """pre-repair failing inputs of finding F8 (Lanczos iterations beyond the dimension of the local problem) -- run first"""
    b = {'between': 'right', 'complete': False, 'kind': 'single', 'model': 'ising', 'prep': 'left', 'repeat': 2, 'scale': 1.0, 'sdtype': 'real'}
    return [dict(b, Dmax=3, L=4, numiter=4, seed=485738843, sweeps=4), dict(b, Dmax=1, L=4, numiter=6, seed=886820026, sweeps=4),
            dict(b, Dmax=1, L=2, numiter=6, seed=271037078, sweeps=3),
            # pre-repair failing input of finding F9 (Hamiltonian times 2^10: rounding noise of the vanishing Lanczos residual passed the absolute test)
            {'Dmax': 3, 'L': 2, 'between': 'right', 'complete': True, 'hmag': 10, 'kind': 'two', 'model': 'ising', 'numiter': 2, 'prep': 'none',
             'repeat': 1, 'scale': 1.0, 'sdtype': 'real', 'seed': 510355621, 'sweeps': 3}]


def sector_ground_energy(Hd, qd, L, qt):
    words = list(itertools.product(range(len(qd)), repeat=L))
    idx = [k for k, w in enumerate(words) if sum(int(qd[s]) for s in w) == qt]
    if not idx:
        return None
    sub = Hd[np.ix_(idx, idx)]
    return float(np.linalg.eigvalsh((sub + sub.conj().T) / 2)[0])


def impl(case):
    import warnings, hashlib
    warnings.simplefilter('ignore')
    import pytenet as ptn
    rs = np.random.default_rng(case['seed'])
    H = T.hamiltonian(case['model'], case['L'], rs)
    if case.get('hmag'):
        H.A[0] = H.A[0] * 2.0 ** case['hmag']
    L = H.nsites
    info = {}
    psi = T.state(H, rs, Dmax=case['Dmax'], complete=case['complete'], dtype=case.get('sdtype', 'complex'), info=info)
    psi.A[-1] = psi.A[-1] * case['scale']
    if case.get('prep') == 'left' and float(np.linalg.norm(G.mps_dense(psi.A))) > 1e-10:
        psi.orthonormalize(mode='left')
    v0 = G.mps_dense(psi.A)
    n0 = float(np.linalg.norm(v0))
    if n0 < 1e-10:
        return {'skip': 'zero state'}
    Hd = G.mpo_dense(H.A)
    e_start = float(np.real(np.vdot(v0, Hd @ v0)) / n0 ** 2)
    qt = int(psi.qD[-1][0] - psi.qD[0][0])
    e_gs = sector_ground_energy(Hd, H.qd, L, qt)
    dig = lambda: hashlib.sha1(b''.join(np.ascontiguousarray(a).tobytes() for a in H.A) + b''.join(np.ascontiguousarray(q).tobytes() for q in H.qD) + np.ascontiguousarray(H.qd).tobytes()).hexdigest()
    h0 = dig()
    numiter = case['numiter']
    if case['complete']:
        numiter = min(int(max(a.size for a in psi.A) * (len(H.qd) if case['kind'] == 'two' else 1)) + 2, 120)
    if case.get('full2'):
        numiter = len(H.qd) ** 2 + 2       # two sites, two-site DMRG: the single local problem IS the whole (sector) problem
    reported, finals, norms = [], [], []
    numeric = SR.numeric_ok(case, H, psi)
    runs = []
    import pytenet.minimization as MI
    try:
        for rep in range(case['repeat']):
            if rep > 0 and case.get('between', 'none') != 'none':
                psi.orthonormalize(mode=case['between'])
            if case['kind'] == 'single':
                en, run = SR.run_recorded(MI, ptn.calculate_ground_state_local_singlesite, H, psi, None, numiter, numeric,
                                          case['sweeps'], numiter_lanczos=numiter)
            else:
                en, run = SR.run_recorded(MI, ptn.calculate_ground_state_local_twosite, H, psi, None, numiter, numeric,
                                          case['sweeps'], numiter_lanczos=numiter, tol_split=0)
            run['ens'] = [float(x) for x in en]
            runs.append(run)
            v = G.mps_dense(psi.A)
            reported += [float(x) for x in en]
            norms.append(float(np.linalg.norm(v)))
            finals.append(float(np.real(np.vdot(v, Hd @ v))))
    except Exception as e:
        import traceback
        tb = traceback.extract_tb(e.__traceback__)[-1]
        return {'error': type(e).__name__, 'detail': '%s [%s:%d]' % (str(e)[:160], tb.filename.split('/')[-1], tb.lineno)}
    return {'reported': reported, 'finals': finals, 'norms': norms, 'e_start': e_start, 'e_gs': e_gs, 'H_unchanged': dig() == h0,
            'hscale': float(np.linalg.norm(Hd, 2)), 'dims0': None, 'dims': [int(x) for x in psi.bond_dims], 'sparsity': G.mps_sparsity_ok(psi),
            'sweeps': case['sweeps'], 'complete': case['complete'], 'mixed': [bool(x) for x in info.get('mixed', [])], 'charged': bool(np.any(np.asarray(H.qd))), 'runs': runs, 'H': SR.enc_mpo(H, numeric)}


def prop(case, r):
    if 'skip' in r:
        return []
    if 'error' in r:
        return ['DMRG raised %s: %s' % (r['error'], r.get('detail', ''))]
    msgs = []
    tol = 1e-9 * (r['hscale'] if case.get('hmag') else 1 + r['hscale'])      # relative to the energy scale in the magnitude regimes
    rep = r['reported']
    sw = r['sweeps']
    for k, (nr, ef) in enumerate(zip(r['norms'], r['finals'])):
        if abs(nr - 1) > 1e-9:
            msgs.append('state after call %d is not normalized (%.12g)' % (k, nr))
        last = rep[(k + 1) * sw - 1]
        if abs(ef - last) > tol:
            msgs.append('energy of the returned state %.12g differs from the last reported energy %.12g' % (ef, last))
    if r['e_gs'] is not None:
        for e in rep:
            if e < r['e_gs'] - tol:
                msgs.append('reported energy %.12g below the exact sector ground-state energy %.12g' % (e, r['e_gs']))
                break
    if rep and rep[0] > r['e_start'] + tol:
        msgs.append('first reported energy %.12g exceeds the energy %.12g of the normalized starting state' % (rep[0], r['e_start']))
    for a, b in zip(rep, rep[1:]):
        if b > a + tol:
            msgs.append('reported energies increase: %.12g -> %.12g' % (a, b))
            break
    if (r['complete'] or case.get('full2')) and r['e_gs'] is not None and abs(rep[-1] - r['e_gs']) > 1e-7 * (r['hscale'] if case.get('hmag') else 1 + r['hscale']):
        msgs.append('%s: final energy %.12g does not reach the exact ground-state energy %.12g' % ('complete manifold' if r['complete'] else 'two sites, two-site DMRG', rep[-1], r['e_gs']))
    if not r['H_unchanged']:
        msgs.append('the Hamiltonian MPO was modified')
    if r['sparsity']:
        msgs.append('block sparsity / list lengths broken: %s' % r['sparsity'])
    return msgs


def finding_key(case, r, msgs):
    """known findings: with quantum numbers in play (non-zero physical charges) DMRG on a sector-complete manifold can stay above the sector ground
    energy -- the first local optimisations project the state exactly onto an excited eigenvector / onto a distribution of charges over the bonds
    that later local problems cannot leave (every later Lanczos run starts from an exact eigenvector of its local problem).  Without charges the
    clause is not covered by any key: a failure there is a violation."""
    if (case.get('complete') and r.get('charged') and 'reported' in r and len(msgs) == 1
            and msgs[0].startswith('complete manifold: final energy')):
        return 'dmrg-%ssite-charge-sector-local-minimum' % ('single' if case['kind'] == 'single' else 'two')
    return None


def coq(case, r):
    if 'skip' in r or 'error' in r:
        return None
    return ' && '.join('(%s)' % SR.term_dmrg(case['kind'] == 'two', r['H'], case['sweeps'], run, run['ens']) for run in r['runs'])


def klass(case, r):
    if 'skip' in r or 'error' in r:
        return case['kind'] + '/' + ('skip' if 'skip' in r else 'error')
    return '%s/%s/L%d/%s%s%s' % (case['kind'], case['model'], case['L'], 'complete' if case['complete'] else 'it%d' % case['numiter'],
                                   '/real' if case.get('sdtype') == 'real' else '', '/replay' if r['runs'][0]['numeric'] else '')


def nontrivial(case, r):
    return 'error' not in r and 'skip' not in r and max(r['dims']) >= 2
