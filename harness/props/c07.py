"""C07 — molecular Hamiltonian MPOs are exact for every orbital count, both build paths; orbital gauge matrices."""
import numpy as np
import gen as G
import hamref as HR

PROP = 'C07'
COQ_IMPORTS = ['PT.Base.Scalar']
FORM = 'see coq(): graph denotation / translation validation where the model is available'
RULE = ('spinless: L in 1..7 (explicit path L >= 4), spin orbitals: L in 1..4 (explicit L >= 2); coefficient tensors real/complex, dense, sparse, '
        'symmetric (physical symmetries), zero-padded, integer-valued; both optimize flags and their agreement; gauge: every orbital pair i and '
        'random 2x2 unitaries (real rotations, phases, generic); non-trivial = L >= 3 or explicit path; distinct by input digest')
IMPL_PARALLEL = True


def cases(rng, tier):
    n = {'quick': 90, 'thorough': 700, 'search': 90}[tier]
    out = []
    for k in range(n):
        kind = rng.choice(['mol', 'mol', 'spin', 'gauge'])
        if kind == 'mol':
            L = rng.choice([1, 2, 3, 4, 4, 5, 5, 6] + ([7] if tier == 'thorough' else []))
        elif kind == 'spin':
            L = rng.choice([1, 2, 2, 3, 3] + ([4] if tier != 'quick' else []))
        else:
            L = rng.choice([4, 5, 6])
        out.append({'kind': kind, 'L': L, 'seed': rng.getrandbits(30), 'dtype': rng.choice(['real', 'real', 'complex']),
                    'struct': rng.choice(['dense', 'dense', 'sparse', 'symmetric', 'padded', 'integer']),
                    'utype': rng.choice(['rotation', 'phase', 'generic', 'swap'])})
    return out


def coefficients(case):
    rs = np.random.default_rng(case['seed'])
    L = case['L']
    cplx = case['dtype'] == 'complex'
    def rnd(shape):
        x = rs.standard_normal(shape)
        if cplx:
            x = x + 1j * rs.standard_normal(shape)
        return x
    t = rnd((L, L)); v = rnd((L, L, L, L))
    s = case['struct']
    if s == 'sparse':
        t = t * (rs.random((L, L)) < 0.4); v = v * (rs.random((L, L, L, L)) < 0.15)
    elif s == 'symmetric':
        t = 0.5 * (t + t.conj().T)
        v = 0.5 * (v + v.transpose(1, 0, 3, 2)); v = 0.5 * (v + v.conj().transpose(2, 3, 0, 1))
    elif s == 'padded' and L >= 2:
        t[-1, :] = 0; t[:, -1] = 0; v[-1] = 0; v[:, -1] = 0; v[:, :, -1] = 0; v[:, :, :, -1] = 0
    elif s == 'integer':
        t = np.round(2 * t); v = np.round(v)
    if not np.any(t) and not np.any(v):
        t[0, 0] = 1.0
    return t, v


def unitary(case):
    rs = np.random.default_rng(case['seed'] + 7)
    k = case['utype']
    if k == 'rotation':
        th = rs.uniform(0, 2 * np.pi); return np.array([[np.cos(th), -np.sin(th)], [np.sin(th), np.cos(th)]])
    if k == 'phase':
        return np.diag(np.exp(1j * rs.uniform(0, 2 * np.pi, size=2)))
    if k == 'swap':
        return np.array([[0., 1.], [1., 0.]])
    Z = rs.standard_normal((2, 2)) + 1j * rs.standard_normal((2, 2))
    Q, R = np.linalg.qr(Z)
    return Q * (np.diag(R) / np.abs(np.diag(R)))


def impl(case):
    import warnings
    warnings.simplefilter('ignore')
    import pytenet as ptn
    t, v = coefficients(case)
    L = case['L']
    res = {}
    try:
        if case['kind'] in ('mol', 'spin'):
            f = ptn.molecular_hamiltonian_mpo if case['kind'] == 'mol' else ptn.spin_molecular_hamiltonian_mpo
            ref = HR.molecular(t, v) if case['kind'] == 'mol' else HR.spin_molecular(t, v)
            scale = 1.0 + float(np.linalg.norm(ref))
            Hopt = f(t, v, optimize=True)
            Mo = G.mpo_dense(Hopt.A)
            res['err_opt'] = float(np.linalg.norm(Mo - ref)) / scale
            res['sparsity_opt'] = G.mpo_sparsity_ok(Hopt)
            res['dims_opt'] = [int(x) for x in Hopt.bond_dims]
            explicit_ok = (L >= 4) if case['kind'] == 'mol' else (L >= 2)
            if explicit_ok:
                Hex = f(t, v, optimize=False)
                Me = G.mpo_dense(Hex.A)
                res['err_exp'] = float(np.linalg.norm(Me - ref)) / scale
                res['paths'] = float(np.linalg.norm(Me - Mo)) / scale
                res['paths_sparse'] = float(abs(Hex.as_matrix(sparse_format=True) - Hopt.as_matrix(sparse_format=True)).max()) / scale
                res['sparsity_exp'] = G.mpo_sparsity_ok(Hex)
                res['dims_exp'] = [int(x) for x in Hex.bond_dims]
            hermitian_in = bool(np.allclose(t, t.conj().T) and np.allclose(v, v.conj().transpose(2, 3, 0, 1)))
            res['herm'] = float(np.linalg.norm(Mo - Mo.conj().T)) / scale if hermitian_in else None
            return res
        # gauge transformation of the explicit spinless construction (convention of the documented usage: the tensors
        # of the rotated-coefficient MPO at sites i, i+1, multiplied by the gauge matrices on their outer bonds, fit into the
        # ORIGINAL MPO's remaining tensors and give the rotated operator)
        u2 = unitary(case)
        worst = 0.0
        for i in range(L - 1):
            H = ptn.molecular_hamiltonian_mpo(t, v, optimize=False)
            U = np.identity(L, dtype=complex); U[i:i + 2, i:i + 2] = u2
            t2 = np.einsum(U, (2, 0), U.conj(), (3, 1), t, (2, 3), (0, 1))
            v2 = np.einsum(U, (4, 0), U, (5, 1), U.conj(), (6, 2), U.conj(), (7, 3), v, (4, 5, 6, 7), (0, 1, 2, 3))
            H2 = ptn.molecular_hamiltonian_mpo(t2, v2, optimize=False)
            ref = HR.molecular(t2, v2)
            v_l, v_r = ptn.molecular_hamiltonian_orbital_gauge_transform(H, u2, i)
            tensors = [a for a in H.A]
            tensors[i] = np.einsum(v_l, (2, 4), H2.A[i], (0, 1, 4, 3), (0, 1, 2, 3))
            tensors[i + 1] = np.einsum(v_r, (3, 4), H2.A[i + 1], (0, 1, 2, 4), (0, 1, 2, 3))
            M = G.mpo_dense(tensors)
            worst = max(worst, float(np.linalg.norm(M - ref)) / (1.0 + float(np.linalg.norm(ref))))
        return {'gauge': worst}
    except Exception as e:
        import traceback
        tb = traceback.extract_tb(e.__traceback__)[-1]
        return {'error': type(e).__name__, 'detail': '%s [%s:%d]' % (str(e)[:160], tb.filename.split('/')[-1], tb.lineno)}


def prop(case, r):
    if 'error' in r:
        return ['%s raised %s: %s' % (case['kind'], r['error'], r.get('detail', ''))]
    msgs = []
    if case['kind'] == 'gauge':
        if r['gauge'] > 1e-10:
            msgs.append('gauge matrices do not map the explicit MPO to that of the rotated coefficients (%.3g)' % r['gauge'])
        return msgs
    if r['err_opt'] > 1e-11:
        msgs.append('optimized construction differs from the second-quantized formula (%.3g)' % r['err_opt'])
    if r.get('err_exp', 0) > 1e-11:
        msgs.append('explicit construction differs from the second-quantized formula (%.3g)' % r['err_exp'])
    if max(r.get('paths', 0), r.get('paths_sparse', 0)) > 1e-11:
        msgs.append('optimized and explicit constructions disagree (%.3g)' % max(r.get('paths', 0), r.get('paths_sparse', 0)))
    for k in ('sparsity_opt', 'sparsity_exp'):
        if r.get(k):
            msgs.append('%s: %s' % (k, r[k]))
    if r.get('herm') is not None and r['herm'] > 1e-11:
        msgs.append('Hamiltonian not Hermitian for Hermitian coefficients (%.3g)' % r['herm'])
    return msgs


def coq(case, r):
    return None


def klass(case, r):
    if 'error' in r:
        return case['kind'] + '/error'
    return '%s/L%d/%s/%s' % (case['kind'], case['L'], case['struct'], 'both-paths' if 'err_exp' in r else ('gauge' if 'gauge' in r else 'opt-only'))


def nontrivial(case, r):
    return 'error' not in r and (case['L'] >= 3 or 'err_exp' in r)
