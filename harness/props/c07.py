"""C07 — molecular Hamiltonian MPOs are exact for every orbital count, both build paths; orbital gauge matrices."""
import numpy as np
import gen as G
import hamref as HR
import emit as E
import molcap as MC

PROP = 'C07'
COQ_IMPORTS = ['PT.Base.Scalar', 'PT.Base.Mx', 'PT.Model.OpGraph', 'PT.Model.Tensor', 'PT.Model.FromOpchains', 'PT.Model.GraphMPO',
               'PT.Model.Molecular', 'PT.Model.MolFormula', 'PT.Model.MolCheck', 'PT.Model.MolGauge']
COQ_PREAMBLE = (MC.PREAMBLE +
                'Definition mchains (L : nat) tt vv : list (chain QIring) := @mol_chains QIring qhalf L (@tab2 QIring tt) (@tab4 QIring vv).\n'
                'Definition schains (L : nat) tt vv : res (list (chain QIring)) := @spin_chains QIring qhalf L (@tab2 QIring tt) (@tab4 QIring vv).\n'
                'Definition zm (r c : nat) (d : list (list Z)) : mx Zring := @mkmx Zring r c d.\n')
SHARD = 3
FORM = ('E (exact runs with dyadic coefficients k/8, real and Gaussian-rational, instance QIring; every float operation of the code is exact). '
        'Per mol/spin case, evaluated in Coq: (1) the chain LIST the implementation passes to OpGraph.from_opchains (captured by wrapping '
        'pytenet.hamiltonian.OpGraph from outside: oids, qnums, coefficient, istart per chain, in order, and the arguments L, oid_identity) '
        'equals the enumeration of Model/Molecular.v (chains_eqb); (2) the optimized graph the implementation hands to MPO.from_opgraph '
        '(captured by wrapping pytenet.hamiltonian.MPO) is identical (graph_eqb) to the graph the model of from_opchains builds from the '
        'MODEL chain list with the model vertex cover, and that graph is linked, consistent, of length L, last layer = end terminal '
        '(the hypotheses of C07_mol_opt_den / C05_chains_to_mpo); (3) translation validation of the EXPLICIT construction (not modelled): '
        'the graph built with optimize=False is shipped to Coq, which checks linked / is_consistent (fuel = measured number of BFS dequeues) '
        '/ length L / last layer and, by enumerating all its start->end walks (Model/MolCheck.v walks, sound by C07_den_from_walks), that its '
        'word polynomial equals that of the model chain list (poly_eqb: coefficient sums compared on every word occurring on either side; '
        'no sampling of words) -- by C07_both_paths_agree both build paths then denote the same operator for that input; the same walk '
        'comparison is applied to the optimized implementation graph; (4) the implementation operator maps (2x2 matrices, 23 Kronecker '
        'products and the SpinMolecularOID numbering) equal the letters of Model/MolFormula.v. '
        'Gauge cases with an exactly representable unitary: see PARTIAL (d). Symbolic form S is replaced by the all-L theorems '
        'C07_mol_formula_all_L / C07_spin_formula_all_L (all coefficient values, every L), which need no run of the implementation.')
TRUSTED = ['hand-written Gallina mirror Model/Molecular.v of the optimized chain enumerations, tied to the code by exact agreement of the chain list on every case',
           'Model/MolFormula.v: the second-quantised formula as sitewise products of Jordan-Wigner words (string to the right) -- the specification; '
           'its operator table is kernel-checked against the 2x2 matrices and the matrices against the implementation opmap per run',
           'C05 development (Model/FromOpchains.v, Model/OpGraph.v den / is_consistent_fuel, Proofs/DenRev_C05.v linked)',
           'harness/molcap.py (capture by attribute wrapping, exact rational emitters); harness/hamref.py (independent Fock-space reference, search only)']
PARTIAL = ('proved for ALL L and all coefficient functions over any cring (no hypothesis on the value of half): every graph the model of '
           'from_opchains returns for the enumerated chain list (any cover oracle) is linked and denotes the chain list; chain list = '
           'second-quantised formula on EVERY word for EVERY L, spinless (C07_mol_formula_all_L) and spin orbitals '
           '(C07_spin_formula_all_L), by the normal form of Jordan-Wigner products for every mode count (C07_jw_hop_word, C07_jw_int_word: '
           'thirteen relative orders of i<j, k<l, five chain shapes, signs + - - + of the four orderings = the antisymmetrisation gint; '
           'C07_jw_pauli), a regrouping of the double sums by unordered pairs, and for spin the reduction to 2L modes with spin-diagonal '
           'coefficients read through the site pairing (C07_to_spin_word); to_spin_opchain raises on no enumerated chain and every spin '
           'chain is well formed for every L (C07_spin_skels_wf_all_L); hence optimized graph = formula whenever from_opchains returns '
           '(C07_mol_opt_formula, C07_spin_mol_opt_formula) and, with the proved vertex-cover model, both optimized constructions SUCCEED '
           'and denote the formula for every L >= 1 unless every chain coefficient vanishes (C07_mol_exact, C07_spin_exact); length, '
           'well-formedness, lattice fit and charge balance of every enumerated spinless chain; soundness of the walk-based translation '
           'validation for any graph. The former bounded theorems (kernel vm_compute of a symbolic multiset comparison, L <= 10 / 6) are '
           'kept and now subsumed. NOT proved: everything about the explicit constructions (not '
           'modelled: validated per case in Coq on the graph the implementation built, L = 4..6 quick / ..7 thorough spinless, 2..3 quick / ..5 '
           'thorough spin, numeric dyadic coefficients, i.e. sampled in the coefficients, all words); is_consistent levels / length of the '
           'optimized graph (evaluated per case). (d) gauge matrices: nothing proved; for gauge cases with L <= 5 an exactly representable '
           'unitary is derived from the seed (swap, phases i^k, their products, Pythagorean rotations (3/5,4/5), (5/13,12/13), (3,4i)/5 and '
           'products with phases/swap); the implementation is run with integer coefficient tensors scaled so that the rotated coefficients are '
           'Gaussian integers, and Coq evaluates over Q[i], for every rotated pair i, the MPO identity in the convention of the documented usage '
           '-- all 4^L matrix elements of H.A[:i] (v_l W\'_i)(W\'_{i+1} v_r^T) H.A[i+2:] against those of the MPO of the rotated coefficients -- '
           'exactly, the returned v_l, v_r being first compared entrywise (2^-40) with the Gaussian rationals (denominator den^2) they round; '
           'bounded in L (4..5), sampled in u and in the coefficients; random unitaries only through the numpy predicate. '
           'Observed on the unchanged tree: the zero operator (all chain coefficients zero, e.g. L = 1 with t_00 = 0 and any v) makes the '
           'optimized constructors raise AssertionError (finding key molecular-zero-hamiltonian).')
RULE = ('spinless: L in 1..7 (explicit path L >= 4), spin orbitals: L in 1..4 (explicit L >= 2); coefficient tensors real/complex, dense, sparse, '
        'symmetric (physical symmetries), zero-padded, integer-valued; both optimize flags and their agreement; gauge: every orbital pair i and '
        'random 2x2 unitaries (real rotations, phases, generic); non-trivial = L >= 3 or explicit path; distinct by input digest. '
        'Correspondence: the same coefficient tensors rounded to multiples of 1/8 (exact float arithmetic), both build paths captured; gauge cases '
        'with L <= 5 additionally run with an exact Gaussian-rational unitary chosen by the seed and scaled integer tensors; thorough tier adds '
        'translation-validation-only cases at L = 7 (spinless) and L = 4, 5 (spin)')
IMPL_PARALLEL = True
GAUGE_EXACT_LMAX = 5


def cases(rng, tier):
    n = {'quick': 90, 'thorough': 700, 'search': 90}[tier]
    out = []
    for k in range(n):
        kind = rng.choice(['mol', 'mol', 'spin', 'gauge'])
        if kind == 'mol':
            L = rng.choice([1, 2, 3, 4, 4, 5, 5, 6] + ([7] if tier == 'thorough' else []))
        elif kind == 'spin':
            L = rng.choice([1, 2, 2, 3, 3] + ([4] if tier != 'quick' else []))
        else:
            # some blocks of the gauge matrices are only populated for L >= 7 (pairs in the right half of a long lattice)
            L = rng.choice([4, 5, 6, 7, 7, 8] if tier != 'quick' else [4, 5, 6, 7])
        out.append({'kind': kind, 'L': L, 'seed': rng.getrandbits(30), 'dtype': rng.choice(['real', 'real', 'complex']),
                    'struct': rng.choice(['dense', 'dense', 'sparse', 'symmetric', 'padded', 'integer', 'single']),
                    'utype': rng.choice(['rotation', 'phase', 'generic', 'swap'])})
        # magnitude regimes (powers of two: exact): all coefficients tiny / large, or the interaction far below the kinetic part
        u = rng.random()
        if u < 0.22:
            out[-1]['mag'] = rng.choice([['all', -40], ['all', -30], ['all', -27], ['all', 24], ['v', -30], ['v', -34], ['t', -30]])
    # long lattices with genuinely complex 2x2 unitaries in every run: the blocks of the gauge matrices that are only
    # populated for pairs in the right half of a lattice with L >= 7 are complex-conjugated entries
    for L in (4, 6):
        out.append({'kind': 'gauge', 'L': L, 'seed': rng.getrandbits(30), 'dtype': 'real', 'struct': 'dense', 'utype': 'near-identity'})
    for L, ut, dt in {'quick': ((7, 'generic', 'complex'), (7, 'phase', 'real')), 'thorough': ((7, 'generic', 'complex'), (7, 'phase', 'real'), (8, 'generic', 'real'), (8, 'phase', 'complex')), 'search': ((7, 'generic', 'complex'),)}[tier]:
        out.append({'kind': 'gauge', 'L': L, 'seed': rng.getrandbits(30), 'dtype': dt, 'struct': 'dense', 'utype': ut})
    if tier != 'thorough':
        # the explicit spin construction has blocks that are only populated for L >= 5 (two orbitals in the right half): one sparse case,
        # exact run + translation validation in Coq only (no dense reference at this size)
        out.append({'kind': 'spin', 'L': 5, 'seed': rng.getrandbits(30), 'dtype': rng.choice(['real', 'complex']), 'struct': 'sparse', 'utype': 'swap', 'tvonly': True})
    if tier == 'thorough':
        # largest sizes: exact runs + Coq only (the dense reference of the spin model at L = 5 is out of reach)
        for kind, L, dt, st in (('mol', 7, 'complex', 'dense'), ('mol', 7, 'real', 'sparse'), ('spin', 4, 'complex', 'dense'),
                                ('spin', 5, 'real', 'dense'), ('spin', 5, 'complex', 'sparse')):
            out.append({'kind': kind, 'L': L, 'seed': 1000 + L, 'dtype': dt, 'struct': st, 'utype': 'swap', 'tvonly': True})
    return out


def coefficients(case, mag=True):
    t, v = _coefficients(case)
    if mag and case.get('mag'):
        t, v = apply_mag(case, t, v)
    return t, v


def apply_mag(case, t, v):
    who, k = case['mag']
    f = 2.0 ** k
    return (t * f if who in ('all', 't') else t), (v * f if who in ('all', 'v') else v)


def _coefficients(case):
    rs = np.random.default_rng(case['seed'])
    L = case['L']
    cplx = case['dtype'] == 'complex'
    def rnd(shape):
        x = rs.standard_normal(shape)
        if cplx:
            x = x + 1j * rs.standard_normal(shape)
        return x
    t = rnd((L, L)); v = rnd((L, L, L, L))
    s = case['struct']
    if s == 'sparse':
        t = t * (rs.random((L, L)) < 0.4); v = v * (rs.random((L, L, L, L)) < 0.15)
    elif s == 'symmetric':
        t = 0.5 * (t + t.conj().T)
        v = 0.5 * (v + v.transpose(1, 0, 3, 2)); v = 0.5 * (v + v.conj().transpose(2, 3, 0, 1))
    elif s == 'padded' and L >= 2:
        t[-1, :] = 0; t[:, -1] = 0; v[-1] = 0; v[:, -1] = 0; v[:, :, -1] = 0; v[:, :, :, -1] = 0
    elif s == 'integer':
        t = np.round(2 * t); v = np.round(v)
    elif s == 'single':
        # exactly one non-zero term, with a coefficient of modulus one (or not): a single operator chain survives
        c = [-1.0, 1j if cplx else -1.0, 1.0, 2.5, -0.5][int(rs.integers(0, 5))]
        t = np.zeros_like(t); v = np.zeros_like(v)
        if rs.random() < 0.6 or L < 2:
            t[int(rs.integers(0, L)), int(rs.integers(0, L))] = c
        else:
            i, j = sorted(rs.choice(L, size=2, replace=False))
            v[i, j, i, j] = c
    if not np.any(t) and not np.any(v):
        t[0, 0] = 1.0
    return t, v


def unitary(case):
    rs = np.random.default_rng(case['seed'] + 7)
    k = case['utype']
    if k == 'rotation':
        th = rs.uniform(0, 2 * np.pi); return np.array([[np.cos(th), -np.sin(th)], [np.sin(th), np.cos(th)]])
    if k == 'phase':
        return np.diag(np.exp(1j * rs.uniform(0, 2 * np.pi, size=2)))
    if k == 'swap':
        return np.array([[0., 1.], [1., 0.]])
    if k == 'near-identity':
        # a unitary within 1e-5 of the identity (phases of order 1e-6, mixing angle 1e-9): still a rotation, not the identity
        th = 1e-9 * (1 + rs.random()); ph = 1e-6 * (1 + rs.random(2))
        c, s_ = np.cos(th), np.sin(th)
        return np.diag(np.exp(1j * ph)) @ np.array([[c, -s_], [s_, c]])
    Z = rs.standard_normal((2, 2)) + 1j * rs.standard_normal((2, 2))
    Q, R = np.linalg.qr(Z)
    return Q * (np.diag(R) / np.abs(np.diag(R)))


def exact_coefficients(case):
    """the case's coefficient tensors rounded to multiples of 1/8 (structure kept: zeros stay zero, symmetries survive the
    entrywise odd rounding, except that t_00 := 1 if t rounds to zero); all float arithmetic of the constructors on them is exact"""
    t, v = coefficients(case, mag=False)
    t, v = MC.dyadic(t), MC.dyadic(v)
    if not np.any(t):
        t[0, 0] = 1.0      # rounding must not produce the zero operator (all chain coefficients zero: from_opchains raises)
    if case.get('mag'):
        t, v = apply_mag(case, t, v)
    return t, v


def explicit_defined(case):
    return (case['L'] >= 4) if case['kind'] == 'mol' else (case['L'] >= 2)


def exact_runs(case):
    """both build paths on the exact coefficients with OpGraph.from_opchains / MPO.from_opgraph wrapped from outside"""
    te, ve = exact_coefficients(case)
    out = {}
    ro, _ = MC.capture(case['kind'], te, ve, True)
    out['opt'] = ro
    if explicit_defined(case):
        rx, _ = MC.capture(case['kind'], te, ve, False)
        out['exp'] = {k: rx[k] for k in ('graph', 'error') if k in rx}
    return out


def corpus():
    # reproduces the open known finding 'molecular-zero-hamiltonian' deterministically (runs first)
    return [{'kind': 'mol', 'L': 1, 'dtype': 'complex', 'struct': 'sparse', 'seed': 823233526, 'utype': 'rotation'}]


def impl(case):
    import warnings
    warnings.simplefilter('ignore')
    import pytenet as ptn
    t, v = coefficients(case)
    L = case['L']
    res = {}
    try:
        if case['kind'] in ('mol', 'spin') and case.get('tvonly'):
            return {'exact': exact_runs(case)}
        if case['kind'] in ('mol', 'spin'):
            res['exact'] = exact_runs(case)
            f = ptn.molecular_hamiltonian_mpo if case['kind'] == 'mol' else ptn.spin_molecular_hamiltonian_mpo
            ref = HR.molecular(t, v) if case['kind'] == 'mol' else HR.spin_molecular(t, v)
            scale = float(np.linalg.norm(ref)) or 1.0
            Hopt = f(t, v, optimize=True)
            Mo = G.mpo_dense(Hopt.A)
            res['err_opt'] = float(np.linalg.norm(Mo - ref)) / scale
            res['sparsity_opt'] = G.mpo_sparsity_ok(Hopt)
            res['dims_opt'] = [int(x) for x in Hopt.bond_dims]
            explicit_ok = (L >= 4) if case['kind'] == 'mol' else (L >= 2)
            if explicit_ok:
                Hex = f(t, v, optimize=False)
                Me = G.mpo_dense(Hex.A)
                res['err_exp'] = float(np.linalg.norm(Me - ref)) / scale
                res['paths'] = float(np.linalg.norm(Me - Mo)) / scale
                res['paths_sparse'] = float(abs(Hex.as_matrix(sparse_format=True) - Hopt.as_matrix(sparse_format=True)).max()) / scale
                res['sparsity_exp'] = G.mpo_sparsity_ok(Hex)
                res['dims_exp'] = [int(x) for x in Hex.bond_dims]
            hermitian_in = bool(np.array_equal(t, t.conj().T) and np.array_equal(v, v.conj().transpose(2, 3, 0, 1)))   # exact: magnitudes vary
            res['herm'] = float(np.linalg.norm(Mo - Mo.conj().T)) / scale if hermitian_in else None
            return res
        # gauge transformation of the explicit spinless construction (convention of the documented usage: the tensors
        # of the rotated-coefficient MPO at sites i, i+1, multiplied by the gauge matrices on their outer bonds, fit into the
        # ORIGINAL MPO's remaining tensors and give the rotated operator)
        u2 = unitary(case)
        worst = 0.0
        for i in range(L - 1):
            H = ptn.molecular_hamiltonian_mpo(t, v, optimize=False)
            U = np.identity(L, dtype=complex); U[i:i + 2, i:i + 2] = u2
            t2 = np.einsum(U, (2, 0), U.conj(), (3, 1), t, (2, 3), (0, 1))
            v2 = np.einsum(U, (4, 0), U, (5, 1), U.conj(), (6, 2), U.conj(), (7, 3), v, (4, 5, 6, 7), (0, 1, 2, 3))
            H2 = ptn.molecular_hamiltonian_mpo(t2, v2, optimize=False)
            ref = HR.molecular(t2, v2)
            v_l, v_r = ptn.molecular_hamiltonian_orbital_gauge_transform(H, u2, i)
            tensors = [a for a in H.A]
            tensors[i] = np.einsum(v_l, (2, 4), H2.A[i], (0, 1, 4, 3), (0, 1, 2, 3))
            tensors[i + 1] = np.einsum(v_r, (3, 4), H2.A[i + 1], (0, 1, 2, 4), (0, 1, 2, 3))
            M = G.mpo_dense(tensors)
            worst = max(worst, float(np.linalg.norm(M - ref)) / (float(np.linalg.norm(ref)) or 1.0))
        res = {'gauge': worst}
        if L <= GAUGE_EXACT_LMAX:
            try:
                res['exact'] = exact_gauge_runs(case)
            except Exception as e:
                res['exact'] = {'error': type(e).__name__}
        return res
    except Exception as e:
        import traceback
        tb = traceback.extract_tb(e.__traceback__)[-1]
        return {'error': type(e).__name__, 'detail': '%s [%s:%d]' % (str(e)[:160], tb.filename.split('/')[-1], tb.lineno)}


def prop(case, r):
    if 'error' in r:
        return ['%s raised %s: %s' % (case['kind'], r['error'], r.get('detail', ''))]
    msgs = []
    if case.get('tvonly'):
        for k in ('opt', 'exp'):
            if 'error' in r['exact'].get(k, {}):
                msgs.append('%s construction (%s path) raised %s on exact coefficients' % (case['kind'], k, r['exact'][k]['error']))
        return msgs
    if case['kind'] == 'gauge':
        if r['gauge'] > 1e-10:
            msgs.append('gauge matrices do not map the explicit MPO to that of the rotated coefficients (%.3g)' % r['gauge'])
        return msgs
    if r['err_opt'] > 1e-11:
        msgs.append('optimized construction differs from the second-quantized formula (%.3g)' % r['err_opt'])
    if r.get('err_exp', 0) > 1e-11:
        msgs.append('explicit construction differs from the second-quantized formula (%.3g)' % r['err_exp'])
    if max(r.get('paths', 0), r.get('paths_sparse', 0)) > 1e-11:
        msgs.append('optimized and explicit constructions disagree (%.3g)' % max(r.get('paths', 0), r.get('paths_sparse', 0)))
    for k in ('sparsity_opt', 'sparsity_exp'):
        if r.get(k):
            msgs.append('%s: %s' % (k, r[k]))
    if r.get('herm') is not None and r['herm'] > 1e-11:
        msgs.append('Hamiltonian not Hermitian for Hermitian coefficients (%.3g)' % r['herm'])
    return msgs


def zmx_lit(m):
    m = np.asarray(m)
    assert np.all(m == np.round(m))
    return '(zm %s %s %s)' % (E.nat(m.shape[0]), E.nat(m.shape[1]), E.lst([E.lst([E.z(int(x)) for x in row]) for row in m]))


def coq(case, r):
    if case['kind'] == 'gauge':
        return coq_gauge(case, r)
    ex = r.get('exact')
    if ex is None:
        return None if 'error' in r else 'false'
    L = case['L']
    ro = ex['opt']
    if 'error' in ro or 'error' in ex.get('exp', {}) or 'chains' not in ro or 'graph' not in ro:
        return 'false'          # the constructors must not raise inside the documented domain
    te, ve = exact_coefficients(case)
    mol = case['kind'] == 'mol'
    parts = ['Nat.eqb %s %s' % (E.nat(ro['L']), E.nat(L)), '(%s =? 0)' % E.z(ro['idn']),
             '%s (R := QIring) qhalf %s tt vv captured' % ('check_mol_chains' if mol else 'check_spin_chains', E.nat(L)),
             'check_graph_chains (R := QIring) gopt %s 0 cs %s' % (E.nat(L), MC.big_nat(MC.bfs_fuel(ro['graph']))),
             'check_opt_graph (R := QIring) cover_model cs %s 0 %s gopt' % (E.nat(L), MC.big_nat(MC.bfs_fuel(ro['graph']))),
             '%s %s' % ('mol_opmap_check' if mol else 'spin_opmap_check',
                        E.lst([E.pair(E.z(k), zmx_lit(m)) for k, m in sorted(ro['opmap'].items(), key=lambda kv: int(kv[0]))]))]
    if not mol:
        # the SpinMolecularOID numbering of the implementation against the model's pair_oid
        parts.append('forallb (fun p => match pair_oid (fst (fst p)) (snd (fst p)) with Some o => o =? snd p | None => false end) %s'
                     % E.lst(['(%s, %s, %s)' % (E.z(a), E.z(b), E.z(o)) for a, b, o in ro['pairmap']]))
        parts.append('Nat.eqb %d 23' % len(ro['pairmap']))
    lets = ['let tt := %s in' % MC.tab_lit(te), 'let vv := %s in' % MC.tab_lit(ve),
            'let captured := %s in' % E.lst([MC.chain_lit(c) for c in ro['chains']]),
            'let gopt := %s in' % MC.graph_lit(ro['graph'])]
    if 'exp' in ex:
        lets.append('let gexp := %s in' % MC.graph_lit(ex['exp']['graph']))
        parts.append('check_graph_chains (R := QIring) gexp %s 0 cs %s' % (E.nat(L), MC.big_nat(MC.bfs_fuel(ex['exp']['graph']))))
    body = ' && '.join(parts)
    if mol:
        return '\n  '.join(lets) + '\n  let cs := mchains %s tt vv in\n  %s' % (E.nat(L), body)
    return '\n  '.join(lets) + '\n  match schains %s tt vv with Ok cs => %s | Err _ => false end' % (E.nat(L), body)


# ---- (d) exact gauge runs: unitaries with Gaussian-rational entries Un / den ----
def exact_unitary(case):
    """(Un, den): u = Un / den is exactly unitary, Un a Gaussian-integer matrix"""
    k = case['seed'] % 8
    a, b = (case['seed'] // 8) % 4, (case['seed'] // 32) % 4
    ph = lambda x, y: np.diag([1j ** x, 1j ** y])
    swap = np.array([[0, 1], [1, 0]], dtype=complex)
    r35 = np.array([[3, -4], [4, 3]], dtype=complex)
    r513 = np.array([[5, -12], [12, 5]], dtype=complex)
    g5 = np.array([[3, 4j], [4j, 3]], dtype=complex)
    if k == 0:
        return swap, 1, 'swap'
    if k == 1:
        return ph(a, b), 1, 'phase'
    if k == 2:
        return swap @ ph(a, b), 1, 'swap*phase'
    if k == 3:
        return r35, 5, 'rot(3/5,4/5)'
    if k == 4:
        return r513, 13, 'rot(5/13,12/13)'
    if k == 5:
        return ph(a, b) @ r35 @ ph(b, a + 1), 5, 'phase*rot*phase'
    if k == 6:
        return g5, 5, 'complex(3,4i)/5'
    return swap @ r35 @ ph(a, b), 5, 'swap*rot*phase'


def exact_gauge_runs(case):
    import pytenet as ptn
    L = case['L']
    rs = np.random.default_rng(case['seed'] + 11)
    cplx = case['dtype'] == 'complex'
    def rint(shape, hi):
        x = rs.integers(-hi, hi + 1, size=shape).astype(float)
        return x + 1j * rs.integers(-hi, hi + 1, size=shape) if cplx else x
    t0, v0 = rint((L, L), 3), rint((L, L, L, L), 2)
    if case['struct'] == 'sparse':
        v0 = v0 * (rs.random((L, L, L, L)) < 0.3)
    Un, den, name = exact_unitary(case)
    t, v = den ** 2 * t0, den ** 4 * v0            # scaled so that the rotated coefficients are Gaussian integers
    H = ptn.molecular_hamiltonian_mpo(t, v, optimize=False)
    ten = lambda a: np.stack([np.asarray(a).real, np.asarray(a).imag], axis=-1).tolist()
    out = {'uname': name, 'den': den, 'H': [ten(a) for a in H.A], 'runs': []}
    for i in range(L - 1):
        Uf = np.identity(L, dtype=complex); Uf[i:i + 2, i:i + 2] = Un      # den * U on the rotated pair
        W = [Uf.copy() for _ in range(2)]
        # exact integer arithmetic in complex128: U = diag(1,..,Un/den,..,1); the identity part carries the factor den
        Ui = np.identity(L, dtype=complex) * den; Ui[i:i + 2, i:i + 2] = Un
        t2 = np.einsum(Ui, (2, 0), Ui.conj(), (3, 1), t0, (2, 3), (0, 1))
        v2 = np.einsum(Ui, (4, 0), Ui, (5, 1), Ui.conj(), (6, 2), Ui.conj(), (7, 3), v0, (4, 5, 6, 7), (0, 1, 2, 3))
        assert np.all(t2 == np.round(t2)) and np.all(v2 == np.round(v2)) and np.max(np.abs(v2)) < 2 ** 50
        H2 = ptn.molecular_hamiltonian_mpo(t2, v2, optimize=False)
        u2 = Un / den
        v_l, v_r = ptn.molecular_hamiltonian_orbital_gauge_transform(H, u2, i)
        out['runs'].append({'i': i, 'H2': [ten(a) for a in H2.A], 'v_l': ten(v_l), 'v_r': ten(v_r)})
    return out


def _cplx(a):
    a = np.asarray(a, dtype=float)
    return a[..., 0] + 1j * a[..., 1]


def _snap(m, den):
    """the Gaussian rationals with denominator den^2 nearest to the recorded entries"""
    from fractions import Fraction
    d2 = den * den
    m = _cplx(m)
    return [[(Fraction(int(round(x.real * d2)), d2), Fraction(int(round(x.imag * d2)), d2)) for x in row] for row in m]


def _qq(re, im):
    from fractions import Fraction
    re, im = Fraction(re), Fraction(im)
    den = int(np.lcm(re.denominator, im.denominator))
    if im == 0 and re == 0:
        return 'q0'
    return '(qq %s %s %d)' % (E.z(int(re * den)), E.z(int(im * den)), den)


def _mx_exact(rows):
    return '(mq %s %s %s)' % (E.nat(len(rows)), E.nat(len(rows[0])), E.lst([E.lst([_qq(re, im) for re, im in row]) for row in rows]))


def _osite(a):
    W = _cplx(a)
    return E.lst([E.lst([MC.mx_lit(W[s, t]) for t in range(W.shape[1])]) for s in range(W.shape[0])])


def coq_gauge(case, r):
    ex = r.get('exact')
    if ex is None:
        return None
    if 'error' in ex:
        return 'false'
    lets = ['let H := %s in' % E.lst([_osite(a) for a in ex['H']])]
    parts = []
    for run in ex['runs']:
        i = run['i']
        lets.append('let H2_%d := %s in' % (i, E.lst([_osite(a) for a in run['H2']])))
        parts.append('check_gauge H H2_%d %s %s %s %s %s' % (i, E.nat(i), _mx_exact(_snap(run['v_l'], ex['den'])), _mx_exact(_snap(run['v_r'], ex['den'])),
                                                         MC.mx_lit(_cplx(run['v_l'])), MC.mx_lit(_cplx(run['v_r']))))
    return '\n  '.join(lets) + '\n  ' + ' && '.join(parts)


def finding_key(case, r, msgs):
    """the zero operator: every chain coefficient vanishes (t = 0 and the antisymmetrised v = 0, e.g. L = 1 with t_00 = 0), and
    OpGraph.from_opchains raises on an all-zero chain list"""
    if r.get('error') == 'AssertionError' and 'bipartite_graph.py' in r.get('detail', '') and case['kind'] in ('mol', 'spin') and case['L'] <= 3:
        t, v = coefficients(case)
        ref = HR.molecular(t, v) if case['kind'] == 'mol' else HR.spin_molecular(t, v)
        if not np.any(ref):
            return 'molecular-zero-hamiltonian'
    return None


def klass(case, r):
    if 'error' in r:
        return case['kind'] + '/error'
    if case.get('tvonly'):
        return '%s/L%d/%s/%s' % (case['kind'], case['L'], case['struct'], 'translation-validation-only')
    return '%s/L%d/%s/%s' % (case['kind'], case['L'], case['struct'], 'both-paths' if 'err_exp' in r else ('gauge' if 'gauge' in r else 'opt-only'))


def nontrivial(case, r):
    return 'error' not in r and (case['L'] >= 3 or 'err_exp' in r or bool(case.get('tvonly')))
