"""C11 — block-sparse QR (pytenet/bond_ops.py: qr).

Form R: numpy.linalg.qr is wrapped from outside and every (argument, answer) pair is recorded; the Coq model
(Model/BondOps.v: block_qr) runs with the recorded table as its oracle, everything as exact rationals, and must
return the implementation's Q, R, qinterm exactly (placement, cropping and permutations involve no arithmetic),
and must issue exactly the recorded calls (same blocks, same order)."""
import itertools
import numpy as np
import emit as E
import bondops_common as BC


def _mx(a):
    return E.qimx(a).replace('(mkmx ', '(qmx ', 1)

PROP = 'C11'
COQ_IMPORTS = ['PT.Base.Scalar', 'PT.Base.Mx', 'PT.Model.BondOps']
COQ_PREAMBLE = E.QC_PREAMBLE + 'Definition qmx := @mkmx QIring.\n'
FORM = ('R (replay): numpy.linalg.qr recorded per call; block_qr evaluated by vm_compute over Q(i) with the recorded table '
        '(lookup by exact argument) as oracle; Q, R, qinterm and the list of oracle arguments compared exactly; '
        'malformed inputs: both sides must reject')
RULE = ('quick: every shape 1..6 x 1..6, for each shape one case per charge-vector class (sorted / q0 unsorted / q1 unsorted / both unsorted / '
        'constant / disjoint / partly shared (empty blocks) / negative / >= 2^16) plus seeded extras, entries real or complex, '
        'integer valued or generic binary64, with rank-deficient and zero blocks planted; a malformed stream (wrong lengths, non-sparse A); '
        'thorough: additionally every pair of charge vectors over {0,1,2} for m, n <= 3 and more seeded cases. '
        'non-trivial = at least one shared charge and (a block larger than 1x1 or a permutation is applied); distinct by full input')
SHARD = 40
IMPL_PARALLEL = True
TRUSTED = ['hand-written Gallina mirror of bond_ops.qr (Model/BondOps.v) tied to the code by exact agreement on every generated input',
           'numpy.linalg.qr (LAPACK geqrf/orgqr): contract Q R = B, Q^H Q = I, shapes; assumed in the theorem only for the issued calls, '
           'measured to 1e-12 on every recorded call',
           'independent numpy re-implementation of the clauses in harness/props/c11.py (search only)']
PARTIAL = ('proved for all inputs (Properties/C11.v, C11_block_qr_spec, closed under the global context): for every scalar ring with conjugation, '
           'all shapes m, n >= 1, all integer charge vectors, every block-sparse A and every oracle meeting the LAPACK contract on the issued calls, '
           'the model block_qr does not fail and Q R = A, Q^H Q = I_D, Q / R block sparse under (q0, qinterm) / (qinterm, q1), '
           'len qinterm = D = nc Q = nr R <= min(m, n), and the disjoint case returns D = 1, Q = e_0, R = 0, qinterm = q0[:1]. '
           'Not proved but validated on every generated input: that pytenet.bond_ops.qr computes what the model computes (exact agreement of '
           'Q, R, qinterm and of the oracle arguments), that LAPACK meets its contract (measured to 1e-12), and that the input arrays are not modified.')
ASSUMPTIONS = ['binary64 values are read as exact rationals; the model does no arithmetic on matrix entries',
               'numpy.argsort(kind="mergesort") is a stable sort; numpy.argsort of a permutation vector is its inverse',
               'numpy.intersect1d returns the sorted unique common values']


def _classes(rng, m, n):
    out = []
    def base(k):
        pool = rng.sample(range(-2, 4), k)
        return pool
    def vec(pool, L, sort):
        v = [rng.choice(pool) for _ in range(L)]
        if sort:
            v.sort()
        elif L > 1:
            for _ in range(5):
                if v != sorted(v):
                    break
                rng.shuffle(v)
                if len(set(v)) == 1:
                    v[rng.randrange(L)] = rng.choice(pool)
        return v
    pool = base(rng.randint(1, 3))
    out.append(('sorted', vec(pool, m, True), vec(pool, n, True)))
    pool = base(rng.randint(2, 3))
    out.append(('unsorted0', vec(pool, m, False), vec(pool, n, True)))
    out.append(('unsorted1', vec(pool, m, True), vec(pool, n, False)))
    out.append(('unsorted01', vec(pool, m, False), vec(pool, n, False)))
    c = rng.randint(-3, 3)
    out.append(('constant', [c] * m, [c] * n))
    out.append(('disjoint', vec([0, 2, -4], m, rng.random() < 0.5), vec([1, 3, -1], n, rng.random() < 0.5)))
    out.append(('partly', vec([0, 1, 5], m, rng.random() < 0.5), vec([1, 2, 5, 7], n, rng.random() < 0.5)))
    out.append(('negative', vec([-7, -1, -2], m, rng.random() < 0.4), vec([-7, -2, -3], n, rng.random() < 0.4)))
    big = [65536, 65537, 2 ** 31 - 1, -(2 ** 20), 2 ** 40 + 3]
    bp = rng.sample(big, 3)
    out.append(('large', vec(bp, m, rng.random() < 0.4), vec(bp, n, rng.random() < 0.4)))
    # neighbouring charges beyond 2^53: distinct as integers, equal after rounding to binary64
    huge = [2 ** 53, 2 ** 53 + 1, -(2 ** 53) - 1, 2 ** 60 + 1]
    hp = rng.sample(huge, 3)
    out.append(('huge', vec(hp, m, rng.random() < 0.4), vec(hp, n, rng.random() < 0.4)))
    return out


def _mk_case(rng, m, n, q0, q1, cplx=None, entries=None, tag=''):
    cplx = rng.random() < 0.5 if cplx is None else cplx
    entries = rng.choice(['int', 'float']) if entries is None else entries
    A = BC.random_sparse(rng, q0, q1, cplx, entries)
    # integer dtype arrays (regression: factors used to be truncated to the integer dtype)
    dtype_int = bool(entries == 'int' and not cplx and rng.random() < 0.35)
    return {'q0': [int(x) for x in q0], 'q1': [int(x) for x in q1], 'A': BC.mat_to_json(A), 'cplx': bool(cplx),
            'entries': entries, 'tag': tag, 'dtype_int': dtype_int}


def corpus():
    """regression inputs: integer dtype matrices"""
    mk = lambda A, q0, q1: {'q0': q0, 'q1': q1, 'A': BC.mat_to_json(np.array(A, dtype=float)), 'cplx': False, 'entries': 'int',
                            'tag': 'corpus-int-dtype', 'dtype_int': True}
    return [mk([[1, 2], [3, 4]], [0, 0], [0, 0]),
            mk([[0, 3], [2, 0], [1, 0]], [1, 0, 0], [0, 1]),
            mk([[0, 0], [0, 0]], [0, 1], [2, 3])]


def cases(rng, tier):
    out = []
    reps = {'quick': 1, 'thorough': 3, 'search': 1}[tier]
    for _ in range(reps):
        for m in range(1, 7):
            for n in range(1, 7):
                for name, q0, q1 in _classes(rng, m, n):
                    out.append(_mk_case(rng, m, n, q0, q1, tag=name))
    # make sure every (dtype, entry kind) combination occurs on unsorted inputs of moderate size
    for cplx in (False, True):
        for entries in ('int', 'float'):
            for (m, n) in ((3, 3), (4, 5), (6, 2)):
                name, q0, q1 = _classes(rng, m, n)[3]
                out.append(_mk_case(rng, m, n, q0, q1, cplx, entries, tag=name))
    n_extra = {'quick': 300, 'thorough': 600, 'search': 300}[tier]
    for _ in range(n_extra):
        m, n = rng.randint(1, 6), rng.randint(1, 6)
        name, q0, q1 = rng.choice(_classes(rng, m, n))
        out.append(_mk_case(rng, m, n, q0, q1, tag=name))
    if tier == 'thorough':
        for m in range(1, 4):
            for n in range(1, 4):
                for q0 in itertools.product(range(3), repeat=m):
                    for q1 in itertools.product(range(3), repeat=n):
                        out.append(_mk_case(rng, m, n, list(q0), list(q1), tag='enum012'))
    # magnitude regimes: power-of-two multiples (exact) of a sample of the cases above
    for c in rng.sample(out, min(len(out), {'quick': 120, 'thorough': 300, 'search': 60}[tier])):
        k = rng.choice([-60, -40, -30, -27, 30])
        f = 2.0 ** k
        c2 = dict(c)
        c2['A'] = [[[re * f, im * f] for re, im in row] for row in c['A']]
        c2['dtype_int'] = bool(c['dtype_int'] and k > 0)
        c2['tag'] = c['tag'] + '/x2^%d' % k
        out.append(c2)
    for c in out:
        if rng.random() < 0.2:
            c['layout'] = rng.randrange(1, 4)
    # malformed stream: wrong lengths, non-sparse A
    n_bad = {'quick': 24, 'thorough': 60, 'search': 0}[tier]
    for k in range(n_bad):
        m, n = rng.randint(1, 4), rng.randint(1, 4)
        name, q0, q1 = rng.choice(_classes(rng, m, n)[:5])
        c = _mk_case(rng, m, n, q0, q1, tag='malformed')
        kind = k % 3
        if kind == 0:
            c['q0'] = c['q0'] + [c['q0'][-1]] if rng.random() < 0.5 else c['q0'][:-1]
            c['bad'] = 'len-q0'
        elif kind == 1:
            c['q1'] = c['q1'] + [c['q1'][-1]] if rng.random() < 0.5 else c['q1'][:-1]
            c['bad'] = 'len-q1'
        else:
            # put a non-zero where the charges differ (if there is such a position)
            pos = [(i, j) for i in range(m) for j in range(n) if c['q0'][i] != c['q1'][j]]
            if not pos:
                c['q0'][0] += 1
                pos = [(0, j) for j in range(n) if c['q0'][0] != c['q1'][j]]
                # entries of row 0 were generated for the old charge: they now sit at mismatching positions
                c['A'][0][0] = [1.0, 0.0]
            i, j = rng.choice(pos)
            c['A'][i][j] = [float(rng.randint(1, 3)), 0.0]
            c['bad'] = 'non-sparse'
        out.append(c)
    return out


def impl(case):
    import pytenet.bond_ops as bo
    A = BC.mat_from_json(case['A'], case['cplx'])
    if case.get('dtype_int'):
        A = np.rint(A).astype(int)
    if case.get('layout'):
        import gen as G
        A = G.relayout(A, case['layout'])      # Fortran order / non-contiguous view / negative strides: same values
    q0 = np.array(case['q0'], dtype=int)
    q1 = np.array(case['q1'], dtype=int)
    snap = (A.tobytes(), q0.tobytes(), q1.tobytes())
    rec = BC.Recorder()
    try:
        with rec.patch_qr():
            Q, R, qi = bo.qr(A, q0, q1)
    except Exception as e:
        return {'error': type(e).__name__}
    return {'Q': BC.mat_to_json(Q), 'R': BC.mat_to_json(R), 'qinterm': [int(x) for x in qi], 'qi_kind': np.asarray(qi).dtype.kind,
            'calls': [{'arg': BC.mat_to_json(a), 'Q': BC.mat_to_json(q), 'R': BC.mat_to_json(r)} for a, q, r in rec.qr_calls],
            'unchanged': (A.tobytes(), q0.tobytes(), q1.tobytes()) == snap,
            'shapes': [list(np.shape(Q)), list(np.shape(R)), list(np.shape(qi))]}


def prop(case, r):
    bad = case.get('bad')
    if bad:
        return []   # outside the property's domain: only the correspondence (both reject) is checked
    if 'error' in r:
        return ['qr raised %s on a valid input' % r['error']]
    msgs = []
    A = BC.mat_from_json(case['A'], True)
    q0, q1 = case['q0'], case['q1']
    m, n = A.shape
    Q = BC.mat_from_json(r['Q'], True)
    R = BC.mat_from_json(r['R'], True)
    qi = r['qinterm']
    if r['shapes'][0] != [m, len(qi)] or r['shapes'][1] != [len(qi), n] or r['shapes'][2] != [len(qi)]:
        msgs.append('shapes of Q, R, qinterm inconsistent: %s' % r['shapes'])
        return msgs
    D = len(qi)
    if r.get('qi_kind', 'i') not in 'iu':
        msgs.append('intermediate quantum numbers are not integers (dtype kind %r): large charges are rounded' % r['qi_kind'])
    sc = (float(np.abs(A).max()) or 1.0) if A.size else 1.0      # relative: magnitudes vary
    if np.abs(Q @ R - A).max(initial=0.0) > 1e-10 * sc:
        msgs.append('Q R differs from A by %.3g' % np.abs(Q @ R - A).max())
    if np.abs(Q.conj().T @ Q - np.eye(D)).max(initial=0.0) > 1e-10:
        msgs.append('Q^H Q differs from the identity by %.3g' % np.abs(Q.conj().T @ Q - np.eye(D)).max())
    if not BC.sparse_under(Q, q0, qi):
        msgs.append('Q not block sparse under (q0, qinterm)')
    if not BC.sparse_under(R, qi, q1):
        msgs.append('R not block sparse under (qinterm, q1)')
    if D > min(m, n):
        msgs.append('intermediate dimension %d exceeds min(m, n) = %d' % (D, min(m, n)))
    if not set(q0) & set(q1):
        if D != 1:
            msgs.append('no shared charge but intermediate dimension %d' % D)
    if not r['unchanged']:
        msgs.append('input arrays modified')
    # the LAPACK contract on every recorded call (trusted-base measurement)
    for c in r['calls']:
        B = BC.mat_from_json(c['arg'], True); Qs = BC.mat_from_json(c['Q'], True); Rs = BC.mat_from_json(c['R'], True)
        k = min(B.shape)
        if Qs.shape != (B.shape[0], k) or Rs.shape != (k, B.shape[1]):
            msgs.append('numpy.linalg.qr returned unexpected shapes')
        elif np.abs(Qs @ Rs - B).max(initial=0.0) > 1e-12 * (1 + np.abs(B).max(initial=0.0)) * max(B.shape) \
                or np.abs(Qs.conj().T @ Qs - np.eye(k)).max(initial=0.0) > 1e-12 * max(B.shape):
            msgs.append('numpy.linalg.qr answer violates its contract beyond 1e-12')
    return msgs


def _coq_args(case, r):
    A = BC.mat_from_json(case['A'], True)
    tbl = E.lst([E.pair(_mx(BC.mat_from_json(c['arg'], True)),
                        E.pair(_mx(BC.mat_from_json(c['Q'], True)), _mx(BC.mat_from_json(c['R'], True))))
                 for c in r.get('calls', [])])
    return tbl, _mx(A), E.zlist(case['q0']), E.zlist(case['q1'])


def coq(case, r):
    tbl, A, q0, q1 = _coq_args(case, r)
    if 'error' in r:
        if r['error'] != 'AssertionError':
            return 'false'
        expect = 'None'
    else:
        expect = '(Some (%s, %s, %s))' % (_mx(BC.mat_from_json(r['Q'], True)), _mx(BC.mat_from_json(r['R'], True)),
                                          E.zlist(r['qinterm']))
    return 'check_qr (R:=QIring) %s %s %s %s %s' % (tbl, A, q0, q1, expect)


def coq_diag(case, r):
    tbl, A, q0, q1 = _coq_args(case, r)
    return 'block_qr (R:=QIring) (qr_oracle %s) %s %s %s' % (tbl, A, q0, q1)


def klass(case, r):
    if case.get('bad'):
        return 'malformed/%s/%s' % (case['bad'], 'rejected' if 'error' in r else 'accepted')
    q0, q1 = case['q0'], case['q1']
    shared = len(set(q0) & set(q1))
    s0 = 'S' if q0 == sorted(q0) else 'U'
    s1 = 'S' if q1 == sorted(q1) else 'U'
    return '%s/q0%s.q1%s/shared%s/%s-%s' % (case.get('tag', ''), s0, s1, min(shared, 3) if shared < 3 else '3+',
                                            'c' if case['cplx'] else 'r', 'intdtype' if case.get('dtype_int') else case['entries'])


def nontrivial(case, r):
    if case.get('bad') or 'error' in r:
        return False
    q0, q1 = case['q0'], case['q1']
    if not set(q0) & set(q1):
        return False
    big = any(len(c['arg']) > 1 or (c['arg'] and len(c['arg'][0]) > 1) for c in r['calls'])
    return big or q0 != sorted(q0) or q1 != sorted(q1)
