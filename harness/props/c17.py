"""C17 — operator trees and state automata unfold to graphs with the same meaning
(pytenet/optree.py, autop.py, opchain.py: as_matrix, opgraph.py: from_automaton, _insert_opchain,
_insert_subtree, from_optrees, as_matrix)."""
import itertools, random, copy
import numpy as np
import emit as E
import graphemit as G

PROP = 'C17'
COQ_IMPORTS = ['PT.Base.Scalar', 'PT.Base.Mx', 'PT.Model.OpGraph', 'PT.Model.C17Common', 'PT.Model.OpTree',
               'PT.Model.AutOp', 'PT.Model.DenseOp', 'PT.Model.C17Check']
FORM = ('E (exact): the model is evaluated by vm_compute at Z[i] on the same trees / automata (site-dependent active and '
        'opics tables shipped to Coq); the whole graph of from_automaton and the graph of from_optrees captured just before '
        'simplify() are compared with graph_eqb (dictionary order included), error classes compared; as_matrix of chains, '
        'trees and graphs (both directions) under random integer operator maps compared entry by entry; additionally the '
        'statements of the den / dense-meaning theorems are evaluated on every word for small alphabets')
RULE = ('random automata: 2-5 nodes with arbitrary distinct ids, 1-9 edges with self loops, parallel edges, dead states, '
        'site-dependent or constant active/opics (duplicate and unsorted operator ids, cancelling coefficients), '
        'planted Ising-like automata, terminals possibly equal, L in 1..6, automata without a path (assertion) and L=0; '
        'random tree lists: 1-3 trees, branching 1-3, leaves at different depths, shared operator ids, start sites, '
        'Gaussian-integer coefficients, a few invalid inputs (too high trees, charge mismatch, istart >= L); chains of '
        'length 0-4. non-trivial = at least two distinct paths/words; distinct by the full input')
SHARD = 12
IMPL_PARALLEL = True
TRUSTED = ['hand-written Gallina mirrors Model/OpTree.v, Model/AutOp.v, Model/DenseOp.v (on top of Model/OpGraph.v) tied to the '
           'code by exact agreement on every generated input',
           'independent path enumerations of tree / automaton semantics in harness/props/c17.py and graphemit.path_poly (search only)']
PARTIAL = ('proved for all inputs (Properties/C17.v): from_automaton_den for consistent automata (den of the returned graph = sum over '
           'automaton paths, 0 for other lengths, dead states contribute nothing), dense meaning of chains, trees (with >= 1 edge) and '
           'layered graphs in both directions; "both graphs are consistent and of the requested length": for a consistent automaton the '
           'graph from_automaton builds is well formed in the sense of C16 (no dangling nodes), has glength = L and can never fail '
           'is_consistent (any fuel), so the final assertion of from_automaton is unreachable as a failure; for every accepted tree list '
           'with non-negative start sites the pre-simplify graph can never fail is_consistent, and for a non-empty list it is well formed '
           'with glength = L; through C16, simplify() then returns a well-formed (hence consistent) graph with the same meaning, the same '
           'length L and no more nodes/edges. Side conditions shown necessary by kernel-checked examples (inconsistent automaton with a '
           'dangling node and length 1 instead of 3; empty tree list; negative start site). Totality of from_automaton (section (e), '
           'Proofs/C17AutFuel.v, Proofs/C17AutTotal.v): for every consistent automaton and every L >= 1, the model returns a graph (no '
           'ValueError/KeyError/IndexError, none of the active-layer assertions nor the final is_consistent assertion fires, the model '
           'fuel of the level search suffices) if and only if the automaton has a path of L steps between its terminals respecting the '
           'site-dependent activity (executable predicate is_path of Model/AutOpPath.v, implied by a non-zero aut_den coefficient); '
           'without such a path the model ends in the AssertionError of nids_active[0]; the assertion len(nids_active) == length + 1 is '
           'not a branch of the model and is proved unreachable; the same fuel theorem makes is_consistent = Some true for the pre-simplify '
           'tree graph. Nothing of the automaton part is left unproved at model level; graph length / consistency / error classes are still '
           'evaluated per case (check_from_automaton, check_aut_den) as the model-to-code correspondence and a cross-check of the theorems')
ASSUMPTIONS = ['CPython set iteration order does not influence from_automaton (active sets are intersected and sorted)',
               'operator maps are total on the operator ids in use and consist of square d x d matrices, d >= 1']

ERRS = {'ValueError': 'EValue', 'KeyError': 'EKey', 'RuntimeError': 'ERuntime', 'AssertionError': 'EAssert', 'IndexError': 'EIndex'}


# ------------------------------------------------------------------------------------------------
# generators
# ------------------------------------------------------------------------------------------------

def _coeff(rng, cplx=False):
    c = rng.choice([1, 1, 1, 2, -1, -2, 3, 0]) if rng.random() < 0.9 else rng.randint(-3, 3)
    if cplx and rng.random() < 0.3:
        return [c, rng.randint(-2, 2)]
    return [c, 0]


def _oid_pool(rng, lo, hi):
    """operator-id alphabet: usually small ids, sometimes large ADJACENT ids (distinct as integers, equal under a relative
    float tolerance) and ids of both signs"""
    r = rng.random()
    if r < 0.25:
        return list(range(1000001, 1000001 + (hi - lo)))
    if r < 0.35:
        return list(range(-(2 ** 40) - (hi - lo), -(2 ** 40)))
    return list(range(lo, hi))


def _opics(rng, oids, cplx):
    k = rng.choice([1, 1, 1, 2, 2, 3])
    ops = [rng.choice(oids) for _ in range(k)]          # duplicates and unsorted ids on purpose
    return [[o, _coeff(rng, cplx)] for o in ops]


def _gen_automaton(rng, L, small):
    nn = rng.randint(2, 5)
    ids = rng.sample(range(-3, 12), nn)
    oids = rng.sample(_oid_pool(rng, -2, 7), rng.randint(1, 3))
    cplx = rng.random() < 0.25
    nodes = {i: [i, [], [], rng.choice([0, 0, 1, -1, 2])] for i in ids}
    t0 = ids[0]
    t1 = ids[0] if rng.random() < 0.06 else ids[1]
    ne = rng.randint(1, 9 if L <= 4 else 7)
    eids = rng.sample(range(-2, 25), ne + 6)
    edges = []

    def add(eid, a, b, opics, active):
        edges.append([eid, a, b, opics, active])
        nodes[a][2].append(eid)
        nodes[b][1].append(eid)
    k = 0
    style = rng.random()
    if style < 0.6:
        # backbone: loops on the terminals and a direct transition (as the Hamiltonian constructions do)
        add(eids[k], t0, t0, {'const': [[oids[0], [1, 0]]]}, {'const': True}); k += 1
        if t1 != t0:
            add(eids[k], t1, t1, {'const': [[oids[0], [1, 0]]]}, {'const': True}); k += 1
            add(eids[k], t0, t1, {'const': _opics(rng, oids, cplx)}, {'const': True}); k += 1
    for _ in range(ne):
        a = rng.choice(ids); b = rng.choice(ids)
        if rng.random() < 0.2:
            b = a
        if rng.random() < 0.55:
            opics = {'const': _opics(rng, oids, cplx)}
        else:
            opics = {'table': [_opics(rng, oids, cplx) for _ in range(max(L, 1))]}
        r = rng.random()
        if r < 0.5:
            active = {'const': True}
        elif r < 0.55:
            active = {'const': False}
        else:
            active = {'table': [rng.random() < 0.7 for _ in range(max(L, 1))]}
        add(eids[k], a, b, opics, active); k += 1
    order = list(ids)
    rng.shuffle(order)
    rng.shuffle(edges)
    case = {'kind': 'aut', 'L': L, 'nodes': [nodes[i] for i in order], 'edges': edges, 't': [t0, t1], 'oids': sorted(oids)}
    _add_opmap(rng, case, sorted(oids), small, None)
    return case


def _ising(rng, L):
    J, h, g = rng.randint(-3, 3), rng.randint(-3, 3), rng.randint(-3, 3)
    nodes = [[0, [0], [0, 2, 4, 5], 0], [1, [1, 3, 4, 5], [1], 0], [2, [2], [3], 0]]
    c = lambda o, x: {'const': [[o, [x, 0]]]}
    a = {'const': True}
    edges = [[0, 0, 0, c(0, 1), a], [1, 1, 1, c(0, 1), a], [2, 0, 2, c(1, J), a], [3, 2, 1, c(1, 1), a],
             [4, 0, 1, c(1, h), a], [5, 0, 1, c(2, g), a]]
    case = {'kind': 'aut', 'L': L, 'nodes': nodes, 'edges': edges, 't': [0, 1], 'oids': [0, 1, 2]}
    _add_opmap(rng, case, [0, 1, 2], L <= 4, None)
    return case


def _add_opmap(rng, case, oids, dense, oid_identity):
    """random integer operator map (d in 1..2); identity operator id mapped to the identity matrix"""
    if not dense:
        case['opmap'] = None
        return
    d = rng.choice([1, 2, 2])
    case['d'] = d
    om = {}
    for o in oids:
        if o == oid_identity:
            om[o] = np.identity(d, dtype=int).tolist()
        else:
            om[o] = [[rng.randint(-2, 2) for _ in range(d)] for _ in range(d)]
    case['opmap'] = [[o, om[o]] for o in oids]


def _gen_tree(rng, depth, oids, cplx, pleaf, qleaf_end, q_of):
    """[q, [[oid, coeff, child], ...]] ; depth = remaining sites; a leaf at remaining depth 0 needs charge qleaf_end"""
    near = [rng.random() < 0.15]       # at most once per tree: two sibling edges with the same operator and coefficients that are
                                      # different but close in the sense of numpy.isclose (200000 and 200001); products stay < 2^53
    def rec(rem, q):
        if rem == 0 or rng.random() < pleaf:
            return [q, []]
        ch = []
        for _ in range(rng.choice([1, 1, 2, 2, 3])):
            ch.append([rng.choice(oids), _coeff(rng, cplx), None])
        if near[0] and len(ch) >= 2 and rng.random() < 0.5:
            near[0] = False
            big = rng.choice([200000, -300000])
            ch[0][1] = [big, 0]
            ch[1][0] = ch[0][0]
            ch[1][1] = [big + 1, 0]
        for c in ch:
            sub_rem = rem - 1
            # decide the child's shape first, to pick a charge the graph accepts
            c[2] = rec(sub_rem, q_of(sub_rem))
        return [q, ch]
    return rec


def _gen_trees(rng, L, small):
    oid_id = rng.choice([0, 0, 3, -1])
    oids = sorted(set([oid_id] + rng.sample(_oid_pool(rng, -2, 6), rng.randint(1, 3))))
    cplx = rng.random() < 0.25
    charged = rng.random() < 0.5
    trees = []
    for _ in range(rng.choice([1, 1, 2, 2, 3])):
        istart = rng.choice([0, 0, 0, 1, 2, 3]) if L > 1 else 0
        istart = min(istart, L - 1)
        rem = L - istart

        def q_of(sub_rem):
            # nodes that coincide with the end terminal (no remaining site) carry charge 0
            return 0 if (sub_rem == 0 or not charged) else rng.choice([0, 1, -1])
        rootq = 0 if (istart == 0 or not charged) else rng.choice([0, 1])
        rec = _gen_tree(rng, rem, oids, cplx, rng.choice([0.0, 0.15, 0.35]), 0, q_of)
        root = rec(rem, rootq)
        if not root[1] and rng.random() < 0.8:
            # make the root a proper node most of the time
            root = [rootq, [[rng.choice(oids), _coeff(rng, cplx), [q_of(rem - 1), []]]]]
        trees.append({'istart': istart, 'root': root})
    case = {'kind': 'trees', 'L': L, 'oid_id': oid_id, 'trees': trees, 'oids': oids, 'bad': None}
    r = rng.random()
    if r < 0.04:
        case['bad'] = 'charge'
        t = rng.choice(trees)
        t['root'][0] += 1
    elif r < 0.08:
        case['bad'] = 'height'
        t = rng.choice(trees)
        # chain deeper than the remaining length
        node = t['root']
        for _ in range(L - t['istart'] + 1):
            if not node[1]:
                node[1].append([rng.choice(oids), [1, 0], [0, []]])
            node = node[1][0][2]
    elif r < 0.11:
        case['bad'] = 'istart'
        rng.choice(trees)['istart'] = L + rng.choice([0, 0, 1])
    elif r < 0.13:
        case['bad'] = 'leaf-charge'
        # leaf at the end terminal with a non-zero charge
        node = trees[0]['root']
        while node[1]:
            node = node[1][0][2]
        node[0] = 5
    _add_opmap(rng, case, oids, small, oid_id)
    return case


def _gen_chain(rng):
    n = rng.randint(0, 4)
    oids = sorted(rng.sample(range(-2, 6), rng.randint(1, 3)))
    case = {'kind': 'chain', 'oids_chain': [rng.choice(oids) for _ in range(n)], 'coeff': _coeff(rng, True), 'oids': oids}
    _add_opmap(rng, case, oids, True, None)
    return case


def cases(rng, tier):
    out = []
    n_aut = {'quick': 300, 'thorough': 1500, 'search': 300}[tier]
    n_tr = {'quick': 260, 'thorough': 1300, 'search': 300}[tier]
    n_ch = {'quick': 16, 'thorough': 100, 'search': 20}[tier]
    for L in range(1, 7):
        out.append(_ising(rng, L))
    for k in range(n_aut):
        L = rng.choice([1, 1, 2, 2, 3, 3, 4, 4, 5, 6])
        if rng.random() < 0.02:
            L = 0
        out.append(_gen_automaton(rng, L, L <= 4 and rng.random() < 0.6))
    for k in range(n_tr):
        L = rng.choice([1, 2, 2, 3, 3, 4, 4, 5, 6])
        out.append(_gen_trees(rng, L, L <= 4 and rng.random() < 0.6))
    for k in range(n_ch):
        out.append(_gen_chain(rng))
    return out


# ------------------------------------------------------------------------------------------------
# implementation
# ------------------------------------------------------------------------------------------------

def _c(c):
    return c[0] + 1j * c[1] if c[1] else float(c[0])


def _mk_callable(spec, conv):
    if 'const' in spec:
        return conv(spec['const'])
    table = [conv(x) for x in spec['table']]
    return lambda i: table[i]


def _build_automaton(case):
    from pytenet.autop import AutOpNode, AutOpEdge, AutOp
    nodes = [AutOpNode(n[0], n[1], n[2], n[3]) for n in case['nodes']]
    edges = [AutOpEdge(e[0], [e[1], e[2]], _mk_callable(e[3], lambda l: [(o, _c(c)) for o, c in l]),
                       _mk_callable(e[4], bool)) for e in case['edges']]
    return AutOp(nodes, edges, case['t'])


def _build_tree(t):
    from pytenet.optree import OpTreeEdge, OpTreeNode, OpTree

    def rec(n):
        return OpTreeNode([OpTreeEdge(o, _c(c), rec(s)) for o, c, s in n[1]], n[0])
    return OpTree(rec(t['root']), t['istart'])


def _opmap(case):
    if not case.get('opmap'):
        return None
    return {o: np.array(m, dtype=float) for o, m in case['opmap']}


def _mat(f):
    try:
        a = np.asarray(f())
        if a.ndim != 2:
            return {'error': 'shape'}
        return {'re': np.real(a).tolist(), 'im': np.imag(a).tolist()}
    except Exception as e:
        return {'error': type(e).__name__}


def _graph_obs(g, case, res):
    res['consistent'] = bool(g.is_consistent())
    try:
        res['length'] = int(g.length)
    except Exception as e:
        res['length'] = type(e).__name__
    poly = G.path_poly(g)
    res['poly'] = [[list(w), complex(c).real, complex(c).imag] for w, c in sorted(poly.items())]
    om = _opmap(case)
    if om is not None:
        res['mat0'] = _mat(lambda: g.as_matrix(om, 0))
        res['mat1'] = _mat(lambda: g.as_matrix(om, 1))
        res['mat_default'] = _mat(lambda: g.as_matrix(om))


def impl(case):
    from pytenet.opgraph import OpGraph
    from pytenet.opchain import OpChain
    kind = case['kind']
    if kind == 'aut':
        try:
            aut = _build_automaton(case)
            g = OpGraph.from_automaton(aut, case['L'])
        except Exception as e:
            return {'error': type(e).__name__}
        res = {'graph': G.graph_json(g)}
        _graph_obs(g, case, res)
        return res
    if kind == 'trees':
        captured = []
        orig = OpGraph.simplify

        def recorder(self):
            captured.append(G.graph_json(self))
            return orig(self)
        OpGraph.simplify = recorder
        try:
            try:
                trees = [_build_tree(t) for t in case['trees']]
                g = OpGraph.from_optrees(trees, case['L'], case['oid_id'])
            except Exception as e:
                return {'error': type(e).__name__}
        finally:
            OpGraph.simplify = orig
        if len(captured) != 1:
            return {'error': 'simplify called %d times' % len(captured)}
        res = {'raw': captured[0], 'graph': G.graph_json(g)}
        _graph_obs(g, case, res)
        om = _opmap(case)
        if om is not None:
            res['tree_mats'] = [_mat(lambda t=t: t.as_matrix(om)) for t in trees]
            res['tree_heights'] = [int(t.height()) for t in trees]
        return res
    if kind == 'chain':
        om = _opmap(case)
        ch = OpChain(case['oids_chain'], [0] * (len(case['oids_chain']) + 1), _c(case['coeff']), 0)
        return {'mat': _mat(lambda: ch.as_matrix(om))}
    return {'error': 'unknown kind'}


# ------------------------------------------------------------------------------------------------
# independent semantics (written from the property text)
# ------------------------------------------------------------------------------------------------

def _aut_paths(case):
    """sum over all automaton paths of length L from the start to the end terminal; dict word -> coefficient"""
    L = case['L']
    t0, t1 = case['t']
    out = {}

    def at(spec, i):
        return spec['const'] if 'const' in spec else spec['table'][i]

    def rec(state, i, word, coeff):
        if i == L:
            if state == t1:
                out[word] = out.get(word, 0) + coeff
            return
        for e in case['edges']:
            if e[1] != state or not at(e[4], i):
                continue
            for o, c in at(e[3], i):
                rec(e[2], i + 1, word + (o,), coeff * _c(c))
    rec(t0, 0, (), 1)
    return {w: c for w, c in out.items() if c != 0}


def _tree_paths(root):
    """list of (oids, coefficient) of the root-to-leaf paths"""
    out = []

    def rec(n, word, coeff):
        if not n[1]:
            out.append((word, coeff))
            return
        for o, c, s in n[1]:
            rec(s, word + (o,), coeff * _c(c))
    rec(root, (), 1)
    return out


def _trees_poly(case):
    L, idt = case['L'], case['oid_id']
    out = {}
    for t in case['trees']:
        for word, coeff in _tree_paths(t['root']):
            w = (idt,) * t['istart'] + word + (idt,) * (L - t['istart'] - len(word))
            out[w] = out.get(w, 0) + coeff
    return {w: c for w, c in out.items() if c != 0}


def _kron_sum(poly, om, d, n):
    tot = np.zeros((d ** n, d ** n), dtype=complex)
    for w, c in poly.items():
        m = np.identity(1)
        for o in w:
            m = np.kron(m, om[o])
        tot = tot + c * m
    return tot


def _mat_of(r):
    return np.array(r['re']) + 1j * np.array(r['im'])


def prop(case, r):
    msgs = []
    kind = case['kind']
    if kind == 'chain':
        om = _opmap(case)
        if 'error' in r['mat']:
            return ['OpChain.as_matrix raised %s' % r['mat']['error']]
        ref = _kron_sum({tuple(case['oids_chain']): _c(case['coeff'])}, om, case['d'], len(case['oids_chain']))
        if not np.array_equal(_mat_of(r['mat']), ref):
            msgs.append('OpChain.as_matrix differs from coeff * kron of the mapped operators')
        return msgs
    if kind == 'aut':
        L = case['L']
        ref = _aut_paths(case) if L >= 1 else {}
        if 'error' in r:
            if L >= 1 and ref and _aut_wellformed(case):
                msgs.append('from_automaton raised %s although the automaton admits a path of length %d' % (r['error'], L))
            return msgs
    else:
        L = case['L']
        if 'error' in r:
            if case['bad'] is None:
                msgs.append('from_optrees raised %s on a valid tree list' % r['error'])
            return msgs
        if case['bad'] in ('height', 'istart'):
            msgs.append('from_optrees accepted a tree exceeding the requested length')
        ref = _trees_poly(case)
    poly = {tuple(w): (re + 1j * im) for w, re, im in r['poly']}
    if poly != ref:
        diff = [w for w in set(poly) | set(ref) if poly.get(w, 0) != ref.get(w, 0)]
        msgs.append('graph meaning differs from the %s meaning on word %s: graph %s, expected %s'
                    % ('automaton' if kind == 'aut' else 'tree', diff[0], poly.get(diff[0], 0), ref.get(diff[0], 0)))
    if not r['consistent']:
        msgs.append('graph is not consistent')
    if r['length'] != L:
        msgs.append('graph.length is %s, requested %d' % (r['length'], L))
    om = _opmap(case)
    if om is not None:
        d = case['d']
        dense = _kron_sum(ref, om, d, L)
        for key in ('mat0', 'mat1', 'mat_default'):
            if 'error' in r[key]:
                msgs.append('OpGraph.as_matrix (%s) raised %s' % (key, r[key]['error']))
            elif not np.array_equal(_mat_of(r[key]), dense):
                msgs.append('OpGraph.as_matrix (%s) differs from the sum over words of coefficient times Kronecker product' % key)
        if kind == 'trees':
            idt = case['oid_id']
            for t, tm, h in zip(case['trees'], r['tree_mats'], r['tree_heights']):
                if not t['root'][1]:
                    continue      # a tree consisting of a single leaf: OpTree.as_matrix returns zeros((1,1)); outside the quantifier
                paths = _tree_paths(t['root'])
                if h != max(len(w) for w, _ in paths):
                    msgs.append('OpTree.height differs from the longest root-to-leaf path')
                tp = {}
                for w, c in paths:
                    w = w + (idt,) * (h - len(w))
                    tp[w] = tp.get(w, 0) + c
                if 'error' in tm:
                    msgs.append('OpTree.as_matrix raised %s' % tm['error'])
                elif not np.array_equal(_mat_of(tm), _kron_sum(tp, om, d, h)):
                    msgs.append('OpTree.as_matrix differs from the sum over its paths (shallower leaves padded with identities)')
    return msgs


def _aut_wellformed(case):
    """AutOp.is_consistent in terms of the case data (node lists agree with the edges)"""
    ins = {n[0]: [] for n in case['nodes']}
    outs = {n[0]: [] for n in case['nodes']}
    for e in case['edges']:
        if e[1] not in outs or e[2] not in ins:
            return False
        outs[e[1]].append(e[0]); ins[e[2]].append(e[0])
    return all(sorted(n[1]) == sorted(ins[n[0]]) and sorted(n[2]) == sorted(outs[n[0]]) for n in case['nodes'])


# ------------------------------------------------------------------------------------------------
# Coq terms
# ------------------------------------------------------------------------------------------------

def _gi(c):
    return '(%s, %s)' % (E.z(c[0]), E.z(c[1]))


def _opics_lit(l):
    return E.lst([E.pair(E.z(o), _gi(c)) for o, c in l])


def _aut_lit(case):
    nodes = E.lst(['(mknode %s %s %s %s)' % (E.z(n[0]), E.zlist(n[1]), E.zlist(n[2]), E.z(n[3])) for n in case['nodes']])
    es = []
    for e in case['edges']:
        op = ('(fun _ => %s)' % _opics_lit(e[3]['const'])) if 'const' in e[3] else \
             ('(@tab_opics GIring %s)' % E.lst([_opics_lit(x) for x in e[3]['table']]))
        ac = ('(fun _ => %s)' % E.boolean(e[4]['const'])) if 'const' in e[4] else \
             ('(tab_active %s)' % E.lst([E.boolean(x) for x in e[4]['table']]))
        es.append('(@mkaedge GIring %s %s %s %s %s)' % (E.z(e[0]), E.z(e[1]), E.z(e[2]), op, ac))
    return '(@mkautop GIring %s %s %s %s)' % (nodes, E.lst(es), E.z(case['t'][0]), E.z(case['t'][1]))


def _graph_lit(j):
    def cf(re, im):
        assert re == int(re) and im == int(im)
        return '(%s, %s)' % (E.z(int(re)), E.z(int(im)))
    nodes = E.lst(['(mknode %s %s %s %s)' % (E.z(n[0]), E.zlist(n[1]), E.zlist(n[2]), E.z(n[3])) for n in j['nodes']])
    edges = E.lst(['(@mkedge GIring %s %s %s %s)' % (E.z(e[0]), E.z(e[1]), E.z(e[2]),
                                                   E.lst([E.pair(E.z(i), cf(re, im)) for i, re, im in e[3]]))
                   for e in j['edges']])
    return '(@mkgraph GIring %s %s %s %s)' % (nodes, edges, E.z(j['t'][0]), E.z(j['t'][1]))


def _tree_lit(n):
    return '(@TNode GIring %s %s)' % (E.z(n[0]), E.lst(['(%s, %s, %s)' % (E.z(o), _gi(c), _tree_lit(s)) for o, c, s in n[1]]))


def _optree_lit(t):
    return '(mkoptree %s %s)' % (_tree_lit(t['root']), E.z(t['istart']))


def _gimx(a):
    a = np.asarray(a)
    return '(@mkmx GIring %s %s %s)' % (E.nat(a.shape[0]), E.nat(a.shape[1]), E.lst([E.lst([E.gi(x) for x in row]) for row in a]))


def _mx_lit(r):
    if 'error' in r:
        return '(Err %s)' % ERRS.get(r['error'], 'EFuel')
    return '(Ok %s)' % _gimx(_mat_of(r))


def _opmap_lit(case):
    return '(@opmap_of GIring %s)' % E.lst([E.pair(E.z(o), _gimx(np.array(m))) for o, m in case['opmap']])


def _expected(r, key):
    if 'error' in r:
        if r['error'] not in ERRS:
            return None
        return '(@Err (graph GIring) %s)' % ERRS[r['error']]
    return '(Ok %s)' % _graph_lit(r[key])


def coq(case, r):
    kind = case['kind']
    ops = E.zlist(case['oids'])
    if kind == 'chain':
        return 'check_chain_dense %s %s %s %s %s' % (_opmap_lit(case), E.zlist(case['oids_chain']), _gi(case['coeff']), ops,
                                                      _mx_lit(r['mat']))
    L = case['L']
    nwords = len(case['oids']) ** max(L, 1)
    if kind == 'aut':
        exp = _expected(r, 'graph')
        if exp is None:
            return 'false'
        parts = ['check_from_automaton %s %s %s' % (_aut_lit(case), E.nat(L), exp)]
        if 'error' not in r and nwords <= 250 and len(r['poly']) <= 200:
            parts.append('check_aut_den %s %s %s' % (_aut_lit(case), E.nat(L), ops))
        if 'error' not in r and case.get('opmap'):
            parts.append('check_graph_dense %s %s %s %s %s %s %s' % (
                _opmap_lit(case), _graph_lit(r['graph']), E.nat(L), ops, _mx_lit(r['mat0']), _mx_lit(r['mat1']),
                E.boolean(nwords * case['d'] ** (2 * L) <= 6000)))
        return ' && '.join('(%s)' % p for p in parts)
    if kind == 'trees':
        exp = _expected(r, 'raw')
        if exp is None:
            return 'false'
        ts = E.lst([_optree_lit(t) for t in case['trees']])
        parts = ['check_from_optrees %s %s %s %s' % (ts, E.nat(L), E.z(case['oid_id']), exp)]
        if 'error' not in r and nwords <= 250:
            parts.append('check_optrees_den %s %s %s %s' % (ts, E.nat(L), E.z(case['oid_id']), ops))
        if 'error' not in r and case.get('opmap'):
            small = nwords * case['d'] ** (2 * L) <= 6000
            parts.append('check_graph_dense %s %s %s %s %s %s %s' % (
                _opmap_lit(case), _graph_lit(r['graph']), E.nat(L), ops, _mx_lit(r['mat0']), _mx_lit(r['mat1']), E.boolean(small)))
            for t, tm in zip(case['trees'], r['tree_mats']):
                parts.append('check_tree_dense %s %s %s %s %s %s' % (
                    _opmap_lit(case), E.z(case['oid_id']), _optree_lit(t), ops, _mx_lit(tm), E.boolean(small)))
        return ' && '.join('(%s)' % p for p in parts)
    return None


def coq_diag(case, r):
    if case['kind'] == 'aut':
        return 'from_automaton_r %s %s' % (_aut_lit(case), E.nat(case['L']))
    if case['kind'] == 'trees':
        return 'from_optrees_raw_r %s %s %s' % (E.lst([_optree_lit(t) for t in case['trees']]), E.z(case['L']), E.z(case['oid_id']))
    return 'chain_as_matrix %s %s %s' % (_opmap_lit(case), E.zlist(case['oids_chain']), _gi(case['coeff']))


def klass(case, r):
    kind = case['kind']
    if kind == 'chain':
        return 'chain/n=%d/d=%d' % (len(case['oids_chain']), case['d'])
    L = case['L']
    dense = 'dense' if case.get('opmap') else 'sym'
    if kind == 'aut':
        if 'error' in r:
            return 'aut/L=%d/%s' % (L, r['error'])
        loops = any(e[1] == e[2] for e in case['edges'])
        par = len({(e[1], e[2]) for e in case['edges']}) < len(case['edges'])
        site = any('table' in e[4] or 'table' in e[3] for e in case['edges'])
        # forward-reachable (site, state) pairs that the graph does not contain: dead states were pruned
        def at(spec, i):
            return spec['const'] if 'const' in spec else spec['table'][i]
        cur, nfwd = {case['t'][0]}, 1
        for i in range(L):
            cur = {e[2] for e in case['edges'] if e[1] in cur and at(e[4], i)}
            nfwd += len(cur)
        pruned = nfwd > len(r['graph']['nodes'])
        return 'aut/L=%d/%s%s%s%s/nodes=%d/%s' % (L, 'loop,' if loops else '', 'par,' if par else '', 'site' if site else 'const',
                                                 ',pruned' if pruned else '', min(len(r['graph']['nodes']), 9), dense)
    if 'error' in r:
        return 'trees/L=%d/%s(%s)' % (L, r['error'], case['bad'])
    depths = set()
    for t in case['trees']:
        depths |= {len(w) + t['istart'] for w, _ in _tree_paths(t['root'])}
    return 'trees/L=%d/n=%d/%s/%s/%s' % (L, len(case['trees']), 'ragged' if len(depths) > 1 else 'even',
                                          'istart' if any(t['istart'] > 0 for t in case['trees']) else 'i0', dense)


def nontrivial(case, r):
    if case['kind'] == 'chain':
        return len(case['oids_chain']) >= 2
    return 'error' not in r and len(r.get('poly', [])) >= 2
