"""C03 — MPS/MPO arithmetic agrees with dense linear algebra (pytenet/mps.py, mpo.py, operation.py).

Form E: operands have small Gaussian-integer entries, so every float64 operation of the implementation is
exact and the Gallina model (Model/MPSOps.v, instance GIring) must return the same tensors, quantum numbers
and dense forms bit for bit.  A case is an expression tree over operand MPS/MPO, evaluated by the real code
(impl), by an independent dense numpy reference (prop) and by the model inside Coq (coq)."""
import itertools
import numpy as np
import emit as E

PROP = 'C03'
COQ_IMPORTS = ['PT.Base.Scalar', 'PT.Base.Field', 'PT.Base.BigSum', 'PT.Base.Mx', 'PT.Model.Tensor', 'PT.Model.MPSOps', 'PT.Model.MPSOpsReplay',
               'PT.Model.BondOps', 'PT.Model.FromVector']
COQ_PREAMBLE = E.QC_PREAMBLE + '''
Definition gmx := @mkmx GIring.
Definition qmx := @mkmx QIring.
Definition cmx := @mkmx (Cx QcF).
Definition cmps := @mkmps (Cx QcF).
Definition gmps := @mkmps GIring.
Definition gmpo := @mkmpo GIring.
Definition Gadd_mps := @o_add_mps GIring.
Definition Gadd_mpo := @o_add_mpo GIring.
Definition Gmul := @o_mul_mpo GIring.
Definition Gapply := @o_apply GIring.
Definition Gid := @mpo_identity GIring.
Definition Gcheck_mps := @check_mps GIring.
Definition Gcheck_mpo := @check_mpo GIring.
Definition Gerr_mps := @check_err (mps GIring).
Definition Gerr_mpo := @check_err (mpo GIring).
Definition Gdense_err := @check_dense_err GIring.
Definition Gsparse_err (r : option (mpo GIring)) : bool :=
  match r with Some m => check_err (as_matrix_sparse (length (o_qd m)) (o_A m)) | None => false end.
Definition Gmerge_mps := @check_merge_mps GIring.
Definition Gmerge_mpo := @check_merge_mpo GIring.
'''
FORM = ('E (exact): operands with Gaussian-integer entries |re|,|im| <= 3 (float64 / complex128 / int64 arrays); the model at Z[i] '
        'is evaluated by vm_compute on the same operands and must reproduce every result tensor (values and shapes), every qD, '
        'as_vector(), as_matrix() dense and the sparse path .toarray() exactly; exceptions must coincide with the model refusing. '
        'R (replay) for split_mps_tensor: the recorded split_matrix_svd call (argument matrix, q0, q1 compared exactly with the model\'s '
        'reshape) and its answer are the oracle of the model at Q[i]; A0, A1 within 1e-9(1+scale) in exact rational arithmetic, qbond exactly. '
        'R (replay) for MPS.from_vector (d^L <= 16): the recorded numpy.linalg.svd answers and np.argsort answers of every loop iteration are '
        'the oracles of Model/FromVector.v at Cx QcF; the model must issue its SVD calls with the recorded arguments (1e-9 relative; the '
        'first one exactly), return qd / every qD exactly and every site tensor within 1e-9 relative (exact rational comparison inside Coq)')
RULE = ('[extended: operands of different dtypes (float/complex/int, both orders) for every binary operation at L = 1..5; common '
        'scale factors 2^-40 .. 2^40 on operands (E-form, results scaled back exactly) and on split_mps_tensor / from_vector inputs '
        '(relative tolerances); d = 1; all-zero tensors] expression trees over 1-3 operand MPS / MPO: +, -, add_mps/add_mpo with alpha in {1,-1,2,0,1j,-2+1j,..}, @, apply_operator, '
        'MPO.identity(scale, dtype), raw as_vector/as_matrix(dense, sparse), chained trees such as apply(((A+B)@C), psi); '
        'L in 1..5 (L = 1 and L = 2 in every group), d in 1..3, independent bond profiles (1..3, bond dimension 1 included) of the '
        'operands, all-zero / charged / disjoint quantum numbers with non-trivial matching boundary charges; merge_*_tensor_pair with '
        'unequal physical dimensions; inputs outside the domain (mismatching boundary charges, qd, length, sparsity violations) must '
        'be rejected by both sides; split_mps_tensor(tol=0)+merge for left/right/sqrt on block-sparse random float tensors (prop 1e-10 '
        'and replay against the model); from_vector(tol=0) on the implementation (1e-10) and, for d^L <= 16 (L = 1..4, d = 1..4, real / complex, '
        'scales 2^-40..2^40, zero vector, product and low-rank vectors, a few tol > 0 for the truncation branch), replayed against the model. '
        'non-trivial = dense form of the result not identically zero; distinct by full input')
SHARD = 24
IMPL_PARALLEL = True
TRUSTED = ['hand-written Gallina mirror Model/MPSOps.v of add_mps, add_mpo, multiply_mpo, apply_operator, MPO.identity, merge_*_tensor_pair, '
           'as_vector, as_matrix (both paths), tied to the code by exact agreement on every generated case',
           'hand-written Gallina mirror Model/FromVector.v of MPS.from_vector (numpy.linalg.svd and np.argsort as oracles), tied to the code by '
           'replay of the recorded oracle answers',
           'numpy dense reference (einsum / kron) in harness/props/c03.py (search only)']
PARTIAL = ('proved for all L >= 1, d, bond profiles and every commutative ring (Properties/C03.v): entrywise and array-level homomorphism '
           'laws for add_mps/add_mpo (alpha, +, -), multiply_mpo, apply_operator, MPO.identity = scale^L * 1, as_vector/as_matrix(dense) '
           'enumerate amplitudes in word order, results well-formed, bond quantum numbers = concatenation / outer sum, '
           'merge(split A) = A for left/right/sqrt given an exact answer of the block SVD oracle; '
           'sparse as_matrix path = dense path for every L >= 1 (C03_as_matrix_sparse); '
           'from_vector(d, n, v, tol=0): for every ordered field, n >= 1, d >= 1, every v of length d^n (zero or not), every answer of the '
           'argsort oracle and SVD answers with LAPACK shapes and U diag(s) V = M on the calls the loop issues, the model succeeds, the result is '
           'well-formed with all charges zero and as_vector(result) = v entrywise (C03_from_vector_exact). '
           'Not proved: nothing about from_vector with tol > 0 (error bound: C13); d = 0 / nsites = 0 raise in the code and are the error value of the model')
ASSUMPTIONS = ['float64 arithmetic on integers below 2^53 is exact (IEEE 754); numpy einsum/tensordot/block and scipy.sparse products '
               'introduce no rounding on such inputs']

ALPHAS = [(1, 0), (-1, 0), (2, 0), (0, 1), (-2, 1), (0, 0), (3, 0), (1, -1)]
QD_POOL = {1: [[0], [1], [-2]],
           2: [[0, 0], [0, 1], [1, -1], [-1, 1], [1, 1], [0, 2]],
           3: [[0, 0, 0], [-1, 0, 1], [0, 1, 0], [0, 1, 2], [1, 1, 0], [1, -1, 0]]}


# ----------------------------------------------------------------------------
# encoding of integer tensors
# ----------------------------------------------------------------------------

def enc(a):
    a = np.asarray(a)
    re = np.real(a)
    im = np.imag(a)
    if not (np.all(re == np.round(re)) and np.all(im == np.round(im))):
        raise ArithmeticError('non-integer entry in an exact run')
    t = {'s': [int(x) for x in a.shape], 're': [int(x) for x in re.reshape(-1)]}
    if np.any(im != 0):
        t['im'] = [int(x) for x in im.reshape(-1)]
    return t


def dec(t, dtype='complex'):
    re = np.array(t['re'], dtype=np.int64).reshape(t['s'])
    if dtype == 'int':
        assert 'im' not in t
        return re
    if dtype == 'float':
        assert 'im' not in t
        return re.astype(np.float64)
    a = re.astype(np.complex128)
    if 'im' in t:
        a = a + 1j * np.array(t['im'], dtype=np.int64).reshape(t['s'])
    return a


def encf(a):
    """float / complex array -> JSON (exact: python floats round-trip through repr)"""
    a = np.asarray(a)
    t = {'s': [int(x) for x in a.shape], 're': [float(x) for x in np.real(a).reshape(-1)]}
    if np.iscomplexobj(a):
        t['im'] = [float(x) for x in np.imag(a).reshape(-1)]
    return t


def decf(t):
    a = np.array(t['re'], dtype=np.float64).reshape(t['s'])
    if 'im' in t:
        a = a + 1j * np.array(t['im'], dtype=np.float64).reshape(t['s'])
    return a


def alpha_py(al):
    return int(al[0]) if al[1] == 0 else complex(al[0], al[1])


# ----------------------------------------------------------------------------
# generators
# ----------------------------------------------------------------------------

def _rand_tensor(nrng, shape, cplx, mask=None, thin=0.0):
    a = nrng.integers(-3, 4, size=shape)
    if cplx:
        a = a + 1j * nrng.integers(-3, 4, size=shape)
    if thin:
        a = np.where(nrng.random(size=shape) < thin, 0, a)
    if mask is not None:
        a = np.where(mask == 0, a, 0)
    return a


def _outer(qs):
    t = np.array(qs[0], dtype=np.int64)
    for q in qs[1:]:
        t = np.add.outer(t, np.array(q, dtype=np.int64))
    return t


def _bond_charges(rng, L, q0, steps_path, steps_all, Dmax, mode, bd=(1, 1)):
    """charges of bonds 0..L: one entry on the path given by steps_path, the others reachable from the left (or arbitrary)"""
    qD = [[q0] * bd[0]]
    q = q0
    for i in range(1, L):
        q += steps_path[i - 1]
        D = rng.randint(1, Dmax)
        if mode == 'zero':
            cur = [0] * D
        elif mode == 'disjoint':
            cur = [q + 7 * (i % 2 + 1) + k for k in range(D)]
        else:
            cur = [q]
            for _ in range(D - 1):
                r = rng.random()
                if r < 0.5:
                    cur.append(q0 + sum(rng.choice(steps_all) for _ in range(i)))
                elif r < 0.8:
                    cur.append(q)
                else:
                    cur.append(q + rng.choice([-1, 1, 2]))
            rng.shuffle(cur)
        qD.append(cur)
    q += steps_path[L - 1]
    qD.append([0 if mode == 'zero' else q] * bd[1])
    return qD


def gen_mps(rng, nrng, qd, L, q0, word, Dmax, cplx, mode):
    d = len(qd)
    w = list(word)
    rng.shuffle(w)
    qD = _bond_charges(rng, L, q0, [qd[s] for s in w], list(qd), Dmax, mode)
    thin = rng.choice([0.0, 0.0, 0.3])
    A = []
    for i in range(L):
        mask = _outer([qd, qD[i], [-x for x in qD[i + 1]]])
        A.append(_rand_tensor(nrng, (d, len(qD[i]), len(qD[i + 1])), cplx, mask, thin))
    return {'qD': qD, 'A': [enc(a) for a in A]}


def gen_mpo(rng, nrng, qd, L, q0, word, word2, Dmax, cplx, mode, bd=(1, 1)):
    d = len(qd)
    w = list(word)
    w2 = list(word2)
    rng.shuffle(w)
    rng.shuffle(w2)
    steps = [qd[s] - qd[t] for s, t in zip(w, w2)]
    allsteps = [qd[s] - qd[t] for s in range(d) for t in range(d)]
    qD = _bond_charges(rng, L, q0, steps, allsteps, Dmax, mode, bd)
    thin = rng.choice([0.0, 0.0, 0.4])
    A = []
    for i in range(L):
        mask = _outer([qd, [-x for x in qd], qD[i], [-x for x in qD[i + 1]]])
        A.append(_rand_tensor(nrng, (d, d, len(qD[i]), len(qD[i + 1])), cplx, mask, thin))
    return {'qD': qD, 'A': [enc(a) for a in A]}


def _base(rng, L, d, dtype, mode=None):
    nrng = np.random.default_rng(rng.getrandbits(32))
    mode = mode or rng.choice(['zero', 'zero', 'charged', 'charged', 'charged', 'charged', 'charged', 'disjoint'])
    qd = [0] * d if mode == 'zero' else list(rng.choice(QD_POOL[d][1:] if d > 1 else QD_POOL[d]))
    q0 = 0 if mode == 'zero' else rng.choice([0, 1, -1, 2, 3])
    word = [rng.randrange(d) for _ in range(L)]
    word2 = [rng.randrange(d) for _ in range(L)]
    return nrng, mode, qd, q0, word, word2


def make_case(rng, kind, L, d, dtype, n_mps, n_mpo, expr, Dmps=3, Dmpo=3, mode=None, want_mat=None, mpo_bd=(1, 1),
              dtypes=None, scale_exp=0):
    """dtypes: optional {'mps': [...], 'mpo': [...]} per-operand dtypes (mixed-dtype operands);
    scale_exp: every operand tensor is multiplied by 2**scale_exp in the implementation run (exact), results are scaled back"""
    nrng, mode, qd, q0, word, word2 = _base(rng, L, d, dtype, mode)
    dtypes = dtypes or {'mps': [dtype] * n_mps, 'mpo': [dtype] * n_mpo}
    cplx = (dtype == 'complex')
    mpss = [gen_mps(rng, nrng, qd, L, q0, word, Dmps, dtypes['mps'][k] == 'complex', mode) for k in range(n_mps)]
    # MPO operands: the first two share boundary charges (they may be added); a third one gets its own
    mpos = []
    for k in range(n_mpo):
        if k < 2:
            mpos.append(gen_mpo(rng, nrng, qd, L, q0, word, word2, Dmpo, dtypes['mpo'][k] == 'complex', mode, mpo_bd))
        else:
            w3 = [rng.randrange(d) for _ in range(L)]
            mpos.append(gen_mpo(rng, nrng, qd, L, 0 if mode == 'zero' else rng.choice([0, -1, 2]), w3, word, Dmpo, dtypes['mpo'][k] == 'complex', mode, mpo_bd))
    if want_mat is None:
        want_mat = d ** L <= 32 and tuple(mpo_bd) == (1, 1)
    return {'kind': kind, 'L': L, 'd': d, 'dtype': dtype, 'dtypes': dtypes, 'scale_exp': int(scale_exp), 'mode': mode, 'valid': True,
            'qd': qd, 'mps': mpss, 'mpo': mpos,
            'expr': expr, 'want_vec': d ** L <= 243, 'want_mat': bool(want_mat), 'dense_err': tuple(mpo_bd) != (1, 1)}


def _weight(e):
    """number of operand tensors multiplied per site in the result (how a common scale of the operands propagates)"""
    tag = e[0]
    if tag in ('psi', 'op'):
        return 1
    if tag == 'identity':
        return 0
    if tag in ('+', '-', 'o+', 'o-'):
        a, b = _weight(e[1]), _weight(e[2])
        assert a == b
        return a
    if tag in ('add_mps', 'add_mpo'):
        a, b = _weight(e[2]), _weight(e[3])
        assert a == b
        return a
    return _weight(e[1]) + _weight(e[2])


MIXED_PAIRS = [('float', 'complex'), ('int', 'complex'), ('complex', 'float'), ('complex', 'int'), ('float', 'int'), ('int', 'float')]
SCALE_EXPS = [-40, 40, -20, 20]


def mixed_cases(rng, tier):
    """operands of different dtypes, both orders, for every binary operation; scaled operands (powers of two)"""
    out = []
    ops = [('mps+', 2, 0, ['+', P0, P1]), ('mps-', 2, 0, ['-', P0, P1]), ('add_mps', 2, 0, None),
           ('mpo+', 0, 2, ['o+', O0, O1]), ('mpo-', 0, 2, ['o-', O0, O1]), ('add_mpo', 0, 2, None),
           ('mpo@', 0, 2, ['@', O0, O1]), ('apply', 1, 1, ['apply', O0, P0])]
    npairs = {'quick': 2, 'thorough': 6, 'search': 2}[tier]
    k = rng.randrange(100)
    for L in (1, 2, 3, 4, 5):
        for (name, nm, no, ex) in ops:
            k += 1
            # the first pair always has a real first and a complex second operand
            pairs = [MIXED_PAIRS[k % 2]] + [MIXED_PAIRS[(k + j) % 6] for j in range(2, npairs + 1)]
            for (da, db) in pairs[:npairs]:
                d = rng.choice([2, 2, 3, 1]) if L <= 3 else rng.choice([2, 2, 1])
                e = ex
                if name == 'add_mps':
                    e = ['add_mps', list(ALPHAS[k % len(ALPHAS)]), P0, P1]
                if name == 'add_mpo':
                    e = ['add_mpo', list(ALPHAS[(k + 1) % len(ALPHAS)]), O0, O1]
                dts = {'mps': [da, db] if no == 0 else ([db] if nm else []), 'mpo': [da, db] if nm == 0 else ([da] if no else [])}
                out.append(make_case(rng, 'mixed:' + name, L, d, 'complex', nm, no, e, Dmps=3, Dmpo=2,
                                     mode=rng.choice(['zero', 'charged', 'charged']), dtypes=dts))
    # a chained expression with three different dtypes
    for L in (3, 5):
        out.append(make_case(rng, 'mixed:chain', L, 2, 'complex', 3, 0, ['+', ['-', P0, P1], P2], Dmps=2,
                             dtypes={'mps': ['float', 'complex', 'int'], 'mpo': []}))
        out.append(make_case(rng, 'mixed:chain', L, 2, 'complex', 1, 3, ['apply', ['@', ['o+', O0, O1], O2], P0], Dmps=2, Dmpo=2,
                             dtypes={'mps': ['float'], 'mpo': ['int', 'complex', 'float']}))
    # common scale factor 2**k on all operand tensors: dense forms and operations at tiny / huge overall scale
    k = rng.randrange(100)
    scaled = [('as_vector', 1, 0, P0), ('as_matrix', 0, 1, O0), ('mps+', 2, 0, ['add_mps', [0, 1], P0, P1]),
              ('mpo@', 0, 2, ['@', O0, O1]), ('apply', 1, 1, ['apply', O0, P0]), ('mpo-', 0, 2, ['o-', O0, O1])]
    for (name, nm, no, ex) in scaled:
        for L in ((1, 2, 3, 5) if tier != 'thorough' else (1, 2, 3, 4, 5)):
            k += 1
            sexp = SCALE_EXPS[k % len(SCALE_EXPS)]
            d = rng.choice([2, 2, 1, 3]) if L <= 3 else 2
            out.append(make_case(rng, 'scaled:' + name, L, d, ['float', 'complex'][k % 2], nm, no, ex, Dmps=2, Dmpo=2,
                                 mode=rng.choice(['zero', 'charged']), scale_exp=sexp))
    # per-SITE dtypes inside one operand: real / integer boundary tensors around complex interior tensors and the other way round
    for L in (3, 4, 5):
        for (name, nm, no, ex) in ops:
            e = ex
            if name == 'add_mps':
                e = ['add_mps', list(ALPHAS[(L + 1) % len(ALPHAS)]), P0, P1]
            if name == 'add_mpo':
                e = ['add_mpo', list(ALPHAS[L % len(ALPHAS)]), O0, O1]
            c = make_case(rng, 'sitemix:' + name, L, rng.choice([2, 2, 3]) if L <= 3 else 2, 'complex', nm, no, e, Dmps=2, Dmpo=2,
                          mode=rng.choice(['zero', 'charged']))
            sd = {'mps': [], 'mpo': []}
            for key in ('mps', 'mpo'):
                for m in c[key]:
                    pat = [rng.choice(['float', 'int', 'complex']) for _ in range(L)]
                    if rng.random() < 0.6:
                        pat[0] = rng.choice(['float', 'int'])
                        pat[rng.randrange(1, L - 1)] = 'complex'
                    for a, t in zip(m['A'], pat):
                        if t != 'complex':
                            a.pop('im', None)
                    sd[key].append(pat)
            c['sitedtypes'] = sd
            out.append(c)
    # all-zero operands
    for L in (1, 3):
        c = make_case(rng, 'zero:mps+', L, 2, 'float', 2, 0, ['-', P0, P1], mode='zero')
        for a in c['mps'][0]['A']:
            a['re'] = [0] * len(a['re'])
            a.pop('im', None)
        out.append(c)
        c = make_case(rng, 'zero:mpo@', L, 2, 'complex', 0, 2, ['@', O0, O1], Dmpo=2, mode='zero')
        for m in c['mpo']:
            for a in m['A']:
                a['re'] = [0] * len(a['re'])
                a.pop('im', None)
        out.append(c)
    return out


P0, P1, P2 = ['psi', 0], ['psi', 1], ['psi', 2]
O0, O1, O2 = ['op', 0], ['op', 1], ['op', 2]


def _chain_exprs():
    A_B = ['o+', O0, O1]
    return [
        (1, 3, ['apply', ['@', A_B, O2], P0]),               # ((A+B)@C) psi
        (2, 2, ['apply', ['o-', O0, O1], ['-', P0, P1]]),     # (A-B)(psi-chi)
        (1, 3, ['o-', ['@', O0, O2], ['@', O1, O2]]),         # A@C - B@C
        (1, 2, ['apply', O0, ['apply', O1, P0]]),             # A(B psi)
        (1, 2, ['apply', ['@', O0, O1], P0]),                 # (A@B) psi
        (2, 1, ['add_mps', [0, 1], ['apply', O0, P0], ['apply', O0, P1]]),   # A psi + i A chi
        (0, 2, ['@', ['identity', [2, 0], 'complex'], ['add_mpo', [-2, 1], O0, O1]]),
        (3, 0, ['+', ['-', P0, P1], P2]),
        (0, 3, ['@', O2, ['o+', O0, O1]]),
        (1, 1, ['apply', ['@', O0, ['identity', [1, 0], 'float']], P0]),
    ]


def cases(rng, tier):
    out = []
    reps = {'quick': 1, 'thorough': 8, 'search': 1}[tier]
    grid = [(L, d) for L in (1, 2, 3, 4, 5) for d in (1, 2, 3)]
    if tier == 'search':
        grid = [rng.choice(grid) for _ in range(6)]
    dts = ['float', 'complex', 'int']
    k = rng.randrange(1000)
    for _ in range(reps):
        for (L, d) in grid:
            k += 1
            dt = lambda j=0: dts[(k + j) % 3]
            al = lambda j=0: list(ALPHAS[(k + j) % len(ALPHAS)])
            Dmpo = 3 if d <= 2 else 2
            # MPS sums
            out.append(make_case(rng, 'mps+', L, d, dt(0), 2, 0, ['+', P0, P1]))
            out.append(make_case(rng, 'mps-', L, d, dt(1), 2, 0, ['-', P0, P1]))
            out.append(make_case(rng, 'add_mps', L, d, dt(2), 2, 0, ['add_mps', al(), P0, P1]))
            # MPO sums
            out.append(make_case(rng, 'mpo+', L, d, dt(1), 0, 2, ['o+', O0, O1], Dmpo=Dmpo))
            out.append(make_case(rng, 'mpo-', L, d, dt(2), 0, 2, ['o-', O0, O1], Dmpo=Dmpo))
            out.append(make_case(rng, 'add_mpo', L, d, dt(0), 0, 2, ['add_mpo', al(3), O0, O1], Dmpo=Dmpo))
            # composition, application
            out.append(make_case(rng, 'mpo@', L, d, dt(0), 0, 3, ['@', O0, O2], Dmpo=Dmpo))
            out.append(make_case(rng, 'apply', L, d, dt(1), 1, 1, ['apply', O0, P0], Dmpo=Dmpo))
            # identity
            sc = list(ALPHAS[(k + 2) % len(ALPHAS)])
            out.append(make_case(rng, 'identity', L, d, 'complex', 0, 0, ['identity', sc if k % 3 else [1, 0], ['complex', 'float', 'int'][k % 3]],
                                 mode=rng.choice(['zero', 'charged'])))
            # dense forms of raw operands
            out.append(make_case(rng, 'as_vector', L, d, dt(2), 1, 0, P0))
            out.append(make_case(rng, 'as_matrix', L, d, dt(0), 0, 1, O0, Dmpo=Dmpo))
            # chained expressions
            ce = _chain_exprs()
            for j in range(2):
                nm, no, ex = ce[(k * 2 + j) % len(ce)]
                out.append(make_case(rng, 'chain', L, d, dt(j), nm, no, ex, Dmps=2, Dmpo=2))
    # bond dimension 1 throughout, L = 2 (no intermediate tensors) with D = 3
    for (L, d) in [(2, 2), (3, 2), (5, 2), (2, 3), (4, 1)]:
        out.append(make_case(rng, 'mps+', L, d, 'complex', 2, 0, ['add_mps', [0, 1], P0, P1], Dmps=1))
        out.append(make_case(rng, 'mpo+', L, d, 'float', 0, 2, ['o-', O0, O1], Dmpo=1))
        out.append(make_case(rng, 'mpo@', L, d, 'complex', 0, 3, ['@', O0, O1], Dmpo=1))
    # MPOs with open boundary bonds (dimension 2): sums and products are defined, as_matrix must refuse
    for j, (L, d) in enumerate([(1, 2), (2, 2), (3, 2), (2, 3), (1, 1), (4, 2)]):
        bd = [(2, 1), (1, 2), (2, 2)][j % 3]
        dtj = ['float', 'complex', 'int'][j % 3]
        out.append(make_case(rng, 'mpo_open+', L, d, dtj, 0, 2, ['add_mpo', list(ALPHAS[(j + 3) % len(ALPHAS)]), O0, O1], Dmpo=2, mpo_bd=bd))
        out.append(make_case(rng, 'mpo_open@', L, d, dtj, 0, 2, ['@', O0, O1], Dmpo=2, mpo_bd=bd))
    # merging of neighbouring tensors (unequal physical dimensions)
    nm = {'quick': 12, 'thorough': 40, 'search': 6}[tier]
    for j in range(nm):
        nrng = np.random.default_rng(rng.getrandbits(32))
        cplx = j % 2 == 0
        d0, d1 = rng.randint(1, 3), rng.randint(1, 3)
        D = [rng.randint(1, 3) for _ in range(3)]
        if j % 3:
            out.append({'kind': 'merge_mps', 'dtype': 'complex' if cplx else 'float', 'valid': True,
                        'A0': enc(_rand_tensor(nrng, (d0, D[0], D[1]), cplx, thin=0.2)),
                        'A1': enc(_rand_tensor(nrng, (d1, D[1], D[2]), cplx, thin=0.2))})
        else:
            e0, e1 = rng.randint(1, 3), rng.randint(1, 2)
            out.append({'kind': 'merge_mpo', 'dtype': 'complex' if cplx else 'float', 'valid': True,
                        'A0': enc(_rand_tensor(nrng, (d0, e0, D[0], D[1]), cplx, thin=0.2)),
                        'A1': enc(_rand_tensor(nrng, (d1, e1, D[1], D[2]), cplx, thin=0.2))})
    out += mixed_cases(rng, tier)
    # SVD based routines (split: replay against the model; from_vector: implementation-level only);
    # overall scale 2**sexp from 1e-12 to 1e+12, d = 1, zero tensors
    ns = {'quick': 24, 'thorough': 96, 'search': 12}[tier]
    sexps = [0, -40, 40, -20, 20, -33, 0, 30]
    j0 = rng.randrange(24)
    for j in range(ns):
        jj = j + j0
        out.append({'kind': 'split', 'seed': rng.getrandbits(32), 'distr': ['left', 'right', 'sqrt'][jj % 3], 'cplx': (jj // 3) % 2 == 0,
                    'd0': rng.randint(1, 3), 'd1': rng.randint(1, 3), 'D0': rng.randint(1, 4), 'D2': rng.randint(1, 4),
                    'mode': rng.choice(['zero', 'charged', 'charged']), 'sexp': sexps[jj % len(sexps)], 'valid': True})
    for j, distr in enumerate(['left', 'right', 'sqrt']):
        out.append({'kind': 'split', 'seed': rng.getrandbits(32), 'distr': distr, 'cplx': j == 1, 'd0': 1, 'd1': 1,
                    'D0': rng.randint(1, 3), 'D2': rng.randint(1, 3), 'mode': 'zero', 'sexp': [-40, 0, 40][j], 'valid': True})
        out.append({'kind': 'split', 'seed': rng.getrandbits(32), 'distr': distr, 'cplx': j == 2, 'd0': 2, 'd1': rng.randint(1, 2),
                    'D0': 2, 'D2': rng.randint(1, 3), 'mode': 'zero', 'sexp': 0, 'zero': True, 'valid': True})
    for j in range(ns // 2):
        d = rng.randint(1, 3)
        out.append({'kind': 'from_vector', 'seed': rng.getrandbits(32), 'd': d, 'L': rng.randint(1, 5 if d < 3 else 4),
                    'cplx': (j + j0) % 2 == 0, 'sexp': sexps[(j + j0 + 1) % len(sexps)], 'valid': True})
    out.append({'kind': 'from_vector', 'seed': 1, 'd': 1, 'L': 3, 'cplx': False, 'sexp': -40, 'valid': True})
    out.append({'kind': 'from_vector', 'seed': 2, 'd': 2, 'L': 3, 'cplx': True, 'sexp': 0, 'zero': True, 'valid': True})
    # small instances (d^L <= 16) that are also replayed against Model/FromVector.v
    small = [(2, 1), (2, 2), (2, 3), (2, 4), (3, 2), (3, 1), (1, 3), (4, 2), (4, 1), (1, 1)]
    for j, (d, L) in enumerate(small if tier != 'search' else small[:4]):
        out.append({'kind': 'from_vector', 'seed': rng.getrandbits(32), 'd': d, 'L': L, 'cplx': (j + j0) % 2 == 1,
                    'sexp': sexps[(j + j0) % len(sexps)], 'valid': True})
    for j, (d, L, shape) in enumerate([(2, 3, 'product'), (2, 4, 'rank2'), (3, 2, 'product'), (2, 2, 'basis'), (2, 4, 'basis'), (4, 2, 'rank2')]):
        out.append({'kind': 'from_vector', 'seed': rng.getrandbits(32), 'd': d, 'L': L, 'cplx': (j + j0) % 2 == 0, 'sexp': 0,
                    'shape': shape, 'valid': True})
    out.append({'kind': 'from_vector', 'seed': 3, 'd': 2, 'L': 2, 'cplx': False, 'sexp': 0, 'zero': True, 'valid': True})
    out.append({'kind': 'from_vector', 'seed': 4, 'd': 3, 'L': 1, 'cplx': True, 'sexp': 0, 'zero': True, 'valid': True})
    # truncation branch of the loop (tol > 0): correspondence only, the error bound belongs to C13
    for j, (d, L, tol) in enumerate([(2, 3, 0.25), (2, 4, 0.0625), (3, 2, 0.5), (2, 4, 0.9)]):
        out.append({'kind': 'from_vector', 'seed': rng.getrandbits(32), 'd': d, 'L': L, 'cplx': j % 2 == 0, 'sexp': [0, -20, 20, 0][j],
                    'tol': tol, 'valid': True})
    # inputs outside the domain: both sides must refuse (or both accept: sparsity of site 0 is not checked for L > 1)
    out += invalid_cases(rng, tier)
    # operand tensors in other memory layouts (Fortran order, non-contiguous views, negative strides): values unchanged
    for c in out:
        if 'mps' in c and 'mpo' in c and rng.random() < 0.2:
            c['layout'] = rng.randrange(1, 4)
    return out


def invalid_cases(rng, tier):
    out = []
    for L in (1, 2, 3):
        for what in ('boundary_left', 'boundary_right', 'qd', 'sparsity_first', 'sparsity_inner', 'length', 'mpo_boundary_dim'):
            d = 2
            if what.startswith('sparsity') or what in ('mpo_boundary_dim',):
                mode = 'charged'
            else:
                mode = 'charged'
            if what == 'mpo_boundary_dim':
                c = make_case(rng, 'invalid', L, d, 'float', 1, 1, ['apply', O0, P0], mode=mode)
                # give the operator a left boundary bond of dimension 2 by duplicating the block
                o = c['mpo'][0]
                a0 = dec(o['A'][0], 'float')
                o['A'][0] = enc(np.concatenate([a0, a0], axis=2))
                o['qD'][0] = o['qD'][0] * 2
            elif what in ('boundary_left', 'boundary_right', 'qd', 'length'):
                mps = rng.random() < 0.5
                c = make_case(rng, 'invalid', L, d, 'float', 2 if mps else 0, 0 if mps else 2,
                              ['+', P0, P1] if mps else ['o+', O0, O1], mode=mode)
                ob = (c['mps'] if mps else c['mpo'])[1]
                if what == 'boundary_left':
                    ob['qD'][0] = [ob['qD'][0][0] + 1]
                elif what == 'boundary_right':
                    ob['qD'][-1] = [ob['qD'][-1][0] + 1]
                elif what == 'qd':
                    ob['qd'] = [c['qd'][0] + 1] + c['qd'][1:]
                else:
                    # drop the last site of the second operand
                    if L == 1:
                        continue
                    ob['A'] = ob['A'][:-1]
                    ob['qD'] = ob['qD'][:-2] + [ob['qD'][-1]]
            else:
                mps = rng.random() < 0.5
                c = make_case(rng, 'invalid', L, d, 'float', 2 if mps else 0, 0 if mps else 2,
                              ['-', P0, P1] if mps else ['o-', O0, O1], mode=mode)
                ob = (c['mps'] if mps else c['mpo'])[0]
                i = 0 if what == 'sparsity_first' else L - 1
                a = dec(ob['A'][i], 'float')
                qs = [c['qd'], ob['qD'][i], [-x for x in ob['qD'][i + 1]]] if mps else \
                     [c['qd'], [-x for x in c['qd']], ob['qD'][i], [-x for x in ob['qD'][i + 1]]]
                mask = _outer(qs)
                if np.all(mask == 0):
                    continue
                idx = tuple(np.argwhere(mask != 0)[0])
                a[idx] = 2
                ob['A'][i] = enc(a)
            c['valid'] = False
            c['what'] = what
            c['want_mat'] = False
            c['want_vec'] = False
            out.append(c)
    return out


# ----------------------------------------------------------------------------
# implementation
# ----------------------------------------------------------------------------

def _build(case):
    import pytenet as ptn
    dts = case.get('dtypes') or {'mps': [case['dtype']] * len(case['mps']), 'mpo': [case['dtype']] * len(case['mpo'])}
    k = case.get('scale_exp', 0)

    lay = [case.get('layout', 0)]

    def arr(a, dt):
        x = dec(a, dt)
        if k:
            x = (x.astype(np.float64) if dt == 'int' else x) * 2.0 ** k      # exact: power of two
        if lay[0]:
            import gen as G
            lay[0] += 1
            x = G.relayout(x, lay[0])       # other memory layouts of the operand tensors (values unchanged)
        return x
    mpss, mpos = [], []
    sd = case.get('sitedtypes') or {}
    for j, (m, dt) in enumerate(zip(case['mps'], dts['mps'])):
        p = ptn.MPS(m.get('qd', case['qd']), m['qD'], fill='postpone')
        p.A = [arr(a, sd['mps'][j][i] if sd else dt) for i, a in enumerate(m['A'])]
        mpss.append(p)
    for j, (m, dt) in enumerate(zip(case['mpo'], dts['mpo'])):
        o = ptn.MPO(m.get('qd', case['qd']), m['qD'], fill='postpone')
        o.A = [arr(a, sd['mpo'][j][i] if sd else dt) for i, a in enumerate(m['A'])]
        mpos.append(o)
    return mpss, mpos


def _eval(e, case, mpss, mpos):
    import pytenet as ptn
    import pytenet.mps as pmps
    import pytenet.mpo as pmpo
    tag = e[0]
    if tag == 'psi':
        return mpss[e[1]]
    if tag == 'op':
        return mpos[e[1]]
    if tag == '+' or tag == 'o+':
        return _eval(e[1], case, mpss, mpos) + _eval(e[2], case, mpss, mpos)
    if tag == '-' or tag == 'o-':
        return _eval(e[1], case, mpss, mpos) - _eval(e[2], case, mpss, mpos)
    if tag == 'add_mps':
        return pmps.add_mps(_eval(e[2], case, mpss, mpos), _eval(e[3], case, mpss, mpos), alpha=alpha_py(e[1]))
    if tag == 'add_mpo':
        return pmpo.add_mpo(_eval(e[2], case, mpss, mpos), _eval(e[3], case, mpss, mpos), alpha=alpha_py(e[1]))
    if tag == '@':
        return _eval(e[1], case, mpss, mpos) @ _eval(e[2], case, mpss, mpos)
    if tag == 'apply':
        return ptn.apply_operator(_eval(e[1], case, mpss, mpos), _eval(e[2], case, mpss, mpos))
    if tag == 'identity':
        dtype = {'complex': complex, 'float': float, 'int': int}[e[2]]
        return ptn.MPO.identity(case['qd'], case['L'], scale=alpha_py(e[1]), dtype=dtype)
    raise ValueError(tag)


def _is_mps_expr(e):
    return e[0] in ('psi', '+', '-', 'add_mps', 'apply')


def impl(case):
    import pytenet as ptn
    kind = case['kind']
    try:
        if kind == 'merge_mps':
            return {'A': enc(ptn.merge_mps_tensor_pair(dec(case['A0'], case['dtype']), dec(case['A1'], case['dtype'])))}
        if kind == 'merge_mpo':
            return {'A': enc(ptn.merge_mpo_tensor_pair(dec(case['A0'], case['dtype']), dec(case['A1'], case['dtype'])))}
        if kind == 'split':
            return _impl_split(case)
        if kind == 'from_vector':
            return _impl_from_vector(case)
        mpss, mpos = _build(case)
        r = _eval(case['expr'], case, mpss, mpos)
        # a common factor 2**k on the operands appears as 2**(k*w) on every result tensor and 2**(k*w*L) on the dense form
        kw = case.get('scale_exp', 0) * _weight(case['expr'])
        back = 2.0 ** (-kw)
        backL = 2.0 ** (-kw * case['L'])
        res = {'qd': [int(x) for x in r.qd], 'qD': [[int(x) for x in q] for q in r.qD],
               'A': [enc(a * back if kw else a) for a in r.A], 'nsites': int(r.nsites),
               'dtypes_out': [str(a.dtype) for a in r.A]}
        if _is_mps_expr(case['expr']):
            res['kind'] = 'mps'
            if case['want_vec']:
                v = r.as_vector()
                res['vec'] = enc(v * backL if kw else v)
        else:
            res['kind'] = 'mpo'
            if case['want_mat']:
                M1 = r.as_matrix()
                M2 = r.as_matrix(sparse_format=True).toarray()
                res['mat'] = enc(M1 * backL if kw else M1)
                res['smat'] = enc(M2 * backL if kw else M2)
            if case.get('dense_err'):
                errs = []
                for sp in (False, True):
                    try:
                        r.as_matrix(sparse_format=sp)
                        errs.append(None)
                    except Exception as e:
                        errs.append(type(e).__name__)
                res['dense_errors'] = errs
        return res
    except Exception as e:
        return {'error': type(e).__name__, 'detail': str(e)[:200]}


def _split_input(case):
    nrng = np.random.default_rng(case['seed'])
    d0, d1, D0, D2 = case['d0'], case['d1'], case['D0'], case['D2']
    if case['mode'] == 'zero':
        qd0, qd1, q0, q2 = [0] * d0, [0] * d1, [0] * D0, [0] * D2
    else:
        qd0 = [int(x) for x in nrng.integers(-1, 2, size=d0)]
        qd1 = [int(x) for x in nrng.integers(-1, 2, size=d1)]
        q0 = [int(x) for x in nrng.integers(-1, 2, size=D0)]
        q2 = [int(x) for x in nrng.integers(-2, 3, size=D2)]
    A = nrng.standard_normal((d0 * d1, D0, D2))
    if case['cplx']:
        A = A + 1j * nrng.standard_normal((d0 * d1, D0, D2))
    mask = _outer([[a + b for a in qd0 for b in qd1], q0, [-x for x in q2]])
    A = np.where(mask == 0, A, 0)
    A = A * 2.0 ** case.get('sexp', 0)
    if case.get('zero'):
        A = np.zeros_like(A)
    return A, qd0, qd1, q0, q2


def _impl_split(case):
    import pytenet as ptn
    import pytenet.mps as pmps
    A, qd0, qd1, q0, q2 = _split_input(case)
    rec = []
    orig = pmps.split_matrix_svd

    def wrapper(M, qa, qb, tol):
        out = orig(M, qa, qb, tol)
        rec.append({'M': encf(np.array(M)), 'q0': [int(x) for x in qa], 'q1': [int(x) for x in qb], 'tol': float(tol),
                    'U': encf(np.array(out[0])), 'sigma': [float(x) for x in out[1]], 'V': encf(np.array(out[2])),
                    'qb': [int(x) for x in out[3]]})
        return out
    pmps.split_matrix_svd = wrapper
    try:
        A0, A1, qb = ptn.split_mps_tensor(A.copy(), np.array(qd0), np.array(qd1), [np.array(q0), np.array(q2)], case['distr'], tol=0)
    finally:
        pmps.split_matrix_svd = orig
    B = ptn.merge_mps_tensor_pair(A0, A1)
    err = float(np.max(np.abs(B - A))) if A.size else 0.0
    sp0 = bool(ptn.is_qsparse(A0, [qd0, q0, -np.array(qb)]))
    sp1 = bool(ptn.is_qsparse(A1, [qd1, qb, -np.array(q2)]))
    return {'err': err, 'scale': float(np.max(np.abs(A))) if A.size else 0.0, 'shape_ok': list(B.shape) == list(A.shape),
            'sparse': sp0 and sp1, 'Dmid': int(len(qb)), 'calls': rec,
            'A0': encf(A0), 'A1': encf(A1), 'qbond': [int(x) for x in qb]}


FV_REPLAY_MAX = 16


def _fv_input(case):
    nrng = np.random.default_rng(case['seed'])
    d, L = case['d'], case['L']
    n = d ** L

    def draw(k):
        x = nrng.standard_normal(k)
        if case['cplx']:
            x = x + 1j * nrng.standard_normal(k)
        return x
    shape = case.get('shape')
    if shape == 'product':
        v = np.ones(1)
        for _ in range(L):
            v = np.kron(v, draw(d))
    elif shape == 'rank2':
        v = np.ones(1)
        w = np.ones(1)
        for _ in range(L):
            v = np.kron(v, draw(d))
            w = np.kron(w, draw(d))
        v = v + w
    elif shape == 'basis':
        v = np.zeros(n, dtype=complex if case['cplx'] else float)
        v[int(nrng.integers(0, n))] = draw(1)[0]
    else:
        v = draw(n)
    v = v * 2.0 ** case.get('sexp', 0)
    if case.get('zero'):
        v = np.zeros_like(v)
    return v


def _impl_from_vector(case):
    import pytenet as ptn
    import pytenet.mps as pmps
    import bondops_common as BC
    v = _fv_input(case)
    tol = case.get('tol', 0)
    small = case['d'] ** case['L'] <= FV_REPLAY_MAX
    res = {}
    if small:
        # record the oracle answers: numpy.linalg.svd per iteration, np.argsort inside retained_bond_indices per iteration
        rec = BC.Recorder()
        steps = []
        orig_ret = pmps.retained_bond_indices

        def ret_wrapper(s, t):
            k0 = len(rec.argsort_calls)
            sv = [float(x) for x in s]
            idx = orig_ret(s, t)
            new = rec.argsort_calls[k0:]
            steps.append({'s': sv, 'tol': float(t), 'idx': [int(i) for i in idx], 'sort_idx': new[0][1] if new else [],
                          'n_argsort': len(new)})
            return idx
        pmps.retained_bond_indices = ret_wrapper
        try:
            with rec.patch_svd():
                psi = ptn.MPS.from_vector(case['d'], case['L'], v.copy(), tol=tol)
        finally:
            pmps.retained_bond_indices = orig_ret
        res['calls'] = [{'M': encf(a), 'u': encf(u), 's': [float(x) for x in s], 'vt': encf(vt)} for a, u, s, vt in rec.svd_calls]
        res['steps'] = steps
        res['A'] = [encf(a) for a in psi.A]
        res['qd'] = [int(x) for x in psi.qd]
        res['qD'] = [[int(x) for x in q] for q in psi.qD]
        res['qD_int'] = all(np.asarray(q).dtype.kind == 'i' for q in psi.qD)
    else:
        psi = ptn.MPS.from_vector(case['d'], case['L'], v, tol=tol)
    w = psi.as_vector()
    res.update({'err': float(np.max(np.abs(w - v))), 'scale': float(np.max(np.abs(v))), 'nsites': int(psi.nsites),
                'bond_dims': [int(x) for x in psi.bond_dims], 'qD_lens': [int(len(q)) for q in psi.qD]})
    return res


# ----------------------------------------------------------------------------
# independent dense reference
# ----------------------------------------------------------------------------

def dense_mps(A):
    """list of arrays (d, Dl, Dr) -> vector, first site most significant; plain loops over the physical index"""
    v = [np.asarray(A[0][s], dtype=complex) for s in range(A[0].shape[0])]       # list of Dl x Dr matrices per word
    for T in A[1:]:
        v = [m @ np.asarray(T[s], dtype=complex) for m in v for s in range(T.shape[0])]
    for m in v:
        if m.shape != (1, 1):
            raise ValueError('boundary bond dimension')
    return np.array([m[0, 0] for m in v], dtype=complex)


def dense_mpo(A):
    L = len(A)
    d = A[0].shape[0]
    words = list(itertools.product(range(d), repeat=L))
    M = np.zeros((len(words), len(words)), dtype=complex)
    for i, w in enumerate(words):
        for j, u in enumerate(words):
            m = np.asarray(A[0][w[0], u[0]], dtype=complex)
            for k in range(1, L):
                m = m @ np.asarray(A[k][w[k], u[k]], dtype=complex)
            if m.shape != (1, 1):
                raise ValueError('boundary bond dimension')
            M[i, j] = m[0, 0]
    return M


def dense_mpo_fast(A):
    """same via einsum (used for the larger cases)"""
    T = np.asarray(A[0], dtype=complex)          # (s, t, a, b)
    for W in A[1:]:
        W = np.asarray(W, dtype=complex)
        T = np.einsum('stab,uvbc->sutvac', T, W)
        s = T.shape
        T = T.reshape(s[0] * s[1], s[2] * s[3], s[4], s[5])
    assert T.shape[2] == 1 and T.shape[3] == 1
    return T[:, :, 0, 0]


def _ref(e, case, dm, do):
    tag = e[0]
    if tag == 'psi':
        return dm[e[1]]
    if tag == 'op':
        return do[e[1]]
    if tag in ('+', 'o+'):
        return _ref(e[1], case, dm, do) + _ref(e[2], case, dm, do)
    if tag in ('-', 'o-'):
        return _ref(e[1], case, dm, do) - _ref(e[2], case, dm, do)
    if tag in ('add_mps', 'add_mpo'):
        return _ref(e[2], case, dm, do) + complex(e[1][0], e[1][1]) * _ref(e[3], case, dm, do)
    if tag == '@':
        return _ref(e[1], case, dm, do) @ _ref(e[2], case, dm, do)
    if tag == 'apply':
        return _ref(e[1], case, dm, do) @ _ref(e[2], case, dm, do)
    if tag == 'identity':
        return complex(e[1][0], e[1][1]) ** case['L'] * np.identity(case['d'] ** case['L'], dtype=complex)
    raise ValueError(tag)


def _close(a, b, tol=1e-10):
    a = np.asarray(a)
    b = np.asarray(b)
    if a.shape != b.shape:
        return False
    if a.size == 0:
        return True
    return bool(np.max(np.abs(a - b)) <= tol * (1 + np.max(np.abs(b))))


def _qd_expected(e, case):
    """bond quantum numbers of the result computed from the operands' (concatenation / outer sum)"""
    tag = e[0]
    L = case['L']
    if tag == 'psi':
        return [list(q) for q in case['mps'][e[1]]['qD']]
    if tag == 'op':
        return [list(q) for q in case['mpo'][e[1]]['qD']]
    if tag in ('+', '-', 'o+', 'o-', 'add_mps', 'add_mpo'):
        a, b = (_qd_expected(e[1], case), _qd_expected(e[2], case)) if tag in ('+', '-', 'o+', 'o-') else \
               (_qd_expected(e[2], case), _qd_expected(e[3], case))
        return [a[i] if i in (0, L) else a[i] + b[i] for i in range(L + 1)]
    if tag in ('@', 'apply'):
        a, b = _qd_expected(e[1], case), _qd_expected(e[2], case)
        return [[x + y for x in a[i] for y in b[i]] for i in range(L + 1)]
    if tag == 'identity':
        return [[0] for _ in range(L + 1)]
    raise ValueError(tag)


def prop(case, r):
    kind = case['kind']
    if 'error' in r:
        if case.get('valid', True):
            return ['routine raised %s on a valid input%s' % (r['error'], (': ' + r['detail']) if r.get('detail') else '')]
        return []
    msgs = []
    if kind == 'merge_mps':
        A0, A1 = dec(case['A0']), dec(case['A1'])
        ref = np.array([A0[s] @ A1[t] for s in range(A0.shape[0]) for t in range(A1.shape[0])])
        if not _close(dec(r['A']), ref):
            msgs.append('merge_mps_tensor_pair differs from A0[s] @ A1[t]')
        return msgs
    if kind == 'merge_mpo':
        A0, A1 = dec(case['A0']), dec(case['A1'])
        ref = np.array([[A0[s, t] @ A1[u, v] for t in range(A0.shape[1]) for v in range(A1.shape[1])]
                        for s in range(A0.shape[0]) for u in range(A1.shape[0])])
        if not _close(dec(r['A']), ref):
            msgs.append('merge_mpo_tensor_pair differs from A0[s,t] @ A1[u,v]')
        return msgs
    if kind == 'split':
        if not r['shape_ok']:
            msgs.append('merge after split has a different shape')
        if r['err'] > 1e-10 * r['scale']:
            msgs.append('merge(split(A, tol=0, %s)) differs from A by %.3g (max |A| = %.3g)' % (case['distr'], r['err'], r['scale']))
        if not r['sparse']:
            msgs.append('split tensors violate block sparsity')
        return msgs
    if kind == 'from_vector':
        if case.get('tol', 0) == 0 and r['err'] > 1e-10 * r['scale']:
            msgs.append('from_vector(tol=0).as_vector() differs from the vector by %.3g (max |v| = %.3g)' % (r['err'], r['scale']))
        if r['nsites'] != case['L']:
            msgs.append('from_vector returned %d sites' % r['nsites'])
        if r['bond_dims'] != r['qD_lens'] or r['bond_dims'][0] != 1 or r['bond_dims'][-1] != 1:
            msgs.append('from_vector: bond dimensions %s, quantum number lists of lengths %s' % (r['bond_dims'], r['qD_lens']))
        if 'qD' in r and (any(x != 0 for q in r['qD'] for x in q) or any(x != 0 for x in r['qd']) or not r['qD_int']):
            msgs.append('from_vector: quantum numbers are not all (integer) zero')
        return msgs
    # expression cases
    L, d = case['L'], case['d']
    if not case.get('valid', True):
        # an input outside the domain was accepted (sparsity of the first tensor is not checked by the code for L > 1):
        # nothing is claimed about it
        return []
    if r['nsites'] != L or len(r['A']) != L or len(r['qD']) != L + 1:
        msgs.append('result has %d sites / %d bonds for L = %d' % (r['nsites'], len(r['qD']), L))
        return msgs
    if r['qd'] != case['qd']:
        msgs.append('physical quantum numbers of the result differ from the operands')
    if r['qD'] != _qd_expected(case['expr'], case):
        msgs.append('bond quantum numbers of the result are not the concatenation / outer sum of the operands')
    A = [dec(a) for a in r['A']]
    for i, a in enumerate(A):
        exp_shape = ([d] if r['kind'] == 'mps' else [d, d]) + [len(r['qD'][i]), len(r['qD'][i + 1])]
        if list(a.shape) != exp_shape:
            msgs.append('tensor %d has shape %s, quantum numbers say %s' % (i, list(a.shape), exp_shape))
    if msgs:
        return msgs
    if d ** L > 243:
        return msgs
    if case.get('dense_err'):
        # open boundary bonds: no dense form is defined; only the correspondence check looks at these results
        return msgs
    dm = [dense_mps([dec(a) for a in m['A']]) for m in case['mps']]
    do = [(dense_mpo if d ** L <= 16 else dense_mpo_fast)([dec(a) for a in m['A']]) for m in case['mpo']]
    ref = _ref(case['expr'], case, dm, do)
    if r['kind'] == 'mps':
        if not _close(dense_mps(A), ref):
            msgs.append('contraction of the result tensors differs from the dense expression')
        if 'vec' in r and not _close(dec(r['vec']), ref):
            msgs.append('as_vector() of the result differs from the dense expression')
    else:
        if not _close((dense_mpo if d ** L <= 16 else dense_mpo_fast)(A), ref):
            msgs.append('contraction of the result tensors differs from the dense expression')
        if 'mat' in r:
            if not _close(dec(r['mat']), ref):
                msgs.append('as_matrix() of the result differs from the dense expression')
            if not _close(dec(r['smat']), dec(r['mat'])):
                msgs.append('sparse and dense as_matrix() differ')
    return msgs


# ----------------------------------------------------------------------------
# Coq terms
# ----------------------------------------------------------------------------

def _arr(t):
    return dec(t)


def _g(s):
    return s.replace('(mkmx ', '(gmx ')


def _q(s):
    return s.replace('(mkmx ', '(qmx ')


def _mps_lit(qd, qD, A):
    return '(gmps %s %s %s)' % (E.zlist(qd), E.lst([E.zlist(q) for q in qD]), E.lst([_g(E.site(_arr(a))) for a in A]))


def _mpo_lit(qd, qD, A):
    return '(gmpo %s %s %s)' % (E.zlist(qd), E.lst([E.zlist(q) for q in qD]), E.lst([_g(E.osite(_arr(a))) for a in A]))


def _gi(al):
    return '(%s, %s)' % (E.z(al[0]), E.z(al[1]))


def _term(e, case):
    tag = e[0]
    if tag == 'psi':
        return '(Some p%d)' % e[1]
    if tag == 'op':
        return '(Some o%d)' % e[1]
    if tag in ('+', '-'):
        return '(Gadd_mps %s %s %s)' % (_gi([1, 0] if tag == '+' else [-1, 0]), _term(e[1], case), _term(e[2], case))
    if tag in ('o+', 'o-'):
        return '(Gadd_mpo %s %s %s)' % (_gi([1, 0] if tag == 'o+' else [-1, 0]), _term(e[1], case), _term(e[2], case))
    if tag == 'add_mps':
        return '(Gadd_mps %s %s %s)' % (_gi(e[1]), _term(e[2], case), _term(e[3], case))
    if tag == 'add_mpo':
        return '(Gadd_mpo %s %s %s)' % (_gi(e[1]), _term(e[2], case), _term(e[3], case))
    if tag == '@':
        return '(Gmul %s %s)' % (_term(e[1], case), _term(e[2], case))
    if tag == 'apply':
        return '(Gapply %s %s)' % (_term(e[1], case), _term(e[2], case))
    if tag == 'identity':
        return '(Some (Gid %s %s %s))' % (E.zlist(case['qd']), E.nat(case['L']), _gi(e[1]))
    raise ValueError(tag)


def _lets(case):
    s = ''
    for k, m in enumerate(case['mps']):
        s += 'let p%d := %s in\n  ' % (k, _mps_lit(m.get('qd', case['qd']), m['qD'], m['A']))
    for k, m in enumerate(case['mpo']):
        s += 'let o%d := %s in\n  ' % (k, _mpo_lit(m.get('qd', case['qd']), m['qD'], m['A']))
    return s


def coq(case, r):
    kind = case['kind']
    if kind == 'from_vector':
        return _coq_from_vector(case, r)
    if kind == 'split':
        return _coq_split(case, r)
    if kind == 'merge_mps':
        if 'error' in r:
            return 'false'
        return _g('Gmerge_mps %s %s %s' % (E.site(_arr(case['A0'])), E.site(_arr(case['A1'])), E.site(_arr(r['A']))))
    if kind == 'merge_mpo':
        if 'error' in r:
            return 'false'
        return _g('Gmerge_mpo %s %s %s' % (E.osite(_arr(case['A0'])), E.osite(_arr(case['A1'])), E.osite(_arr(r['A']))))
    t = _term(case['expr'], case)
    ismps = _is_mps_expr(case['expr'])
    if 'error' in r:
        return _lets(case) + ('Gerr_mps %s' if ismps else 'Gerr_mpo %s') % t
    if ismps:
        vec = E.option(E.lst([E.gi(x) for x in dec(r['vec']).reshape(-1)])) if 'vec' in r else 'None'
        return _lets(case) + 'Gcheck_mps %s %s %s' % (t, _mps_lit(r['qd'], r['qD'], r['A']), vec)
    mat = _g(E.option(E.gimx(dec(r['mat'])))) if 'mat' in r else 'None'
    smat = _g(E.option(E.gimx(dec(r['smat'])))) if 'smat' in r else 'None'
    term = 'Gcheck_mpo %s %s %s %s' % (t, _mpo_lit(r['qd'], r['qD'], r['A']), mat, smat)
    if case.get('dense_err'):
        # as_matrix raised in both paths <-> the model returns None in both paths
        term = 'andb (%s) (Bool.eqb (Gdense_err %s) %s && Bool.eqb (Gsparse_err %s) %s)' % (
            term, t, E.boolean(r['dense_errors'][0] is not None), t, E.boolean(r['dense_errors'][1] is not None))
    return _lets(case) + term


def _coq_split(case, r):
    """form R: the model runs with the recorded split_matrix_svd answer as its oracle (Gaussian rationals)"""
    if 'error' in r or len(r.get('calls', [])) != 1:
        return 'false'
    from fractions import Fraction
    A, qd0, qd1, q0, q2 = _split_input(case)
    c = r['calls'][0]
    sig = np.array(c['sigma'], dtype=np.float64)
    sq = np.sqrt(sig)
    tol = Fraction(1, 10 ** 9) * Fraction(float(r['scale']))
    qs = lambda a: _q(E.site(a, E.qimx))
    return 'check_split %s %s %s %s %s %s %s %s %s %s %s %s %s %s %s %s %s %s' % (
        qs(A), E.zlist(qd0), E.zlist(qd1), E.zlist(q0), E.zlist(q2), E.nat(['left', 'right', 'sqrt'].index(case['distr'])),
        _q(E.qimx(decf(c['M']))), E.zlist(c['q0']), E.zlist(c['q1']),
        _q(E.qimx(decf(c['U']))), E.lst([E.qi(x) for x in sig]), E.lst([E.qi(x) for x in sq]), _q(E.qimx(decf(c['V']))),
        E.zlist(c['qb']), qs(decf(r['A0'])), qs(decf(r['A1'])), E.zlist(r['qbond']), E.qc(tol))


def _c(s):
    return s.replace('(mkmx ', '(cmx ')


def _fv_ambiguous(case, r):
    """tol > 0 only: a cumulative weight within 1e-12 of the tolerance may be decided differently by binary64 and exact
    arithmetic; tol = 0: `cum > 0` is decided identically (no underflow in the generated range)"""
    import bondops_common as BC
    from fractions import Fraction
    if case.get('tol', 0) == 0:
        return False
    for st in r.get('steps', []):
        if not any(st['s']):
            continue
        kept, dist = BC.exact_retained(st['s'], st['sort_idx'], st['tol'])
        if dist is not None and dist < Fraction(1, 10 ** 12):
            return True
    return False


def _coq_from_vector(case, r):
    """form R: Model/FromVector.v runs with the recorded numpy.linalg.svd / np.argsort answers as its oracles (Cx QcF)"""
    from fractions import Fraction
    d, L = case['d'], case['L']
    if d ** L > FV_REPLAY_MAX:
        return None
    v = _fv_input(case)
    vec = E.lst([E.qi(x) for x in v])
    tol = E.qc(float(case.get('tol', 0)))
    if 'error' in r:
        # the implementation raised on a valid input: the model (any oracle) must refuse as well; reported by prop anyway
        return 'check_from_vector %s %s %s %s [] [] [] None []' % (E.nat(d), E.nat(L), vec, tol)
    if _fv_ambiguous(case, r):
        return None
    if len(r['calls']) != L or len(r['steps']) != L or any(st['n_argsort'] > 1 for st in r['steps']):
        return 'false'
    rel = Fraction(1, 10 ** 9)

    def mag(a):
        a = np.asarray(a)
        return Fraction(float(np.max(np.abs(a)))) if a.size else Fraction(0)
    answers = E.lst([E.pair(_c(E.qimx(decf(c['M']))),
                            '(%s, %s, %s)' % (_c(E.qimx(decf(c['u']))), E.lst([E.qc(float(x)) for x in c['s']]), _c(E.qimx(decf(c['vt'])))))
                     for c in r['calls']])
    sorts = E.lst([E.natlist(st['sort_idx']) for st in r['steps']])
    # the first argument is a pure reshape of the input (exact); later ones went through `v * s[:, None]`
    argtols = E.lst([E.qc(Fraction(0) if i == 0 else rel * mag(decf(c['M']))) for i, c in enumerate(r['calls'])])
    A = [decf(a) for a in r['A']]
    expect = '(Some (cmps %s %s %s))' % (E.zlist(r['qd']), E.lst([E.zlist(q) for q in r['qD']]),
                                         E.lst([_c(E.site(a, E.qimx)) for a in A]))
    # the tensors before the last are selections of entries of u (exact); the last one is multiplied by v[0, 0]
    tols = E.lst([E.qc(Fraction(0) if i < L - 1 else rel * mag(a)) for i, a in enumerate(A)])
    return 'check_from_vector %s %s %s %s %s %s %s %s %s' % (E.nat(d), E.nat(L), vec, tol, answers, sorts, argtols, expect, tols)


def coq_diag(case, r):
    if case['kind'] in ('merge_mps', 'merge_mpo', 'split', 'from_vector'):
        return 'true'
    return _lets(case) + _term(case['expr'], case)


def klass(case, r):
    kind = case['kind']
    if kind in ('merge_mps', 'merge_mpo'):
        return '%s/%s' % (kind, case['dtype'])
    def sc(k):
        return 'scale=1' if k == 0 else 'scale=2^%d' % k
    if kind == 'split':
        return 'split/%s/%s/%s/%s%s' % (case['distr'], 'complex' if case['cplx'] else 'real', case['mode'], sc(case.get('sexp', 0)),
                                        '/zero-tensor' if case.get('zero') else '')
    if kind == 'from_vector':
        extra = ('/zero-vector' if case.get('zero') else '') + ('/' + case['shape'] if case.get('shape') else '')
        if case.get('tol', 0):
            kept = sum(r.get('bond_dims', []))
            extra += '/tol>0/%s' % ('ambiguous' if ('error' not in r and 'steps' in r and _fv_ambiguous(case, r)) else
                                   ('trunc' if 'steps' in r and any(len(st['idx']) < sum(1 for x in st['s'] if x != 0) for st in r['steps']) else 'full'))
        rp = 'replay' if case['d'] ** case['L'] <= FV_REPLAY_MAX else 'impl-only'
        return 'from_vector/L%d/d%d/%s%s/%s' % (case['L'], case['d'], sc(case.get('sexp', 0)), extra, rp)
    if kind.startswith('mixed:'):
        dts = case['dtypes']
        return '%s/L%s/%s' % (kind, case['L'] if case['L'] <= 2 else '3-5', '+'.join(dts['mpo'] + dts['mps']))
    if kind.startswith('scaled:'):
        return '%s/L%s/%s/%s' % (kind, case['L'] if case['L'] <= 2 else '3-5', case['dtype'], sc(case['scale_exp']))
    if kind == 'invalid':
        return 'invalid/%s/L%d/%s' % (case['what'], case['L'], 'raised' if 'error' in r else 'accepted')
    L = case['L']
    return '%s/L%s/d%d/%s/%s' % (kind, L if L <= 2 else '3-5', case['d'], case['dtype'], case['mode'])


def finding_key(case, r, msgs):
    if case.get('kind') == 'from_vector' and case.get('zero') and 'error' in r:
        return 'from_vector-zero-vector'
    return None


def nontrivial(case, r):
    if 'error' in r:
        return False
    kind = case['kind']
    if kind in ('merge_mps', 'merge_mpo'):
        return any(r['A']['re']) or any(r['A'].get('im', []))
    if kind in ('split', 'from_vector'):
        return r.get('scale', 0) > 0
    if kind == 'invalid':
        return False
    for key in ('vec', 'mat'):
        if key in r:
            return any(r[key]['re']) or any(r[key].get('im', []))
    return any(any(a['re']) or any(a.get('im', [])) for a in r['A'])
