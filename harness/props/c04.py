"""C04 — inner products, expectation values and environment blocks (pytenet/operation.py).

Form E: every tensor has small Gaussian-integer entries, so all float64 arithmetic of the implementation is
exact and the Gallina mirror (Model/Operation.v, evaluated at GIring by vm_compute) must agree bit for bit,
shapes included, with every function of operation.py called directly.
"""
import math
import numpy as np
import emit as E

PROP = 'C04'
COQ_IMPORTS = ['PT.Base.Scalar', 'PT.Base.BigSum', 'PT.Base.Mx', 'PT.Model.Tensor', 'PT.Model.Operation']
FORM = ('E (exact integer runs): MPS/MPO tensors with Gaussian-integer entries (|re|,|im| <= 2, masked to the block '
        'sparsity pattern); the model is evaluated at GIring by vm_compute and every scalar, every environment block of '
        'every step (right/left, with/without MPO, density), compute_right_operator_blocks, and every local one-site / '
        'two-site / bond application is compared entry by entry and shape by shape')
RULE = ('L in 1..5, d in 1..3, bond dimensions 1..3 drawn independently for ket, bra, operator and density MPO (forced bond '
        'dimension 1 in a fixed share of the cases), quantum-number sectors off (all zero) or on (charges drawn along reachable '
        'paths so that blocks are non-empty, sometimes disjoint), dtypes float64 / complex128 / int64 and mixed (real ket with complex bra and vice versa, real or complex operators), Hermitian MPOs O + O^dagger '
        'in a fixed share; plus L = 0 and site-count mismatch edge cases. Every site i for the one-site, every pair (i,i+1) for the '
        'two-site (merged MPS tensors via merge_mps_tensor_pair and random tensors; merged MPO tensors via merge_mpo_tensor_pair) and '
        'every bond 0..L for the zero-site problem. non-trivial = L >= 2, some bond dimension >= 2 and a non-zero <chi|O|psi>; '
        'distinct by full input')
SHARD = 6
COQ_PREAMBLE = 'Definition gm := @mkmx GIring.\n'
IMPL_PARALLEL = True
TRUSTED = ['hand-written Gallina mirror of operation.py (Model/Operation.v) tied to the code by exact agreement on every generated case',
           'dense numpy reference contractions in harness/props/c04.py (search for a failing input only)',
           'numpy tensordot/einsum on float64 integers is exact (no value leaves +-2^53)']
PARTIAL = ''   # filled in at the bottom of the file
ASSUMPTIONS = ['np.sqrt in norm() is an oracle of the model (IEEE square root); its argument is compared exactly',
               'the theorems assume leading and trailing bond dimension 1 (enforced by the MPS constructor) and physical dimension >= 1']


# ----------------------------------------------------------------------------------------------
# encoding
# ----------------------------------------------------------------------------------------------
def enc(a):
    a = np.asarray(a)
    c = a.astype(complex)
    re, im = c.real, c.imag
    if np.all(re == np.round(re)) and np.all(im == np.round(im)) and np.all(np.abs(re) < 2**52) and np.all(np.abs(im) < 2**52):
        return {'shape': list(a.shape), 're': [int(x) for x in re.reshape(-1)], 'im': [int(x) for x in im.reshape(-1)]}
    return {'shape': list(a.shape), 'fre': [float(x) for x in re.reshape(-1)], 'fim': [float(x) for x in im.reshape(-1)]}


def dec(e, dtype=complex):
    if 're' in e:
        a = np.array(e['re'], dtype=float) + 1j * np.array(e['im'], dtype=float)
    else:
        a = np.array(e['fre'], dtype=float) + 1j * np.array(e['fim'], dtype=float)
    a = a.reshape(e['shape'])
    if dtype is complex:
        return a
    return a.real.astype(dtype)


def is_int(e):
    return 're' in e


NPDT = {'real': np.float64, 'complex': complex, 'int': np.int64, 'mixed': complex}


# ----------------------------------------------------------------------------------------------
# generator
# ----------------------------------------------------------------------------------------------
def _reach_bonds(rng, L, steps, dims, q0, qfinal, p_wild):
    """bond charges along reachable paths: q[i+1] - q[i] in steps; q[0] = q0; q[L] = qfinal (if reachable)"""
    steps = sorted(set(steps))
    S = [{q0}]
    for _ in range(L):
        S.append({q + s for q in S[-1] for s in steps})
    if qfinal is None or qfinal not in S[L]:
        qfinal = rng.choice(sorted(S[L]))
    B = [None] * (L + 1)
    B[L] = {qfinal}
    for i in reversed(range(L)):
        B[i] = {q - s for q in B[i + 1] for s in steps} & S[i]
    qD = []
    for i in range(L + 1):
        row = []
        for _ in range(dims[i]):
            if rng.random() < p_wild:
                row.append(rng.randint(-2, 2))
            else:
                row.append(rng.choice(sorted(B[i])))
        qD.append(row)
    return qD


def _dims(rng, L, Dmax, force1):
    if force1:
        return [1] * (L + 1)
    return [1] + [rng.randint(1, Dmax) for _ in range(L - 1)] + [1] if L >= 1 else [1]


def _rand(nrg, shape, cplx):
    re = nrg.integers(-2, 3, size=shape).astype(float)
    if cplx:
        return re + 1j * nrg.integers(-2, 3, size=shape).astype(float)
    return re + 0j


def _mps_mask(qd, ql, qr):
    qd, ql, qr = np.array(qd), np.array(ql), np.array(qr)
    return (qd[:, None, None] + ql[None, :, None] - qr[None, None, :]) == 0


def _mpo_mask(qd, ql, qr):
    qd, ql, qr = np.array(qd), np.array(ql), np.array(qr)
    return (qd[:, None, None, None] - qd[None, :, None, None] + ql[None, None, :, None] - qr[None, None, None, :]) == 0


def _herm_sum(Ws, qD, d):
    """tensors and bond charges of O + O^dagger (explicit direct sum; O^dagger[s,t,l,r] = conj(O[t,s,l,r]), charges negated)"""
    L = len(Ws)
    Wd = [np.conj(np.transpose(W, (1, 0, 2, 3))) for W in Ws]
    if L == 1:
        return [Ws[0] + Wd[0]], [list(qD[0]), list(qD[1])]
    out = []
    q = [list(qD[0])] + [list(qD[i]) + [-x for x in qD[i]] for i in range(1, L)] + [list(qD[L])]
    for i in range(L):
        a, b = Ws[i], Wd[i]
        if i == 0:
            out.append(np.concatenate([a, b], axis=3))
        elif i == L - 1:
            out.append(np.concatenate([a, b], axis=2))
        else:
            z01 = np.zeros((d, d, a.shape[2], b.shape[3]), dtype=complex)
            z10 = np.zeros((d, d, b.shape[2], a.shape[3]), dtype=complex)
            out.append(np.concatenate([np.concatenate([a, z01], axis=3), np.concatenate([z10, b], axis=3)], axis=2))
    return out, q


def make_case(rng, L, d, dtype, sectors, herm, force1, Dmax=3, kind='main'):
    nrg = np.random.default_rng(rng.getrandbits(32))
    cplx = (dtype == 'complex')
    if sectors:
        qd = [rng.choice([-1, 0, 1]) for _ in range(d)] if rng.random() < 0.5 else sorted(rng.choice([0, 1, 2]) for _ in range(d))
    else:
        qd = [0] * d
    pw = 0.12 if sectors else 0.0
    diffs = {a - b for a in qd for b in qd}
    dop = _dims(rng, L, 2 if herm else Dmax, force1)
    if herm:
        q_op = _reach_bonds(rng, L, diffs, dop, 0, 0, 0.0)
    else:
        q_op = _reach_bonds(rng, L, diffs, dop, 0 if rng.random() < 0.7 else rng.choice(sorted(diffs)), None, pw)
    delta = q_op[L][0] - q_op[0][0]
    q_psi = _reach_bonds(rng, L, qd, _dims(rng, L, Dmax, force1), 0, None, pw)
    q_chi = _reach_bonds(rng, L, qd, _dims(rng, L, Dmax, force1), 0, q_psi[L][0] + delta, pw)
    q_rho = _reach_bonds(rng, L, diffs, _dims(rng, L, Dmax, force1), -q_op[0][0] if L else 0, -q_op[L][0] if L else 0, pw)
    if sectors and rng.random() < 0.4:
        # the block-sparsity rule only sees charge differences: shift all bond charges of bra and ket by independent
        # constants, so that leading and trailing charges differ between them while the total charge still matches
        sa, sb = rng.choice([-2, -1, 0, 1, 3]), rng.choice([-2, -1, 1, 3])
        q_psi = [[q + sa for q in r] for r in q_psi]
        q_chi = [[q + sb for q in r] for r in q_chi]
    if not sectors:
        q_op = [[0] * len(r) for r in q_op]; q_psi = [[0] * len(r) for r in q_psi]
        q_chi = [[0] * len(r) for r in q_chi]; q_rho = [[0] * len(r) for r in q_rho]

    # 'mixed': operands of different dtypes (a real ket meets a complex bra and the other way round, real/complex operators)
    dtypes = None
    if dtype == 'mixed':
        kp = rng.random() < 0.5
        dtypes = {'psi': 'complex' if kp else 'real', 'chi': 'real' if kp else 'complex',
                  'op': rng.choice(['real', 'complex']), 'rho': rng.choice(['real', 'complex'])}

    def mps_t(q, who):
        cx = cplx if dtypes is None else dtypes[who] == 'complex'
        return [np.where(_mps_mask(qd, q[i], q[i + 1]), _rand(nrg, (d, len(q[i]), len(q[i + 1])), cx), 0) for i in range(L)]

    def mpo_t(q, who):
        cx = cplx if dtypes is None else dtypes[who] == 'complex'
        return [np.where(_mpo_mask(qd, q[i], q[i + 1]), _rand(nrg, (d, d, len(q[i]), len(q[i + 1])), cx), 0) for i in range(L)]

    psi, chi, op, rho = mps_t(q_psi, 'psi'), mps_t(q_chi, 'chi'), mpo_t(q_op, 'op'), mpo_t(q_rho, 'rho')
    if dtypes is not None:
        cplx = True       # local-problem inputs X, X2, C are complex in mixed cases
    if herm and L >= 1:
        op, q_op = _herm_sum(op, q_op, d)
    X = [np.where(_mps_mask(qd, q_psi[i], q_psi[i + 1]), _rand(nrg, psi[i].shape, cplx), 0) for i in range(L)]
    X2 = [_rand(nrg, (d * d, len(q_psi[i]), len(q_psi[i + 2])), cplx) for i in range(L - 1)]
    C = [_rand(nrg, (len(q_psi[i]), len(q_psi[i])), cplx) for i in range(L + 1)]
    return {'kind': kind, 'L': L, 'd': d, 'dtype': dtype, 'dtypes': dtypes, 'sectors': bool(sectors), 'herm': bool(herm), 'qd': qd,
            'qD': {'psi': q_psi, 'chi': q_chi, 'op': q_op, 'rho': q_rho},
            'T': {'psi': [enc(a) for a in psi], 'chi': [enc(a) for a in chi], 'op': [enc(a) for a in op],
                  'rho': [enc(a) for a in rho], 'X': [enc(a) for a in X], 'X2': [enc(a) for a in X2], 'C': [enc(a) for a in C]}}


def cases(rng, tier):
    out = []
    # systematic grid: every (L, d), sectors on/off, rotating dtype / herm / forced bond dimension 1
    k = 0
    reps = {'quick': 1, 'thorough': 4, 'search': 1}[tier]
    dts = ['complex', 'real', 'int', 'mixed']
    for _ in range(reps):
        for L in range(1, 6):
            for d in range(1, 4):
                if d ** L > 243:
                    continue
                for sectors in (False, True):
                    k += 1
                    dt = dts[(k + rng.randrange(4)) % 4]
                    Dmax = 3 if d ** L <= 81 else 2
                    out.append(make_case(rng, L, d, dt, sectors, herm=(k % 3 == 0), force1=(k % 5 == 0), Dmax=Dmax))
    n = {'quick': 220, 'thorough': 600, 'search': 60}[tier]
    for _ in range(n):
        L = rng.choice([1, 2, 2, 3, 3, 4, 5])
        d = rng.choice([1, 2, 2, 3]) if L <= 4 else rng.choice([1, 2])
        out.append(make_case(rng, L, d, rng.choice(dts), rng.random() < 0.6, rng.random() < 0.35, rng.random() < 0.12,
                             Dmax=3 if d ** L <= 81 else 2))
    # edge cases
    # magnitude regimes (implementation level only): the operator MPOs times 2^-30 (every average, block and effective operator scales with it)
    for c in out:
        if c['L'] >= 1 and rng.random() < 0.12:
            k = rng.choice([-30, -44])
            f = 2.0 ** k
            site = rng.choice([0, -1])        # first tensor (left blocks tiny) or last tensor (right blocks tiny)
            for key in ('op', 'rho'):
                c['T'][key][site] = enc(dec(c['T'][key][site]) * f)
            c['mag'] = k
            if c['dtype'] == 'int':
                c['dtype'] = 'real'        # the scaled tensors are not integer valued
    for c in out:
        if rng.random() < 0.2:
            c['layout'] = rng.randrange(1, 4)
        if c['sectors'] and c['L'] >= 1 and rng.random() < 0.15:
            c['zeroq'] = rng.choice(['chi', 'psi'])
    out.append(make_case(rng, 0, 2, 'complex', False, False, False, kind='L0'))
    c = make_case(rng, 2, 2, 'complex', False, False, False, kind='mismatch')
    out.append(c)
    return out


# ----------------------------------------------------------------------------------------------
# implementation
# ----------------------------------------------------------------------------------------------
def _build(case):
    from pytenet.mps import MPS
    from pytenet.mpo import MPO
    dt = NPDT[case['dtype']]
    qd, qD, T = case['qd'], case['qD'], case['T']
    dts = case.get('dtypes') or {}
    dto = {w: NPDT[dts[w]] if w in dts else dt for w in ('psi', 'chi', 'op', 'rho')}
    psi = MPS(qd, qD['psi'], fill='postpone'); psi.A = [dec(a, dto['psi']) for a in T['psi']]
    chi = MPS(qd, qD['chi'], fill='postpone'); chi.A = [dec(a, dto['chi']) for a in T['chi']]
    op = MPO(qd, qD['op'], fill='postpone'); op.A = [dec(a, dto['op']) for a in T['op']]
    rho = MPO(qd, qD['rho'], fill='postpone'); rho.A = [dec(a, dto['rho']) for a in T['rho']]
    if case.get('zeroq'):
        # quantum numbers switched off on one of the two states only: the dense meaning of every quantity is unchanged
        (chi if case['zeroq'] == 'chi' else psi).zero_qnumbers()
    if case.get('layout'):
        # tensors in other memory layouts (Fortran order, non-contiguous views, negative strides): same values
        import gen as G
        for j, o in enumerate((psi, chi, op, rho)):
            o.A = [G.relayout(a, case['layout'] + i + j) for i, a in enumerate(o.A)]
    return psi, chi, op, rho


class _NPProxy:
    """numpy stand-in for pytenet.operation that records the argument of np.sqrt (the oracle of norm())"""
    def __init__(self, rec):
        self._rec = rec

    def __getattr__(self, name):
        return getattr(np, name)

    def sqrt(self, x):
        self._rec.append(x)
        return np.sqrt(x)


def _call(f, *a):
    try:
        return f(*a)
    except Exception as e:   # noqa
        return {'error': type(e).__name__}


def _encr(x):
    if isinstance(x, dict):
        return x
    return enc(x)


def impl(case):
    import pytenet.operation as ptn
    from pytenet.mps import merge_mps_tensor_pair
    from pytenet.mpo import merge_mpo_tensor_pair
    psi, chi, op, rho = _build(case)
    L = case['L']
    dt = NPDT[case['dtype']]
    r = {}
    if case['kind'] == 'mismatch':
        # chi loses its last site
        chi.A = chi.A[:-1]
        r['vdot'] = _encr(_call(ptn.vdot, chi, psi))
        r['oip'] = _encr(_call(ptn.operator_inner_product, chi, op, psi))
        op.A = op.A[:-1]
        r['avg'] = _encr(_call(ptn.operator_average, psi, op))
        r['dens'] = _encr(_call(ptn.operator_density_average, rho, op))
        r['BR'] = _call(ptn.compute_right_operator_blocks, psi, op)
        if not isinstance(r['BR'], dict):
            r['BR'] = [enc(b) for b in r['BR']]
        return r
    r['vdot'] = _encr(_call(ptn.vdot, chi, psi))
    r['vdot_pp'] = _encr(_call(ptn.vdot, psi, psi))
    rec = []
    saved = ptn.np
    try:
        ptn.np = _NPProxy(rec)
        nv = _call(ptn.norm, psi)
    finally:
        ptn.np = saved
    r['norm'] = nv if isinstance(nv, dict) else float(nv)
    r['norm_arg'] = [float(np.real(x)) for x in rec]
    r['avg'] = _encr(_call(ptn.operator_average, psi, op))
    r['oip'] = _encr(_call(ptn.operator_inner_product, chi, op, psi))
    r['dens'] = _encr(_call(ptn.operator_density_average, rho, op))
    br = _call(ptn.compute_right_operator_blocks, psi, op)
    r['BR'] = br if isinstance(br, dict) else [enc(b) for b in br]
    if L == 0:
        return r
    try:
        # step functions called directly, bra and ket independent
        T = np.identity(1, dtype=dt)
        rm = [T]
        for i in reversed(range(L)):
            T = ptn.contraction_step_right(psi.A[i], chi.A[i], T)
            rm.insert(0, T)
        r['rmats'] = [enc(t) for t in rm]
        T = np.identity(1, dtype=dt)
        lm = [T]
        for i in range(L):
            T = ptn.contraction_step_left(psi.A[i], chi.A[i], T)
            lm.append(T)
        r['lmats'] = [enc(t) for t in lm]
        Eb = np.array([[[1]]], dtype=complex)
        rb = [Eb]
        for i in reversed(range(L)):
            Eb = ptn.contraction_operator_step_right(psi.A[i], chi.A[i], op.A[i], Eb)
            rb.insert(0, Eb)
        r['rblocks'] = [enc(t) for t in rb]
        Lb = np.array([[[1]]], dtype=complex)
        lb = [Lb]
        for i in range(L):
            Lb = ptn.contraction_operator_step_left(psi.A[i], chi.A[i], op.A[i], Lb)
            lb.append(Lb)
        r['lblocks'] = [enc(t) for t in lb]
        T = np.identity(1, dtype=dt)
        dm = [T]
        for i in reversed(range(L)):
            T = ptn.contraction_operator_density_step_right(rho.A[i], op.A[i], T)
            dm.insert(0, T)
        r['dmats'] = [enc(t) for t in dm]
        # local problems
        X = [dec(a, dt) for a in case['T']['X']]
        X2 = [dec(a, dt) for a in case['T']['X2']]
        C = [dec(a, dt) for a in case['T']['C']]
        r['h1'] = [enc(ptn.apply_local_hamiltonian(lb[i], rb[i + 1], op.A[i], X[i])) for i in range(L)]
        r['mA'] = [enc(merge_mps_tensor_pair(psi.A[i], psi.A[i + 1])) for i in range(L - 1)]
        mW = [merge_mpo_tensor_pair(op.A[i], op.A[i + 1]) for i in range(L - 1)]
        r['mW'] = [enc(w) for w in mW]
        r['h2'] = [enc(ptn.apply_local_hamiltonian(lb[i], rb[i + 2], mW[i], X2[i])) for i in range(L - 1)]
        r['h2m'] = [enc(ptn.apply_local_hamiltonian(lb[i], rb[i + 2], mW[i], merge_mps_tensor_pair(psi.A[i], psi.A[i + 1])))
                    for i in range(L - 1)]
        r['hb'] = [enc(ptn.apply_local_bond_contraction(lb[i], rb[i], C[i])) for i in range(L + 1)]
        if case['herm']:
            # effective operators with bra = ket = psi, as matrices (applied to every basis tensor)
            lbs = [np.array([[[1]]], dtype=complex)]
            for i in range(L):
                lbs.append(ptn.contraction_operator_step_left(psi.A[i], psi.A[i], op.A[i], lbs[-1]))
            brs = list(br) + [None]
            H1 = []
            for i in range(L):
                shp = psi.A[i].shape
                n = int(np.prod(shp))
                # all columns are computed first and kept alive, then assembled (results of successive calls must not share storage)
                cols = []
                for k in range(n):
                    e = np.zeros(n, dtype=dt); e[k] = 1
                    cols.append(ptn.apply_local_hamiltonian(lbs[i], br[i], op.A[i], e.reshape(shp)))
                M = np.stack([c.reshape(-1) for c in cols], axis=1).astype(complex) if n else np.zeros((0, 0), dtype=complex)
                H1.append(enc(M))
            r['herm1'] = H1
            Hb = []
            for i in range(1, L):
                D = psi.A[i].shape[1]
                cols = []
                for k in range(D * D):
                    e = np.zeros(D * D, dtype=dt); e[k] = 1
                    cols.append(ptn.apply_local_bond_contraction(lbs[i], br[i - 1], e.reshape((D, D))))
                M = np.stack([c.reshape(-1) for c in cols], axis=1).astype(complex) if D else np.zeros((0, 0), dtype=complex)
                Hb.append(enc(M))
            r['hermb'] = Hb
            H2 = []
            for i in range(L - 1):
                shp = (case['d'] ** 2, psi.A[i].shape[1], psi.A[i + 1].shape[2])
                n = int(np.prod(shp))
                if n > 40:
                    H2.append(None)
                    continue
                cols = []
                for k in range(n):
                    e = np.zeros(n, dtype=dt); e[k] = 1
                    cols.append(ptn.apply_local_hamiltonian(lbs[i], br[i + 1], mW[i], e.reshape(shp)))
                M = np.stack([c.reshape(-1) for c in cols], axis=1).astype(complex) if n else np.zeros((0, 0), dtype=complex)
                H2.append(enc(M))
            r['herm2'] = H2
    except Exception as e:   # a direct call failed: visible to prop and to the correspondence
        r['error'] = type(e).__name__
    return r


# ----------------------------------------------------------------------------------------------
# independent dense reference
# ----------------------------------------------------------------------------------------------
def _prefix(As, i):
    P = np.ones((1, 1), dtype=complex)
    for k in range(i):
        P = np.einsum('ua,sab->usb', P, As[k]).reshape(-1, As[k].shape[2])
    return P                                     # (d^i, D_i)


def _suffix(As, i):
    S = np.ones((1, 1), dtype=complex)
    for k in reversed(range(i, len(As))):
        S = np.einsum('sab,bv->asv', As[k], S).reshape(As[k].shape[1], -1)
    return S                                     # (D_i, d^(L-i))


def _oprefix(Ws, i):
    P = np.ones((1, 1, 1), dtype=complex)
    for k in range(i):
        W = Ws[k]
        P = np.einsum('uvw,stwx->usvtx', P, W)
        P = P.reshape(P.shape[0] * P.shape[1], P.shape[2] * P.shape[3], P.shape[4])
    return P                                     # (d^i, d^i, Dw_i)


def _osuffix(Ws, i):
    S = np.ones((1, 1, 1), dtype=complex)
    for k in reversed(range(i, len(Ws))):
        W = Ws[k]
        S = np.einsum('stwx,xuv->wsutv', W, S)
        S = S.reshape(S.shape[0], S.shape[1] * S.shape[2], S.shape[3] * S.shape[4])
    return S                                     # (Dw_i, d^(L-i), d^(L-i))


_REL = [False]        # tolerances relative to the reference (magnitude regimes)


def _eq(name, got, want, msgs):
    if got is None or isinstance(got, dict) and 'error' in got:
        msgs.append('%s: implementation raised %s' % (name, got))
        return
    g = dec(got) if isinstance(got, dict) else np.asarray(got)
    w = np.asarray(want)
    if tuple(g.shape) != tuple(w.shape):
        msgs.append('%s: shape %s but dense reference has %s' % (name, tuple(g.shape), tuple(w.shape)))
    elif not np.allclose(g, w, rtol=0, atol=1e-9 * ((np.max(np.abs(w)) if _REL[0] else 1 + np.max(np.abs(w))) if w.size else 1)):
        msgs.append('%s: differs from the dense reference (max abs deviation %g)' % (name, float(np.max(np.abs(g - w)))))


def prop(case, r):
    msgs = []
    _REL[0] = bool(case.get('mag'))
    L, d = case['L'], case['d']
    if case['kind'] == 'mismatch':
        for k in ('vdot', 'oip', 'avg', 'dens', 'BR'):
            if not (isinstance(r.get(k), dict) and 'error' in r[k]):
                msgs.append('%s accepted operands with different numbers of sites' % k)
        return msgs
    if case['kind'] == 'L0':
        return msgs
    if 'error' in r:
        return ['a direct call into operation.py raised %s' % r['error']]
    psi = [dec(a) for a in case['T']['psi']]; chi = [dec(a) for a in case['T']['chi']]
    op = [dec(a) for a in case['T']['op']]; rho = [dec(a) for a in case['T']['rho']]
    vpsi = _suffix(psi, 0)[0]; vchi = _suffix(chi, 0)[0]
    O = _osuffix(op, 0)[0]; Rh = _osuffix(rho, 0)[0]
    _eq('vdot(chi,psi) [first argument conjugated]', r['vdot'], np.sum(np.conj(vchi) * vpsi), msgs)
    _eq('vdot(psi,psi)', r['vdot_pp'], np.sum(np.abs(vpsi) ** 2), msgs)
    if isinstance(r['norm'], dict):
        msgs.append('norm raised %s' % r['norm'])
    else:
        nref = math.sqrt(float(np.sum(np.abs(vpsi) ** 2)))
        if abs(r['norm'] - nref) > 1e-12 * (1 + nref):
            msgs.append('norm %r differs from dense %r' % (r['norm'], nref))
    _eq('operator_average', r['avg'], np.conj(vpsi) @ O @ vpsi, msgs)
    _eq('operator_inner_product', r['oip'], np.conj(vchi) @ O @ vpsi, msgs)
    _eq('operator_density_average tr[op rho]', r['dens'], np.trace(O @ Rh), msgs)
    # environment blocks against partial dense contractions
    for i in range(L + 1):
        Sp, Sc = _suffix(psi, i), _suffix(chi, i)
        Pp, Pc = _prefix(psi, i), _prefix(chi, i)
        OS, OP = _osuffix(op, i), _oprefix(op, i)
        _eq('contraction_step_right chain at site %d' % i, r['rmats'][i], np.einsum('au,bu->ab', Sp, np.conj(Sc)), msgs)
        _eq('contraction_step_left chain at site %d' % i, r['lmats'][i], np.einsum('ua,ub->ab', Pp, np.conj(Pc)), msgs)
        _eq('contraction_operator_step_right chain at site %d' % i, r['rblocks'][i],
            np.einsum('wuv,av,bu->awb', OS, Sp, np.conj(Sc)), msgs)
        _eq('contraction_operator_step_left chain at site %d' % i, r['lblocks'][i],
            np.einsum('uvw,va,ub->awb', OP, Pp, np.conj(Pc)), msgs)
        _eq('contraction_operator_density_step_right chain at site %d' % i, r['dmats'][i],
            np.einsum('auv,wvu->aw', _osuffix(rho, i), OS), msgs)
        if 1 <= i:
            _eq('compute_right_operator_blocks[%d]' % (i - 1), r['BR'][i - 1] if not isinstance(r['BR'], dict) else r['BR'],
                np.einsum('wuv,av,bu->awb', OS, Sp, np.conj(Sp)), msgs)
    if not isinstance(r['BR'], dict) and len(r['BR']) != L:
        msgs.append('compute_right_operator_blocks returned %d blocks for %d sites' % (len(r['BR']), L))
    # local problems: matrix elements of the dense operator between embedded states
    X = [dec(a) for a in case['T']['X']]; X2 = [dec(a) for a in case['T']['X2']]; C = [dec(a) for a in case['T']['C']]

    def proj(i, nloc, x):
        """<embed_chi(e) | O | embed_psi(x)> for every basis tensor e; local tensor covers sites i..i+nloc-1"""
        Pp, Pc = _prefix(psi, i), _prefix(chi, i)
        Sp, Sc = _suffix(psi, i + nloc), _suffix(chi, i + nloc)
        if nloc == 0:
            v = np.einsum('ua,ac,cv->uv', Pp, x, Sp).reshape(-1)
            y = (O @ v).reshape(Pp.shape[0], Sp.shape[1])
            return np.einsum('ub,cv,uv->bc', np.conj(Pc), np.conj(Sc), y)
        v = np.einsum('ua,sac,cv->usv', Pp, x, Sp).reshape(-1)
        y = (O @ v).reshape(Pp.shape[0], x.shape[0], Sp.shape[1])
        return np.einsum('ub,cv,usv->sbc', np.conj(Pc), np.conj(Sc), y)

    for i in range(L):
        _eq('apply_local_hamiltonian one-site at %d' % i, r['h1'][i], proj(i, 1, X[i]), msgs)
    for i in range(L - 1):
        mA = np.einsum('sab,tbc->stac', psi[i], psi[i + 1]).reshape(d * d, psi[i].shape[1], psi[i + 1].shape[2])
        _eq('merge_mps_tensor_pair at %d' % i, r['mA'][i], mA, msgs)
        _eq('apply_local_hamiltonian two-site at %d' % i, r['h2'][i], proj(i, 2, X2[i]), msgs)
        _eq('apply_local_hamiltonian two-site (merged tensor) at %d' % i, r['h2m'][i], proj(i, 2, mA), msgs)
    for i in range(L + 1):
        _eq('apply_local_bond_contraction at bond %d' % i, r['hb'][i], proj(i, 0, C[i]), msgs)
    if case['herm']:
        if not np.array_equal(O, O.conj().T):
            msgs.append('harness: generated operator is not Hermitian')
        for key, what in (('herm1', 'one-site'), ('hermb', 'bond'), ('herm2', 'two-site')):
            for i, M in enumerate(r.get(key, [])):
                if M is None:
                    continue
                M = dec(M)
                if not np.array_equal(M, M.conj().T):
                    msgs.append('effective %s operator at %d is not Hermitian although the MPO is' % (what, i))
    return msgs


# ----------------------------------------------------------------------------------------------
# correspondence
# ----------------------------------------------------------------------------------------------
def _gm(a):
    a = np.asarray(a)
    assert a.ndim == 2
    return '(gm %s %s %s)' % (E.nat(a.shape[0]), E.nat(a.shape[1]), E.lst([E.lst([E.gi(x) for x in row]) for row in a]))


def _site(a):
    return E.site(a, _gm)


def _osite(a):
    return E.osite(a, _gm)


def _arr(e):
    if not is_int(e):
        raise ValueError('non-integer value')
    return dec(e)


def _env(e):
    """numpy (Da, Dw, Db) -> list over w of Da x Db matrices"""
    a = _arr(e)
    return E.lst([_gm(a[:, w, :]) for w in range(a.shape[1])])


def _sc(e):
    a = _arr(e)
    assert a.shape == ()
    return E.gi(complex(a))


def _opt_scalar(term, res):
    if isinstance(res, dict) and 'error' in res:
        return 'is_none (%s)' % term
    return 'opt_eqb (%s) %s' % (term, _sc(res))


def coq(case, r):
    if case.get('mag'):
        return None        # magnitude regimes: implementation-level property only (the model runs on integer tensors)
    try:
        return _coq(case, r)
    except (ValueError, AssertionError, KeyError, IndexError, TypeError):
        return 'false'     # non-integer or malformed implementation output can never agree with the model


def _coq(case, r):
    L = case['L']
    T = case['T']
    lets = []
    lets.append(('psiA', E.lst([_site(_arr(a)) for a in T['psi']]) if L else '(@nil (site GIring))'))
    lets.append(('chiA', E.lst([_site(_arr(a)) for a in T['chi']]) if L else '(@nil (site GIring))'))
    lets.append(('opA', E.lst([_osite(_arr(a)) for a in T['op']]) if L else '(@nil (osite GIring))'))
    lets.append(('rhoA', E.lst([_osite(_arr(a)) for a in T['rho']]) if L else '(@nil (osite GIring))'))
    checks = []
    if case['kind'] == 'mismatch':
        lets.append(('chiS', '(removelast chiA)'))
        lets.append(('opS', '(removelast opA)'))
        checks.append(_opt_scalar('vdot_sites chiS psiA', r['vdot']))
        checks.append(_opt_scalar('operator_inner_product_sites chiS opA psiA', r['oip']))
        checks.append(_opt_scalar('operator_average_sites psiA opS', r['avg']))
        checks.append(_opt_scalar('operator_density_average_sites rhoA opS', r['dens']))
        checks.append('is_none (compute_right_operator_blocks_sites psiA opS)' if isinstance(r['BR'], dict) else 'false')
    else:
        checks.append(_opt_scalar('vdot_sites chiA psiA', r['vdot']))
        checks.append(_opt_scalar('vdot_sites psiA psiA', r['vdot_pp']))
        if isinstance(r['norm'], dict):
            checks.append('false')
        else:
            arg = r['norm_arg']
            if len(arg) != 1 or arg[0] != int(arg[0]) or r['norm'] != math.sqrt(arg[0]):
                checks.append('false')
            else:
                checks.append('opt_eqb (norm (R:=GIring) (fun z => (fst z, 0)) (fun z => z) (mkmps [] [] psiA)) %s' % E.gi(arg[0]))
        checks.append(_opt_scalar('operator_average_sites psiA opA', r['avg']))
        checks.append(_opt_scalar('operator_inner_product_sites chiA opA psiA', r['oip']))
        checks.append(_opt_scalar('operator_density_average_sites rhoA opA', r['dens']))
        if isinstance(r['BR'], dict):
            checks.append('is_none (compute_right_operator_blocks_sites psiA opA)')
        else:
            checks.append('envs_eqb (compute_right_operator_blocks_sites psiA opA) %s' % E.lst([_env(b) for b in r['BR']]))
        if L >= 1:
            if 'error' in r:
                return 'false'
            one = '(idmx (R:=GIring) 1)'
            checks.append('list_eqb mxeqb (rmats psiA chiA %s) %s' % (one, E.lst([_gm(_arr(m)) for m in r['rmats']])))
            checks.append('list_eqb mxeqb (lmats psiA chiA %s) %s' % (one, E.lst([_gm(_arr(m)) for m in r['lmats']])))
            checks.append('list_eqb mxeqb (dmats rhoA opA %s) %s' % (one, E.lst([_gm(_arr(m)) for m in r['dmats']])))
            lets.append(('BLs', '(lblocks psiA chiA opA env_one)'))
            lets.append(('BRs', '(rblocks2 psiA chiA opA)'))
            checks.append('list_eqb env_eqb BLs %s' % E.lst([_env(b) for b in r['lblocks']]))
            checks.append('list_eqb env_eqb BRs %s' % E.lst([_env(b) for b in r['rblocks']]))
            sA = lambda i: '(nth %s psiA [])' % E.nat(i)
            sW = lambda i: '(nth %s opA [])' % E.nat(i)
            bl = lambda i: '(nth %s BLs [])' % E.nat(i)
            br = lambda i: '(nth %s BRs [])' % E.nat(i)
            for i in range(L):
                checks.append('site_eqb (apply_local_hamiltonian %s %s %s %s) %s' % (
                    bl(i), br(i + 1), sW(i), _site(_arr(T['X'][i])), _site(_arr(r['h1'][i]))))
            for i in range(L - 1):
                checks.append('site_eqb (c04_merge_site %s %s) %s' % (sA(i), sA(i + 1), _site(_arr(r['mA'][i]))))
                checks.append('osite_eqb (c04_merge_osite %s %s) %s' % (sW(i), sW(i + 1), _osite(_arr(r['mW'][i]))))
                checks.append('site_eqb (apply_local_hamiltonian %s %s (c04_merge_osite %s %s) %s) %s' % (
                    bl(i), br(i + 2), sW(i), sW(i + 1), _site(_arr(T['X2'][i])), _site(_arr(r['h2'][i]))))
                checks.append('site_eqb (apply_local_hamiltonian %s %s (c04_merge_osite %s %s) (c04_merge_site %s %s)) %s' % (
                    bl(i), br(i + 2), sW(i), sW(i + 1), sA(i), sA(i + 1), _site(_arr(r['h2m'][i]))))
            for i in range(L + 1):
                checks.append('mxeqb (apply_local_bond_contraction %s %s %s) %s' % (
                    bl(i), br(i), _gm(_arr(T['C'][i])), _gm(_arr(r['hb'][i]))))
    body = '\n   && '.join('(%s)' % c for c in checks)
    pre = ''.join('let %s : %s := %s in\n  ' % (n, _ty(n), v) for n, v in lets)
    return pre + body


def _ty(n):
    return {'psiA': 'list (site GIring)', 'chiA': 'list (site GIring)', 'chiS': 'list (site GIring)',
            'opA': 'list (osite GIring)', 'rhoA': 'list (osite GIring)', 'opS': 'list (osite GIring)',
            'BLs': 'list (env GIring)', 'BRs': 'list (env GIring)'}[n]


def coq_diag(case, r):
    L = case['L']
    T = case['T']
    if L == 0:
        return 'tt'
    return ('let psiA : list (site GIring) := %s in let chiA : list (site GIring) := %s in let opA : list (osite GIring) := %s in '
            '(vdot_sites chiA psiA, operator_inner_product_sites chiA opA psiA, rmats psiA chiA (idmx 1), lblocks psiA chiA opA env_one)') % (
        E.lst([_site(_arr(a)) for a in T['psi']]), E.lst([_site(_arr(a)) for a in T['chi']]),
        E.lst([_osite(_arr(a)) for a in T['op']]))


def klass(case, r):
    if case['kind'] != 'main':
        return case['kind']
    D = max(max(len(q) for q in case['qD'][k]) for k in ('psi', 'chi', 'op', 'rho'))
    L = case['L']
    return 'L%s/D%s/%s/%s/%s' % (str(L) if L <= 2 else '3-5', '1' if D == 1 else '2+', case['dtype'],
                                 'sectors' if case['sectors'] else 'noq', 'herm' if case['herm'] else 'gen')


def nontrivial(case, r):
    if case['kind'] != 'main' or case['L'] < 2:
        return False
    D = max(max(len(q) for q in case['qD'][k]) for k in ('psi', 'chi', 'op'))
    try:
        v = dec(r['oip'])
    except Exception:
        return False
    return D >= 2 and complex(v) != 0


PARTIAL = ('proved in Coq for every commutative ring with conjugation, all L >= 1, d >= 1 and all (independent) bond profiles with '
           'leading/trailing bond dimension 1 and positive MPO bond dimensions: vdot (first argument conjugated), norm^2, '
           'operator_inner_product, operator_average, operator_density_average (= tr[op rho]) equal the dense sums over basis words; '
           'one-site, two-site (merged MPO tensor, arbitrary two-site tensor) and bond effective operators built from left/right '
           'environment blocks of arbitrary tensors are the projections of the dense operator; H_eff is Hermitian if the MPO is. '
           'Validated only by the exact correspondence runs and the dense numpy reference: agreement of the float64 code with the '
           'model (bit for bit on Gaussian-integer inputs), rounding on non-integer inputs, np.sqrt/.real in norm (oracles), '
           'the boundary bond L of the zero-site problem, behaviour for zero bond dimensions, and the error branches '
           '(L = 0 returns 0 / IndexError, site-count mismatch raises).')
