"""C08 — real-time TDVP conserves norm, energy and quantum numbers."""
import numpy as np
import gen as G
import tdgen as T
import emit as E
import sweeprec as SR

PROP = 'C08'
COQ_IMPORTS = SR.COQ_IMPORTS
COQ_PREAMBLE = SR.PREAMBLE
SHARD = 4
FORM = SR.FORM_TEXT % 'integrate_local_singlesite / integrate_local_twosite'
TRUSTED = SR.TRUSTED
PARTIAL = ('proved (Properties/C08.v, all closed under the global context): C08_tdvp1_conserves -- for every L >= 1, every number of steps and every bond profile the state '
           'returned by the single-site model has norm one and the energy of the normalised input, and the return value is the nrm of the initial '
           'right-orthonormalisation; relative to the contracts of the oracle calls the run issues, read off the emitted trace (block QR: Q.R = M, Q^H Q = I, '
           '1 <= k <= n; local solvers preserve <x|x> and <x|H_eff x>; orthonormalize returns right-isometric tensors). C08_tdvp2_conserves -- the same three '
           'conclusions for the two-site model, every L >= 2, every number of steps and every bond profile, relative to the contracts of the calls the run issues '
           '(one-site and merged two-site local solver preserve <x|x> and <x|H_eff x>; every split_mps_tensor call is exact, tol = 0: the tensor that was split '
           'factors entrywise through the two answers and the factor that did not receive the singular values is an isometry -- \'right\': A[i] left-isometric, '
           '\'left\': A[i+1] right-isometric; orthonormalize returns right-isometric tensors); induction over the two-site schedule with the two-site mixed-canonical '
           'invariant, hand-over of the centre after a \'right\' split and through the backward one-site step. Also the mixed-canonical norm / '
           'one-site / two-site / zero-site (rectangular bond matrix) energy identities, the call schedule for all L and step counts, the per-call QR bond bound; '
           'non-vacuity of both whole-run theorems on rational instances (L = 2 single-site, L = 3 two-site with an exact rational split oracle). '
           'LINK (C08_tdvp1_conserves_lapack, Proofs/Link*.v): the single-site whole-run theorem with the solver arguments instantiated by the concrete '
           'Krylov-based solvers kexp_lanczos / kexp0_lanczos = _local_hamiltonian_step / _local_bond_step (expm_krylov of Model/Krylov.v over the row-major '
           'flatten/unflatten bridge, site_dot = vdot): the only remaining hypotheses are LAPACK-level contracts on the calls actually issued (block QR; numpy.linalg.norm, '
           'sound breakdown test, eigh_tridiagonal with U^T U = I, T U = U diag(w), (U U^T) e_0 = e_0, unimodular numpy.exp at the issued arguments), right-isometry of '
           'orthonormalize and Hermiticity of the MPO (word-level, as in C04_heff_hermitian); self-adjointness of every one-site and zero-site effective operator and '
           'non-vanishing of every start tensor are derived from the sweep invariant; per call: C08_kexp_from_krylov, C08_kexp0_from_krylov (these also cover the merged '
           'two-site calls). LINK, TWO-SITE (C08_tdvp2_conserves_lapack, Proofs/Link2*.v): the two-site whole-run theorem (tol_split = 0) with the solver argument '
           'instantiated by the same kexp_lanczos for both kinds of local problem the integrator issues -- the merged two-site step (physical dimension d*d, merged MPO '
           'tensor, flattened length d*d*Dl*Dr) and the backward one-site step: the only remaining hypotheses are LAPACK-level contracts on the calls actually issued '
           '(numpy.linalg.norm, sound breakdown test, eigh_tridiagonal incl. the row-0 clause, unimodular numpy.exp at the issued arguments), the exact-split contract on '
           'every SPLITL / SPLITR entry, right-isometry of orthonormalize and Hermiticity of the MPO; self-adjointness of every merged effective operator is derived from '
           'the two-site invariant Z2 (C08_heff2_hermitian from C04_two_site_is_projection + mpo_herm; C08_two_site_invariant_gives_local_problem), non-vanishing of every '
           'merged start tensor from norm one; per entry: C08_kh2_entry_from_krylov; lock-step induction over the two-site schedule (C08_tdvp2_lapack_to_conserving); '
           'non-vacuity: the L = 3 rational instance run with the REAL solver (numiter = 1, unimodular phase 3/5+4/5i, exact rational split oracle), all hypotheses checked by '
           'kernel evaluation and the theorem applied to it (C08_tdvp2_conserves_lapack_nonvacuous, C08_tdvp2_conserves_lapack_example). '
           'NOT proved: bond dimensions along a whole run, splits with tol > 0, that the FLOATING-POINT primitives (LAPACK QR / eigh_tridiagonal / norm / exp, hence the floating-point Lanczos) meet their exact contracts (drift measured), that the floating-point '
           'SVD split meets the exact-split contract (at tol = 0 this is what C03_merge_split_id and C12_block_svd_spec prove of the split model in exact arithmetic; '
           'here only its consequences, norm and energy drift, are measured), rounding drift (measured by prop()); '
           'in the abstract theorems Hermiticity of H and imaginary dt enter only through the solver contract, in the linked theorem through mpo_herm and the unimodular-exp contract; H is an argument no model function returns or updates (bytes compared here)')
ASSUMPTIONS = SR.ASSUMPTIONS
RULE = ('Hermitian MPOs (XXZ, Ising, Bose-Hubbard, Fermi-Hubbard, random Hermitian with and without charges), L in 1..5 (two-site: L >= 2), '
        'bond profiles, sectors, purely imaginary dt of several sizes, 1..3 steps, 1..6 Krylov iterations, repeated calls on the same state, '
        'input norms != 1, real-valued and complex states (real states meet complex Hermitian MPOs: random Hermitian, XXZ with Dzyaloshinskii-Moriya-like complex hopping); non-trivial = L >= 2 and max bond >= 2; distinct by input digest')
IMPL_PARALLEL = True


def cases(rng, tier):
    n = {'quick': 150, 'thorough': 1500, 'search': 150}[tier]
    out = []
    for k in range(n):
        kind = rng.choice(['single', 'single', 'two'])
        model = rng.choice(T.MODELS)
        L = rng.choice([1, 2, 2, 3, 3, 4, 5]) if kind == 'single' else rng.choice([2, 2, 3, 3, 4, 5])
        if model in ('bose', 'fermi'):
            L = min(L, 3)
        out.append({'kind': kind, 'model': model, 'L': L, 'seed': rng.getrandbits(30), 'dt': rng.choice([0.01, 0.05, 0.2, -0.1, 0.5]),
                    'steps': rng.choice([1, 1, 2, 3]), 'numiter': rng.choice([1, 2, 3, 4, 6]), 'repeat': rng.choice([1, 1, 2]),
                    'Dmax': rng.choice([1, 2, 3, 4]), 'scale': rng.choice([1.0, 2.5, 0.3]),
                    'prep': rng.choice(['none', 'none', 'none', 'left']), 'between': rng.choice(['none', 'none', 'left']),
                    'sdtype': 'real' if rng.random() < 0.35 else 'complex'})
        if rng.random() < 0.1:
            out[-1]['hmag'] = rng.choice([-24, -27, -30, -30])
        if rng.random() < 0.07:
            out[-1]['steps'] = 0        # 'any number of steps': zero steps still normalise the state and return its norm
    SR.mark_replay(out, {'quick': 24, 'thorough': 120, 'search': 0}[tier], 'steps')
    return out


def impl(case):
    import warnings
    warnings.simplefilter('ignore')
    import pytenet as ptn
    import hashlib
    rs = np.random.default_rng(case['seed'])
    H = T.hamiltonian(case['model'], case['L'], rs)
    L = H.nsites
    if case.get('hmag'):
        # magnitude regime: Hamiltonian times 2^hmag, time step divided by it (exact): the same evolution
        H.A[0] = H.A[0] * 2.0 ** case['hmag']
    psi = T.state(H, rs, Dmax=case['Dmax'], dtype=case.get('sdtype', 'complex'))
    psi.A[0] = psi.A[0] * case['scale']
    if case.get('prep') == 'left' and float(np.linalg.norm(G.mps_dense(psi.A))) > 1e-10:
        psi.orthonormalize(mode='left')     # a normalised start that is NOT in the right-canonical form the sweep needs
    v0 = G.mps_dense(psi.A)
    n0 = float(np.linalg.norm(v0))
    if n0 < 1e-10:
        return {'skip': 'zero state'}
    Hd = G.mpo_dense(H.A)
    e0 = float(np.real(np.vdot(v0, Hd @ v0)) / n0 ** 2)
    hdig = hashlib.sha1(b''.join(np.ascontiguousarray(a).tobytes() for a in H.A) + b''.join(np.ascontiguousarray(q).tobytes() for q in H.qD) + np.ascontiguousarray(H.qd).tobytes()).hexdigest()
    dims0 = [int(x) for x in psi.bond_dims]
    qt = (psi.qD[0].copy(), psi.qD[-1].copy())
    dt = 1j * case['dt'] / (2.0 ** case['hmag'] if case.get('hmag') else 1.0)
    rets, norms, energies, dims = [], [], [], []
    maxdim_seen = list(dims0)
    numeric = SR.numeric_ok(case, H, psi)
    runs = []
    import pytenet.evolution as EV
    try:
        for rep in range(case['repeat']):
            if rep > 0 and case.get('between', 'none') != 'none':
                psi.orthonormalize(mode=case['between'])
            if case['kind'] == 'single':
                ret, run = SR.run_recorded(EV, ptn.integrate_local_singlesite, H, psi, dt, case['numiter'], numeric,
                                           dt, case['steps'], numiter_lanczos=case['numiter'])
            else:
                ret, run = SR.run_recorded(EV, ptn.integrate_local_twosite, H, psi, dt, case['numiter'], numeric,
                                           dt, case['steps'], numiter_lanczos=case['numiter'], tol_split=0)
            runs.append(run)
            v = G.mps_dense(psi.A)
            rets.append(float(np.real(ret))); norms.append(float(np.linalg.norm(v)))
            energies.append(float(np.real(np.vdot(v, Hd @ v))))
            dims.append([int(x) for x in psi.bond_dims])
    except Exception as e:
        import traceback
        tb = traceback.extract_tb(e.__traceback__)[-1]
        return {'error': type(e).__name__, 'detail': '%s [%s:%d]' % (str(e)[:160], tb.filename.split('/')[-1], tb.lineno)}
    hdig1 = hashlib.sha1(b''.join(np.ascontiguousarray(a).tobytes() for a in H.A) + b''.join(np.ascontiguousarray(q).tobytes() for q in H.qD) + np.ascontiguousarray(H.qd).tobytes()).hexdigest()
    return {'norm0': n0, 'e0': e0, 'rets': rets, 'norms': norms, 'energies': energies, 'dims0': dims0, 'dims': dims,
            'H_unchanged': hdig == hdig1, 'sparsity': G.mps_sparsity_ok(psi), 'hscale': float(np.linalg.norm(Hd, 2)),
            'qtotal_kept': bool(np.array_equal(psi.qD[0], qt[0]) and np.array_equal(psi.qD[-1], qt[1])),
            'herm': T.herm_defect(H), 'runs': runs, 'H': SR.enc_mpo(H, numeric)}


def prop(case, r):
    if 'skip' in r:
        return []
    if 'error' in r:
        return ['TDVP raised %s: %s' % (r['error'], r.get('detail', ''))]
    msgs = []
    tol = 1e-9 * (r['hscale'] if case.get('hmag') else 1 + r['hscale']) * max(case['steps'], 1) * case['repeat'] * 10      # relative to the energy scale in the magnitude regimes
    exp_ret = [r['norm0']] + [1.0] * (len(r['rets']) - 1)
    for k, (ret, nr, en) in enumerate(zip(r['rets'], r['norms'], r['energies'])):
        if abs(ret - exp_ret[k]) > 1e-9 * (1 + exp_ret[k]):
            msgs.append('call %d returned %.12g, expected the norm of its input state %.12g' % (k, ret, exp_ret[k]))
        if abs(nr - 1) > (1e-9 * max(case['steps'], 1) * case['repeat'] * 10 if case.get('hmag') else tol):
            msgs.append('norm after call %d is %.12g (drift %.3g)' % (k, nr, abs(nr - 1)))
        if abs(en - r['e0']) > tol:
            msgs.append('energy after call %d is %.12g, initial %.12g (drift %.3g)' % (k, en, r['e0'], abs(en - r['e0'])))
    if not r['H_unchanged']:
        msgs.append('the Hamiltonian MPO was modified')
    if case['kind'] == 'single':
        for d1 in r['dims']:
            if any(a > b for a, b in zip(d1, r['dims0'])):
                msgs.append('single-site TDVP increased a bond dimension: %s -> %s' % (r['dims0'], d1))
    if r['sparsity']:
        msgs.append('block sparsity / list lengths broken: %s' % r['sparsity'])
    if not r['qtotal_kept']:
        msgs.append('total bond quantum numbers changed')
    return msgs


def coq(case, r):
    if 'skip' in r or 'error' in r:
        return None
    return ' && '.join('(%s)' % SR.term_tdvp(case['kind'] == 'two', r['H'], case['steps'], run) for run in r['runs'])


def klass(case, r):
    if 'skip' in r or 'error' in r:
        return case['kind'] + '/' + ('skip' if 'skip' in r else 'error')
    return '%s/%s/L%d/it%d%s%s' % (case['kind'], case['model'], case['L'], min(case['numiter'], 3), '/real' if case.get('sdtype') == 'real' else '',
                                   '/replay' if r['H']['A'] and 're' in r['H']['A'][0] else '')


def nontrivial(case, r):
    return 'error' not in r and 'skip' not in r and case['L'] >= 2 and max(r['dims0']) >= 2
