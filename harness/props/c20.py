"""C20 — compiled Hamiltonian MPOs are as compact as the operator allows."""
import copy
from fractions import Fraction
import numpy as np
import gen as G
import hamref as HR
import emit as E
import props.c05 as C5

PROP = 'C20'
COQ_IMPORTS = ['PT.Base.Scalar', 'PT.Base.Mx', 'PT.Model.OpGraph', 'PT.Model.C17Common', 'PT.Model.AutOp', 'PT.Model.HamIsing',
               'PT.Model.Tensor', 'PT.Model.FromOpchains', 'PT.Model.GraphMPO', 'PT.Proofs.DenRev_C05', 'PT.Model.Rewrites',
               'PT.Model.Hamiltonians', 'PT.Model.Compact']
COQ_PREAMBLE = (C5.COQ_PREAMBLE +
                'Definition sqt (l : list QI) : nat -> QI := fun k => nth k l q0.\n'
                'Definition half : QI := qr 1 2.\n')
FORM = ('E (exact rationals, instance QIring): built-in models - MPO.bond_dims of the implementation vs the layer widths of the MODEL graph '
        '(Model/Hamiltonians.v tables through the from_opchains model with the Model/Bipartite.v cover routine; Ising through the from_automaton '
        'model of C17; linear fermionic closed-form graph) for L in 2..10; arbitrary chain lists - model graph (recorded covers and model covers) '
        'has the implementation bond dimensions, every recorded cover is certified by the model matching (valid cover, matching of equal size), '
        'all widths <= number of chains with non-zero coefficient; simplify - the Model/Rewrites.v simplify of the captured graph has the '
        'implementation bond dimensions after graph.simplify(), none larger than before')
RULE = ('built-in: Ising, XXZ spin-1/2 and spin-1, Bose-Hubbard d in 2..4, Fermi-Hubbard, linear fermionic (both types, complex coefficients), '
        'generic non-zero random parameters, L in 1..10 (operator Schmidt rank by SVD of the reshaped dense operator for d=2: L<=8, d=3: L<=5, d=4: L<=4); '
        'optimized molecular L in 1..6 and spin-molecular L in 1..3 with generic dense real/complex coefficient tensors, plus L = 8, 9 (thorough 7..10) and spin L = 4 with the Schmidt rank of the MPO\'s own dense matrix (prop only); '
        'arbitrary chain lists as in C05 (1..8 chains, L in 1..6, duplicates, cancelling pairs, zero coefficients, charges); '
        'simplify: bundles of parallel identity-padded paths (shared prefixes/suffixes, duplicates) and random consistent layered graphs with '
        'parallel edges; non-trivial = some bond dimension > 1; distinct by full case')
SHARD = 20
IMPL_PARALLEL = True
TRUSTED = ['hand-written Gallina models Model/Hamiltonians.v, Model/HamIsing.v, Model/FromOpchains.v, Model/Bipartite.v, Model/Rewrites.v, Model/GraphMPO.v '
           'tied to the code by exact agreement on every generated case',
           'numerical rank decision in harness/hamref.py:schmidt_ranks (SVD, relative threshold 1e-10) - search only']
PARTIAL = ('proved for all inputs (Properties/C20.v): with certified covers (valid cover + matching of equal size: what C18_mvc_total proves of '
           'minimum_vertex_cover) every layer width of a graph returned by from_opchains is <= the number of chains with non-zero coefficient; '
           'the model cover routine is certified on every call (so the bound is unconditional for it); simplify / merge_edges on a well-formed graph '
           '(WF of C16; wfb evaluated per case) never add a layer and never widen one (layers = level sets; C20_simplify_bond_le). '
           'Proved FOR EVERY L >= 1 (Proofs/CompactAllL*.v, theorems C20_*_all_L): the bond dimension at cut k+1 of any from_opchains graph is the size of '
           'the cover chosen at site k (C20_opchains_bond_dims_are_cover_sizes); Ising through from_automaton: [1,3,...,3,1] for all J, h, g (layer widths = '
           'numbers of active automaton states; also at J = 0, where the Schmidt rank is 2); XXZ spin-1/2 and spin-1 with non-zero J/2, D, h: '
           '[1,4,5,...,5,4,1]; Bose-Hubbard (any d) with non-zero t, U, mu: [1,4,...,4,1]; Fermi-Hubbard with non-zero t, U, mu: [1,6,...,6,1] -- each for '
           'every certified cover oracle (the minimum covers are not unique), in particular the model of minimum_vertex_cover. '
           'Kernel-computed, BOUNDED in L (L <= 8) and at sample parameter values only: the hand-wired linear fermionic graph (2). '
           'NOT proved (numerical, checked by prop only): equality of the bond dimensions with the operator Schmidt rank (needs linear independence of '
           'the operator families selected by a maximum matching, over the coefficient field, for generic parameters); the optimized molecular '
           'constructions (no Coq model here: prop only).')
ASSUMPTIONS = ['"generic parameters" = random non-zero reals / complex numbers drawn per case; rank decided numerically with relative threshold 1e-10',
               'the molecular constructions are covered at implementation level only (prop), L <= 6 (spin: L <= 3)']

ERRMAP = C5.ERRMAP


# --------------------------------------------------------------------------- generators
def _generic(rng):
    return round(rng.choice([-1, 1]) * rng.uniform(0.3, 2.0), 4)


def gen_paths_graph(rng):
    """a bundle of parallel start->end paths, one per word (maximal redundancy: what from_optrees / add build before simplify)"""
    L = rng.choice([1, 2, 2, 3, 3, 4, 4, 5])
    alphabet = rng.sample([0, 1, 2, 3, 5, -1], rng.choice([1, 2, 2, 3]))
    n = rng.choice([1, 2, 3, 3, 4, 5, 6])
    words = []
    for _ in range(n):
        r = rng.random()
        if words and r < 0.5:
            w = list(rng.choice(words))
            for _k in range(rng.choice([0, 1, 1, 2])):
                w[rng.randrange(L)] = rng.choice(alphabet)
        else:
            w = [rng.choice(alphabet) for _ in range(L)]
        words.append(w)
    nodes = {0: [0, [], [], 0], 1: [1, [], [], 0]}
    edges = []
    nid, eid = 2, 0
    for w in words:
        prev = 0
        for k, o in enumerate(w):
            if k == L - 1:
                nxt = 1
            else:
                nxt = nid; nid += 1
                nodes[nxt] = [nxt, [], [], 0]
            c = C5._coeff(rng, allow_complex=False) if k == 0 else [1, 0, 1]
            edges.append([eid, prev, nxt, [[o] + [float(v) for v in C5.fr(c)]]])
            nodes[prev][2].append(eid); nodes[nxt][1].append(eid)
            eid += 1
            prev = nxt
    gj = {'nodes': list(nodes.values()), 'edges': edges, 't': [0, 1]}
    return {'kind': 'simplify', 'tag': 'paths', 'L': L, 'graph': gj}


def cases(rng, tier):
    out = []
    nb = {'quick': 132, 'thorough': 600, 'search': 120}[tier]
    for k in range(nb):
        model = ['ising', 'xxz', 'xxz1', 'bose', 'fermi', 'linferm'][k % 6]
        c = {'kind': 'builtin', 'model': model, 'p': [_generic(rng) for _ in range(3)], 'seed': rng.getrandbits(30)}
        c['L'] = rng.choice([1, 2, 3, 4, 5, 6, 7, 8, 9, 10])
        if model == 'bose':
            c['d'] = rng.choice([2, 3, 4])
        if model == 'linferm':
            c['ftype'] = rng.choice(['c', 'a'])
        out.append(c)
    nm = {'quick': 14, 'thorough': 80, 'search': 20}[tier]
    for k in range(nm):
        spin = (k % 3 == 2)
        out.append({'kind': 'molecular', 'spin': spin, 'L': rng.choice([1, 2, 3] if spin else [1, 2, 3, 4, 5, 5, 6]), 'seed': rng.getrandbits(30),
                    'dtype': rng.choice(['real', 'complex'])})
    # longer lattices: the bipartite graphs of the optimized construction have several hundred vertices (49 x 484 at L = 9); the operator
    # Schmidt rank is taken from the dense matrix of the MPO itself (that the MPO is the documented operator is C07's subject)
    for L, spin in {'quick': ((8, False), (9, False), (4, True)), 'thorough': ((7, False), (8, False), (9, False), (10, False), (4, True)),
                    'search': ((9, False),)}[tier]:
        out.append({'kind': 'molecular', 'spin': spin, 'L': L, 'seed': rng.getrandbits(30), 'dtype': rng.choice(['real', 'complex']), 'selfref': True})
    nc = {'quick': 130, 'thorough': 600, 'search': 150}[tier]
    for _ in range(nc):
        c = C5.gen_chains_case(rng)
        c['kind'] = 'chainlist'
        out.append(c)
    ns = {'quick': 90, 'thorough': 400, 'search': 100}[tier]
    for k in range(ns):
        if k % 3 == 2:
            c = C5.gen_graph_case(rng)
            c = {'kind': 'simplify', 'tag': 'layered', 'L': c['L'], 'graph': c['graph']}
        else:
            c = gen_paths_graph(rng)
        out.append(c)
    return out


# --------------------------------------------------------------------------- implementation side
def _linferm_coeff(case):
    rs = np.random.default_rng(case['seed'])
    L = case['L']
    return rs.uniform(0.3, 2.0, size=L) * rs.choice([-1, 1], size=L) + 1j * rs.uniform(0.3, 2.0, size=L) * rs.choice([-1, 1], size=L)


def _dense_reach(d, L):
    return L <= {2: 8, 3: 5, 4: 4}.get(d, 0)


def _layers_dims(gj):
    layers, _, _ = C5._graph_layers(gj)
    return [len(l) for l in layers]


def _truthy(case):
    """the optimize flag as a caller may pass it: the literal True, or another truthy value (numpy bool, int, default left out
    is covered by the lattice constructors) -- derived from the case so that it is reproducible"""
    k = sum(ord(c) for c in repr(sorted(case.items()))) % 3
    return [True, np.bool_(True), 1][k]


def impl(case):
    import warnings
    warnings.simplefilter('ignore')
    import pytenet as ptn
    import pytenet.opgraph as og
    import pytenet.bipartite_graph as bgm
    from pytenet.mpo import MPO
    from pytenet.opchain import OpChain
    kind = case['kind']
    try:
        if kind == 'builtin':
            m, L, p = case['model'], case['L'], case['p']
            if m == 'linferm':
                co = _linferm_coeff(case)
                H = ptn.linear_fermionic_mpo(co, case['ftype']); d = 2
                ref = (lambda: HR.linear_fermionic(co, case['ftype'] == 'c'))
                extra = {'coeff': [[float(c.real), float(c.imag)] for c in co]}
            else:
                f, ref, d = {'ising': (lambda: ptn.ising_mpo(L, *p), lambda: HR.ising(L, *p), 2),
                             'xxz': (lambda: ptn.heisenberg_xxz_mpo(L, *p), lambda: HR.xxz(L, *p, s2=1), 2),
                             'xxz1': (lambda: ptn.heisenberg_xxz_spin1_mpo(L, *p), lambda: HR.xxz(L, *p, s2=2), 3),
                             'bose': (lambda: ptn.bose_hubbard_mpo(case.get('d', 2), L, *p), lambda: HR.bose_hubbard(case.get('d', 2), L, *p), case.get('d', 2)),
                             'fermi': (lambda: ptn.fermi_hubbard_mpo(L, *p), lambda: HR.fermi_hubbard(L, *p), 4)}[m]
                H = f(); extra = {}
            res = {'dims': [int(x) for x in H.bond_dims], 'd': d}
            res.update(extra)
            if _dense_reach(d, L):
                M = G.mpo_dense(H.A)
                R = ref()
                res['err'] = float(np.linalg.norm(M - R)) / (1.0 + float(np.linalg.norm(R)))
                res['ranks'] = HR.schmidt_ranks(R, d, L)          # of the INDEPENDENT dense reference
                res['ranks_mpo'] = HR.schmidt_ranks(M, d, L)
            return res
        if kind == 'molecular':
            rs = np.random.default_rng(case['seed'])
            L = case['L']
            t = rs.standard_normal((L, L)); v = rs.standard_normal((L, L, L, L))
            if case['dtype'] == 'complex':
                t = t + 1j * rs.standard_normal((L, L)); v = v + 1j * rs.standard_normal((L, L, L, L))
            if case.get('selfref'):
                H = (ptn.spin_molecular_hamiltonian_mpo if case['spin'] else ptn.molecular_hamiltonian_mpo)(t, v, optimize=_truthy(case))
                d = 4 if case['spin'] else 2
                M = G.mpo_dense(H.A)
                rk = HR.schmidt_ranks(M, d, L)
                return {'dims': [int(x) for x in H.bond_dims], 'd': d, 'err': 0.0, 'ranks': rk, 'ranks_mpo': rk}
            if case['spin']:
                H = ptn.spin_molecular_hamiltonian_mpo(t, v, optimize=_truthy(case)); R = HR.spin_molecular(t, v); d = 4
            else:
                H = ptn.molecular_hamiltonian_mpo(t, v, optimize=_truthy(case)); R = HR.molecular(t, v); d = 2
            M = G.mpo_dense(H.A)
            return {'dims': [int(x) for x in H.bond_dims], 'd': d, 'err': float(np.linalg.norm(M - R)) / (1.0 + float(np.linalg.norm(R))),
                    'ranks': HR.schmidt_ranks(R, d, L), 'ranks_mpo': HR.schmidt_ranks(M, d, L)}
        if kind == 'chainlist':
            covers = []
            orig_bg, orig_mvc = bgm.BipartiteGraph, bgm.minimum_vertex_cover

            class RecBG(orig_bg):
                def __init__(self, num_u, num_v, edges):
                    self._rec_edges = [(int(a), int(b)) for a, b in edges]
                    super().__init__(num_u, num_v, edges)

            def rec_mvc(graph):
                uc, vc = orig_mvc(graph)
                covers.append({'nu': int(graph.num_u), 'nv': int(graph.num_v), 'edges': [list(e) for e in getattr(graph, '_rec_edges', [])],
                               'uc': [int(x) for x in uc], 'vc': [int(x) for x in vc]})
                return uc, vc
            og.BipartiteGraph, og.minimum_vertex_cover = RecBG, rec_mvc
            try:
                chains = [OpChain(c['oids'], c['qnums'], C5.cnum(c['coeff']), c['istart']) for c in case['chains']]
                g = og.OpGraph.from_opchains(chains, case['L'], case['idn'])
            finally:
                og.BipartiteGraph, og.minimum_vertex_cover = orig_bg, orig_mvc
            gj = C5._gjson(g)
            opmap = {int(o): np.array(m, dtype=float) for o, m in case['opmap'].items()}
            try:
                dims = [int(x) for x in MPO.from_opgraph(case['qd'], g, opmap).bond_dims]
                src = 'mpo'
            except AssertionError:
                dims = _layers_dims(gj); src = 'layers'      # operator map not charge consistent with arbitrary bond charges
            nz = sum(1 for c in case['chains'] if c['coeff'][0] != 0 or c['coeff'][1] != 0)
            return {'dims': dims, 'src': src, 'graph': gj, 'covers': covers, 'nz': nz}
        if kind == 'simplify':
            gj = case['graph']
            g = og.OpGraph([og.OpGraphNode(n[0], n[1], n[2], n[3]) for n in gj['nodes']],
                           [og.OpGraphEdge(e[0], [e[1], e[2]], [(i, complex(a, b) if b else a) for i, a, b in e[3]]) for e in gj['edges']],
                           gj['t'])
            if not g.is_consistent():
                return {'error': 'inconsistent', 'stage': 'build'}
            oids = sorted({i for e in gj['edges'] for i, _, _ in e[3]})
            rs = np.random.default_rng(len(gj['edges']) * 7919 + len(gj['nodes']))
            opmap = {o: rs.integers(-3, 4, size=(2, 2)).astype(float) for o in oids}
            zero_q = all(n[3] == 0 for n in gj['nodes'])

            def dims_of(gr):
                if zero_q:
                    return [int(x) for x in MPO.from_opgraph([0, 0], gr, opmap).bond_dims]
                return _layers_dims(C5._gjson(gr))
            before = dims_of(g)
            dense0 = g.as_matrix(opmap) if 2 ** case['L'] <= 64 else None
            g2 = copy.deepcopy(g)
            g2.simplify()
            after = dims_of(g2)
            res = {'before': before, 'after': after, 'graph': C5._gjson(g), 'consistent_after': bool(g2.is_consistent()),
                   'nodes': [len(g.nodes), len(g2.nodes)], 'edges': [len(g.edges), len(g2.edges)]}
            if dense0 is not None:
                d1 = g2.as_matrix(opmap)
                res['dense_err'] = float(np.abs(np.asarray(dense0) - np.asarray(d1)).max())
            return res
    except RecursionError:
        return {'error': 'RecursionError'}
    except Exception as e:
        import traceback
        tb = traceback.extract_tb(e.__traceback__)[-1]
        return {'error': type(e).__name__, 'detail': '%s [%s:%d]' % (str(e)[:120], tb.filename.split('/')[-1], tb.lineno)}
    return {'error': 'unknown-kind'}


# --------------------------------------------------------------------------- property on the implementation
def prop(case, r):
    kind = case['kind']
    if 'error' in r:
        if kind == 'chainlist' and C5.expected_error(dict(case, kind='chains')) is not None:
            return []              # outside the domain of from_opchains (C05's business)
        if r.get('stage') == 'build':
            return ['harness could not build the test graph']
        return ['%s raised %s: %s' % (kind, r['error'], r.get('detail', ''))]
    msgs = []
    if kind in ('builtin', 'molecular'):
        L = case['L']
        dims = r['dims']
        if len(dims) != L + 1 or dims[0] != 1 or dims[-1] != 1:
            msgs.append('bond dimensions %s do not have the form [1, ..., 1] with %d sites' % (dims, L))
        if 'ranks_mpo' in r:
            # the operator in question is the one the MPO denotes (whether it is the documented one is C06 / C07's business)
            if dims[1:-1] != r['ranks_mpo']:
                msgs.append('bond dimensions %s differ from the operator Schmidt ranks %s of the dense operator' % (dims[1:-1], r['ranks_mpo']))
        return msgs
    if kind == 'chainlist':
        if any(x > r['nz'] for x in r['dims']):
            msgs.append('bond dimensions %s exceed the number %d of chains with non-zero coefficient' % (r['dims'], r['nz']))
        if len(r['dims']) != case['L'] + 1:
            msgs.append('MPO has %d bonds for %d sites' % (len(r['dims']), case['L']))
        return msgs
    if kind == 'simplify':
        b, a = r['before'], r['after']
        if len(a) != len(b) or any(x > y for x, y in zip(a, b)):
            msgs.append('simplify increased a bond dimension: %s -> %s' % (b, a))
        if not r['consistent_after']:
            msgs.append('graph inconsistent after simplify')
        if r['nodes'][1] > r['nodes'][0] or r['edges'][1] > r['edges'][0]:
            msgs.append('simplify increased the number of nodes or edges')
        if r.get('dense_err', 0.0) > 1e-9:
            msgs.append('simplify changed the operator (%.3g)' % r['dense_err'])
        return msgs
    return ['unknown case kind']


# --------------------------------------------------------------------------- model side
def _q(x):
    return C5.qi_lit(Fraction(float(x)), 0)


def _model_spec(case):
    m, p = case['model'], [_q(x) for x in case['p']]
    if m == 'xxz':
        return '(@xxz_spec QIring half %s %s %s)' % tuple(p)
    if m == 'xxz1':
        return '(@xxz1_spec QIring half %s %s %s %s)' % ((_q(float(np.sqrt(2.0))),) + tuple(p))
    if m == 'bose':
        d = case['d']
        return '(@bose_spec QIring %s (sqt %s) %s %s %s)' % ((E.nat(d), E.lst([_q(float(np.sqrt(float(k)))) for k in range(max(d, 1))])) + tuple(p))
    if m == 'fermi':
        return '(@fermi_spec QIring half %s %s %s)' % tuple(p)
    raise KeyError(m)


def coq(case, r):
    kind = case['kind']
    if 'error' in r or kind == 'molecular':
        return None
    if kind == 'builtin':
        m, L = case['model'], case['L']
        dims = E.natlist(r['dims'])
        if m == 'ising':
            p = [_q(x) for x in case['p']]
            return 'match ising_graph (R := QIring) %s %s %s %s with Some g => check_graph_dims g %s | None => false end' % (p[0], p[1], p[2], E.nat(L), dims)
        if m == 'linferm':
            co = E.lst([E.qi(complex(a, b)) for a, b in r['coeff']])
            return 'check_graph_dims (linferm_graph (R := QIring) %s %s) %s' % (co, E.boolean(case['ftype'] == 'c'), dims)
        return 'check_builtin_dims (R := QIring) %s %s %s' % (_model_spec(case), E.nat(L), dims)
    if kind == 'chainlist':
        chains = E.lst([C5.chain_lit(c) for c in case['chains']])
        return 'check_chain_bound (R := QIring) %s %s %s %s %s && Nat.eqb (nz_count (R := QIring) %s) %s' % (
            C5.cover_lit(r['covers']), chains, E.nat(case['L']), E.z(case['idn']), E.natlist(r['dims']), chains, E.nat(r['nz']))
    if kind == 'simplify':
        return 'check_simplify (R := QIring) %s %s %s' % (C5.graph_lit(r['graph']), E.natlist(r['before']), E.natlist(r['after']))
    return None


def coq_diag(case, r):
    kind = case['kind']
    if kind == 'builtin' and case['model'] in ('xxz', 'xxz1', 'bose', 'fermi'):
        return 'match spec_graph (R := QIring) cover_model %s %s with FromOpchains.Ok g => bond_dims g | FromOpchains.Err _ => None end' % (
            _model_spec(case), E.nat(case['L']))
    if kind == 'simplify' and 'graph' in r:
        return 'match simplify (R := QIring) %s with Some g => bond_dims g | None => None end' % C5.graph_lit(r['graph'])
    if kind == 'chainlist' and 'covers' in r:
        return 'match from_opchains (R := QIring) cover_model %s %s %s with FromOpchains.Ok g => bond_dims g | FromOpchains.Err _ => None end' % (
            E.lst([C5.chain_lit(c) for c in case['chains']]), E.nat(case['L']), E.z(case['idn']))
    return 'true'


def klass(case, r):
    kind = case['kind']
    if 'error' in r:
        return '%s/%s' % (kind, r['error'])
    Lb = lambda L: 'L1' if L == 1 else ('L2-3' if L <= 3 else ('L4-6' if L <= 6 else 'L7-10'))
    if kind == 'builtin':
        return 'builtin/%s/%s/%s' % (case['model'], Lb(case['L']), 'schmidt' if 'ranks_mpo' in r else 'dims-only')
    if kind == 'molecular':
        return 'molecular/%s/%s' % ('spin' if case['spin'] else 'spinless', Lb(case['L']))
    if kind == 'chainlist':
        mx = max(r['dims'])
        return 'chainlist/%s/%s' % (Lb(case['L']), 'tight' if mx == r['nz'] else ('width1' if mx == 1 else 'below'))
    if kind == 'simplify':
        return 'simplify/%s/%s/%s' % (case['tag'], Lb(case['L']), 'reduced' if r['after'] != r['before'] else 'unchanged')
    return kind


def nontrivial(case, r):
    if 'error' in r:
        return False
    if case['kind'] == 'simplify':
        return max(r['before']) > 1
    return max(r['dims']) > 1
