"""C02 — quantum-number block sparsity is an invariant of every operation history."""
import numpy as np
import gen as G

PROP = 'C02'
COQ_IMPORTS = ['PT.Base.Scalar']
FORM = 'see coq(): per-step replay where the model is available'
RULE = ('seeded random histories (3..12 steps quick, up to 40 thorough) over a pool of MPS/MPO sharing physical charges '
        '(U(1) charges of XXZ / Bose-Hubbard, encoded pairs of Fermi-Hubbard, random charges, all-zero), operations: constructors, '
        'orthonormalize, compress, +, -, @, apply_operator, from_opgraph/Hamiltonian constructors, split/merge, from_vector, '
        'TDVP single/two-site, DMRG single/two-site; after EVERY step all pool objects are checked by an independent is_qsparse and '
        'length test; non-trivial = history contains >= 3 distinct operation kinds; distinct by (model, seed)')
IMPL_PARALLEL = True

OPS = ['orth_l', 'orth_r', 'compress_l', 'compress_r', 'add', 'sub', 'apply', 'mpo_add', 'mpo_sub', 'mpo_mul', 'mpo_orth',
       'split_merge', 'split_merge', 'from_vector', 'tdvp1', 'tdvp2', 'dmrg1', 'dmrg2', 'new_state', 'new_zero_state', 'zero_split_sweep', 'split_sweep', 'zero_op']


def cases(rng, tier):
    n = {'quick': 200, 'thorough': 1500, 'search': 200}[tier]
    out = []
    for k in range(n):
        steps = rng.randint(3, 12) if tier != 'thorough' else rng.randint(3, 40)
        out.append({'seed': rng.getrandbits(30), 'model': rng.choice(['xxz', 'xxz', 'bose', 'fermi', 'random', 'zero', 'ising']),
                    'L': rng.choice([2, 2, 3, 3, 4]), 'ops': [rng.choice(OPS) for _ in range(steps)],
                    'tol': rng.choice([0.0, 1e-10, 0.01, 0.1])})
    return out


def _hamiltonian(case, rs, qd=None):
    import pytenet as ptn
    L, m = case['L'], case['model']
    if m == 'xxz':
        return ptn.heisenberg_xxz_mpo(L, 1.0, 0.6, 0.3)
    if m == 'bose':
        return ptn.bose_hubbard_mpo(3, L, 1.0, 2.0, 0.4)
    if m == 'fermi':
        return ptn.fermi_hubbard_mpo(min(L, 3), 1.0, 3.0, 0.2)
    if m == 'ising':
        return ptn.ising_mpo(L, 1.0, 0.3, 0.7)
    if m == 'zero':
        return G.hermitian_mpo(rs, L, 2, 'zero')
    return G.hermitian_mpo(rs, L, 2, 'unsorted', qd=qd)


def _state(rs, H, Dmax=3, qclass='unsorted'):
    L = H.nsites
    if not np.any(H.qd):
        qclass = 'zero'
    return G.rand_mps(rs, L, len(H.qd), qclass=qclass, Dmax=Dmax, qd=np.array(H.qd), dtype='complex')


def impl(case):
    import warnings
    warnings.simplefilter('ignore')
    import pytenet as ptn
    rs = np.random.default_rng(case['seed'])
    try:
        H = _hamiltonian(case, rs)
    except Exception as e:
        return {'error': type(e).__name__, 'at': 'constructor', 'detail': str(e)[:200]}
    L = H.nsites
    d = len(H.qd)
    states = [_state(rs, H), _state(rs, H)]
    ops = [H, G.rand_mpo(rs, L, d, qclass='unsorted' if np.any(H.qd) else 'zero', Dmax=2, qd=np.array(H.qd))]
    trace = []
    viol = []

    def check(step, name):
        for k, s in enumerate(states):
            m = G.mps_sparsity_ok(s)
            if m:
                viol.append('after step %d (%s): state %d: %s' % (step, name, k, m))
        for k, o in enumerate(ops):
            m = G.mpo_sparsity_ok(o)
            if m:
                viol.append('after step %d (%s): operator %d: %s' % (step, name, k, m))
    check(-1, 'init')
    for step, name in enumerate(case['ops']):
        i = int(rs.integers(0, len(states))); j = int(rs.integers(0, len(states)))
        a = int(rs.integers(0, len(ops))); b = int(rs.integers(0, len(ops)))
        psi = states[i]
        big = max(psi.bond_dims) > 16
        obig = max(ops[a].bond_dims) > 8
        try:
            nonzero = ptn.norm(psi) > 1e-10
            qt = (psi.qD[0].copy(), psi.qD[-1].copy())
            keep_total = False
            if name in ('orth_l', 'orth_r'):
                psi.orthonormalize(mode='left' if name == 'orth_l' else 'right'); keep_total = True
            elif name in ('compress_l', 'compress_r'):
                psi.compress(case['tol'], mode='left' if name == 'compress_l' else 'right'); keep_total = True
            elif name in ('add', 'sub'):
                other = states[j]
                if np.array_equal(other.qD[0], psi.qD[0]) and np.array_equal(other.qD[-1], psi.qD[-1]) and not big:
                    states[i] = (psi + other) if name == 'add' else (psi - other)
                else:
                    name += '(skipped)'
            elif name == 'apply':
                if not big and not obig:
                    states[i] = ptn.apply_operator(ops[a], psi)
                else:
                    name += '(skipped)'
            elif name in ('mpo_add', 'mpo_sub'):
                if not obig and max(ops[b].bond_dims) <= 8:
                    ops[1] = (ops[a] + ops[b]) if name == 'mpo_add' else (ops[a] - ops[b])
                else:
                    name += '(skipped)'
            elif name == 'mpo_mul':
                if max(ops[a].bond_dims) * max(ops[b].bond_dims) <= 40:
                    ops[1] = ops[a] @ ops[b]
                else:
                    name += '(skipped)'
            elif name == 'mpo_orth':
                ops[1].orthonormalize(mode=str(rs.choice(['left', 'right'])))
            elif name == 'split_merge':
                if L >= 2:
                    k = int(rs.integers(0, L - 1))
                    Am = ptn.merge_mps_tensor_pair(psi.A[k], psi.A[k + 1])
                    A0, A1, qb = ptn.split_mps_tensor(Am, psi.qd, psi.qd, [psi.qD[k], psi.qD[k + 2]], str(rs.choice(['left', 'right', 'sqrt'])), case['tol'])
                    psi.A[k], psi.A[k + 1], psi.qD[k + 1] = A0, A1, qb
            elif name in ('split_sweep', 'zero_split_sweep'):
                if name == 'zero_split_sweep' and np.any(H.qd):
                    states[i] = G.rand_mps(rs, L, d, qclass=str(rs.choice(['unsorted', 'sorted', 'big'])), Dmax=3, qd=np.array(H.qd), connected=False,
                                           q_total=int(rs.integers(50, 60)))
                    psi = states[i]
                order = list(range(L - 1)) if rs.random() < 0.5 else list(reversed(range(L - 1)))
                for k in order:
                    Am = ptn.merge_mps_tensor_pair(psi.A[k], psi.A[k + 1])
                    A0, A1, qb = ptn.split_mps_tensor(Am, psi.qd, psi.qd, [psi.qD[k], psi.qD[k + 2]], str(rs.choice(['left', 'right', 'sqrt'])), case['tol'])
                    psi.A[k], psi.A[k + 1], psi.qD[k + 1] = A0, A1, qb
            elif name == 'from_vector':
                if not np.any(H.qd) and d ** L <= 256:
                    vec = rs.standard_normal(d ** L)
                    if rs.random() < 0.5:
                        # compressible vector: a product state plus a small perturbation (or exactly a basis / product state)
                        vec = np.ones(1)
                        for _ in range(L):
                            vec = np.kron(vec, rs.standard_normal(d))
                        if rs.random() < 0.5:
                            vec = vec + 1e-3 * rs.standard_normal(d ** L)
                    states[j] = ptn.MPS.from_vector(d, L, vec, tol=float(rs.choice([case['tol'], 0.0, 0.01, 0.2])))
                else:
                    name += '(skipped)'
            elif name in ('tdvp1', 'tdvp2', 'dmrg1', 'dmrg2'):
                if nonzero and not big and max(psi.bond_dims) <= 6:
                    if name == 'tdvp1':
                        ptn.integrate_local_singlesite(H, psi, 0.1j, 1, numiter_lanczos=5)
                    elif name == 'tdvp2':
                        ptn.integrate_local_twosite(H, psi, 0.1j, 1, numiter_lanczos=5, tol_split=case['tol'])
                    elif name == 'dmrg1':
                        ptn.calculate_ground_state_local_singlesite(H, psi, 1, numiter_lanczos=5)
                    else:
                        ptn.calculate_ground_state_local_twosite(H, psi, 1, numiter_lanczos=5, tol_split=case['tol'])
                    keep_total = True
                else:
                    name += '(skipped)'
            elif name == 'new_state':
                states[j] = _state(rs, H, qclass=str(rs.choice(['unsorted', 'sorted', 'repeated'])))
            elif name == 'new_zero_state':
                # sector-disjoint bond charges: the zero state (dummy-bond branches of QR / SVD)
                if np.any(H.qd):
                    states[j] = G.rand_mps(rs, L, d, qclass=str(rs.choice(['unsorted', 'sorted', 'big'])), Dmax=3, qd=np.array(H.qd), connected=False,
                                           q_total=int(rs.integers(50, 60)))
                else:
                    name += '(skipped)'
            elif name == 'zero_op':
                # a freshly built MPO from a constructor (graph-to-MPO conversion)
                ops[1] = _hamiltonian(case, rs, qd=np.array(H.qd))
            if keep_total and nonzero and not name.endswith('(skipped)'):
                if not (np.array_equal(psi.qD[0], qt[0]) and np.array_equal(psi.qD[-1], qt[1])):
                    viol.append('after step %d (%s): total bond quantum numbers of a non-zero state changed %s/%s -> %s/%s' % (
                        step, name, qt[0], qt[1], psi.qD[0], psi.qD[-1]))
        except Exception as e:
            import traceback
            tb = traceback.extract_tb(e.__traceback__)[-1]
            return {'error': type(e).__name__, 'at': 'step %d (%s)' % (step, name), 'detail': ('%s [%s:%d]' % (str(e)[:160], tb.filename.split('/')[-1], tb.lineno)),
                    'trace': trace + [name], 'violations': viol}
        trace.append(name)
        check(step, name)
        if viol:
            break
    return {'trace': trace, 'violations': viol}


def prop(case, r):
    msgs = list(r.get('violations', []))
    if 'error' in r:
        msgs.append('history raised %s at %s: %s' % (r['error'], r.get('at'), r.get('detail', '')))
    return msgs


def coq(case, r):
    return None


def klass(case, r):
    if 'error' in r:
        return case['model'] + '/error'
    kinds = sorted({t.split('(')[0].rstrip('_lr12') for t in r['trace'] if not t.endswith('(skipped)')})
    return '%s/%dkinds' % (case['model'], len(kinds))


def nontrivial(case, r):
    return 'error' not in r and len({t for t in r['trace'] if not t.endswith('(skipped)')}) >= 3
