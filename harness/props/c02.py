"""C02 — quantum-number block sparsity is an invariant of every operation history.

Stage C (implementation level): seeded random histories on the real code, an independent is_qsparse + length test on every
pool object after every step, total charge of non-zero states kept by orthonormalize / compress / TDVP / DMRG.
Stage B (correspondence with Model/History.v):
  * 'ring' cases — histories of ring operations (constructors, add_mps with alpha, +, -, @, apply_operator, MPO.identity, also
    with operands that make the assertions fail) on integer-valued tensors: the state machine [step_opt] is run at Z[i] inside
    Coq; at every step the object it writes must equal the implementation's exactly (qd, every qD, every tensor entry) and
    satisfy the invariant evaluated in Coq; exceptions must coincide with [None]; the final pools must be equal (form E).
  * 'zsplit' cases — histories of merge + split (all three distributions, tol 0 and 1/4), +, - and constructors on ZERO states
    and on states in an unreachable charge sector, restricted to steps whose merged tensor is identically zero: the state
    machine is run over Q[i] with the SplitMerge step = the mirror of split_matrix_svd as it stands (Model/BondOpsF5.v, dummy
    bond also for matrices without rows; bond dimension 0 when charges are shared) and every written object is compared
    exactly (Model/HistoryZero.v zsplit_check; form E).
  * 'hist' cases — LAPACK-dependent histories are compared at the level of the invariant: the sparsity pattern (charges, shapes,
    1 where the entry is non-zero) of every pool object after every step is shipped to Coq and [mps_ok] / [mpo_ok] is evaluated
    on it over the integers; the boundary charges before / after total-charge-keeping steps are compared with [boundary_eqb].
"""
import hashlib
import numpy as np
import gen as G
import emit as E

PROP = 'C02'
COQ_IMPORTS = ['PT.Base.Scalar', 'PT.Base.Field', 'PT.Base.BigSum', 'PT.Base.Mx', 'PT.Model.Tensor', 'PT.Model.MPSOps', 'PT.Model.History',
               'PT.Model.BondOps', 'PT.Model.BondOpsF5', 'PT.Model.HistoryZero']
COQ_PREAMBLE = '''
Definition gmx := @mkmx GIring.
Definition gmps := @mkmps GIring.
Definition gmpo := @mkmpo GIring.
Definition zmx := @mkmx Zring.
Definition zmps := @mkmps Zring.
Definition zmpo := @mkmpo Zring.
Definition Gstate := @mkstate GIring.
Definition Gcheck := @check_history GIring (no_oracles GIring).
Definition GNewMps := @NewMps GIring.   Definition GNewMpo := @NewMpo GIring.
Definition GAddMps := @AddMps GIring.   Definition GSubMps := @SubMps GIring.
Definition GAddMpo := @AddMpo GIring.   Definition GSubMpo := @SubMpo GIring.
Definition GMulMpo := @MulMpo GIring.   Definition GApply := @Apply GIring.
Definition GIdentity := @Identity GIring.
Definition GOutMps := @OutMps GIring.   Definition GOutMpo := @OutMpo GIring.   Definition GOutErr := @OutErr GIring.
Definition gi (a b : Z) : GIring := (a, b).
Definition qmx := @mkmx (Cx QcF).
Definition qmps := @mkmps (Cx QcF).
Definition Qstate := @mkstate (Cx QcF).
Definition QSplitMerge := @SplitMerge (Cx QcF).   Definition QNewMps := @NewMps (Cx QcF).
Definition QAddMps := @AddMps (Cx QcF).   Definition QSubMps := @SubMps (Cx QcF).
Definition QOutMps := @OutMps (Cx QcF).   Definition QOutErr := @OutErr (Cx QcF).
'''
FORM = ('E for ring operations (whole histories replayed by the state machine of Model/History.v at Z[i], every written object '
        'compared exactly and the invariant evaluated in Coq) + E for zero-tensor split histories (state machine over Q[i] with the '
        'mirror of split_matrix_svd, Model/BondOpsF5.v / HistoryZero.v) + invariant evaluated in Coq on the sparsity pattern of every '
        'pool object after every step of the LAPACK-dependent histories')
RULE = ('seeded random histories (3..12 steps quick, up to 40 thorough) over a pool of MPS/MPO sharing physical charges '
        '(U(1) charges of XXZ / Bose-Hubbard, encoded pairs of Fermi-Hubbard, random charges, all-zero), operations: constructors, '
        'orthonormalize, compress, +, -, @, apply_operator, from_opgraph/Hamiltonian constructors, split/merge, from_vector, '
        'TDVP single/two-site, DMRG single/two-site; after EVERY step all pool objects are checked by an independent is_qsparse and '
        'length test; non-trivial = history contains >= 3 distinct operation kinds; distinct by (model, seed).  Ring cases: '
        'integer-valued pools (L 1..4, d 2..3, charge classes zero/sorted/unsorted/repeated/big, a third state in another charge '
        'sector so that assertions fail), 4..8 ring operations with Gaussian-integer alpha / scale / fill.  zsplit cases: a zero '
        'state and a state in an unreachable charge sector (L 2..4, d 2..3), 3..8 operations among merge+split (left/right/sqrt, '
        'tol 0 or 1/4; only when the merged tensor is zero), +, -, constructors; non-trivial = at least one split performed')
TRUSTED = ['hand-written Gallina state machine Model/History.v on top of Model/MPSOps.v, Model/GraphMPO.v (ring operations) — tied '
           'to /repo by the exact replay of ring histories; oracles stand for the LAPACK-dependent operations',
           'Model/BondOpsF5.v (mirror of split_matrix_svd after fix F5) — tied to /repo on zero matrices by the exact replay of the '
           'zsplit histories, equal to the C12 mirror Model/BondOps.v block_svd on every matrix with a row (C02_block_svd5_agrees)',
           'python emitters harness/emit.py and the pattern extraction in harness/props/c02.py (entry != 0 -> 1)']
PARTIAL = ('proved (Properties/C02.v, 80 theorems closed under the global context; every commutative ring with conjugation, all L, d, '
           'bond profiles, charges): the invariant is preserved by add_mps, add_mpo, multiply_mpo, apply_operator (and their sparsity '
           'assertions can never fire on operands satisfying it), established by MPO.identity, the MPS/MPO constructors, '
           'MPO.from_opgraph, MPS.from_vector (given chained shapes), kept by merge + split, hence by every history of ring operations '
           'with no hypothesis.  NO hypothesis of the form "the result is block sparse" is left in the history theorem: '
           'orthonormalize (MPS/MPO, both modes, C01), compress (both modes, C13), split and ALL FOUR sweep functions -- single-site '
           'AND two-site TDVP / DMRG whole runs, any number of steps / sweeps -- are their executable models, and the hypotheses are '
           'contracts of the numerical primitives on the calls actually issued: LAPACK QR / SVD / argsort / abs for orthonormalize, '
           'compress and split, C11\'s conclusion for bond_ops.qr, and for the Krylov local solvers only "the call returns" (zero '
           'patterns pass through Lanczos / Arnoldi / eigh_krylov / expm_krylov with NO contract on norm, eigh_tridiagonal, exp).  '
           'Round 4: (1) ZERO-TENSOR SPLIT closed -- split_matrix_svd on an all-zero / charge-forbidden matrix (dummy bond, also for a '
           'matrix without rows after fix F5: Model/BondOpsF5.v; bond dimension 0 when charges are shared and LAPACK returns zero '
           'singular values) meets the split contract for every tolerance, so C02_history_inv_all_splits has the executable model as '
           'the result function of SplitMerge and only LAPACK\'s SVD / argsort contract as hypothesis (also for the split calls of the '
           'two-site sweeps); the model is replayed against the implementation on zero-state histories (cases zsplit, exact).  '
           '(2) DMRG TOTAL CHARGE FOR EVERY tol_split < 1 closed -- invariant "mixed canonical and not zero" instead of "norm one"; '
           'the weak split contract (kept part not zero, orthonormal factor an isometry) is a theorem for the model from C12\'s error '
           'bound (C02_truncated_split_keeps_nonzero), so C02_total_charge_kept_dmrg2_every_tol has LAPACK-level hypotheses only on the '
           'split calls.  (3) SOLVER CALLS RETURN made precise -- a Krylov solver call (Hamiltonian step, bond step, eigensolver, '
           'repaired eigensolver) returns iff numiter >= 1 and numpy.linalg.norm answers a positive value, i.e. (norm\'s contract on '
           'that one call) iff the start tensor is not zero; for whole two-site DMRG runs the start tensors are not zero because the '
           'state is not, hence every eigensolver call returns (C02_dmrg2_eigensolver_calls_return_partial).  Boundary (total) '
           'charges: sums copy, products take outer sums, merge+split keeps, orthonormalize and compress keep (non-zero amplitude, '
           'L*tol < 1 or scale != 0), both TDVP integrators keep with NO hypothesis on solver / QR / split calls, both DMRG functions '
           'keep.  NOT proved, validated per run: the whole-run form of "solver calls return" for TDVP (both) and single-site DMRG '
           '(per-call characterisation and trace-level reduction are proved; the non-zero start tensors follow from C08/C10 '
           'invariants that are not exported per call); that the operator is charge neutral with non-empty bonds (hypothesis '
           'sweep_pre; needed: otherwise apply_local_hamiltonian leaves the sector); from_vector\'s shapes; the Hamiltonian '
           'constructors up to from_opgraph (C05-C07)')
ASSUMPTIONS = ['float64 arithmetic on integers below 2^50 is exact (ring histories stop before entries exceed it)',
               'oracle contracts as listed in Properties/C02.v (C02_history_inv_all_splits: LAPACK QR / SVD / argsort / abs contracts for '
               'orthonormalize, compress and split_matrix_svd on the calls issued, C11\'s conclusion for the QR calls of the sweeps, "the '
               'Krylov call returns" = numiter >= 1 and non-zero start tensor for the local solvers; for the DMRG total-charge theorems '
               'additionally: Ritz vector not zero and of the right shape, QR factorisation -- C10\'s exact-split contract is no longer needed)']
IMPL_PARALLEL = True
SHARD = 12

OPS = ['orth_l', 'orth_r', 'compress_l', 'compress_r', 'add', 'sub', 'apply', 'mpo_add', 'mpo_sub', 'mpo_mul', 'mpo_orth',
       'split_merge', 'split_merge', 'from_vector', 'tdvp1', 'tdvp2', 'dmrg1', 'dmrg2', 'new_state', 'new_zero_state', 'zero_split_sweep', 'split_sweep', 'zero_op', 'zero_derived']


def cases(rng, tier):
    n = {'quick': 200, 'thorough': 1500, 'search': 200}[tier]
    out = []
    for k in range(n):
        steps = rng.randint(3, 12) if tier != 'thorough' else rng.randint(3, 40)
        out.append({'seed': rng.getrandbits(30), 'model': rng.choice(['xxz', 'xxz', 'bose', 'fermi', 'random', 'zero', 'ising']),
                    'L': rng.choice([2, 2, 3, 3, 4]), 'ops': [rng.choice(OPS) for _ in range(steps)],
                    'tol': rng.choice([0.0, 1e-10, 0.01, 0.1])})
    nr = {'quick': 300, 'thorough': 1500, 'search': 300}[tier]
    for k in range(nr):
        out.append({'kind': 'ring', 'seed': rng.getrandbits(30), 'L': rng.choice([1, 2, 2, 3, 3, 4]), 'd': rng.choice([2, 2, 3]),
                    'qclass': rng.choice(['unsorted', 'unsorted', 'sorted', 'zero', 'repeated', 'big']),
                    'ops': [rng.choice(RING_OPS) for _ in range(rng.randint(4, 8))]})
    nz = {'quick': 120, 'thorough': 600, 'search': 120}[tier]
    for k in range(nz):
        out.append({'kind': 'zsplit', 'seed': rng.getrandbits(30), 'L': rng.choice([2, 3, 3, 4]), 'd': rng.choice([2, 2, 3]),
                    'qclass': rng.choice(['unsorted', 'unsorted', 'sorted', 'zero', 'repeated']),
                    'ops': [rng.choice(ZS_OPS) for _ in range(rng.randint(3, 8))]})
    return out


ZS_OPS = ['split', 'split', 'split', 'split', 'sub', 'add', 'new_zero', 'new_forbidden']


RING_OPS = ['add', 'add', 'sub', 'apply', 'apply', 'mpo_add', 'mpo_sub', 'mpo_mul', 'identity', 'new_state', 'new_op', 'add_other_sector']
PATTERN_CAP = 30000      # entries of one object above which its pattern is not shipped to Coq (stage C still checks it)
INT_CAP = float(2 ** 50)


def _ser(obj):
    """MPS / MPO with integer-valued entries -> JSON (real and imaginary parts as nested int lists)"""
    return {'qd': [int(x) for x in obj.qd], 'qD': [[int(x) for x in q] for q in obj.qD],
            'Ar': [np.real(a).astype(np.int64).tolist() for a in obj.A], 'Ai': [np.imag(a).astype(np.int64).tolist() for a in obj.A],
            'shapes': [list(np.asarray(a).shape) for a in obj.A]}      # nested lists lose the shape of arrays with an empty bond


def _pattern(kind, obj):
    return {'kind': kind, 'qd': [int(x) for x in obj.qd], 'qD': [[int(x) for x in np.asarray(q).reshape(-1)] for q in obj.qD],
            'M': [(np.asarray(a) != 0).astype(int).tolist() for a in obj.A], 'shapes': [list(np.asarray(a).shape) for a in obj.A]}


def _intvalued(obj):
    for a in obj.A:
        a = np.asarray(a)
        if not (np.all(np.real(a) == np.round(np.real(a))) and np.all(np.imag(a) == np.round(np.imag(a)))):
            return False
        if a.size and max(np.max(np.abs(np.real(a))), np.max(np.abs(np.imag(a)))) >= INT_CAP:
            return False
    return True


def impl_ring(case):
    import warnings
    warnings.simplefilter('ignore')
    import pytenet as ptn
    from pytenet.mps import add_mps
    from pytenet.mpo import add_mpo
    rs = np.random.default_rng(case['seed'])
    L, d, qc = case['L'], case['d'], case['qclass']
    qd = np.zeros(d, dtype=int) if qc == 'zero' else rs.integers(-1, 2, size=d)
    word = rs.integers(0, d, size=L)
    qtot = int(np.sum(qd[word]))

    def rstate(qt):
        return G.rand_mps(rs, L, d, qclass=qc, Dmax=2, dtype='complex', entries='int', qd=qd.copy(), q_total=qt)

    def rop():
        return G.rand_mpo(rs, L, d, qclass=qc if np.any(qd) else 'zero', Dmax=2, dtype='complex', entries='int', qd=qd.copy())
    states = [rstate(qtot), rstate(qtot), rstate(qtot + 1)]
    ops = [rop(), rop()]
    init = {'states': [_ser(x) for x in states], 'ops': [_ser(x) for x in ops]}
    steps, viol, trace = [], [], []

    def gint():
        return complex(int(rs.integers(-2, 3)), int(rs.integers(-2, 3)))
    for step, name in enumerate(case['ops']):
        i = int(rs.integers(0, 2)); j = int(rs.integers(0, 2))
        a = int(rs.integers(0, len(ops))); b = int(rs.integers(0, len(ops)))
        sdst = int(rs.integers(0, min(len(states) + 1, 5))); odst = int(rs.integers(0, min(len(ops) + 1, 4)))
        alpha = gint(); fill = gint()
        rec = None
        try:
            if name in ('add', 'sub', 'add_other_sector'):
                if name == 'add_other_sector':
                    j = 2 if rs.random() < 0.7 else int(rs.integers(0, len(states)))
                    i = int(rs.integers(0, len(states)))
                if max(x + y for x, y in zip(states[i].bond_dims, states[j].bond_dims)) > 24:
                    continue
                if name == 'sub':
                    rec = {'op': 'SubMps', 'args': [sdst, i, j]}
                    res = states[i] - states[j]
                else:
                    rec = {'op': 'AddMps', 'args': [sdst, i, j], 'alpha': [alpha.real, alpha.imag]}
                    res = add_mps(states[i], states[j], alpha=alpha) if alpha != 1 else states[i] + states[j]
                kind = 'mps'
            elif name == 'apply':
                i = int(rs.integers(0, len(states)))
                if max(x * y for x, y in zip(ops[a].bond_dims, states[i].bond_dims)) > 24:
                    continue
                rec = {'op': 'Apply', 'args': [sdst, a, i]}
                res = ptn.apply_operator(ops[a], states[i]); kind = 'mps'
            elif name in ('mpo_add', 'mpo_sub'):
                if max(x + y for x, y in zip(ops[a].bond_dims, ops[b].bond_dims)) > 8:
                    continue
                if name == 'mpo_sub':
                    rec = {'op': 'SubMpo', 'args': [odst, a, b]}
                    res = ops[a] - ops[b]
                else:
                    rec = {'op': 'AddMpo', 'args': [odst, a, b], 'alpha': [alpha.real, alpha.imag]}
                    res = add_mpo(ops[a], ops[b], alpha=alpha)
                kind = 'mpo'
            elif name == 'mpo_mul':
                if max(x * y for x, y in zip(ops[a].bond_dims, ops[b].bond_dims)) > 8:
                    continue
                rec = {'op': 'MulMpo', 'args': [odst, a, b]}
                res = ops[a] @ ops[b]; kind = 'mpo'
            elif name == 'identity':
                rec = {'op': 'Identity', 'args': [odst], 'qd': [int(x) for x in qd], 'L': L, 'scale': [fill.real, fill.imag]}
                res = ptn.MPO.identity(qd, L, scale=fill); kind = 'mpo'
            elif name == 'new_state':
                t = states[int(rs.integers(0, len(states)))]
                rec = {'op': 'NewMps', 'args': [sdst], 'qd': [int(x) for x in qd], 'qD': [[int(x) for x in q] for q in t.qD],
                       'fill': [fill.real, fill.imag]}
                res = ptn.MPS(qd, [q.copy() for q in t.qD], fill=fill); kind = 'mps'
            elif name == 'new_op':
                t = ops[int(rs.integers(0, len(ops)))]
                rec = {'op': 'NewMpo', 'args': [odst], 'qd': [int(x) for x in qd], 'qD': [[int(x) for x in q] for q in t.qD],
                       'fill': [fill.real, fill.imag]}
                res = ptn.MPO(qd, [q.copy() for q in t.qD], fill=fill); kind = 'mpo'
            else:
                continue
        except AssertionError:
            rec['out'] = 'err'
            steps.append(rec); trace.append(name + '(assert)')
            continue
        except Exception as e:
            viol.append('step %d (%s) raised %s: %s' % (step, name, type(e).__name__, str(e)[:160]))
            break
        if not _intvalued(res):
            break
        rec['out'] = kind
        rec['res'] = _ser(res)
        steps.append(rec); trace.append(name)
        pool, dst = (states, sdst) if kind == 'mps' else (ops, odst)
        if dst < len(pool):
            pool[dst] = res
        else:
            pool.append(res)
        m = G.mps_sparsity_ok(res) if kind == 'mps' else G.mpo_sparsity_ok(res)
        if m:
            viol.append('after step %d (%s): result: %s' % (step, name, m))
            break
    final = {'states': [_ser(x) for x in states], 'ops': [_ser(x) for x in ops]}
    return {'trace': trace, 'violations': viol, 'init': init, 'steps': steps, 'final': final}


def impl_zsplit(case):
    """merge + split / add / sub / constructors on zero and charge-forbidden states; only steps whose merged tensor is zero"""
    import warnings
    warnings.simplefilter('ignore')
    import pytenet as ptn
    from pytenet.mps import add_mps, split_mps_tensor, merge_mps_tensor_pair
    rs = np.random.default_rng(case['seed'])
    L, d, qc = case['L'], case['d'], case['qclass']
    qd = np.zeros(d, dtype=int) if qc == 'zero' else rs.integers(-1, 2, size=d)

    def template():
        return G.rand_mps(rs, L, d, qclass=qc, Dmax=3, dtype='complex', entries='int', qd=qd.copy())

    def zero_qD():
        return [np.array(q).copy() for q in template().qD]

    def forbidden_qD():
        qD = [np.array(q).copy() for q in template().qD]
        qD[-1] = qD[-1] + 2 * L + 3          # |sum of L physical charges| <= L: this total cannot be reached
        return qD
    fills = [0, int(rs.integers(1, 4))]
    qDs = [zero_qD(), forbidden_qD()]
    states = [ptn.MPS(qd, [q.copy() for q in qDs[0]], fill=fills[0]), ptn.MPS(qd, [q.copy() for q in qDs[1]], fill=fills[1])]
    init = {'states': [_ser(x) for x in states], 'ops': []}
    steps, viol, trace = [], [], []
    for step, name in enumerate(case['ops']):
        i = int(rs.integers(0, len(states))); j = int(rs.integers(0, len(states)))
        sdst = int(rs.integers(0, min(len(states) + 1, 5)))
        alpha = complex(int(rs.integers(-2, 3)), int(rs.integers(-2, 3)))
        rec = None
        try:
            if name == 'split':
                k = int(rs.integers(0, L - 1))
                distr = int(rs.integers(0, 3)); tag = int(rs.integers(0, 2))
                psi = states[i]
                merged = merge_mps_tensor_pair(psi.A[k], psi.A[k + 1])
                if np.any(merged != 0):
                    trace.append('split(skipped)')
                    continue
                rec = {'op': 'SplitMerge', 'args': [i, k, distr, tag]}
                A0, A1, qb = split_mps_tensor(merged, psi.qd, psi.qd, [psi.qD[k], psi.qD[k + 2]], ['left', 'right', 'sqrt'][distr],
                                              [0.0, 0.25][tag])
                psi.A[k], psi.A[k + 1], psi.qD[k + 1] = A0, A1, qb
                res = psi; dst = i
                name = 'split_%s_%s' % ('zerobond' if len(qb) == 0 else 'dummy', ['left', 'right', 'sqrt'][distr])
            elif name in ('sub', 'add'):
                if max(x + y for x, y in zip(states[i].bond_dims, states[j].bond_dims)) > 16:
                    continue
                if name == 'sub':
                    rec = {'op': 'SubMps', 'args': [sdst, i, j]}
                    res = states[i] - states[j]
                else:
                    rec = {'op': 'AddMps', 'args': [sdst, i, j], 'alpha': [alpha.real, alpha.imag]}
                    res = add_mps(states[i], states[j], alpha=alpha)
                dst = sdst
            elif name in ('new_zero', 'new_forbidden'):
                qD = zero_qD() if name == 'new_zero' else forbidden_qD()
                fill = 0 if name == 'new_zero' else int(rs.integers(1, 4))
                rec = {'op': 'NewMps', 'args': [sdst], 'qd': [int(x) for x in qd], 'qD': [[int(x) for x in q] for q in qD],
                       'fill': [fill, 0]}
                res = ptn.MPS(qd, [q.copy() for q in qD], fill=fill); dst = sdst
            else:
                continue
        except AssertionError:
            rec['out'] = 'err'
            steps.append(rec); trace.append(name + '(assert)')
            continue
        except Exception as e:
            viol.append('step %d (%s) raised %s: %s' % (step, name, type(e).__name__, str(e)[:160]))
            break
        if not _intvalued(res):
            viol.append('step %d (%s): result not integer valued' % (step, name))
            break
        rec['out'] = 'mps'
        rec['res'] = _ser(res)
        steps.append(rec); trace.append(name)
        if dst < len(states):
            states[dst] = res
        else:
            states.append(res)
        m = G.mps_sparsity_ok(res)
        if m:
            viol.append('after step %d (%s): result: %s' % (step, name, m))
            break
    final = {'states': [_ser(x) for x in states], 'ops': []}
    return {'trace': trace, 'violations': viol, 'init': init, 'steps': steps, 'final': final}


def _hamiltonian(case, rs, qd=None):
    import pytenet as ptn
    L, m = case['L'], case['model']
    if m == 'xxz':
        return ptn.heisenberg_xxz_mpo(L, 1.0, 0.6, 0.3)
    if m == 'bose':
        return ptn.bose_hubbard_mpo(3, L, 1.0, 2.0, 0.4)
    if m == 'fermi':
        return ptn.fermi_hubbard_mpo(min(L, 3), 1.0, 3.0, 0.2)
    if m == 'ising':
        return ptn.ising_mpo(L, 1.0, 0.3, 0.7)
    if m == 'zero':
        return G.hermitian_mpo(rs, L, 2, 'zero')
    return G.hermitian_mpo(rs, L, 2, 'unsorted', qd=qd)


def _state(rs, H, Dmax=3, qclass='unsorted'):
    L = H.nsites
    if not np.any(H.qd):
        qclass = 'zero'
    return G.rand_mps(rs, L, len(H.qd), qclass=qclass, Dmax=Dmax, qd=np.array(H.qd), dtype='complex')


def impl(case):
    if case.get('kind') == 'ring':
        return impl_ring(case)
    if case.get('kind') == 'zsplit':
        return impl_zsplit(case)
    import warnings
    warnings.simplefilter('ignore')
    import pytenet as ptn
    rs = np.random.default_rng(case['seed'])
    try:
        H = _hamiltonian(case, rs)
    except Exception as e:
        return {'error': type(e).__name__, 'at': 'constructor', 'detail': str(e)[:200]}
    L = H.nsites
    d = len(H.qd)
    states = [_state(rs, H), _state(rs, H)]
    ops = [H, G.rand_mpo(rs, L, d, qclass='unsorted' if np.any(H.qd) else 'zero', Dmax=2, qd=np.array(H.qd))]
    trace = []
    viol = []
    patterns = []
    totals = []
    seen = set()
    skipped_patterns = [0]

    def record():
        for kind, pool in (('mps', states), ('mpo', ops)):
            for o in pool:
                if sum(int(np.asarray(a).size) for a in o.A) > PATTERN_CAP:
                    skipped_patterns[0] += 1
                    continue
                try:
                    pt = _pattern(kind, o)
                except Exception:
                    continue       # malformed object: reported by check()
                h = hashlib.sha1(repr(pt).encode()).hexdigest()
                if h not in seen:
                    seen.add(h)
                    patterns.append(pt)

    def check(step, name):
        for k, s in enumerate(states):
            m = G.mps_sparsity_ok(s)
            if m:
                viol.append('after step %d (%s): state %d: %s' % (step, name, k, m))
        for k, o in enumerate(ops):
            m = G.mpo_sparsity_ok(o)
            if m:
                viol.append('after step %d (%s): operator %d: %s' % (step, name, k, m))
    check(-1, 'init')
    record()
    for step, name in enumerate(case['ops']):
        i = int(rs.integers(0, len(states))); j = int(rs.integers(0, len(states)))
        a = int(rs.integers(0, len(ops))); b = int(rs.integers(0, len(ops)))
        psi = states[i]
        big = max(psi.bond_dims) > 16
        obig = max(ops[a].bond_dims) > 8
        try:
            nonzero = ptn.norm(psi) > 1e-10
            qt = (psi.qD[0].copy(), psi.qD[-1].copy())
            keep_total = False
            if name in ('orth_l', 'orth_r'):
                psi.orthonormalize(mode='left' if name == 'orth_l' else 'right'); keep_total = True
            elif name in ('compress_l', 'compress_r'):
                psi.compress(case['tol'], mode='left' if name == 'compress_l' else 'right'); keep_total = True
            elif name in ('add', 'sub'):
                other = states[j]
                if np.array_equal(other.qD[0], psi.qD[0]) and np.array_equal(other.qD[-1], psi.qD[-1]) and not big:
                    states[i] = (psi + other) if name == 'add' else (psi - other)
                else:
                    name += '(skipped)'
            elif name == 'apply':
                if not big and not obig:
                    states[i] = ptn.apply_operator(ops[a], psi)
                else:
                    name += '(skipped)'
            elif name in ('mpo_add', 'mpo_sub'):
                if not obig and max(ops[b].bond_dims) <= 8:
                    ops[1] = (ops[a] + ops[b]) if name == 'mpo_add' else (ops[a] - ops[b])
                else:
                    name += '(skipped)'
            elif name == 'mpo_mul':
                if max(ops[a].bond_dims) * max(ops[b].bond_dims) <= 40:
                    ops[1] = ops[a] @ ops[b]
                else:
                    name += '(skipped)'
            elif name == 'mpo_orth':
                ops[1].orthonormalize(mode=str(rs.choice(['left', 'right'])))
            elif name == 'split_merge':
                if L >= 2:
                    k = int(rs.integers(0, L - 1))
                    Am = ptn.merge_mps_tensor_pair(psi.A[k], psi.A[k + 1])
                    A0, A1, qb = ptn.split_mps_tensor(Am, psi.qd, psi.qd, [psi.qD[k], psi.qD[k + 2]], str(rs.choice(['left', 'right', 'sqrt'])), case['tol'])
                    psi.A[k], psi.A[k + 1], psi.qD[k + 1] = A0, A1, qb
            elif name in ('split_sweep', 'zero_split_sweep'):
                if name == 'zero_split_sweep' and np.any(H.qd):
                    states[i] = G.rand_mps(rs, L, d, qclass=str(rs.choice(['unsorted', 'sorted', 'big'])), Dmax=3, qd=np.array(H.qd), connected=False,
                                           q_total=int(rs.integers(50, 60)))
                    psi = states[i]
                order = list(range(L - 1)) if rs.random() < 0.5 else list(reversed(range(L - 1)))
                for k in order:
                    Am = ptn.merge_mps_tensor_pair(psi.A[k], psi.A[k + 1])
                    A0, A1, qb = ptn.split_mps_tensor(Am, psi.qd, psi.qd, [psi.qD[k], psi.qD[k + 2]], str(rs.choice(['left', 'right', 'sqrt'])), case['tol'])
                    psi.A[k], psi.A[k + 1], psi.qD[k + 1] = A0, A1, qb
            elif name == 'from_vector':
                if not np.any(H.qd) and d ** L <= 256:
                    vec = rs.standard_normal(d ** L)
                    if rs.random() < 0.5:
                        # compressible vector: a product state plus a small perturbation (or exactly a basis / product state)
                        vec = np.ones(1)
                        for _ in range(L):
                            vec = np.kron(vec, rs.standard_normal(d))
                        if rs.random() < 0.5:
                            vec = vec + 1e-3 * rs.standard_normal(d ** L)
                    states[j] = ptn.MPS.from_vector(d, L, vec, tol=float(rs.choice([case['tol'], 0.0, 0.01, 0.2])))
                else:
                    name += '(skipped)'
            elif name in ('tdvp1', 'tdvp2', 'dmrg1', 'dmrg2'):
                if nonzero and not big and max(psi.bond_dims) <= 6:
                    if name == 'tdvp1':
                        ptn.integrate_local_singlesite(H, psi, 0.1j, 1, numiter_lanczos=5)
                    elif name == 'tdvp2':
                        ptn.integrate_local_twosite(H, psi, 0.1j, 1, numiter_lanczos=5, tol_split=case['tol'])
                    elif name == 'dmrg1':
                        ptn.calculate_ground_state_local_singlesite(H, psi, 1, numiter_lanczos=5)
                    else:
                        ptn.calculate_ground_state_local_twosite(H, psi, 1, numiter_lanczos=5, tol_split=case['tol'])
                    keep_total = True
                else:
                    name += '(skipped)'
            elif name == 'new_state':
                states[j] = _state(rs, H, qclass=str(rs.choice(['unsorted', 'sorted', 'repeated'])))
            elif name == 'new_zero_state':
                # sector-disjoint bond charges: the zero state (dummy-bond branches of QR / SVD)
                if np.any(H.qd):
                    states[j] = G.rand_mps(rs, L, d, qclass=str(rs.choice(['unsorted', 'sorted', 'big'])), Dmax=3, qd=np.array(H.qd), connected=False,
                                           q_total=int(rs.integers(50, 60)))
                else:
                    name += '(skipped)'
            elif name == 'zero_derived':
                # switch quantum numbers off on a DERIVED object; the objects it was built from must keep obeying their own lists
                # ... and the derived object itself must obey its (now all-zero) lists: every list zeroed, none forgotten
                k = int(rs.integers(0, 5))
                derived = []
                if k == 0 and not obig and max(ops[b].bond_dims) <= 8:
                    X0 = ops[a] + ops[b]
                    if hasattr(X0, 'zero_qnumbers'):
                        X0.zero_qnumbers(); derived.append(('mpo', X0))
                    X = ops[a] + ops[b]; X.qd.fill(0); [q.fill(0) for q in X.qD]
                elif k == 1 and not big and not obig:
                    X0 = ptn.apply_operator(ops[a], psi); X0.zero_qnumbers(); derived.append(('mps', X0))
                elif k == 2 and max(ops[a].bond_dims) * max(ops[b].bond_dims) <= 40:
                    X = ops[a] @ ops[b]; X.qd.fill(0); [q.fill(0) for q in X.qD]
                elif k == 3:
                    X = ptn.MPO(ops[a].qd, ops[a].qD, fill=1.0); X.qd.fill(0); [q.fill(0) for q in X.qD]
                    Y = ptn.MPS(psi.qd, psi.qD, fill=1.0); Y.zero_qnumbers(); derived.append(('mps', Y))
                else:
                    import copy as _copy
                    Y = _copy.deepcopy(psi); Y.zero_qnumbers(); derived.append(('mps', Y))
                for kind_, obj_ in derived:
                    m_ = G.mps_sparsity_ok(obj_) if kind_ == 'mps' else G.mpo_sparsity_ok(obj_)
                    if m_:
                        viol.append('after step %d (%s): object after zero_qnumbers(): %s' % (step, name, m_))
                    if any(np.any(np.asarray(q) != 0) for q in list(obj_.qD) + [obj_.qd]):
                        viol.append('after step %d (%s): zero_qnumbers() left a non-zero quantum number' % (step, name))
            elif name == 'zero_op':
                # a freshly built MPO from a constructor (graph-to-MPO conversion)
                ops[1] = _hamiltonian(case, rs, qd=np.array(H.qd))
            if keep_total and nonzero and not name.endswith('(skipped)'):
                totals.append([[int(x) for x in qt[0]], [int(x) for x in qt[1]],
                               [int(x) for x in np.asarray(psi.qD[0]).reshape(-1)], [int(x) for x in np.asarray(psi.qD[-1]).reshape(-1)]])
                if not (np.array_equal(psi.qD[0], qt[0]) and np.array_equal(psi.qD[-1], qt[1])):
                    viol.append('after step %d (%s): total bond quantum numbers of a non-zero state changed %s/%s -> %s/%s' % (
                        step, name, qt[0], qt[1], psi.qD[0], psi.qD[-1]))
        except Exception as e:
            import traceback
            tb = traceback.extract_tb(e.__traceback__)[-1]
            return {'error': type(e).__name__, 'at': 'step %d (%s)' % (step, name), 'detail': ('%s [%s:%d]' % (str(e)[:160], tb.filename.split('/')[-1], tb.lineno)),
                    'trace': trace + [name], 'violations': viol, 'patterns': patterns, 'totals': totals}
        trace.append(name)
        check(step, name)
        record()
        if viol:
            break
    return {'trace': trace, 'violations': viol, 'patterns': patterns, 'totals': totals, 'patterns_skipped': skipped_patterns[0]}


def prop(case, r):
    msgs = list(r.get('violations', []))
    if 'error' in r:
        msgs.append('history raised %s at %s: %s' % (r['error'], r.get('at'), r.get('detail', '')))
    return msgs


class _Obj:
    pass


def _unser(o):
    x = _Obj()
    x.qd = o['qd']; x.qD = o['qD']
    x.A = [np.asarray(ar, dtype=float) + 1j * np.asarray(ai, dtype=float) for ar, ai in zip(o['Ar'], o['Ai'])]
    if 'shapes' in o:
        x.A = [a.reshape(sh) for a, sh in zip(x.A, o['shapes'])]
    return x


def _gmps(o):
    return E.mps(_unser(o)).replace('mkmx', 'gmx').replace('mkmps', 'gmps')


def _gmpo(o):
    return E.mpo(_unser(o)).replace('mkmx', 'gmx').replace('mkmpo', 'gmpo')


def _zmx(a):
    a = np.asarray(a)
    return '(zmx %s %s %s)' % (E.nat(a.shape[0]), E.nat(a.shape[1]), E.lst([E.lst([E.z(x) for x in row]) for row in a]))


def _zpattern(pt):
    x = _Obj()
    x.qd = pt['qd']; x.qD = pt['qD']; x.A = [np.asarray(m, dtype=int).reshape(sh) for m, sh in zip(pt['M'], pt['shapes'])]
    if pt['kind'] == 'mps':
        return 'pattern_mps_ok ' + E.mps(x, _zmx).replace('mkmps', 'zmps')
    return 'pattern_mpo_ok ' + E.mpo(x, _zmx).replace('mkmpo', 'zmpo')


def _gi(c):
    return '(gi %s %s)' % (E.z(c[0]), E.z(c[1]))


def _qcx(c):
    c = complex(c)
    assert c.real == int(c.real) and c.imag == int(c.imag), c
    return '(qcx %s %s)' % (E.z(int(c.real)), E.z(int(c.imag)))


def _qmx(a):
    a = np.asarray(a)
    return '(qmx %s %s %s)' % (E.nat(a.shape[0]), E.nat(a.shape[1]), E.lst([E.lst([_qcx(x) for x in row]) for row in a]))


def _qmps(o):
    return E.mps(_unser(o), _qmx).replace('mkmps', 'qmps')


def _coq_zop(rec):
    n = ' '.join(E.nat(x) for x in rec['args'])
    op = rec['op']
    if op == 'SplitMerge':
        return '(QSplitMerge %s)' % n
    if op == 'AddMps':
        return '(QAddMps %s %s)' % (n, _qcx(complex(rec['alpha'][0], rec['alpha'][1])))
    if op == 'SubMps':
        return '(QSubMps %s)' % n
    if op == 'NewMps':
        return '(QNewMps %s %s %s (fun _ _ _ _ => %s))' % (n, E.zlist(rec['qd']), E.lst([E.zlist(q) for q in rec['qD']]),
                                                            _qcx(complex(rec['fill'][0], rec['fill'][1])))
    raise ValueError(op)


def _coq_op(rec):
    a = rec['args']
    n = ' '.join(E.nat(x) for x in a)
    op = rec['op']
    if op in ('AddMps', 'AddMpo'):
        return '(G%s %s %s)' % (op, n, _gi(rec['alpha']))
    if op in ('SubMps', 'SubMpo', 'MulMpo', 'Apply'):
        return '(G%s %s)' % (op, n)
    if op == 'Identity':
        return '(GIdentity %s %s %s %s)' % (n, E.zlist(rec['qd']), E.nat(rec['L']), _gi(rec['scale']))
    if op == 'NewMps':
        return '(GNewMps %s %s %s (fun _ _ _ _ => %s))' % (n, E.zlist(rec['qd']), E.lst([E.zlist(q) for q in rec['qD']]), _gi(rec['fill']))
    if op == 'NewMpo':
        return '(GNewMpo %s %s %s (fun _ _ _ _ _ => %s))' % (n, E.zlist(rec['qd']), E.lst([E.zlist(q) for q in rec['qD']]), _gi(rec['fill']))
    raise ValueError(op)


def _coq_pool(pl):
    return '(Gstate %s %s)' % (E.lst([_gmps(x) for x in pl['states']]), E.lst([_gmpo(x) for x in pl['ops']]))


def coq(case, r):
    if case.get('kind') == 'ring':
        if 'init' not in r:
            return None
        steps = []
        for rec in r['steps']:
            out = 'GOutErr' if rec['out'] == 'err' else ('(GOutMps %s)' % _gmps(rec['res']) if rec['out'] == 'mps' else '(GOutMpo %s)' % _gmpo(rec['res']))
            steps.append('(%s, %s)' % (_coq_op(rec), out))
        return 'Gcheck %s %s %s' % (_coq_pool(r['init']), E.lst(steps), _coq_pool(r['final']))
    if case.get('kind') == 'zsplit':
        if 'init' not in r or r.get('violations'):
            return None
        steps = []
        for rec in r['steps']:
            out = 'QOutErr' if rec['out'] == 'err' else '(QOutMps %s)' % _qmps(rec['res'])
            steps.append('(%s, %s)' % (_coq_zop(rec), out))
        pool = lambda pl: '(Qstate %s [])' % E.lst([_qmps(x) for x in pl['states']])
        return 'zsplit_check %s %s %s' % (pool(r['init']), E.lst(steps), pool(r['final']))
    terms = ['(%s)' % _zpattern(pt) for pt in r.get('patterns', [])]
    terms += ['(boundary_eqb %s %s)' % (E.lst([E.zlist(t[0]), E.zlist(t[1])]), E.lst([E.zlist(t[2]), E.zlist(t[3])])) for t in r.get('totals', [])]
    if not terms:
        return None
    return ' && '.join(terms)


def klass(case, r):
    if case.get('kind') == 'zsplit':
        tr = r.get('trace', [])
        kinds = sorted({t.split('_')[1] for t in tr if t.startswith('split_')})
        return 'zsplit/L%d/d%d/%s/%s/%dsplits' % (case['L'], case['d'], case['qclass'], '+'.join(kinds) or 'nosplit',
                                                  sum(1 for t in tr if t.startswith('split_')))
    if case.get('kind') == 'ring':
        errs = sum(1 for x in r.get('steps', []) if x['out'] == 'err')
        return 'ring/L%d/d%d/%s/%dsteps/%derr' % (case['L'], case['d'], case['qclass'], len(r.get('steps', [])), errs)
    if 'error' in r:
        return case['model'] + '/error'
    kinds = sorted({t.split('(')[0].rstrip('_lr12') for t in r['trace'] if not t.endswith('(skipped)')})
    return '%s/%dkinds' % (case['model'], len(kinds))


def nontrivial(case, r):
    if case.get('kind') == 'zsplit':
        return sum(1 for t in r.get('trace', []) if t.startswith('split_')) >= 1
    if case.get('kind') == 'ring':
        return len([x for x in r.get('steps', []) if x['out'] != 'err']) >= 3
    return 'error' not in r and len({t for t in r['trace'] if not t.endswith('(skipped)')}) >= 3
