"""C05 — operator chains compile to an equivalent operator graph (OpGraph.from_opchains) and MPO (MPO.from_opgraph)."""
import itertools, random, math
from fractions import Fraction
from types import SimpleNamespace
import numpy as np
import emit as E
import graphemit as GE

PROP = 'C05'
COQ_IMPORTS = ['PT.Base.Scalar', 'PT.Base.Mx', 'PT.Model.OpGraph', 'PT.Model.Tensor', 'PT.Model.FromOpchains', 'PT.Model.GraphMPO',
               'PT.Proofs.DenRev_C05', 'PT.Proofs.FromOpchainsOk3']
COQ_PREAMBLE = (E.QC_PREAMBLE +
                'Definition q0 : QI := (qcm 0 1, qcm 0 1).\n'
                'Definition qz (n : Z) : QI := (qcm n 1, qcm 0 1).\n'
                'Definition qr (n : Z) (d : positive) : QI := (qcm n d, qcm 0 1).\n'
                'Definition qq (n m : Z) (d : positive) : QI := (qcm n d, qcm m d).\n'
                'Definition ch (o q : list Z) (c : QI) (i : nat) : chain QIring := @mkchain QIring o q c i.\n'
                'Definition mq (r c : nat) (d : list (list QI)) : mx QIring := @mkmx QIring r c d.\n'
                '(* hypotheses of the C05 theorems that are evaluated per case: linkage, last layer = end terminal *)\n'
                'Definition hyp_ok (g : graph QIring) : bool := linked g && match graph_layers g with Ok ls => match last ls [] with [x] => x =? g_t1 g | _ => false end | Err _ => false end.\n'
                'Definition ed (i a b : Z) (o : list (Z * QI)) : gedge QIring := @mkedge QIring i a b o.\n')
FORM = ('E (exact, dyadic coefficients, instance QIring): the whole graph (nodes with ordered edge-id lists and charges, edges with '
        'opics, terminals) compared with graph_eqb; every MPO tensor entry, qD and nid_map compared exactly; the covers recorded from '
        'minimum_vertex_cover drive the model, and the model is re-run with the Model/Bipartite.v cover; error classes compared')
RULE = ('chain lists: 1..8 chains, L in 1..6, lengths 1..L, any start site, identity id inside chains, zero / consistent / arbitrary '
        'interleaved charges with common final charge, coefficients small integers or k/8 of either sign (some complex), duplicates, '
        'cancelling pairs, zero-coefficient chains, single chain with coefficient != 1; random d x d integer operator maps d in 1..3; '
        'random consistent layered graphs with shuffled ids, parallel edges and multi-term edges for from_opgraph; malformed stream '
        '(empty list, all-zero coefficients, chain too long, bad charges, bad qnums length); thorough: exhaustive over all lists of '
        '<= 3 chains over a 3-letter alphabet for L <= 3 (coefficient patterns incl. accumulation and cancellation). '
        'non-trivial = at least two chains sharing a prefix or suffix, or a coefficient != 1 on a single chain; distinct by full case')
SHARD = 40
IMPL_PARALLEL = True
TRUSTED = ['hand-written Gallina mirrors Model/FromOpchains.v and Model/GraphMPO.v, tied to the code by exact agreement on every generated case',
           'Model/OpGraph.v core (den, is_consistent_fuel, graph_eqb)',
           'independent references in harness/props/c05.py (free-algebra path enumeration, dense kron sums, layer BFS) — search only']
PARTIAL = ('proved for all inputs (Properties/C05.v): under wf_chains and valid cover answers on the issued calls (covers_ok; also with the proved '
           'Bipartite.v model of minimum_vertex_cover and no cover hypothesis) from_opchains returns a graph, the graph passes the linkage check '
           '(ids unique, edge-id lists duplicate free, node<->edge cross references, terminals present) and den g = sum of the identity-padded chains '
           '(duplicates, accumulation, cancellation, single chain with any coefficient); the meaning clause holds for every returned graph and every cover oracle; '
           'from_opgraph: layers, qD = node charges in id order, nid_map, block sparsity, opamp = word sum of den; chains -> MPO end to end. '
           'is_consistent never answers False on any returned graph (levels, terminals, sorted opics, cross references; any fuel, any cover); '
           'glength g = Some L for every returned graph (any cover; C05_glength) and the complete headline C05_from_opchains_total (wf chains, proved cover model: '
           'Ok g, linked, consistency check cannot fail, length L, den g = chain sum); bond quantum numbers edge by edge (C05_edge_charges: every edge carries '
           'one operator oids[k] of one non-zero padded chain, k < L, and its end nodes carry that chain\'s charges qnums[k], qnums[k+1]). '
           'NOT stated: that one witness chain serves all edges of a path (paths of a compressed graph mix chains sharing charges). '
           'The hypotheses wf_chains and covers_ok are themselves evaluated on every successful case with the recorded covers.')
ASSUMPTIONS = ['the tensor accumulation loop of MPO.from_opgraph is modelled by its meaning as an index comprehension (validated exactly on every case)']


# --------------------------------------------------------------------------- helpers
def fr(c):
    """[re_num, im_num, den] -> (Fraction, Fraction)"""
    return Fraction(c[0], c[2]), Fraction(c[1], c[2])


def cnum(c):
    re, im = fr(c)
    return complex(float(re), float(im)) if im != 0 else float(re)


def qi_lit(re, im):
    re, im = Fraction(re), Fraction(im)
    if im == 0:
        if re == 0:
            return 'q0'
        if re.denominator == 1:
            return '(qz %s)' % E.z(re.numerator)
        return '(qr %s %d)' % (E.z(re.numerator), re.denominator)
    den = re.denominator * im.denominator // math.gcd(re.denominator, im.denominator)
    den = int(den)
    return '(qq %s %s %d)' % (E.z(int(re * den)), E.z(int(im * den)), den)


def qi_of(x):
    x = complex(x)
    return qi_lit(Fraction(x.real), Fraction(x.imag))


def mx_lit(a):
    a = np.asarray(a)
    return '(mq %s %s %s)' % (E.nat(a.shape[0]), E.nat(a.shape[1]), E.lst([E.lst([qi_of(x) for x in row]) for row in a]))


def chain_lit(c):
    re, im = fr(c['coeff'])
    return '(ch %s %s %s %s)' % (E.zlist(c['oids']), E.zlist(c['qnums']), qi_lit(re, im), E.nat(c['istart']))


def graph_lit(gj):
    nodes = E.lst(['(mknode %s %s %s %s)' % (E.z(n[0]), E.zlist(n[1]), E.zlist(n[2]), E.z(n[3])) for n in gj['nodes']])
    edges = E.lst(['(ed %s %s %s %s)' % (E.z(e[0]), E.z(e[1]), E.z(e[2]),
                                         E.lst([E.pair(E.z(i), qi_lit(Fraction(a), Fraction(b))) for i, a, b in e[3]]))
                   for e in gj['edges']])
    return '(@mkgraph QIring %s %s %s %s)' % (nodes, edges, E.z(gj['t'][0]), E.z(gj['t'][1]))


ERRMAP = {'ValueError': 'EValue', 'AssertionError': 'EAssert', 'IndexError': 'EIndex', 'KeyError': 'EKey'}


def err_lit(name):
    return '(Err %s)' % ERRMAP.get(name, 'EFuel')


def opmap_lit(case):
    return '(opmap_of [%s])' % '; '.join(E.pair(E.z(int(o)), mx_lit(np.array(m))) for o, m in sorted(case['opmap'].items(), key=lambda kv: int(kv[0])))


def cover_lit(covers):
    return E.lst([E.pair('(%s, %s, %s)' % (E.nat(c['nu']), E.nat(c['nv']), E.lst([E.pair(E.nat(a), E.nat(b)) for a, b in c['edges']])),
                         E.pair(E.natlist(c['uc']), E.natlist(c['vc']))) for c in covers])


def mpo_lit(case, m):
    A = [np.array(a)[..., 0] + 1j * np.array(a)[..., 1] for a in m['A']]
    As = E.lst([E.lst([E.lst([mx_lit(W[s, t]) for t in range(W.shape[1])]) for s in range(W.shape[0])]) for W in A])
    nm = E.lst([E.pair(E.z(k), E.pair(E.nat(l), E.nat(i))) for k, l, i in m['nid_map']])
    return '(Ok (@mkmpo QIring %s %s %s, %s))' % (E.zlist(case['qd']), E.lst([E.zlist(q) for q in m['qD']]), As, nm)


def big_nat(n):
    n = max(int(n), 1)
    if n < 3000:
        return E.nat(n)
    k = int(n ** 0.5) + 1
    return '(%d * %d)%%nat' % (k, k)


def bfs_fuel(gj):
    """number of dequeues of is_consistent's level search (both directions), + slack"""
    nodes = {n[0]: n for n in gj['nodes']}
    edges = {e[0]: e for e in gj['edges']}
    worst = 0
    for direction in (0, 1):
        q = [gj['t'][direction]]
        cnt = 0
        while q and cnt < 200000:
            nid = q.pop()
            cnt += 1
            for eid in nodes[nid][1 + (1 - direction)]:
                q.append(edges[eid][1 + (1 - direction)])
        worst = max(worst, cnt)
    return worst + 3


# --------------------------------------------------------------------------- generators
def _coeff(rng, allow_complex=True):
    r = rng.random()
    if r < 0.35:
        k = rng.choice([1, 1, 1, -1, 2, -2, 3, -3])
        return [k, 0, 1]
    if r < 0.9 or not allow_complex:
        k = rng.choice([x for x in range(-24, 25) if x != 0])
        return [k, 0, 8]
    return [rng.randint(-8, 8), rng.choice([x for x in range(-8, 9) if x != 0]), 8]


def _opmap(rng, d, oids, idn, dq=None, qd=None):
    om = {}
    for o in oids:
        if o == idn and rng.random() < 0.4:
            m = np.identity(d, dtype=int)
        else:
            m = np.array([[rng.randint(-3, 3) for _ in range(d)] for _ in range(d)])
        if dq is not None:
            for s in range(d):
                for t in range(d):
                    if qd[s] - qd[t] != dq[o]:
                        m[s, t] = 0
        om[str(o)] = m.tolist()
    return om


def gen_chains_case(rng, Lmax=6, nmax=8, tag='rand'):
    L = rng.choice([1, 1, 2, 2, 3, 3, 4, 4, 5, 6][:max(1, Lmax * 2 - 2)]) if Lmax < 6 else rng.choice([1, 2, 2, 3, 3, 3, 4, 4, 5, 6])
    L = min(L, Lmax)
    n = rng.choice([1, 1, 2, 2, 3, 3, 4, 5, 6, 7, 8])
    n = min(n, nmax)
    idn = rng.choice([0, 0, 0, 5, -1])
    nops = rng.choice([1, 2, 2, 3, 3, 4])
    others = rng.sample([x for x in [1, 2, 3, 4, 7, -2, 6] if x != idn], nops)
    alphabet = [idn] + others
    mode = rng.choice(['zero', 'zero', 'zero', 'charged', 'charged', 'arbq'])
    d = rng.choice([1, 2, 2, 2, 3])
    qd = [0] * d
    dq = {o: 0 for o in alphabet}
    if mode == 'charged':
        qd = [rng.choice([-1, 0, 1]) for _ in range(d)] if d > 1 else [rng.choice([0, 1])]
        if d == 2 and rng.random() < 0.6:
            qd = [0, 1]
        for o in others:
            dq[o] = rng.choice([-1, 0, 1, 1, -1])
    chains = []
    qfinal = rng.choice([0, 0, 1, -2]) if mode == 'arbq' else 0
    for _ in range(n):
        r = rng.random()
        if chains and r < 0.18:            # duplicate, maybe with another coefficient
            c = dict(rng.choice(chains))
            c['coeff'] = rng.choice([c['coeff'], _coeff(rng)])
            chains.append(c)
            continue
        if chains and r < 0.28:            # cancelling partner
            c = dict(rng.choice(chains))
            c['coeff'] = [-c['coeff'][0], -c['coeff'][1], c['coeff'][2]]
            chains.append(c)
            continue
        if chains and r < 0.45:            # share a prefix / suffix with an existing chain of the same span
            c0 = rng.choice(chains)
            oids = list(c0['oids'])
            k = rng.randrange(len(oids))
            oids[k] = rng.choice(alphabet)
            ln, ist = len(oids), c0['istart']
        else:
            ln = rng.randint(1, L)
            ist = rng.randint(0, L - ln)
            oids = [rng.choice(alphabet) for _ in range(ln)]
        if mode == 'charged':
            # total charge must vanish (padding identities carry none)
            for _try in range(60):
                if sum(dq[o] for o in oids) == 0:
                    break
                oids = [rng.choice(alphabet) for _ in range(ln)]
            else:
                oids = [idn] * ln
            qn = [0]
            for o in oids:
                qn.append(qn[-1] + dq[o])
        elif mode == 'arbq':
            qn = [rng.randint(-2, 2) for _ in range(ln + 1)]
            qn[0] = 0
            qn[-1] = qfinal if ist + ln == L else 0
            if ist + ln < L and qfinal != 0:
                # a chain that is padded on the right ends with charge 0: make every chain end at L instead
                ist = L - ln
                qn[-1] = qfinal
            if ist > 0:
                qn[0] = rng.choice([0, 0, 1])    # charge jump after left padding is allowed by the code
        else:
            qn = [0] * (ln + 1)
        co = _coeff(rng)
        if rng.random() < 0.06:
            co = [0, 0, 1]
        chains.append({'oids': oids, 'qnums': qn, 'coeff': co, 'istart': ist})
    if n == 1 and rng.random() < 0.7:
        chains[0]['coeff'] = rng.choice([[5, 0, 2], [-3, 0, 1], [7, 0, 8], [2, 0, 1], [-1, 0, 1]])
    if all(c['coeff'][0] == 0 and c['coeff'][1] == 0 for c in chains):
        chains[0]['coeff'] = [3, 0, 8]
    # magnitude regimes: a common power-of-two factor on all coefficients (exact in binary64), or one chain far below the others
    r = rng.random()
    if r < 0.12:
        k = rng.choice([-100, -60, -40, -30, -27, 30, 60])
        for c in chains:
            c['coeff'] = [c['coeff'][0] * 2 ** max(k, 0), c['coeff'][1] * 2 ** max(k, 0), c['coeff'][2] * 2 ** max(-k, 0)]
        tag += '/scale2^%d' % k
    elif r < 0.20:
        c = rng.choice(chains)
        c['coeff'] = [c['coeff'][0], c['coeff'][1], c['coeff'][2] * 2 ** 40]
        tag += '/one-tiny'
    return {'kind': 'chains', 'tag': tag + '/' + mode, 'L': L, 'idn': idn, 'chains': chains, 'qd': qd,
            'opmap': _opmap(rng, d, alphabet, idn, dq if mode == 'charged' else None, qd)}


def gen_malformed(rng):
    c = gen_chains_case(rng, Lmax=4, nmax=4, tag='malformed')
    kind = rng.choice(['empty', 'allzero', 'toolong', 'lead', 'final', 'badlen', 'toolong-zero'])
    c['tag'] = 'malformed/' + kind
    ch = c['chains']
    L = c['L']
    if kind == 'empty':
        c['chains'] = []
    elif kind == 'allzero':
        for x in ch:
            x['coeff'] = [0, 0, 1]
    elif kind in ('toolong', 'toolong-zero'):
        x = ch[rng.randrange(len(ch))]
        extra = rng.randint(1, 2)
        if rng.random() < 0.5:
            x['istart'] = L - len(x['oids']) + extra
        else:
            x['oids'] = x['oids'] + [c['idn']] * (L - len(x['oids']) - x['istart'] + extra)
            x['qnums'] = x['qnums'] + [x['qnums'][-1]] * (len(x['oids']) + 1 - len(x['qnums']))
        if kind == 'toolong-zero':
            x['coeff'] = [0, 0, 1]       # filtered out before padding: no error from this chain
            if len(ch) == 1:
                ch.append({'oids': [c['idn']], 'qnums': [0, 0], 'coeff': [1, 0, 1], 'istart': 0})
    elif kind == 'lead':
        x = ch[rng.randrange(len(ch))]
        x['istart'] = 0
        if len(x['oids']) > L:
            x['oids'] = x['oids'][:L]; x['qnums'] = x['qnums'][:L + 1]
        x['qnums'] = [rng.choice([1, -1])] + list(x['qnums'][1:])
        if x['coeff'][0] == 0 and x['coeff'][1] == 0:
            x['coeff'] = [1, 0, 1]
    elif kind == 'final':
        if len(ch) == 1:
            ch.append(dict(ch[0]))
        x = ch[0]
        x['qnums'] = list(x['qnums'][:-1]) + [x['qnums'][-1] + 1]
        x['istart'] = L - len(x['oids'])
        for y in ch:
            if y['coeff'][0] == 0 and y['coeff'][1] == 0:
                y['coeff'] = [1, 0, 1]
        ch[1] = dict(ch[1]); ch[1]['qnums'] = list(ch[1]['qnums'])
        if ch[1]['qnums'] == x['qnums'] and ch[1]['istart'] == x['istart']:
            ch[1]['qnums'][-1] += 1
    elif kind == 'badlen':
        x = ch[rng.randrange(len(ch))]
        x['qnums'] = list(x['qnums']) + [0] if rng.random() < 0.5 else list(x['qnums'][:-1])
    return c


def gen_graph_case(rng):
    """random consistent layered operator graph with shuffled ids (for from_opgraph alone)"""
    L = rng.choice([1, 2, 2, 3, 3, 4, 5])
    widths = [1] + [rng.choice([1, 2, 2, 3, 4]) for _ in range(L - 1)] + [1]
    nn = sum(widths)
    ids = rng.sample(range(-3, 3 * nn + 3), nn)
    layers = []
    k = 0
    for w in widths:
        layers.append(ids[k:k + w]); k += w
    d = rng.choice([1, 2, 2, 3])
    mode = rng.choice(['zero', 'zero', 'charged', 'badq'])
    oids = rng.sample([0, 1, 2, 3, 5, -1, 8], rng.choice([1, 2, 3, 4]))
    qd = [0] * d
    dq = {o: 0 for o in oids}
    nq = {nid: 0 for nid in ids}
    if mode != 'zero':
        qd = [rng.choice([-1, 0, 1]) for _ in range(d)]
        for o in oids:
            dq[o] = rng.choice([-1, 0, 1])
        for l in range(1, L + 1):
            for nid in layers[l]:
                nq[nid] = rng.choice([-1, 0, 1])
    pairs = []
    for l in range(L):
        a, b = layers[l], layers[l + 1]
        ps = set()
        for y in b:
            ps.add((rng.choice(a), y))
        for x in a:
            if not any(p[0] == x for p in ps):
                ps.add((x, rng.choice(b)))
        ps = list(ps)
        for _ in range(rng.choice([0, 0, 1, 2, 3])):
            ps.append((rng.choice(a), rng.choice(b)))      # possibly parallel edges
        pairs += ps
    rng.shuffle(pairs)
    eids = rng.sample(range(0, 3 * len(pairs) + 2), len(pairs))
    edges = []
    for eid, (x, y) in zip(eids, pairs):
        if mode == 'charged':
            cand = [o for o in oids if dq[o] == nq[y] - nq[x]]
        else:
            cand = list(oids)
        if not cand:
            cand = [oids[0]]       # will violate sparsity -> AssertionError expected on both sides (unless entries vanish)
        m = min(len(cand), rng.choice([1, 1, 2, 3]))
        ops = sorted(rng.sample(cand, m))
        edges.append([eid, x, y, [[o] + [float(v) for v in fr(_coeff(rng))] for o in ops]])
    nodes = []
    order = list(ids)
    rng.shuffle(order)
    for nid in order:
        ein = [e[0] for e in edges if e[2] == nid]
        eout = [e[0] for e in edges if e[1] == nid]
        rng.shuffle(ein); rng.shuffle(eout)
        nodes.append([nid, ein, eout, nq[nid]])
    gj = {'nodes': nodes, 'edges': edges, 't': [layers[0][0], layers[-1][0]]}
    return {'kind': 'graph', 'tag': 'graph/' + mode, 'L': L, 'graph': gj, 'qd': qd,
            'opmap': _opmap(rng, d, oids, None, dq if mode == 'charged' else None, qd)}


def corpus():
    """pre-repair failing inputs of finding F1 (trailing coefficient) — run first"""
    om1 = {'0': [[1, 0], [0, 1]], '1': [[0, 1], [2, 0]], '2': [[1, 2], [3, -1]], '3': [[0, -1], [1, 1]]}
    def mk(L, chains, tag):
        return {'kind': 'chains', 'tag': 'corpus/' + tag, 'L': L, 'idn': 0, 'qd': [0, 0], 'opmap': om1,
                'chains': [{'oids': o, 'qnums': [0] * (len(o) + 1), 'coeff': c, 'istart': i} for o, c, i in chains]}
    return [mk(3, [([1, 2], [5, 0, 2], 1)], 'single-5/2'),
            mk(3, [([1, 2, 3], [5, 0, 2], 0)], 'single-full-5/2'),
            mk(2, [([1, 2], [1, 0, 1], 0), ([1, 2], [2, 0, 1], 0)], 'equal-1+2'),
            mk(2, [([1, 2], [1, 0, 1], 0), ([1, 2], [-1, 0, 1], 0)], 'equal-1-1'),
            mk(1, [([2], [1, 0, 1], 0)], 'L1-coeff1'),
            mk(1, [([2], [-7, 0, 8], 0)], 'L1-coeff-7/8'),
            mk(1, [([2], [1, 0, 1], 0), ([3], [2, 0, 1], 0), ([2], [1, 0, 2], 0)], 'L1-three'),
            mk(4, [([3], [3, 0, 1], 3), ([3], [-1, 0, 1], 3)], 'last-site-accumulate')]


def exhaustive_cases(Lmax=3, nmax_top=3):
    """all lists of <= 3 chains over the alphabet {0 (identity), 1, 2}, L <= Lmax; coefficient patterns
    chosen so that accumulation (equal chains), cancellation and a non-unit single coefficient occur"""
    out = []
    om = {'0': [[1, 0], [0, 1]], '1': [[0, 1], [1, 0]], '2': [[1, 0], [2, -1]]}
    for L in range(1, Lmax + 1):
        atoms = []
        for ln in range(1, L + 1):
            for ist in range(0, L - ln + 1):
                for w in itertools.product([0, 1, 2], repeat=ln):
                    atoms.append((list(w), ist))
        pats = {1: [[[5, 0, 2]], [[1, 0, 1]]],
                2: [[[1, 0, 1], [2, 0, 1]], [[1, 0, 1], [-1, 0, 1]]],
                3: [[[1, 0, 1], [-1, 0, 1], [3, 0, 8]], [[1, 0, 2], [1, 0, 2], [-1, 0, 1]]]}
        for n in (1, 2, 3):
            if L == Lmax and n > nmax_top:
                continue
            for ci, combo in enumerate(itertools.product(atoms, repeat=n)):
                big = (L == 3 and n == 3)
                for pat in (pats[n][ci % 2:ci % 2 + 1] if big else pats[n]):
                    out.append({'kind': 'chains', 'tag': 'exh/L%d/n%d' % (L, n), 'L': L, 'idn': 0, 'qd': [0, 0], 'opmap': om,
                                'chains': [{'oids': o, 'qnums': [0] * (len(o) + 1), 'coeff': c, 'istart': i}
                                           for (o, i), c in zip(combo, pat)],
                                'nompo': True, 'nocoq': bool(big and ci % 4 != 0)})
    return out


def cases(rng, tier):
    out = []
    n_c = {'quick': 170, 'thorough': 1500, 'search': 300}[tier]
    n_g = {'quick': 50, 'thorough': 400, 'search': 80}[tier]
    n_m = {'quick': 30, 'thorough': 150, 'search': 30}[tier]
    for _ in range(n_c):
        out.append(gen_chains_case(rng))
    for _ in range(n_g):
        out.append(gen_graph_case(rng))
    for _ in range(n_m):
        out.append(gen_malformed(rng))
    if tier == 'quick':
        out += exhaustive_cases(2, 2)
    if tier == 'thorough':
        out += exhaustive_cases(3, 3)
    return out


# --------------------------------------------------------------------------- implementation side
def _gjson(g):
    return {'nodes': [[int(n.nid), [int(x) for x in n.eids[0]], [int(x) for x in n.eids[1]], int(n.qnum)] for n in g.nodes.values()],
            'edges': [[int(e.eid), int(e.nids[0]), int(e.nids[1]),
                       [[int(i), float(complex(c).real), float(complex(c).imag)] for i, c in e.opics]] for e in g.edges.values()],
            't': [int(g.nid_terminal[0]), int(g.nid_terminal[1])]}


def _mpo_result(case, graph):
    from pytenet.mpo import MPO
    opmap = {int(o): np.array(m, dtype=float) for o, m in case['opmap'].items()}
    try:
        mpo = MPO.from_opgraph(case['qd'], graph, opmap, compute_nid_map=True)
    except Exception as e:
        return {'error': type(e).__name__}
    return {'A': [np.stack([np.asarray(a).real, np.asarray(a).imag], axis=-1).tolist() for a in mpo.A],
            'shape': [list(np.asarray(a).shape) for a in mpo.A],
            'qD': [[int(x) for x in q] for q in mpo.qD],
            'qd': [int(x) for x in mpo.qd],
            'nid_map': [[int(k), int(v[0]), int(v[1])] for k, v in mpo.nid_map.items()]}


def impl(case):
    import pytenet.opgraph as og
    import pytenet.bipartite_graph as bgm
    from pytenet.opchain import OpChain
    if case['kind'] == 'graph':
        gj = case['graph']
        try:
            g = og.OpGraph([og.OpGraphNode(n[0], n[1], n[2], n[3]) for n in gj['nodes']],
                           [og.OpGraphEdge(e[0], [e[1], e[2]], [(i, complex(a, b) if b else a) for i, a, b in e[3]]) for e in gj['edges']],
                           gj['t'])
            cons = bool(g.is_consistent())
        except Exception as e:
            return {'error': type(e).__name__, 'stage': 'build'}
        return {'graph': _gjson(g), 'consistent': cons, 'length': int(g.length), 'mpo': _mpo_result(case, g)}
    # record the covers by wrapping the names from_opchains uses (no edit of /repo)
    covers = []
    orig_bg, orig_mvc = bgm.BipartiteGraph, bgm.minimum_vertex_cover

    class RecBG(orig_bg):
        def __init__(self, num_u, num_v, edges):
            self._rec_edges = [(int(a), int(b)) for a, b in edges]
            super().__init__(num_u, num_v, edges)

    def rec_mvc(graph):
        uc, vc = orig_mvc(graph)
        covers.append({'nu': int(graph.num_u), 'nv': int(graph.num_v), 'edges': [list(e) for e in getattr(graph, '_rec_edges', [])],
                       'uc': [int(x) for x in uc], 'vc': [int(x) for x in vc]})
        return uc, vc
    og.BipartiteGraph, og.minimum_vertex_cover = RecBG, rec_mvc
    try:
        try:
            chains = [OpChain(c['oids'], c['qnums'], cnum(c['coeff']), c['istart']) for c in case['chains']]
            g = og.OpGraph.from_opchains(chains, case['L'], case['idn'])
        except RecursionError:
            return {'error': 'RecursionError', 'covers': covers}
        except Exception as e:
            return {'error': type(e).__name__, 'covers': covers}
    finally:
        og.BipartiteGraph, og.minimum_vertex_cover = orig_bg, orig_mvc
    res = {'graph': _gjson(g), 'covers': covers, 'consistent': bool(g.is_consistent()), 'length': int(g.length)}
    # the chain list is an operand: it must come back unchanged, and compiling the SAME list again must give the same graph
    res['chains_unchanged'] = bool(all(ch.oids == list(c['oids']) and ch.qnums == list(c['qnums']) and ch.coeff == cnum(c['coeff'])
                                       and ch.istart == c['istart'] for ch, c in zip(chains, case['chains'])))
    try:
        g2 = og.OpGraph.from_opchains(chains, case['L'], case['idn'])
        res['second_compile_same'] = bool(_gjson(g2) == res['graph'])
    except Exception as e:
        res['second_compile_same'] = False
    if not case.get('nompo'):
        res['mpo'] = _mpo_result(case, g)
    return res


# --------------------------------------------------------------------------- property on the implementation
def _ns_graph(gj):
    nodes = {n[0]: SimpleNamespace(nid=n[0], eids=(n[1], n[2]), qnum=n[3]) for n in gj['nodes']}
    edges = {e[0]: SimpleNamespace(eid=e[0], nids=[e[1], e[2]],
                                   opics=[(i, (Fraction(a), Fraction(b))) for i, a, b in e[3]]) for e in gj['edges']}
    return SimpleNamespace(nodes=nodes, edges=edges, nid_terminal=gj['t'])


class _C:
    """exact complex rationals for the free-algebra enumeration"""
    __slots__ = ('re', 'im')

    def __init__(self, re, im=0):
        self.re, self.im = Fraction(re), Fraction(im)

    def __mul__(self, o):
        o = o if isinstance(o, _C) else _C(o)
        return _C(self.re * o.re - self.im * o.im, self.re * o.im + self.im * o.re)
    __rmul__ = __mul__

    def __add__(self, o):
        o = o if isinstance(o, _C) else _C(o)
        return _C(self.re + o.re, self.im + o.im)
    __radd__ = __add__

    def __eq__(self, o):
        o = o if isinstance(o, _C) else _C(o)
        return self.re == o.re and self.im == o.im

    def __ne__(self, o):
        return not self.__eq__(o)


def _graph_poly(gj):
    g = _ns_graph(gj)
    for e in g.edges.values():
        e.opics = [(i, _C(a, b)) for i, (a, b) in e.opics]
    return GE.path_poly(g)


def _chains_poly(case):
    out = {}
    L, idn = case['L'], case['idn']
    for c in case['chains']:
        re, im = fr(c['coeff'])
        if re == 0 and im == 0:
            continue
        w = tuple([idn] * c['istart'] + list(c['oids']) + [idn] * (L - len(c['oids']) - c['istart']))
        out[w] = out.get(w, _C(0)) + _C(re, im)
    return {w: v for w, v in out.items() if v != 0}


def _graph_layers(gj):
    """independent layer structure: depth of every node from the start terminal (all paths)"""
    nodes = {n[0]: n for n in gj['nodes']}
    edges = {e[0]: e for e in gj['edges']}
    layers = [[gj['t'][0]]]
    while True:
        nxt = set()
        for nid in layers[-1]:
            for eid in nodes[nid][2]:
                nxt.add(edges[eid][2])
        if not nxt or len(layers) > len(nodes) + 1:
            break
        layers.append(sorted(nxt))
    return layers, nodes, edges


def _dense_from_mpo(m):
    A = [np.array(a)[..., 0] + 1j * np.array(a)[..., 1] for a in m['A']]
    op = np.ones((1, 1, 1), dtype=complex)      # (row, col, bond)
    for W in A:
        d = W.shape[0]
        op = np.einsum('rcb,stbe->rscte', op, W).reshape(op.shape[0] * d, op.shape[1] * d, W.shape[3])
    assert op.shape[2] == 1
    return op[:, :, 0]


def _dense_from_graph(gj, opmap, d):
    """sum over paths of kron products (independent of pytenet)"""
    layers, nodes, edges = _graph_layers(gj)
    memo = {}

    def sub(nid):
        if nid in memo:
            return memo[nid]
        if nid == gj['t'][1] and not nodes[nid][2]:
            r = np.identity(1, dtype=complex)
        else:
            r = 0
            for eid in nodes[nid][2]:
                e = edges[eid]
                loc = sum(complex(a, b) * opmap[i] for i, a, b in e[3])
                r = r + np.kron(loc, sub(e[2]))
        memo[nid] = r
        return r
    return sub(gj['t'][0])


def _mpo_props(case, gj, m, msgs):
    d = len(case['qd'])
    opmap = {int(o): np.array(mm, dtype=float) for o, mm in case['opmap'].items()}
    layers, nodes, edges = _graph_layers(gj)
    if m['qd'] != list(case['qd']):
        msgs.append('MPO.qd differs from the requested physical quantum numbers')
    if len(m['A']) != len(layers) - 1:
        msgs.append('MPO has %d sites, graph has %d layers of edges' % (len(m['A']), len(layers) - 1))
        return
    want_qD = [[nodes[n][3] for n in lay] for lay in layers]
    if m['qD'] != want_qD:
        msgs.append('qD %s is not the list of node charges in id order %s' % (m['qD'], want_qD))
    want_map = {n: (l, i) for l, lay in enumerate(layers) for i, n in enumerate(lay)}
    got_map = {k: (l, i) for k, l, i in m['nid_map']}
    if got_map != want_map:
        msgs.append('nid_map does not locate every node at its bond index')
    for l, sh in enumerate(m['shape']):
        if sh != [d, d, len(layers[l]), len(layers[l + 1])]:
            msgs.append('tensor %d has shape %s' % (l, sh))
            return
    if d ** len(m['A']) <= 256:
        dense = _dense_from_mpo(m)
        ref = _dense_from_graph(gj, opmap, d)
        scale = np.abs(ref).max() if np.abs(ref).max() > 0 else 1.0
        if dense.shape != ref.shape or np.abs(dense - ref).max() > 1e-9 * scale:
            msgs.append('dense MPO differs from the operator denoted by the graph')
        if case['kind'] == 'chains':
            tot = np.zeros_like(ref)
            L, idn = case['L'], case['idn']
            for c in case['chains']:
                if c['coeff'][0] == 0 and c['coeff'][1] == 0:
                    continue       # filtered out by the code before padding (may even be too long)
                w = [idn] * c['istart'] + list(c['oids']) + [idn] * (L - len(c['oids']) - c['istart'])
                op = np.identity(1)
                for o in w:
                    op = np.kron(op, opmap[o])
                tot = tot + cnum(c['coeff']) * op
            if np.abs(dense - tot).max() > 1e-9 * (np.abs(tot).max() if np.abs(tot).max() > 0 else 1.0):
                msgs.append('dense MPO differs from the sum of identity-padded chains')


def expected_error(case):
    """error class the documented domain prescribes (None: must succeed)"""
    if case['kind'] != 'chains':
        return None
    ch = case['chains']
    if any(len(c['qnums']) != len(c['oids']) + 1 for c in ch) or not ch:
        return 'ValueError'
    nz = [c for c in ch if c['coeff'][0] != 0 or c['coeff'][1] != 0]
    L = case['L']
    if not nz or any(len(c['oids']) + c['istart'] > L for c in nz):
        return 'AssertionError'
    def pq(c):
        return [0] * c['istart'] + list(c['qnums']) + [0] * (L - len(c['oids']) - c['istart'])
    if any(pq(c)[0] != 0 for c in nz) or len({pq(c)[-1] for c in nz}) != 1:
        return 'AssertionError'
    return None


def prop(case, r):
    msgs = []
    if r.get('chains_unchanged') is False:
        msgs.append('from_opchains modified the chain list it was given')
    if r.get('second_compile_same') is False:
        msgs.append('compiling the same chain list a second time gives a different graph (or fails)')
    want = expected_error(case)
    if 'error' in r:
        if r.get('stage') == 'build':
            return ['harness could not build the test graph: %s' % r['error']]
        if want is None:
            return ['construction raised %s on a valid chain list' % r['error']]
        if r['error'] != want:
            return ['construction raised %s, expected %s' % (r['error'], want)]
        return []
    if want is not None:
        msgs.append('construction succeeded on an input outside the domain (expected %s)' % want)
        return msgs
    gj = r['graph']
    if not r['consistent']:
        msgs.append('graph is not internally consistent')
    if r['length'] != case['L']:
        msgs.append('graph length %d differs from requested %d' % (r['length'], case['L']))
    if case['kind'] == 'chains':
        gp, cp = _graph_poly(gj), _chains_poly(case)
        if set(gp) != set(cp) or any(gp[w] != cp[w] for w in gp):
            bad = [w for w in set(gp) | set(cp) if gp.get(w, _C(0)) != cp.get(w, _C(0))][:2]
            msgs.append('operator denoted by the graph differs from the sum of padded chains, e.g. at words %s' % bad)
        # node charges along the paths are the chains' interleaved charges
        layers, nodes, edges = _graph_layers(gj)
        if len(layers) == case['L'] + 1:
            nz = [c for c in case['chains'] if c['coeff'][0] != 0 or c['coeff'][1] != 0]
            for c in nz:
                L = case['L']
                pq = [0] * c['istart'] + list(c['qnums']) + [0] * (L - len(c['oids']) - c['istart'])
                for l in range(L + 1):
                    if pq[l] not in [nodes[n][3] for n in layers[l]]:
                        msgs.append('layer %d has no node with the chain charge %d' % (l, pq[l]))
                        break
    m = r.get('mpo')
    if m is not None:
        if 'error' in m:
            sparse_ok = _sparsity_expected(case, gj)
            if sparse_ok:
                msgs.append('MPO.from_opgraph raised %s on a consistent graph with a charge-consistent operator map' % m['error'])
        else:
            _mpo_props(case, gj, m, msgs)
    return msgs


def _sparsity_expected(case, gj):
    """True when every edge term is charge consistent with qd (then from_opgraph must not raise)"""
    qd = case['qd']
    opmap = {int(o): np.array(mm) for o, mm in case['opmap'].items()}
    nodes = {n[0]: n for n in gj['nodes']}
    for e in gj['edges']:
        dqe = nodes[e[2]][3] - nodes[e[1]][3]
        for i, a, b in e[3]:
            mm = opmap[i]
            for s in range(len(qd)):
                for t in range(len(qd)):
                    if mm[s, t] != 0 and qd[s] - qd[t] != dqe:
                        return False
    return True


# --------------------------------------------------------------------------- model side
def coq(case, r):
    if case['kind'] == 'graph':
        if r.get('stage') == 'build':
            return None
        g = graph_lit(r['graph'])
        m = r['mpo']
        exp = err_lit(m['error']) if 'error' in m else mpo_lit(case, m)
        return 'let g := %s in check_opgraph (R := QIring) %s g %s %s && (hyp_ok g || negb %s)' % (
            g, E.zlist(case['qd']), opmap_lit(case), exp, E.boolean(r['consistent']))
    if case.get('nocoq'):
        return None     # thorough tier, L = 3 with three chains: every list goes through impl + prop, every 4th through Coq
    chains = E.lst([chain_lit(c) for c in case['chains']])
    tbl = cover_lit(r.get('covers', []))
    if 'error' in r:
        if any(len(c['qnums']) != len(c['oids']) + 1 for c in case['chains']) and r['error'] == 'ValueError':
            pass   # OpChain.__init__ raised: the model's chain_ok check
        return 'check_chains (R := QIring) %s %s %s %s 1%%nat %s' % (tbl, chains, E.nat(case['L']), E.z(case['idn']), err_lit(r['error']))
    g = graph_lit(r['graph'])
    t = 'let g := %s in let tbl := %s in let chains := %s in check_chains (R := QIring) tbl chains %s %s %s (Ok g) && hyp_ok g && covers_ok QIring (cover_table tbl) chains %s %s' % (
        g, tbl, chains, E.nat(case['L']), E.z(case['idn']), big_nat(bfs_fuel(r['graph'])), E.nat(case['L']), E.z(case['idn']))
    if all(len(c['oids']) + c['istart'] <= case['L'] for c in case['chains']):
        t += ' && wf_chains %s chains' % E.nat(case['L'])   # the theorem's hypothesis (also asks zero-coefficient chains to fit)
    m = r.get('mpo')
    if m is not None:
        exp = err_lit(m['error']) if 'error' in m else mpo_lit(case, m)
        t += ' && check_chains_mpo (R := QIring) tbl chains %s %s %s %s %s' % (
            E.nat(case['L']), E.z(case['idn']), E.zlist(case['qd']), opmap_lit(case), exp)
    return t


def coq_diag(case, r):
    if case['kind'] == 'graph':
        return 'from_opgraph (R := QIring) %s %s %s' % (E.zlist(case['qd']), graph_lit(case['graph']), opmap_lit(case))
    return 'from_opchains (R := QIring) (cover_table %s) %s %s %s' % (
        cover_lit(r.get('covers', [])), E.lst([chain_lit(c) for c in case['chains']]), E.nat(case['L']), E.z(case['idn']))


def klass(case, r):
    Lb = lambda L: 'L1' if L == 1 else ('L2-3' if L <= 3 else 'L4-6')
    if case['kind'] == 'graph':
        m = r.get('mpo', {})
        return '%s/%s/%s' % (case['tag'], Lb(case['L']), 'mpo-' + m['error'] if 'error' in m else 'ok')
    if 'error' in r:
        return '%s/%s' % (case['tag'], r['error'])
    ch = case['chains']
    n = len(ch)
    keys = [(tuple(c['oids']), c['istart']) for c in ch]
    feats = []
    if n == 1:
        feats.append('single')
    tot = {}
    for k, c in zip(keys, ch):
        tot[k] = tot.get(k, 0) + Fraction(c['coeff'][0], c['coeff'][2]) + 1000003 * Fraction(c['coeff'][1], c['coeff'][2])
    if any(v == 0 for v in tot.values()):
        feats.append('cancel')
    elif len(set(keys)) < n:
        feats.append('accum')
    cov = r.get('covers', [])
    # the trailing-coefficient branch: last site handled by a U-cover vertex whose accumulated coefficient is not 1
    if cov and not cov[-1]['vc']:
        t1 = r['graph']['t'][1]
        if any((a, b) != (1.0, 0.0) for e in r['graph']['edges'] if e[2] == t1 for _, a, b in e[3]):
            feats.append('trail')
    vc = sum(len(c['vc']) for c in cov)
    uc = sum(len(c['uc']) for c in cov)
    feats.append('U' if vc == 0 else ('V' if uc == 0 else 'UV'))
    m = r.get('mpo')
    if m is not None and 'error' in m:
        feats.append('mpo-' + m['error'])
    tag = case['tag'].split('/')[0] if case['tag'].startswith('exh') else case['tag']
    return '%s/%s/n%s/%s' % (tag, Lb(case['L']), n if n <= 1 else ('2-3' if n <= 3 else '4+'), '+'.join(feats))


def nontrivial(case, r):
    if 'error' in r:
        return False
    if case['kind'] == 'graph':
        return len(case['graph']['edges']) > case['L']
    ch = case['chains']
    if len(ch) == 1:
        return ch[0]['coeff'] != [1, 0, 1]
    return any(len(c['uc']) + len(c['vc']) < len(c['edges']) for c in r.get('covers', []))
