"""C13 — compression and vector-to-MPS conversion obey their truncation error bounds."""
import numpy as np
import gen as G
import emit as E
import bondops_common as BC
import orth_common as OC

PROP = 'C13'
COQ_IMPORTS = OC.COQ_IMPORTS
COQ_PREAMBLE = OC.COQ_PREAMBLE
SHARD = 4
FORM = ('R (replay of the whole of MPS.compress): on the replayed subset (compress cases with L <= 3 and all bond dimensions <= 4; at most 90 cases in quick) every '
        'numpy.linalg.qr, numpy.linalg.svd and (unstable) numpy.argsort call issued during MPS.compress is recorded; input tensors, charges, tol and the recorded '
        'tables are shipped as exact rationals and Model/Orthonormalize.v mps_compress is evaluated by vm_compute over Q(i) with the tables (nearest recorded argument, '
        'entry-wise 1e-9*(1+scale)) as oracles and the returned abs(T) as the answer of the abs oracle; compared inside Coq: qd and every qD exactly, all shapes exactly '
        '(hence the kept index sets), every tensor entry, nrm and scale within 1e-9*(1+scale) in exact rational arithmetic, and the abs contract scale >= 0, scale^2 = |T|^2 '
        'on the model\'s T; a qr/svd lookup miss makes the model fail = mismatch. Skipped (class suffix /amb): cases where exact arithmetic puts a cumulative weight '
        'within 1e-9 of tol, or whose recorded tables are ambiguous for a nearest-argument lookup. from_vector is not modelled (prop only). All generated cases go through prop.')
TRUSTED = ['hand-written Gallina mirror of MPS.compress and the local SVD functions (Model/Orthonormalize.v on top of Model/BondOps.v block_svd / retained) tied to the code by the replay on every run',
           'numpy.linalg.qr, numpy.linalg.svd (LAPACK): contracts assumed in the theorems only for the issued calls; measured to 1e-12 on every recorded call',
           'numpy.argsort (unstable): a sorting permutation; the recorded permutation is an input of the model',
           'abs of a complex number (square root): oracle with contract abs(z) >= 0, abs(z)^2 = |z|^2, checked on every replayed case',
           'independent numpy re-implementation of the clauses (dense contraction, dense SVD of the first cut) in harness/props/c13.py (search only)']
PARTIAL = ('proved for all inputs (Properties/C13.v, 10 theorems closed under the global context), for every ordered field, L >= 1, d, bond profile, charges, well-formed block-sparse MPS '
           '(boundary bonds 1, all bonds >= 1), 0 <= tol < 1 and oracles meeting qr_call_ok / dsvd_ok / pick_ok / the abs contract on the calls actually issued, BOTH modes: '
           'C13_compress_left_spec / C13_compress_right_spec (the model returns; result well formed and block sparse, every site an isometry in the sweep direction, <psi\'|psi\'> = 1, '
           'new bond dimensions <= those after the preliminary orthonormalisation <= original; nrm >= 0, nrm^2 = <psi|psi>; scale >= 0, scale^2 = prod_{i<L}(1 - eps_i) with eps_i the discarded relative weight '
           'of the i-th local truncation and 0 <= eps_i <= tol; tol = 0 gives scale = 1 and nrm*scale*amp psi\' w = amp psi w; <psi\'|psi> = nrm*scale); C13_compress_left_error / _right_error '
           '(1 - L*tol <= scale^2 <= 1 and ||nrm*scale*psi\' - psi||^2 = nrm^2 (1 - scale^2) <= nrm^2*L*tol); C13_from_vector_bound (Model/FromVector.v: ||as_vector(from_vector v tol) - v||^2 <= n*tol*||v||^2 '
           'for oracles meeting dsvd_ok / pick_ok on the calls of the TT-SVD loop); C13_compress_nrm_partial, C13_scale_bounds_partial, C13_compress_calls. '
           'C13_first_bond_schmidt_left / _right (Proofs/CompressSchmidt*.v; same hypotheses as the _spec theorems; any block structure, unsorted charges): the first call of the truncation sweep is block_svd on the matrix M '
           'of the first (mode right: last) site tensor of the canonical normalised state psi1 = psi/||psi|| with charges (flatten(qd, qD[0]), qD[1]); with S all block singular values the oracle returns for M and K = retained pick S tol '
           'the split returns s = S[K] and the new bond of the result has dimension |K|; the reduced density matrix rho of that site (sum over the words of the other sites of amp(s::w) conj(amp(s\'::w))) equals M M^H '
           '(the other sites are isometries), rho(psi) = nrm^2 rho(psi1), tr rho(psi1) = 1 = sum S^2, S >= 0, and there is Uf with Uf^H Uf = I, rho = Uf diag(S^2) Uf^H, rho Uf = Uf diag(S^2) whose columns K are the returned factor: '
           'S are the Schmidt values of the cut (eigen-decomposition with explicit eigenvectors, no spectral theorem); K has the properties of C12_retained_spec (discarded weight <= tol, kept >= discarded, maximal, tol = 0 keeps the non-zero values). '
           'Non-vacuity with a truncating instance (4|00> + 3|11>, tol 2/5: Schmidt values 4/5, 3/5, one kept, bond 2 -> 1, scale 4/5), both modes. Square roots are avoided: bounds are for scale^2 and squared distances. '
           'NOT proved, validated only: uniqueness of the Schmidt values as a multiset (would need a spectral theorem; the statement gives the decomposition itself), '
           'that the oracles meet their contracts (measured), that the code computes what the model computes (replay, form R; the from_vector model is tied to the code by the C03 correspondence).')
ASSUMPTIONS = ['binary64 values are read as exact rationals; float arithmetic after a primitive is compared with tolerance 1e-9*(1+scale)',
               'MPS.from_vector: proved about Model/FromVector.v (replayed against the code by the C03 plugin), validated numerically here',
               'the is_qsparse assertions inside MPS.compress are not mirrored by the model']
NREPLAY = {'quick': 90, 'thorough': 500, 'search': 0}
RULE = ('compress: non-zero MPS, L in 1..5, d in 1..3, bond profiles, charge classes, spectra from product states to flat / staircase '
        'spectra sitting on the threshold, tol in {0, generic, dyadic boundary} with tol < 1/L, both modes, every third case with an equally valid SVD oracle carrying random phases/signs (LAPACK never returns a phase on the last bond); from_vector: d^n <= 729 entries, '
        'tol in [0, 1/L); non-trivial = some bond actually truncated or L >= 3; distinct by input digest')
IMPL_PARALLEL = True


def cases(rng, tier):
    n = {'quick': 420, 'thorough': 2500, 'search': 300}[tier]
    out = []
    for k in range(n):
        kind = rng.choice(['compress', 'compress', 'compress', 'from_vector'])
        L = rng.choice([1, 2, 2, 3, 3, 4, 5])
        tol_kind = rng.choice(['zero', 'generic', 'generic', 'boundary', 'tiny'])
        out.append({'kind': kind, 'seed': rng.getrandbits(30), 'L': L, 'd': rng.choice([1, 2, 2, 3]),
                    'qclass': rng.choice(G.QCLASSES), 'mode': rng.choice(['left', 'right']),
                    'spectrum': rng.choice(['random', 'product', 'flat', 'stair', 'sum']),
                    'tol_kind': tol_kind, 'tol_frac': rng.random(), 'Dmax': rng.choice([2, 3, 4, 6])})
    # wide first bonds: L = 2, 3 with d = 4..6 and few distinct charges, so that the first truncated bond carries several Schmidt
    # values in each of two or three sectors (a truncation applied per sector instead of to the whole bond shows only there)
    for k in range({'quick': 80, 'thorough': 300, 'search': 60}[tier]):
        L = rng.choice([2, 2, 3])
        out.append({'kind': 'compress', 'seed': rng.getrandbits(30), 'L': L, 'd': rng.choice([4, 5, 6] if L == 2 else [4]),
                    'qclass': rng.choice(['sorted', 'sorted', 'unsorted', 'zero']), 'mode': rng.choice(['left', 'right']),
                    'spectrum': 'random', 'tol_kind': rng.choice(['generic', 'generic', 'boundary']), 'tol_frac': rng.random(),
                    'Dmax': rng.choice([6, 8])})
    for k in range({'quick': 8, 'thorough': 40, 'search': 8}[tier]):
        out.append({'kind': 'compress', 'seed': rng.getrandbits(30), 'L': rng.choice([3, 3, 4]), 'd': 4, 'qclass': 'fermi', 'mode': rng.choice(['left', 'right']),
                    'spectrum': 'fermi', 'tol_kind': rng.choice(['zero', 'generic', 'generic']), 'tol_frac': rng.random(), 'Dmax': 16})
    for d in (4, 5, 6):
        for qc in ('zero', 'sorted'):
            for mode in ('left', 'right'):
                out.append({'kind': 'compress', 'seed': rng.getrandbits(30), 'L': 2, 'd': d, 'qclass': qc, 'mode': mode, 'spectrum': 'tail',
                            'tol_kind': 'tail', 'tol_frac': 0.5, 'Dmax': d})
    for c in out:
        if c['kind'] == 'compress' and rng.random() < 0.2:
            c['layout'] = rng.randrange(1, 4)
    left = NREPLAY[tier]
    for c in out:
        if c['kind'] == 'compress' and c['L'] <= 3 and c['Dmax'] <= 4 and left > 0:
            c['replay'] = True
            left -= 1
    return out


TAIL_E = 0.04


def _tol(case, L):
    k = case['tol_kind']
    if k == 'tail':
        return 2.5 * TAIL_E
    if k == 'zero':
        return 0.0
    if k == 'tiny':
        return 1e-12
    if k == 'boundary':
        # dyadic value below 1/L
        return [0.25, 0.125, 0.0625, 0.03125][min(3, max(0, L - 2))] if L > 1 else 0.5
    return case['tol_frac'] * 0.98 / L


def _state(case):
    import pytenet as ptn
    rs = np.random.default_rng(case['seed'])
    L, d = case['L'], case['d']
    sp = case['spectrum']
    if sp == 'product':
        psi = G.rand_mps(rs, L, d, qclass=case['qclass'], Dmax=1)
    elif sp == 'sum':
        # sum of a few product states: exact low Schmidt rank hidden in larger bonds
        psi = G.rand_mps(rs, L, d, qclass='zero', Dmax=1)
        for _ in range(3):
            psi = psi + G.rand_mps(rs, L, d, qclass='zero', Dmax=1, qd=psi.qd)
    elif sp in ('flat', 'stair') and L >= 2 and d >= 2:
        # GHZ-like / staircase states: Schmidt weights equal or dyadic, sitting on thresholds
        qd = np.zeros(d, dtype=int)
        psi = ptn.MPS(qd, [[0]] + [[0] * d for _ in range(L - 1)] + [[0]], fill='postpone')
        w = np.ones(d) if sp == 'flat' else np.sqrt(np.array([2.0 ** (-k) for k in range(1, d + 1)]))
        for i in range(L):
            Dl, Dr = (1 if i == 0 else d), (1 if i == L - 1 else d)
            A = np.zeros((d, Dl, Dr))
            for s in range(d):
                A[s, 0 if i == 0 else s, 0 if i == L - 1 else s] = w[s] if i == 0 else 1.0
            psi.A[i] = A
    elif sp == 'fermi':
        # Fermi-Hubbard sector structure: encoded charge pairs (N << 16) + S, several S per N on every bond
        import tdgen as T
        H = T.hamiltonian('fermi', L, rs)
        psi = T.state(H, rs, complete=True)
    elif sp == 'tail':
        # L = 2: one dominant Schmidt value and a tail of d - 1 equal small ones (weight TAIL_E each), in one sector or spread over two;
        # with tol = 2.5 TAIL_E the rule discards exactly two of them; truncating twice (per sector and again, or two passes) discards more
        two = case['qclass'] != 'zero' and d % 2 == 0
        qd = np.array([0] * d) if not two else np.array([0] * (d // 2) + [1] * (d // 2))
        qb = [int(q) for q in qd]
        psi = ptn.MPS(qd, [[0], qb, [1 if two else 0]], fill='postpone')
        w = np.sqrt(np.array([1 - (d - 1) * TAIL_E] + [TAIL_E] * (d - 1)))
        perm = rs.permutation(d)
        A0 = np.zeros((d, 1, d)); A1 = np.zeros((d, d, 1))
        for s_ in range(d):
            A0[s_, 0, s_] = w[perm[s_]]
            A1[(s_ + d // 2) % d if two else s_, s_, 0] = 1.0
        psi.A = [A0, A1]
    else:
        psi = G.rand_mps(rs, L, d, qclass=case['qclass'], Dmax=case['Dmax'])
    if case.get('layout'):
        # site tensors in other memory layouts (Fortran order, non-contiguous views, negative strides): same values
        psi.A = [G.relayout(a, case['layout'] + i) for i, a in enumerate(psi.A)]
    return psi


def impl(case):
    import pytenet as ptn
    L = case['L']
    tol = _tol(case, L)
    if case['kind'] == 'from_vector':
        rs = np.random.default_rng(case['seed'])
        d = max(case['d'], 2) if L <= 4 else 2
        n = L
        v = rs.standard_normal(d ** n) + (1j * rs.standard_normal(d ** n) if case['qclass'] != 'zero' else 0)
        if case['spectrum'] == 'product':
            f = [rs.standard_normal(d) for _ in range(n)]
            v = f[0]
            for g in f[1:]:
                v = np.kron(v, g)
        # overall scale of the vector: the truncation rule is relative, the bound must hold at every scale
        v = v * float(rs.choice([1e-11, 1e-6, 1e-3, 0.1, 1.0, 1.0, 30.0, 1e4]))
        try:
            psi = ptn.MPS.from_vector(d, n, v, tol=tol)
        except Exception as e:
            return {'error': type(e).__name__, 'detail': str(e)[:200]}
        w = G.mps_dense(psi.A)
        return {'tol': tol, 'L': n, 'relerr': float(np.linalg.norm(w - v) / np.linalg.norm(v)),
                'sparsity': G.mps_sparsity_ok(psi), 'dims': [int(x) for x in psi.bond_dims]}
    psi = _state(case)
    v0 = G.mps_dense(psi.A)
    n0 = float(np.linalg.norm(v0))
    if n0 < 1e-12:
        return {'skip': 'zero state'}
    dims0 = [int(x) for x in psi.bond_dims]
    # Schmidt values of the first truncated bond (in sweep direction) of the original state
    d = len(psi.qd)
    if L >= 2:
        cut = 1 if case['mode'] == 'left' else L - 1
        M = (v0 / n0).reshape(d ** cut, d ** (L - cut))
        schmidt = np.linalg.svd(M, compute_uv=False)
    else:
        schmidt = np.array([1.0])
    rec = BC.Recorder()
    retlog = []
    do_rec = bool(case.get('replay')) and max(dims0) <= 4
    inp = OC.obj_to_json(psi) if do_rec else None
    # every third case runs with an equally valid SVD oracle whose factors carry random phases / signs (derived from the
    # case seed, no extra random draws): the property quantifies over every valid SVD
    twist = case['seed'] % 3 == 0
    import contextlib
    try:
        with (OC.patch_svd_phase(case['seed'], any(np.iscomplexobj(a) for a in psi.A)) if twist else contextlib.nullcontext()), \
                rec.patch_qr(), rec.patch_svd(), OC.patch_retained(retlog):
            nrm, scale = psi.compress(tol, mode=case['mode'])
    except Exception as e:
        return {'error': type(e).__name__, 'detail': str(e)[:200]}
    v1 = G.mps_dense(psi.A)
    dims1 = [int(x) for x in psi.bond_dims]
    iso = []
    for A in psi.A:
        if case['mode'] == 'left':
            M = A.reshape(A.shape[0] * A.shape[1], A.shape[2]); iso.append(float(np.linalg.norm(M.conj().T @ M - np.identity(M.shape[1]))))
        else:
            M = A.transpose(1, 0, 2).reshape(A.shape[1], -1); iso.append(float(np.linalg.norm(M @ M.conj().T - np.identity(M.shape[0]))))
    # expected number of kept Schmidt values at the first truncated bond, by the tolerance rule on exact Schmidt weights
    w2 = np.sort(schmidt ** 2)            # ascending
    cum = np.cumsum(w2)
    margin = np.min(np.abs(cum - tol)) if len(cum) else 1.0
    kept_expected = int(np.sum(cum > tol))
    first = (1 if case['mode'] == 'left' else L - 1) if L >= 2 else None
    return {'tol': tol, 'L': L, 'nrm': float(np.real(nrm)), 'scale': float(np.real(scale)), 'norm0': n0,
            'err': float(np.linalg.norm(nrm * scale * v1 - v0)), 'norm_after': float(np.linalg.norm(v1)),
            'dims0': dims0, 'dims1': dims1, 'iso': iso, 'sparsity': G.mps_sparsity_ok(psi),
            'kept_first': (dims1[first] if first is not None else 1), 'kept_expected': kept_expected,
            'margin': float(margin), 'rank_first': int(np.sum(schmidt > 1e-13)), 'tiny': float(np.min(schmidt[schmidt > 1e-13])) if np.any(schmidt > 1e-13) else 0.0,
            'scale_imag': float(np.imag(scale)), 'nrm_imag': float(np.imag(nrm)),
            'lapack': OC.qr_contract_msgs(OC.qr_calls_json(rec)) + OC.svd_contract_msgs(OC.svd_calls_json(rec)),
            'rec': ({'inp': inp, 'out': OC.obj_to_json(psi), 'qr': OC.qr_calls_json(rec), 'svd': OC.svd_calls_json(rec),
                     'argsort': OC.argsort_calls_json(rec), 'retained': retlog} if do_rec else None)}


def prop(case, r):
    if 'skip' in r:
        return []
    if 'error' in r:
        return ['%s raised %s: %s' % (case['kind'], r['error'], r.get('detail', ''))]
    msgs = []
    L, tol = r['L'], r['tol']
    if case['kind'] == 'from_vector':
        if r['relerr'] > np.sqrt(L * tol) + 1e-9:
            msgs.append('from_vector relative error %.6g exceeds sqrt(L*tol) = %.6g' % (r['relerr'], np.sqrt(L * tol)))
        if tol == 0 and r['relerr'] > 1e-10:
            msgs.append('from_vector with zero tolerance does not reproduce the vector (%.3g)' % r['relerr'])
        if r['sparsity']:
            msgs.append('result not block sparse / list lengths wrong: %s' % r['sparsity'])
        return msgs
    n0 = r['norm0']
    eps = 1e-9
    if abs(r['nrm'] - n0) > eps * (1 + n0):
        msgs.append('returned norm %.12g differs from the norm %.12g of the original' % (r['nrm'], n0))
    lo = np.sqrt(max(0.0, 1 - L * tol))
    if not (lo - eps <= r['scale'] <= 1 + eps):
        msgs.append('scale factor %.12g outside [sqrt(1-L*tol), 1] = [%.12g, 1]' % (r['scale'], lo))
    if abs(r['norm_after'] - 1) > 1e-8:
        msgs.append('compressed state not normalized (%.12g)' % r['norm_after'])
    if max(r['iso']) > 1e-8:
        msgs.append('compressed state not canonical in the sweep direction (residual %.3g)' % max(r['iso']))
    if any(a > b for a, b in zip(r['dims1'], r['dims0'])):
        msgs.append('a bond dimension grew: %s -> %s' % (r['dims0'], r['dims1']))
    expect = n0 * np.sqrt(max(0.0, 1 - r['scale'] ** 2))
    # sqrt amplifies rounding near scale = 1: compare squares
    if abs(r['err'] ** 2 - expect ** 2) > 1e-9 * n0 ** 2:
        msgs.append('error %.9g differs from norm*sqrt(1-scale^2) = %.9g' % (r['err'], expect))
    if r['err'] > n0 * np.sqrt(L * tol) + 1e-7 * n0:
        msgs.append('error %.9g exceeds norm*sqrt(L*tol) = %.9g' % (r['err'], n0 * np.sqrt(L * tol)))
    if tol == 0 and r['err'] > 1e-8 * n0:
        msgs.append('zero-tolerance compression is not exact (%.3g)' % r['err'])
    # first truncated bond keeps exactly the prescribed Schmidt values (skip cases within rounding of the threshold
    # and numerically tiny Schmidt values)
    if L >= 2 and r['margin'] > 1e-9 and (r['tiny'] ** 2 > 1e-9 or r['tiny'] == 0.0) and tol > 0:
        if r['kept_first'] != max(r['kept_expected'], 1) and not (r['kept_expected'] == 0):
            msgs.append('first truncated bond keeps %d Schmidt values, tolerance rule prescribes %d' % (r['kept_first'], r['kept_expected']))
    if r['sparsity']:
        msgs.append('result not block sparse / list lengths wrong: %s' % r['sparsity'])
    if r.get('scale_imag') or r.get('nrm_imag'):
        msgs.append('returned norm / scale is not real')
    msgs += r.get('lapack', [])
    return msgs


def _replay(case, r):
    """(eps, ambiguous) for a replayed case, None if the case is not replayed"""
    if 'skip' in r or 'error' in r or not r.get('rec'):
        return None
    rc = r['rec']
    tens = [c[k] for c in rc['qr'] for k in ('arg', 'Q', 'R')] + [c[k] for c in rc['svd'] for k in ('arg', 'u', 'v')]
    scale = max([OC.scale_of(rc['inp']['A'], rc['out']['A'], tens), abs(r['nrm']), abs(r['scale'])] + [abs(x) for c in rc['svd'] for x in c['s']])
    eps = OC.eps_for(scale)
    amb = OC.lookup_ambiguous([OC.j2t(c['arg']) for c in rc['qr']], [(OC.j2t(c['Q']), OC.j2t(c['R'])) for c in rc['qr']], float(eps)) \
        or OC.lookup_ambiguous([OC.j2t(c['arg']) for c in rc['svd']], [(OC.j2t(c['u']), np.array(c['s']), OC.j2t(c['v'])) for c in rc['svd']], float(eps)) \
        or OC.lookup_ambiguous([np.array(c['arg']) for c in rc['argsort']], [(np.array(c['idx']),) for c in rc['argsort']], float(eps)) \
        or OC.retained_ambiguous(rc['retained'], rc['argsort'])
    return eps, amb


def _coq_args(case, r, eps):
    rc = r['rec']
    return (E.boolean(case['mode'] == 'left'), E.qc(eps), E.qc(r['tol']), OC.qr_table(rc['qr']), OC.svd_table(rc['svd']), OC.pick_table(rc['argsort']),
            OC.mps_lit(rc['inp']))


def coq(case, r):
    rp = _replay(case, r)
    if rp is None or rp[1]:
        return None
    rc = r['rec']
    return 'check_compress (F:=QcF) %s %s %s %s %s %s %s' % _coq_args(case, r, rp[0]) + ' %s %s %s' % (OC.mps_lit(rc['out']), E.qc(r['nrm']), E.qc(r['scale']))


def coq_diag(case, r):
    rp = _replay(case, r)
    if rp is None:
        return 'true'
    left, eps, tol, qt, st, pt, inp = _coq_args(case, r, rp[0])
    return ('mps_compress (F:=QcF) (qr_aoracle %s %s) (svd_aoracle %s %s) (pick_aoracle %s %s) (fun _ => %s) %s %s %s'
            % (eps, qt, eps, st, eps, pt, E.qc(r['scale']), tol, left, inp))


def klass(case, r):
    if 'skip' in r or 'error' in r:
        return case['kind'] + '/' + ('skip' if 'skip' in r else 'error')
    if case['kind'] == 'from_vector':
        return 'from_vector/%s' % case['tol_kind']
    tr = 'truncated' if r['dims1'] != r['dims0'] else 'same-dims'
    rp = _replay(case, r)
    tag = '' if rp is None else ('/replayed-amb' if rp[1] else '/replayed')
    return 'compress/%s/%s/%s/%s%s%s' % (case['mode'], case['spectrum'], case['tol_kind'], tr, '/twisted-svd' if case['seed'] % 3 == 0 else '', tag)


def nontrivial(case, r):
    return 'error' not in r and 'skip' not in r and (r['L'] >= 3 or r.get('dims1') != r.get('dims0'))
