"""C09 — TDVP is exact on a complete manifold and exactly time-reversible."""
import numpy as np
import gen as G
import tdgen as T
import emit as E
import sweeprec as SR

PROP = 'C09'
COQ_IMPORTS = SR.COQ_IMPORTS
COQ_PREAMBLE = SR.PREAMBLE
SHARD = 4
FORM = (SR.FORM_TEXT % 'integrate_local_singlesite / integrate_local_twosite') + \
       '; the recorded solver-call sequence is additionally required (inside Coq) to equal numsteps copies of sched1 L / sched2 L and its own reverse'
TRUSTED = SR.TRUSTED
PARTIAL = ('proved (Properties/C09.v, all closed under the global context): (1) the scheduling / symmetry core -- for all L and numsteps the solver calls emitted by the model are numsteps copies of '
           'K0(1/2) S0(-1/2) ... K_{L-1}(1) ... S0(-1/2) K0(1/2) (two-site analogue), this list is its own reverse, the times passed for -dt are the negated '
           'times, and adjacent opposite local flows cancel for exactly invertible local solvers; (2) REVERSIBILITY AT THE LEVEL OF THE DENSE STATE (C09_reversible, every L >= 1, '
           'every number of steps, every bond profile, any scalar dt): n single-site steps with dt followed by n steps with -dt on the in-place result give <w|psi0_normalised> = nrm2 * <w|psi2> '
           'for every basis word w, nrm2 = the number returned by the second call -- RELATIVE TO explicit contracts: (a) the local solvers are exact flows in the time argument '
           '(solver(0) = id, solver(t) o solver(s) = solver(s+t)), homogeneous and shape preserving; (b) they are covariant under unitary changes of the bond bases of the local problem '
           '(proved for the four local functions of operation.py themselves: C09_local_problem_gauge_covariant); (c) per recorded call every QR answer meets the LAPACK contract with an invertible R '
           'factor and every evolved bond matrix of the first run is invertible (full rank, bond dimensions unchanged) -- that QR non-uniqueness then only changes the gauge is proved '
           '(C09_qr_gauge_unique); (d) the second call\'s orthonormalize only re-gauges its (right-canonical) input by unitaries and divides the first tensor by the reported norm. '
           'L = 1 needs contract (a) only (C09_reversible_L1). Non-vacuity: rational L = 2 instance with a non-trivial unipotent flow (C09_reversible_nonvacuous). '
           '(3) EXACTNESS ON A COMPLETE MANIFOLD for the single-site integrator WITHOUT quantum numbers (C09_exact_complete: every L >= 1, every number of steps, every complete bond profile '
           'Ds 0 = Ds L = 1, d*Ds j = Ds (j+1) left of a split site m, Ds j = d*Ds (j+1) right of it -- e.g. min(d^j, d^(L-j)); special cases C09_exact_L1, C09_exact_L2): dense(result) = G(n*dt) dense(normalised start state) '
           'and the returned number is the norm reported by orthonormalize, for an ABSTRACT exact global flow G (G 0 = id, G t o G s = G(s+t)) -- RELATIVE TO explicit contracts on the local solvers: '
           '(F) the site solver is a shape-preserving flow in its time argument; (IL)/(IR) site solver on Q.C = Q.(bond solver on C) for left-unitary Q resp. on C.B = (bond solver on C).B for right-unitary B, '
           'the bond problem being built with the model\'s own environment update (encodes H_site (Q x 1) = (Q x 1) H_bond, which IS proved for apply_local_hamiltonian / apply_local_bond_contraction / '
           'contraction_operator_step_left/right: C09_local_operators_intertwine_left/_right, plus "H1 V = V H2 => exp(t H1) V = V exp(t H2)"); (A) between complete (unitary) frames whose environment blocks are built by the model, '
           'the site solver at the split site changes the dense state by G t (encodes exp(t V^H H V) = V^H exp(tH) V for unitary V); per recorded QR call: LAPACK contract, R with as many rows as the input has columns, '
           'orthonormal rows of Q for square inputs; hdt + hdt = dt; start tensors right of m right-unitary. No QR uniqueness / gauge covariance / invertibility needed (Lubich-Oseledets-Vandereycken cancellation of K- and S-steps). '
           'Non-vacuity: rational L = 2 instance with H = sigma+ x sigma+, environment-dependent exact solvers, all contracts proved for all arguments, rotation QR oracle (C09_exact_nonvacuous, C09_exact_nontrivial). '
           '(3b) CONTRACT (A) IS NOW DERIVED, not assumed (C09_exact_complete_natural, every L >= 1; also _L1_natural, _L2_natural): its tensor-network content is proved for the model\'s own functions over any commutative ring '
           '(C09_complete_frames_unitary_embedding: between left-/right-unitary frames, with environment blocks iterated by contraction_operator_step_left/right from [[[1]]], the embedding E: site tensor at the split site -> dense vector '
           'is linear, inner-product preserving, has a two-sided inverse, and E(apply_local_hamiltonian BL BR W X) = as_matrix(MPO) * E(X); uses C04\'s projection theorem; the dense matrix is the model\'s MPO.as_matrix, '
           'C09_dense_operator_is_as_matrix), and (A) follows (C09_natural_implies_global) from the purely analytic contract solver_natural: for every unitary E intertwining the local operator handed to the solver with the dense matrix, '
           'E(solver(t) X) = G t (E X) -- i.e. the similarity invariance of the matrix exponential under unitaries, exp(t U^-1 H U) = U^-1 exp(tH) U (equivalently A U = U B => exp(tA) U = U exp(tB)); no frame, environment block or MPS occurs in it. '
           'Checked on the nilpotent rational example for all arguments over any ring (C09_nilpotent_solver_natural: solver = X + t*H_loc X, G = v + t*Hdense v) and the example run re-derived through it (C09_exact_natural_nonvacuous). '
           'Remaining contracts of the single-site exactness theorem: (F) flow in t, (S0) shapes, (IL)/(IR) (algebra proved; analytic part "H1 V = V H2 => exp(tH1) V = V exp(tH2)"), solver_natural, (G) group property of G, per-call QR contract. '
           '(4) EXACTNESS ON A COMPLETE MANIFOLD for the TWO-SITE integrator (integrate_local_twosite, tol_split = 0) WITHOUT quantum numbers (C09_exact2_complete: every L >= 2, every number of steps, every complete '
           'bond profile / split site m; special cases C09_exact2_L2 -- a single pair, only (F2), (A2), (G) and the split contract are needed -- and C09_exact2_L3): dense(result) = G(n*dt) dense(normalised start state) and the returned number is the norm '
           'reported by orthonormalize, RELATIVE TO contracts on the ONE solver oracle used for the merged two-site (forward) and the one-site (backward) problems: (F)/(F2) shape-preserving flow in the time argument on one-site / merged shapes; '
           '(IL2)/(IR2) two-site solver on merge(Q, C) = merge(Q, one-site solver on C) for left-unitary Q resp. on merge(C, B) = merge(one-site solver on C, B) for right-unitary B, the one-site problem built with the model\'s own environment update '
           '(encodes H_pair (Q x 1) = (Q x 1) H_site, PROVED for apply_local_hamiltonian / merge_mps_tensor_pair / merge_mpo_tensor_pair / contraction_operator_step_left/right: C09_pair_operators_intertwine_left/_right); (A2) between complete frames the two-site solver at the '
           'ONE pair min(m, L-2) changes the dense state by G t; (G); per recorded split_mps_tensor call (C09_exact2_split_contract): the split is exact (merge of the answers = the tensor split), the kept bond has the profile dimension (= all singular values, '
           'min(d*Ds i, d*Ds(i+2)), for Ds j = min(d^j, d^(L-j)): C09_min_profile_complete) and a SQUARE isometric factor is unitary -- weaker than what the SVD delivers, no uniqueness needed; hdt + hdt = dt; start tensors right of m right-unitary. '
           'Proof: forward two-site step at (i,i+1) and backward one-site step at i+1 cancel left of the complete pair, the pending backward step cancels against the next two-site step right of it, the complete pair carries G. '
           '(4b) (A2) is DERIVED (C09_exact2_complete_natural, _L2_natural, _L3_natural; split site with m+1 < L, no loss for min(d^j, d^(L-j))) from solver2_natural = similarity invariance of the matrix exponential under unitaries on merged pair tensors '
           '(C09_natural2_implies_global: reduction to the single-site embedding theorem through the right-unitary identity tensor and C09_pair_operators_intertwine_right). The first-order polynomial solver X + t*H_loc X meets (IL2), (IR2), naturality for every operator chain '
           '(C09_poly_solver_intertwines, C09_poly_solver_natural2). Non-vacuity: rational L = 4 instance (bonds 1,2,4,2,1, H = sigma+^{x4}, nilpotent local operators for all environments, rational exact split through fixed rational unitaries, 38 recorded calls, '
           '10 splits checked by the kernel): C09_exact2_nonvacuous, C09_exact2_nontrivial, C09_nilpotent_solver_contracts2. '
           'NOT proved: exactness with quantum numbers (fails in some sectors: known finding K1, tdvp-*-mixed-complete-sector); that the floating-point Krylov exponential and the LAPACK SVD meet '
           'the contracts (they do up to rounding / the Krylov error; measured by prop() against scipy.linalg.expm); reversibility when a bond matrix is rank deficient; contract (d) from the QR contract of orthonormalize')
ASSUMPTIONS = SR.ASSUMPTIONS
RULE = ('exactness: complete manifolds (maximal bond dimensions of a charge sector, or no charges), L in 1..5, d in 2..3, Krylov dimension >= '
        'local dimension, real / imaginary / complex dt with |dt|*||H|| <= ~1, 1..3 steps, both integrators, against scipy.linalg.expm; '
        'real-valued and complex states (real states meet complex Hermitian MPOs, incl. XXZ with Dzyaloshinskii-Moriya-like complex hopping); reversibility: single-site, any bond profile, complex dt, n steps forward then n steps with -dt, result times the norm reported by '
        'the second call; non-trivial = L >= 2; distinct by input digest')
IMPL_PARALLEL = True


def cases(rng, tier):
    n = {'quick': 120, 'thorough': 1200, 'search': 120}[tier]
    out = []
    for k in range(n):
        what = rng.choice(['exact', 'exact', 'reverse'])
        model = rng.choice(['xxz', 'xxz', 'ising', 'randherm', 'randherm_q', 'bose', 'xxz_dm'])
        L = rng.choice([1, 2, 2, 3, 3, 4, 5])
        if model == 'bose':
            L = min(L, 3)
        kind = rng.choice(['single', 'two']) if what == 'exact' else 'single'
        if kind == 'two':
            L = max(L, 2)
        out.append({'what': what, 'kind': kind, 'model': model, 'L': L, 'seed': rng.getrandbits(30),
                    'dt': [rng.choice([0.0, 0.05, -0.1, 0.2]), rng.choice([0.0, 0.1, -0.05, 0.3])], 'steps': rng.choice([1, 1, 2, 3]),
                    'Dmax': rng.choice([1, 2, 3]), 'sectors': rng.random() < 0.7,
                    'sdtype': 'real' if rng.random() < 0.35 else 'complex'})
        if rng.random() < 0.15:
            out[-1]['hmag'] = rng.choice([-24, -27, 10])
        elif rng.random() < 0.15:
            out[-1]['quench'] = True
    SR.mark_replay(out, {'quick': 24, 'thorough': 120, 'search': 0}[tier], 'steps')
    return out


def corpus():
    # reproduces each open known finding deterministically (runs first)
    return [{'what': 'exact', 'kind': 'single', 'model': 'xxz', 'L': 4, 'seed': 1, 'dt': [0.0, 0.2], 'steps': 1, 'Dmax': 2, 'sectors': True, 'qt': -2},
            {'what': 'exact', 'kind': 'two', 'model': 'xxz', 'L': 5, 'seed': 1, 'dt': [0.0, 0.2], 'steps': 1, 'Dmax': 2, 'sectors': True, 'qt': -3},
            {'what': 'exact', 'kind': 'single', 'model': 'xxz', 'L': 4, 'seed': 1, 'dt': [0.0, 0.2], 'steps': 1, 'Dmax': 2, 'sectors': True, 'qt': 0},
            {'what': 'exact', 'kind': 'two', 'model': 'xxz', 'L': 4, 'seed': 1, 'dt': [0.0, 0.2], 'steps': 1, 'Dmax': 2, 'sectors': True, 'qt': -2},
            {'Dmax': 3, 'L': 5, 'dt': [0.0, 0.3], 'kind': 'single', 'model': 'xxz', 'sdtype': 'complex', 'sectors': True, 'seed': 590570279, 'steps': 2,
             'what': 'reverse'}]


def impl(case):
    import warnings
    warnings.simplefilter('ignore')
    import pytenet as ptn
    from scipy.linalg import expm
    rs = np.random.default_rng(case['seed'])
    H = T.hamiltonian(case['model'], case['L'], rs)
    L = H.nsites
    dt = complex(case['dt'][0], case['dt'][1])
    if dt == 0:
        dt = 0.1j
    if case.get('hmag'):
        # magnitude regime: Hamiltonian times 2^hmag, time step divided by it (exact): the same evolution
        H.A[0] = H.A[0] * 2.0 ** case['hmag']
        dt = dt / 2.0 ** case['hmag']
    if case.get('quench'):
        # the same MPO object has been used by both integrators before, then its tensors are rescaled IN PLACE (a quench):
        # the judged run must see the new Hamiltonian
        try:
            for f in (ptn.integrate_local_singlesite, ptn.integrate_local_twosite):
                if L >= 2 or f is ptn.integrate_local_singlesite:
                    warm = T.state(H, np.random.default_rng(case['seed'] + 1), Dmax=2)
                    if float(np.linalg.norm(G.mps_dense(warm.A))) > 1e-10:
                        f(H, warm, 0.05j, 1, numiter_lanczos=4)
        except Exception:
            pass
        H.A[min(1, L - 1)] *= 0.5
    Hd = G.mpo_dense(H.A)
    hn = float(np.linalg.norm(Hd, 2))
    if abs(dt) * hn * case['steps'] > 1.5:
        dt = dt * 1.5 / (abs(dt) * hn * case['steps'])
    import pytenet.evolution as EV
    try:
        if case['what'] == 'exact':
            info = {}
            psi = T.state(H, rs, complete=True, sectors=case['sectors'], info=info, qt=case.get('qt'), dtype=case.get('sdtype', 'complex'))
            v0 = G.mps_dense(psi.A)
            n0 = float(np.linalg.norm(v0))
            if n0 < 1e-10:
                return {'skip': 'zero state'}
            numiter = int(max(a.size for a in psi.A) * (len(H.qd) if case['kind'] == 'two' else 1)) + 2
            numiter = min(numiter, 200)
            numeric = SR.numeric_ok(case, H, psi)
            if case['kind'] == 'single':
                ret, run = SR.run_recorded(EV, ptn.integrate_local_singlesite, H, psi, dt, numiter, numeric, dt, case['steps'], numiter_lanczos=numiter)
            else:
                ret, run = SR.run_recorded(EV, ptn.integrate_local_twosite, H, psi, dt, numiter, numeric, dt, case['steps'], numiter_lanczos=numiter, tol_split=0)
            v1 = G.mps_dense(psi.A)
            ref = expm(-dt * case['steps'] * Hd) @ (v0 / n0)
            return {'err': float(np.linalg.norm(v1 - ref)), 'ret': float(np.real(ret)), 'norm0': n0, 'dims': [int(x) for x in psi.bond_dims],
                    'refnorm': float(np.linalg.norm(ref)), 'mixed': [bool(x) for x in info.get('mixed', [])],
                    'runs': [run], 'H': SR.enc_mpo(H, numeric)}
        psi = T.state(H, rs, Dmax=case['Dmax'], dtype=case.get('sdtype', 'complex'))
        v0 = G.mps_dense(psi.A)
        n0 = float(np.linalg.norm(v0))
        if n0 < 1e-10:
            return {'skip': 'zero state'}
        numiter = int(max(a.size for a in psi.A)) + 2
        numeric = SR.numeric_ok(case, H, psi)
        # is some bond of the right-orthonormalised start state rank deficient (bond dimension above the Schmidt rank of the cut)?
        import copy as _copy
        phi = _copy.deepcopy(psi)
        phi.orthonormalize(mode='right')
        dloc = len(H.qd)
        rankdef = False
        for k in range(1, L):
            sv = np.linalg.svd((v0 / n0).reshape(dloc ** k, -1), compute_uv=False)
            if int(np.sum(sv > 1e-10)) < int(phi.bond_dims[k]):
                rankdef = True
        r1, run1 = SR.run_recorded(EV, ptn.integrate_local_singlesite, H, psi, dt, numiter, numeric, dt, case['steps'], numiter_lanczos=numiter)
        mid = float(np.linalg.norm(G.mps_dense(psi.A)))
        r2, run2 = SR.run_recorded(EV, ptn.integrate_local_singlesite, H, psi, -dt, numiter, numeric, -dt, case['steps'], numiter_lanczos=numiter)
        v2 = G.mps_dense(psi.A)
        return {'err': float(np.linalg.norm(r2 * v2 - v0 / n0)), 'ret': float(np.real(r1)), 'ret2': float(np.real(r2)), 'norm0': n0, 'mid': mid,
                'imag_dt': bool(dt.real == 0), 'dims': [int(x) for x in psi.bond_dims], 'runs': [run1, run2], 'H': SR.enc_mpo(H, numeric),
                'rankdef': bool(rankdef)}
    except Exception as e:
        import traceback
        tb = traceback.extract_tb(e.__traceback__)[-1]
        return {'error': type(e).__name__, 'detail': '%s [%s:%d]' % (str(e)[:160], tb.filename.split('/')[-1], tb.lineno)}


def prop(case, r):
    if 'skip' in r:
        return []
    if 'error' in r:
        return ['TDVP raised %s: %s' % (r['error'], r.get('detail', ''))]
    msgs = []
    if abs(r['ret'] - r['norm0']) > 1e-9 * (1 + r['norm0']):
        msgs.append('returned %.12g, expected the norm %.12g of the input' % (r['ret'], r['norm0']))
    if case['what'] == 'exact':
        if r['err'] > 1e-8 * (1 + r['refnorm']):
            msgs.append('complete-manifold TDVP differs from exp(-dt*n*H) psi/|psi| by %.3g' % r['err'])
    else:
        if r['err'] > 1e-8:
            msgs.append('forward/backward evolution does not return to the initial state (%.3g)' % r['err'])
        if r['imag_dt'] and abs(r['ret2'] - 1) > 1e-9:
            msgs.append('norm reported by the second call is %.12g for purely imaginary dt' % r['ret2'])
    return msgs


def _mixed_kind(case, r):
    m = r.get('mixed', [])
    if case['kind'] == 'single':
        return any(m)
    return any(a and b for a, b in zip(m, m[1:]))


def finding_key(case, r, msgs):
    """known finding: projector splitting is not exact in charge sectors whose minimal bonds are neither left- nor right-complete"""
    if case['what'] == 'exact' and 'err' in r and len(msgs) == 1 and msgs[0].startswith('complete-manifold TDVP differs') and _mixed_kind(case, r):
        return 'tdvp-%ssite-mixed-complete-sector' % ('single' if case['kind'] == 'single' else 'two')
    # known finding K5: with a rank-deficient bond (bond dimension above the Schmidt rank of the cut, which orthonormalize keeps on the
    # side it does not sweep from) the first sweep evolves in a larger tangent space than the return sweep: not reversible (1e-4)
    if case['what'] == 'reverse' and r.get('rankdef') and len(msgs) == 1 and msgs[0].startswith('forward/backward evolution does not return'):
        return 'tdvp-singlesite-reversibility-rank-deficient-bond'
    return None


def coq(case, r):
    if 'skip' in r or 'error' in r:
        return None
    return ' && '.join('(%s)' % SR.term_tdvp(case['kind'] == 'two', r['H'], case['steps'], run) for run in r['runs'])


def klass(case, r):
    if 'skip' in r or 'error' in r:
        return case['what'] + '/' + ('skip' if 'skip' in r else 'error')
    dtk = 'imag' if case['dt'][0] == 0 else ('real' if case['dt'][1] == 0 else 'complex')
    return '%s/%s/%s/L%d/%s%s%s' % (case['what'], case['kind'], case['model'], case['L'], dtk, '/real' if case.get('sdtype') == 'real' else '',
                                    '/replay' if r['runs'][0]['numeric'] else '')


def nontrivial(case, r):
    return 'error' not in r and 'skip' not in r and case['L'] >= 2
