"""C19 — operands are never modified; results share no state with them.

Each case is one public operation applied to freshly generated operands (seeded), optionally preceded by a
short random history of other operations on the same objects.  Observed on the real code:
  changed[i]        did any byte of operand i change (arrays, quantum-number arrays, graph structure)?
  shares            does any array/list/node/edge object reachable from the result share memory or identity
                    with something reachable from an operand?
  followup_changed  after mutating the result in place (zero_qnumbers / orthonormalize / compress / tensor edits /
                    graph rename), did any operand change?
The Coq side checks the observation against the operation's descriptor (Model/Alias.v: desc_of / obs_ok).

Second, static tie (case op = 'static-writeset', harness/writeset.py): the write-set of every operation is derived from the
current source by a fail-closed ast analysis and compared with desc_of inside Coq (Model/AliasStatic.v: static_check);
`prop` reports every operation whose derived write-set exceeds its descriptor, with file:line and the alias/call chain.
"""
import copy, hashlib, random
import numpy as np
import emit as E

PROP = 'C19'
COQ_IMPORTS = ['PT.Model.Alias', 'PT.Model.AliasStatic']
FORM = ('two ties of the descriptors desc_of to the code.  (1) dynamic, per sampled call: byte snapshots of every operand '
        'before/after, numpy.shares_memory / identity matrix between result and operands, follow-up mutations of the result; the '
        'observation is checked in Coq against desc_of (obs_ok).  (2) static, on every run from the CURRENT source '
        '(harness/writeset.py, case op=static-writeset): a fail-closed Python-ast analysis (interprocedural fixpoint over function '
        'summaries: parameters possibly written, parameter objects stored into other parameters, aliasing of the result) derives '
        'the write-set of every concrete function behind every operation of desc_of; the derived table is emitted as a Gallina '
        'term and ONE evaluation `static_check table` compares it with desc_of and checks that all 38 operations are covered '
        '(C19_static_table_sound: then lookup table o = Some (desc_of o) for every o).  A derived write-set exceeding the '
        'descriptor, an unanalysable function, or a returned MPS/MPO/OpGraph that may keep a reference to an operand is a '
        'property violation reported with file:line and the alias / call chain.')
RULE = ('every public operation named in the property (38 descriptors) on seeded operands (L in 1..4, d in 1..3, with and without '
        'quantum-number sectors, bond dims 1..4), plain or after a random prefix history; non-trivial = operation returned an '
        'array-bearing object or modified its target; distinct by (operation, operand digest); plus one static case covering all '
        '158 functions of the package')
SHARD = 400
IMPL_PARALLEL = True
TRUSTED = ['abstract cell/ownership model (Model/Alias.v); the Python/NumPy object model itself (views, base arrays) is not formalised',
           'descriptors desc_of are tied to the code (a) per call by snapshots and (b) statically by harness/writeset.py; neither tie '
           'is a proof inside Coq: the analyser (about 1800 lines of Python) and its tables join the trusted base',
           'writeset.py tables: EXT_FRESH (np.array/zeros/full/identity/arange/block/concatenate/tensordot/kron/where/argsort/cumsum/'
           'intersect1d/exp/sqrt/add.outer/linalg.norm,qr,svd, scipy eigh_tridiagonal/expm, sparse csr_array/csc_array/hstack, '
           'copy.deepcopy return objects sharing nothing with their arguments and write no argument), EXT_VIEW (np.reshape/transpose/'
           'asarray/diag/ravel... may return a view of argument 0), EXT_MUTATE (np.copyto, fill_diagonal, put, place, putmask, out=), '
           'method tables M_MUT/M_MUT_STORE (fill sort append extend insert remove pop clear update reverse add discard '
           'difference_update resize setflags itemset put normal...), M_VIEW (reshape transpose view ravel squeeze swapaxes conj '
           'diagonal; also .T .real .imag and every subscript), M_FRESH, M_SCALAR, M_ELEM; a name in no table and in no library class '
           'is treated as a call that may write its receiver and arguments',
           'writeset.py policies: np.einsum is fresh only with >= 2 operands; `.copy()` is ndarray.copy unless the receiver is a '
           'list/dict/set allocated in the same function or read from a list/dict/set-valued field of a library class (then shallow); '
           'arithmetic on operands of unknown type allocates its result (numeric, not list concatenation, same exception); annotations int/float/complex/bool/str and Sequence[int]-like are trusted (immutable scalars); '
           'dict keys are immutable; lambdas / nested functions passed as function-valued parameters are analysed in place at the '
           'call site, other stored callables may write everything they can reach; try/with/global/nonlocal/yield/star-arguments/'
           'exec/eval/getattr/setattr/unknown decorators/inheritance make a function UNKNOWN (= may write every operand)',
           'not seen by the static analysis: aliasing created inside C code of numpy/scipy beyond the tables (e.g. a future numpy '
           'returning views from tensordot/einsum with 2 operands), buffer-protocol / ctypes tricks, __dict__ manipulation, monkey '
           'patching, threads; regions are collapsed per parameter (no field sensitivity), so the analysis can only over-report']
PARTIAL = ('proved for all histories of the abstract machine: no-sharing invariant, frame property, pure operations change nothing, '
           'in-place algorithms write only their documented target, results are fresh and their later mutation never alters operands; '
           'proved about the static tie: if static_check succeeds on the emitted table then every operation has a row and every row '
           'carries exactly desc_of (C19_static_table_sound, C19_static_rows_sound, all_ops complete and duplicate free). '
           'That each real operation behaves as its descriptor says is (1) validated on sampled calls (bytes, shares_memory) and '
           '(2) derived from the current source by a conservative static analysis outside Coq on every run; it is not proved in Coq.')
ASSUMPTIONS = ['numpy.shares_memory and byte equality of .tobytes() detect every aliasing/mutation of ndarray operands',
               'the classification tables and policies of harness/writeset.py (listed under trusted_base) describe numpy/scipy/builtins correctly']

OPS = ['mps_add', 'mps_sub', 'mpo_add', 'mpo_sub', 'mpo_matmul', 'apply_operator', 'vdot', 'norm', 'operator_average',
       'operator_inner_product', 'operator_density_average', 'as_vector', 'as_matrix', 'from_vector', 'split_mps_tensor',
       'merge_mps_tensor_pair', 'merge_mpo_tensor_pair', 'qr', 'split_matrix_svd', 'retained_bond_indices',
       'from_opchains', 'from_opgraph', 'mpo_identity', 'graph_as_matrix', 'compute_right_operator_blocks',
       'apply_local_hamiltonian', 'apply_local_bond_contraction', 'hamiltonian_constructor',
       'mps_orthonormalize', 'mpo_orthonormalize', 'mps_compress',
       'tdvp_singlesite', 'tdvp_twosite', 'dmrg_singlesite', 'dmrg_twosite',
       'graph_add', 'graph_simplify', 'graph_flip']


def corpus():
    # the static tie: one case, evaluated from the current source on every run
    return [{'op': 'static-writeset'}]


def impl_static(case):
    import os
    import writeset
    root = os.environ.get('VERIF_REPO', '/repo')
    try:
        rep = writeset.analyze(root)
    except Exception as e:       # fail closed
        return {'static': True, 'crash': '%s: %s' % (type(e).__name__, e), 'rows': [], 'violations':
                ['static write-set analysis crashed (%s: %s); every operation counts as unknown' % (type(e).__name__, e)],
                'sharing': [], 'notes': [], 'stats': {}, 'table': '[]'}
    rep['static'] = True
    rep['table'] = writeset.gallina_table(rep)
    return rep


def cases(rng, tier):
    n = {'quick': 12, 'thorough': 40, 'search': 8}[tier]
    out = []
    for op in OPS:
        for k in range(n):
            out.append({'op': op, 'seed': rng.getrandbits(30), 'L': rng.choice([1, 2, 2, 3, 3, 4]), 'd': rng.choice([1, 2, 2, 3]),
                        'sectors': rng.random() < 0.6, 'prefix': rng.choice([0, 0, 1, 2]), 'mode': rng.choice(['left', 'right'])})
    # histories: sequences of operations on a shared pool of objects, snapshots of EVERY pool object around every step
    nh = {'quick': 80, 'thorough': 400, 'search': 40}[tier]
    for k in range(nh):
        out.append({'op': 'history', 'seed': rng.getrandbits(30), 'L': rng.choice([2, 2, 3, 3, 4]), 'd': 2,
                    'sectors': rng.random() < 0.5, 'steps': rng.randint(2, 6 if tier != 'thorough' else 12), 'mode': rng.choice(['left', 'right'])})
    return out


# ---------------------------------------------------------------- snapshots
def _cells(x, acc, seen):
    """collect (object, kind) leaves reachable from x: ndarrays, python lists of scalars, graph nodes/edges"""
    import pytenet as ptn
    if id(x) in seen:
        return
    seen.add(id(x))
    if isinstance(x, np.ndarray):
        acc.append(x)
    elif isinstance(x, (ptn.MPS, ptn.MPO)):
        acc.append(x.qd)
        for q in x.qD:
            _cells(q, acc, seen)
        for a in x.A:
            _cells(a, acc, seen)
    elif isinstance(x, ptn.OpGraph):
        acc.append(x)
        for n in x.nodes.values():
            acc.append(n); acc.append(n.eids[0]); acc.append(n.eids[1])
        for e in x.edges.values():
            acc.append(e); acc.append(e.nids); acc.append(e.opics)
    elif isinstance(x, (list, tuple)):
        if isinstance(x, list):
            acc.append(x)
        for y in x:
            _cells(y, acc, seen)
    elif isinstance(x, dict):
        acc.append(x)
        for y in x.values():
            _cells(y, acc, seen)
    elif hasattr(x, 'oids') and hasattr(x, 'qnums'):   # OpChain
        acc.append(x); acc.append(x.oids); acc.append(x.qnums)


def cells(x):
    acc = []
    _cells(x, acc, set())
    return acc


def digest(x):
    """byte-level digest of everything reachable from x"""
    import pytenet as ptn
    h = hashlib.sha1()

    def rec(y):
        if isinstance(y, np.ndarray):
            h.update(str((y.shape, y.dtype.str)).encode()); h.update(np.ascontiguousarray(y).tobytes())
        elif isinstance(y, (ptn.MPS, ptn.MPO)):
            h.update(b'T'); rec(y.qd); rec(list(y.qD)); rec(list(y.A))
        elif isinstance(y, ptn.OpGraph):
            h.update(b'G')
            for k, n in y.nodes.items():
                h.update(repr((k, n.nid, n.eids, n.qnum)).encode())
            for k, e in y.edges.items():
                h.update(repr((k, e.eid, e.nids, e.opics)).encode())
            h.update(repr(y.nid_terminal).encode())
        elif isinstance(y, (list, tuple)):
            h.update(b'L%d' % len(y))
            for z in y:
                rec(z)
        elif isinstance(y, dict):
            h.update(b'D')
            for k in y:
                h.update(repr(k).encode()); rec(y[k])
        elif hasattr(y, 'oids') and hasattr(y, 'qnums'):
            h.update(repr((y.oids, y.qnums, y.coeff, y.istart)).encode())
        else:
            h.update(repr(y).encode())
    rec(x)
    return h.hexdigest()


def shares(res, operands):
    rc = cells(res)
    for op in operands:
        for c in cells(op):
            for r in rc:
                if r is c:
                    return True
                if isinstance(r, np.ndarray) and isinstance(c, np.ndarray) and r.size and c.size and np.shares_memory(r, c):
                    return True
    return False


# ---------------------------------------------------------------- generators
def rand_mps(rs, L, d, sectors, Dmax=3):
    import pytenet as ptn
    qd = rs.integers(-1, 2, size=d) if sectors else np.zeros(d, dtype=int)
    qD = [np.array([0])] + [(rs.integers(-1, 2, size=rs.integers(1, Dmax + 1)) if sectors else np.zeros(rs.integers(1, Dmax + 1), dtype=int))
                            for _ in range(L - 1)] + [np.array([rs.integers(-1, 2) if sectors else 0])]
    psi = ptn.MPS(qd, qD, fill='random', rng=rs)
    return psi


def rand_mpo(rs, L, d, sectors, Dmax=3, qd=None):
    import pytenet as ptn
    if qd is None:
        qd = rs.integers(-1, 2, size=d) if sectors else np.zeros(d, dtype=int)
    qD = [np.array([0])] + [(rs.integers(-1, 2, size=rs.integers(1, Dmax + 1)) if sectors else np.zeros(rs.integers(1, Dmax + 1), dtype=int))
                            for _ in range(L - 1)] + [np.array([0])]
    return ptn.MPO(qd, qD, fill='random', rng=rs)


def herm_mpo(rs, L, d, sectors, qd=None):
    """Hermitian MPO: O + O^dagger built tensor-wise (conjugate, swap physical axes)"""
    import pytenet as ptn
    O = rand_mpo(rs, L, d, sectors, Dmax=2, qd=qd)
    Od = ptn.MPO(O.qd, [(-q) for q in O.qD], fill='postpone')
    Od.A = [a.conj().transpose((1, 0, 2, 3)).copy() for a in O.A]
    return O + Od


def rand_graph(rs, L):
    import pytenet as ptn
    chains = []
    for _ in range(int(rs.integers(1, 5))):
        n = int(rs.integers(1, L + 1)); i0 = int(rs.integers(0, L - n + 1))
        chains.append(ptn.OpChain([int(x) for x in rs.integers(0, 3, size=n)], [0] * (n + 1), float(rs.integers(1, 4)), i0))
    return ptn.OpGraph.from_opchains(chains, L, 0), chains


def followups(res, rs):
    """mutate the result in place in every documented way"""
    import pytenet as ptn
    objs = res if isinstance(res, (list, tuple)) else [res]
    for r in objs:
        if isinstance(r, ptn.MPS):
            for a in r.A:
                a[...] = a * 2 + 1
            r.zero_qnumbers()
            try:
                r.orthonormalize(mode='left'); r.compress(0.1, mode='right')
            except Exception:
                pass
        elif isinstance(r, ptn.MPO):
            for a in r.A:
                a[...] = a * 2 + 1
            for q in r.qD:
                q[...] = 0
            r.qd[...] = 0
            try:
                r.orthonormalize(mode='right')
            except Exception:
                pass
        elif isinstance(r, np.ndarray):
            if r.flags.writeable and r.size:
                r[...] = r * 2 + 1
        elif isinstance(r, ptn.OpGraph):
            try:
                r.flip()
                nid = max(r.nodes.keys()) + 5
                r.rename_node_id(r.nid_terminal[0], nid)
                for e in r.edges.values():
                    e.opics = [(i, 2 * c) for i, c in e.opics]
                    e.nids[0] = e.nids[0]
                for n in r.nodes.values():
                    n.eids[0].append(10 ** 6)
            except Exception:
                pass
        elif isinstance(r, list):
            for x in r:
                if isinstance(x, np.ndarray) and x.size and x.flags.writeable:
                    x[...] = x * 2 + 1



HIST_OPS = ['mps_add', 'mps_sub', 'mpo_add', 'mpo_matmul', 'apply_operator', 'vdot', 'operator_average', 'operator_inner_product',
            'as_vector', 'as_matrix', 'mps_orthonormalize', 'mps_compress', 'mpo_orthonormalize', 'tdvp_singlesite', 'tdvp_twosite',
            'dmrg_singlesite', 'dmrg_twosite']


def impl_history(case):
    """a history of operations on a shared pool; after every step every pool object except the documented target must be byte-identical,
    returned MPS/MPO must not share memory with any pool object, and mutating them in place must not alter the pool"""
    import warnings
    warnings.simplefilter('ignore')
    import pytenet as ptn
    import gen as G
    rs = np.random.default_rng(case['seed'])
    L, d, sec = case['L'], case['d'], case['sectors']
    if sec:
        H = ptn.heisenberg_xxz_mpo(L, 1.0, 0.7, 0.2)
    else:
        H = G.hermitian_mpo(rs, L, d, 'zero', Dmax=2)
    qd = np.array(H.qd)
    def new_state():
        return G.rand_mps(rs, L, d, qclass='unsorted' if sec else 'zero', Dmax=3, qd=qd)
    pool = {'psi': new_state(), 'chi': new_state(), 'H': H, 'O': G.rand_mpo(rs, L, d, qclass='unsorted' if sec else 'zero', Dmax=2, qd=qd)}
    names = ['psi', 'chi', 'H', 'O']
    steps = []
    for k in range(case['steps']):
        op = str(rs.choice(HIST_OPS))
        a, b = (('psi', 'chi') if rs.random() < 0.5 else ('chi', 'psi'))
        if op in ('mps_add', 'mps_sub'):
            if not (np.array_equal(pool[a].qD[0], pool[b].qD[0]) and np.array_equal(pool[a].qD[-1], pool[b].qD[-1])) or max(pool[a].bond_dims) > 12:
                continue
            operands = [a, b]; call = (lambda: pool[a] + pool[b]) if op == 'mps_add' else (lambda: pool[a] - pool[b])
        elif op == 'mpo_add':
            if max(pool['O'].bond_dims) > 8:
                continue
            operands = ['H', 'O']; call = lambda: pool['H'] + pool['O']
        elif op == 'mpo_matmul':
            if max(pool['O'].bond_dims) > 6:
                continue
            operands = ['O', 'H']; call = lambda: pool['O'] @ pool['H']
        elif op == 'apply_operator':
            if max(pool[a].bond_dims) > 8 or max(pool['O'].bond_dims) > 8:
                continue
            operands = ['O', a]; call = lambda: ptn.apply_operator(pool['O'], pool[a])
        elif op == 'vdot':
            operands = [a, b]; call = lambda: ptn.vdot(pool[a], pool[b])
        elif op == 'operator_average':
            operands = [a, 'H']; call = lambda: ptn.operator_average(pool[a], pool['H'])
        elif op == 'operator_inner_product':
            operands = [a, 'O', b]; call = lambda: ptn.operator_inner_product(pool[a], pool['O'], pool[b])
        elif op == 'as_vector':
            operands = [a]; call = lambda: pool[a].as_vector()
        elif op == 'as_matrix':
            operands = ['O']; call = lambda: pool['O'].as_matrix()
        elif op == 'mps_orthonormalize':
            operands = [a]; call = lambda: pool[a].orthonormalize(mode=case['mode'])
        elif op == 'mps_compress':
            operands = [a]; call = lambda: pool[a].compress(float(rs.choice([0, 0.05])), mode=case['mode'])
        elif op == 'mpo_orthonormalize':
            operands = ['O']; call = lambda: pool['O'].orthonormalize(mode=case['mode'])
        else:
            if ptn.norm(pool[a]) < 1e-10 or max(pool[a].bond_dims) > 6:
                continue
            operands = ['H', a]
            if op == 'tdvp_singlesite':
                call = lambda: ptn.integrate_local_singlesite(pool['H'], pool[a], 0.05j, 1, numiter_lanczos=4)
            elif op == 'tdvp_twosite':
                call = lambda: ptn.integrate_local_twosite(pool['H'], pool[a], 0.05j, 1, numiter_lanczos=4, tol_split=1e-8)
            elif op == 'dmrg_singlesite':
                call = lambda: ptn.calculate_ground_state_local_singlesite(pool['H'], pool[a], 1, numiter_lanczos=4)
            else:
                call = lambda: ptn.calculate_ground_state_local_twosite(pool['H'], pool[a], 1, numiter_lanczos=4, tol_split=1e-8)
        bystanders = [n for n in names if n not in operands]
        order = operands + bystanders
        before = [digest(pool[n]) for n in order]
        try:
            res = call()
        except Exception as e:
            steps.append({'op': op, 'error': type(e).__name__, 'changed': [digest(pool[n]) != b0 for n, b0 in zip(order, before)],
                          'shares': False, 'followup_changed': False})
            continue
        changed = [digest(pool[n]) != b0 for n, b0 in zip(order, before)]
        sh, fu = False, False
        if isinstance(res, (ptn.MPS, ptn.MPO)):
            sh = shares(res, [pool[n] for n in names])
            if rs.random() < 0.5:
                # keep the result in the pool (later steps then act on it next to its former operands)
                slot = a if isinstance(res, ptn.MPS) else 'O'
                pool[slot] = res
            else:
                fb = [digest(pool[n]) for n in names]
                followups(res, rs)
                fu = [digest(pool[n]) for n in names] != fb
        steps.append({'op': op, 'changed': changed, 'shares': bool(sh), 'followup_changed': bool(fu), 'n_operands': len(operands)})
    return {'steps': steps}


def impl(case):
    if case['op'] == 'static-writeset':
        return impl_static(case)
    if case['op'] == 'history':
        return impl_history(case)
    import warnings
    warnings.simplefilter('ignore')
    import pytenet as ptn
    rs = np.random.default_rng(case['seed'])
    L, d, sec, op = case['L'], case['d'], case['sectors'], case['op']
    psi = rand_mps(rs, L, d, sec); chi = ptn.MPS(psi.qd, [psi.qD[0]] + [q for q in rand_mps(rs, L, d, sec).qD[1:-1]] + [psi.qD[-1]], fill='random', rng=rs)
    O1 = rand_mpo(rs, L, d, sec, qd=psi.qd); O2 = rand_mpo(rs, L, d, sec, qd=psi.qd)
    # optional prefix history on the same objects
    for _ in range(case['prefix']):
        k = int(rs.integers(0, 4))
        if k == 0:
            psi.orthonormalize(mode=case['mode'])
        elif k == 1:
            chi = chi + chi
        elif k == 2:
            O1 = O1 + O2
        else:
            psi = ptn.apply_operator(O2, psi)
    operands, call = None, None
    if op == 'mps_add':
        operands = [psi, chi]; call = lambda: psi + chi
    elif op == 'mps_sub':
        operands = [psi, chi]; call = lambda: psi - chi
    elif op == 'mpo_add':
        operands = [O1, O2]; call = lambda: O1 + O2
    elif op == 'mpo_sub':
        operands = [O1, O2]; call = lambda: O1 - O2
    elif op == 'mpo_matmul':
        operands = [O1, O2]; call = lambda: O1 @ O2
    elif op == 'apply_operator':
        operands = [O1, psi]; call = lambda: ptn.apply_operator(O1, psi)
    elif op == 'vdot':
        operands = [chi, psi]; call = lambda: ptn.vdot(chi, psi)
    elif op == 'norm':
        operands = [psi]; call = lambda: ptn.norm(psi)
    elif op == 'operator_average':
        operands = [psi, O1]; call = lambda: ptn.operator_average(psi, O1)
    elif op == 'operator_inner_product':
        operands = [chi, O1, psi]; call = lambda: ptn.operator_inner_product(chi, O1, psi)
    elif op == 'operator_density_average':
        operands = [O1, O2]; call = lambda: ptn.operator_density_average(O1, O2)
    elif op == 'as_vector':
        operands = [psi]; call = lambda: psi.as_vector()
    elif op == 'as_matrix':
        operands = [O1]; call = lambda: [O1.as_matrix(), O1.as_matrix(sparse_format=True).toarray()]
    elif op == 'from_vector':
        v = rs.standard_normal(max(d, 2) ** L); operands = [v]
        call = lambda: ptn.MPS.from_vector(max(d, 2), L, v, tol=float(rs.choice([0, 0.05])))
    elif op == 'split_mps_tensor':
        q0 = rs.integers(-1, 2, size=2) if sec else np.zeros(2, dtype=int); q1 = rs.integers(-1, 2, size=3) if sec else np.zeros(3, dtype=int)
        qD = [rs.integers(-1, 2, size=2) if sec else np.zeros(2, dtype=int), rs.integers(-1, 2, size=3) if sec else np.zeros(3, dtype=int)]
        mask = ptn.qnumber_outer_sum([ptn.qnumber_flatten([q0, q1]), qD[0], -qD[1]])
        A = np.where(mask == 0, rs.standard_normal(mask.shape), 0.)
        distr = str(rs.choice(['left', 'right', 'sqrt'])); tol = float(rs.choice([0, 0.1]))
        operands = [A, q0, q1, qD]; call = lambda: ptn.split_mps_tensor(A, q0, q1, qD, distr, tol)
    elif op == 'merge_mps_tensor_pair':
        A0 = psi.A[0]; A1 = psi.A[1] if L > 1 else rs.standard_normal((d, 1, 2))
        operands = [A0, A1]; call = lambda: ptn.merge_mps_tensor_pair(A0, A1)
    elif op == 'merge_mpo_tensor_pair':
        A0 = O1.A[0]; A1 = O1.A[1] if L > 1 else rs.standard_normal((d, d, 1, 2))
        operands = [A0, A1]; call = lambda: ptn.merge_mpo_tensor_pair(A0, A1)
    elif op in ('qr', 'split_matrix_svd'):
        m, n = int(rs.integers(1, 6)), int(rs.integers(1, 6))
        q0 = rs.integers(-1, 2, size=m) if sec else np.zeros(m, dtype=int); q1 = rs.integers(-1, 2, size=n) if sec else np.zeros(n, dtype=int)
        A = np.where(np.add.outer(q0, -q1) == 0, rs.standard_normal((m, n)), 0.)
        if rs.random() < 0.35:
            # already sorted charges (no re-ordered copy is made inside) and a Fortran-ordered, possibly complex, matrix
            q0 = np.sort(q0); q1 = np.sort(q1)
            A = np.where(np.add.outer(q0, -q1) == 0, rs.standard_normal((m, n)), 0.)
            if rs.random() < 0.5:
                A = A + 1j * np.where(np.add.outer(q0, -q1) == 0, rs.standard_normal((m, n)), 0.)
            A = np.asfortranarray(A) if rs.random() < 0.7 else A
        if rs.random() < 0.3:
            q0 = [int(x) for x in q0]   # python lists are legal inputs too
        operands = [A, q0, q1]
        call = (lambda: ptn.qr(A, q0, q1)) if op == 'qr' else (lambda: ptn.split_matrix_svd(A, q0, q1, float(rs.choice([0, 0.1]))))
    elif op == 'retained_bond_indices':
        s = np.abs(rs.standard_normal(int(rs.integers(1, 7)))); operands = [s]
        call = lambda: ptn.retained_bond_indices(s, float(rs.choice([0, 0.1, 0.5])))
    elif op == 'from_opchains':
        _, chains = rand_graph(rs, L); operands = [chains]; call = lambda: ptn.OpGraph.from_opchains(chains, L, 0)
    elif op in ('from_opgraph', 'graph_as_matrix'):
        g, _ = rand_graph(rs, L); opmap = {i: rs.standard_normal((2, 2)) for i in range(3)}; opmap[0] = np.identity(2)
        operands = [g, opmap]
        call = (lambda: ptn.MPO.from_opgraph([0, 0], g, opmap, compute_nid_map=True)) if op == 'from_opgraph' else (lambda: g.as_matrix(opmap))
    elif op == 'mpo_identity':
        qd = psi.qd; operands = [qd]; call = lambda: ptn.MPO.identity(qd, L, scale=2.0)
    elif op == 'compute_right_operator_blocks':
        operands = [psi, O1]; call = lambda: ptn.compute_right_operator_blocks(psi, O1)
    elif op == 'apply_local_hamiltonian':
        i = int(rs.integers(0, L)); A = psi.A[i]; W = O1.A[i]
        Lb = rs.standard_normal((A.shape[1], W.shape[2], A.shape[1])); Rb = rs.standard_normal((A.shape[2], W.shape[3], A.shape[2]))
        operands = [Lb, Rb, W, A]; call = lambda: ptn.apply_local_hamiltonian(Lb, Rb, W, A)
    elif op == 'apply_local_bond_contraction':
        Lb = rs.standard_normal((2, 3, 2)); Rb = rs.standard_normal((4, 3, 4)); C = rs.standard_normal((2, 4))
        operands = [Lb, Rb, C]; call = lambda: ptn.apply_local_bond_contraction(Lb, Rb, C)
    elif op == 'hamiltonian_constructor':
        k = int(rs.integers(0, 4)); Lh = max(L, 2)
        if k == 0:
            t = rs.standard_normal((Lh, Lh)); v = rs.standard_normal((Lh, Lh, Lh, Lh))
            if rs.random() < 0.5:
                # integral arrays with exact zeros and entries far below the others
                t[rs.random(t.shape) < 0.2] = 0.0; v[rs.random(v.shape) < 0.2] *= 1e-16; v[rs.random(v.shape) < 0.1] = 0.0
                t[0, 0] = 3e-15
            operands = [t, v]
            call = lambda: ptn.molecular_hamiltonian_mpo(t, v, optimize=bool(rs.integers(0, 2)) if Lh >= 4 else True)
        elif k == 1:
            co = rs.standard_normal(Lh) + 1j * rs.standard_normal(Lh); operands = [co]
            call = lambda: ptn.linear_fermionic_mpo(co, str(rs.choice(['c', 'a'])))
        elif k == 2:
            t = rs.standard_normal((2, 2)); v = rs.standard_normal((2, 2, 2, 2))
            if rs.random() < 0.5:
                v[rs.random(v.shape) < 0.25] *= 1e-16; t[1, 0] = -2e-15
            operands = [t, v]
            call = lambda: ptn.spin_molecular_hamiltonian_mpo(t, v, optimize=bool(rs.integers(0, 2)))
        else:
            operands = []; call = lambda: ptn.heisenberg_xxz_mpo(Lh, 1.0, 0.5, 0.25)
    elif op == 'mps_orthonormalize':
        operands = [psi, chi, O1]; call = lambda: psi.orthonormalize(mode=case['mode'])
    elif op == 'mpo_orthonormalize':
        operands = [O1, O2, psi]; call = lambda: O1.orthonormalize(mode=case['mode'])
    elif op == 'mps_compress':
        operands = [psi, chi, O1]; call = lambda: psi.compress(float(rs.choice([0, 0.05])), mode=case['mode'])
    elif op in ('tdvp_singlesite', 'tdvp_twosite', 'dmrg_singlesite', 'dmrg_twosite'):
        Lh = max(L, 2)
        if sec:
            H = ptn.heisenberg_xxz_mpo(Lh, 1.0, 0.7, 0.2)
            # bond charges along a random spin configuration (plus a random extra one) so that the state is non-zero
            path = np.cumsum(rs.choice(H.qd, size=Lh))
            qD = [np.array([0])] + [np.array([int(path[i]), int(path[i]) + int(rs.choice([-2, 0, 2]))]) for i in range(Lh - 1)] + [np.array([int(path[-1])])]
            phi = ptn.MPS(H.qd, qD, fill='random', rng=rs)
        else:
            H = herm_mpo(rs, Lh, 2, False); phi = rand_mps(rs, Lh, 2, False)
        if ptn.norm(phi) == 0:
            return {'skip': 'zero state'}
        other = rand_mps(rs, Lh, 2, False)
        operands = [H, phi, other]
        if op == 'tdvp_singlesite':
            call = lambda: ptn.integrate_local_singlesite(H, phi, 0.05j, 1, numiter_lanczos=4)
        elif op == 'tdvp_twosite':
            call = lambda: ptn.integrate_local_twosite(H, phi, 0.05j, 1, numiter_lanczos=4, tol_split=1e-8)
        elif op == 'dmrg_singlesite':
            call = lambda: ptn.calculate_ground_state_local_singlesite(H, phi, 1, numiter_lanczos=4)
        else:
            call = lambda: ptn.calculate_ground_state_local_twosite(H, phi, 1, numiter_lanczos=4, tol_split=1e-8)
    elif op == 'graph_add':
        g, _ = rand_graph(rs, L); h, _ = rand_graph(rs, L)
        if rs.random() < 0.6:
            # ids of the two graphs pairwise disjoint (no clash at all) or partially clashing
            off = 1000 if rs.random() < 0.7 else 2
            for nid in sorted(h.nodes.keys(), reverse=True):
                h.rename_node_id(nid, nid + off)
            for eid in sorted(h.edges.keys(), reverse=True):
                h.rename_edge_id(eid, eid + off)
        operands = [g, h]; call = lambda: g.add(h)
    elif op == 'graph_simplify':
        g, _ = rand_graph(rs, L); h, _ = rand_graph(rs, L); operands = [g, h]; call = lambda: g.simplify()
    elif op == 'graph_flip':
        g, _ = rand_graph(rs, L); h, _ = rand_graph(rs, L); operands = [g, h]; call = lambda: g.flip()
    else:
        raise ValueError(op)
    before = [digest(o) for o in operands]
    inplace = op in ('mps_orthonormalize', 'mpo_orthonormalize', 'mps_compress', 'tdvp_singlesite', 'tdvp_twosite',
                     'dmrg_singlesite', 'dmrg_twosite', 'graph_add', 'graph_simplify', 'graph_flip')
    err = None
    res = None
    try:
        res = call()
    except Exception as e:
        err = type(e).__name__
    after = [digest(o) for o in operands]
    changed = [a != b for a, b in zip(before, after)]
    if err is not None:
        # a raising call (e.g. operands outside the documented domain) is not judged by C19 except that
        # a pure operation must still leave its operands alone
        return {'error': err, 'changed': changed, 'shares': False, 'followup_changed': False, 'n_operands': len(operands), 'result_kind': 'raised'}
    self_alias = False
    if inplace:
        # result of an in-place algorithm is a number (or self): aliasing is judged on the non-target operands
        tgt = 1 if op.startswith(('tdvp', 'dmrg')) else 0
        others = [o for k, o in enumerate(operands) if k != tgt]
        sh = shares(operands[tgt], others)
        fu_before = [digest(o) for o in others]
        followups(operands[tgt], rs)
        fu_changed = [digest(o) for o in others] != fu_before
        kind = 'target'
    elif isinstance(res, (ptn.MPS, ptn.MPO, ptn.OpGraph)):
        # the sharing clause of the property speaks about returned MPS / MPO / operator graphs
        sh = shares(res, operands)
        # the tensors of one returned MPS / MPO must not be views of each other either: an in-place edit of one site tensor
        # (a follow-up mutation the property quantifies over) would silently edit another site
        if isinstance(res, (ptn.MPS, ptn.MPO)):
            arrs = [a for a in list(res.A) + list(res.qD) + [res.qd] if isinstance(a, np.ndarray) and a.size]
            for i in range(len(arrs)):
                for j in range(i + 1, len(arrs)):
                    if np.shares_memory(arrs[i], arrs[j]):
                        self_alias = True
        fu_before = [digest(o) for o in operands]
        followups(res, rs)
        fu_changed = [digest(o) for o in operands] != fu_before
        kind = type(res).__name__
    else:
        # numbers and plain arrays: only "arguments unchanged" is demanded; views are recorded for information
        sh = False
        fu_changed = False
        kind = 'array-view' if shares(res, operands) else 'value'
    return {'changed': changed, 'shares': bool(sh), 'followup_changed': bool(fu_changed), 'n_operands': len(operands), 'result_kind': kind,
            'self_alias': bool(self_alias)}


def _kind(op):
    if op in ('mps_orthonormalize', 'mpo_orthonormalize', 'mps_compress', 'graph_add', 'graph_simplify', 'graph_flip'):
        return 0
    if op in ('tdvp_singlesite', 'tdvp_twosite', 'dmrg_singlesite', 'dmrg_twosite'):
        return 1
    return None


def prop(case, r):
    if case['op'] == 'static-writeset':
        # source-derived write-set exceeds the descriptor / function not analysable / result may keep a reference to an operand
        return ['static: ' + m for m in r.get('violations', [])] + ['static (result freshness): ' + m for m in r.get('sharing', [])]
    if 'skip' in r:
        return []
    if case['op'] == 'history':
        msgs = []
        for k, st in enumerate(r['steps']):
            t = _kind(st['op'])
            for i, c in enumerate(st['changed']):
                if c and i != t:
                    msgs.append('history step %d (%s): modified %s' % (k, st['op'], 'operand %d' % i if i < st.get('n_operands', 99) else 'an object that is not even an operand'))
            if st['shares']:
                msgs.append('history step %d (%s): result shares memory with a pool object' % (k, st['op']))
            if st['followup_changed']:
                msgs.append('history step %d (%s): in-place mutation of the result altered a pool object' % (k, st['op']))
        return msgs
    msgs = []
    t = _kind(case['op'])
    for i, c in enumerate(r['changed']):
        if c and i != t:
            msgs.append('%s modified operand %d' % (case['op'], i))
    if r['shares']:
        msgs.append('%s: result shares memory/identity with an operand' % case['op'])
    if r['followup_changed']:
        msgs.append('%s: in-place mutation of the result altered an operand' % case['op'])
    if r.get('self_alias'):
        msgs.append('%s: two tensors of the returned object share memory (an in-place edit of one site edits another)' % case['op'])
    return msgs


def no_input(case, r, msgs):
    """the static write-set analysis over-approximates: when it no longer derives the modelled descriptor from the source
    (or gives up on a construct), the tie between source and Model/Alias.v is broken, but no failing input is exhibited"""
    return case.get('op') == 'static-writeset'


def coq(case, r):
    if case['op'] == 'static-writeset':
        return 'static_check %s' % r['table']
    if case['op'] == 'history':
        terms = ['obs_ok (desc_of Op_%s) %s %s %s' % (st['op'], E.lst([E.boolean(b) for b in st['changed']]),
                                                       E.boolean(st['shares']), E.boolean(st['followup_changed'])) for st in r['steps']]
        return ' && '.join(['true'] + terms)
    if 'skip' in r or 'changed' not in r:
        return None
    return 'obs_ok (desc_of Op_%s) %s %s %s' % (case['op'], E.lst([E.boolean(b) for b in r['changed']]),
                                                 E.boolean(r['shares']), E.boolean(r['followup_changed']))


def coq_diag(case, r):
    if case['op'] == 'static-writeset':
        return 'filter (fun r => negb (row_ok r)) %s' % r['table']
    return coq(case, r) or 'true'


def klass(case, r):
    if case['op'] == 'static-writeset':
        return 'static-writeset/%d-rows/%d-functions' % (len(r.get('rows', [])), r.get('stats', {}).get('functions', 0))
    if case['op'] == 'history':
        return 'history/%d-steps' % len(r.get('steps', []))
    if 'skip' in r:
        return case['op'] + '/skip'
    return '%s/%s/%s' % (case['op'], r.get('result_kind', '?'), 'target-written' if any(r.get('changed', [])) else 'no-writes')


def nontrivial(case, r):
    if case['op'] == 'static-writeset':
        return len(r.get('rows', [])) >= 38 and 'crash' not in r
    if case['op'] == 'history':
        return len(r.get('steps', [])) >= 2
    return 'error' not in r and 'skip' not in r
