"""C14 — Lanczos and Arnoldi iterations satisfy their Krylov factorisation relations (pytenet/krylov.py:8-101)."""
import numpy as np
import emit as E
from props import krylov_common as KC

PROP = 'C14'
COQ_IMPORTS = ['PT.Base.Scalar', 'PT.Base.Field', 'PT.Model.Krylov']
COQ_PREAMBLE = KC.COQ_PREAMBLE
FORM = ('R (replay): numpy.linalg.norm answers recorded inside krylov.py; the model (Model/Krylov.v at CQ = Qc[i]) runs with '
        'Afunc = product with the same dyadic matrix and the recorded norms as oracle (lookup by the contract r^2 = |x|^2, 1e-9). '
        'Step-wise on every case: each pass of the loop body is run by the model from the implementation\'s own state '
        '(its V[:, :j+1], beta[:j]) and must reproduce alpha[j], beta[j], V[:, j+1], the breakdown decision and the output '
        'shapes / RuntimeWarning; additionally the whole model run is compared when at most 2 vectors are returned (3 for Lanczos with n <= 3) '
        '(exact rational arithmetic makes numerators triple in length per iteration). Values 1e-9 scale-aware, compared in Coq; '
        'shapes, warning flag and zeros of H below the subdiagonal exactly.')
RULE = ('n in 1..7 (quick mostly <= 5), numiter in 1..n (lanczos also n+1: forced breakdown); real symmetric / complex Hermitian '
        '(Lanczos) and real / complex general (Arnoldi) matrices with dyadic entries k/4: generic, degenerate spectrum (few integer '
        'eigenvalues rotated by dyadic Householder reflections), scalar and zero matrices; start vectors generic complex, real, in an '
        'invariant subspace or an eigenvector (early termination), plus the zero vector (AssertionError on both sides). '
        'non-trivial = at least two vectors returned; distinct by (A, v, numiter, routine)')
SHARD = 6
IMPL_PARALLEL = True
TRUSTED = ['hand-written Gallina mirror of krylov.py (Model/Krylov.v), tied to the code by the replay above',
           'numpy.linalg.norm meets r >= 0, r^2 = sum |x_i|^2 (checked to 1e-9 on every recorded call by the oracle lookup)',
           'numpy reference computations in harness/props/krylov_common.py (stage C search only)']
PARTIAL = ('proved for the model, all n >= 1, numiter >= 1, every ordered field (Properties/C14.v): the calls return; sizes (len alpha = k, '
           'len beta = k-1, k <= numiter, warning <-> k < numiter); orthonormal columns; beta_j > 0; three-term recurrence; V^H A V = tridiag; '
           'Arnoldi: orthonormal V, H upper Hessenberg, A v_j = sum_{i<=j+1} H_ij v_i with positive real subdiagonal, H = V^H A V. '
           'Early termination on an EXACTLY zero residual (warning issued and the norm answer is 0, or the residual recomputed from the returned '
           'state is the zero vector) closes the last column: A V = V tridiag(alpha, beta) resp. A V = V H for all k returned columns '
           '(C14_lanczos/arnoldi_zero_resid_AV_V?, C14_lanczos/arnoldi_exact_breakdown_AV_V?); for a small non-zero residual nothing is claimed. '
           'Hypotheses: Afunc maps length n to length n and is self-adjoint w.r.t. vdot (Lanczos; proved for x -> A x with Hermitian A), '
           'numpy.linalg.norm meets its contract on the issued calls, the breakdown test only lets positive norms pass. '
           'Only validated, not proved: that the mirror equals krylov.py (replay), and floating-point effects '
           '(loss of orthogonality, a breakdown test decided by rounding noise).')
ASSUMPTIONS = ['cases with a recorded loop norm in [100 n eps max(1, max|A v0|), 1e-6 max|A_ij|) (floating point noise decides the breakdown test) are '
               'excluded from the correspondence and counted in the class "ambiguous"']

SPECS = ['generic'] * 10 + ['degenerate'] * 6 + ['scalar', 'zero']
STARTS = ['generic'] * 4 + ['real'] + ['invariant'] * 3 + ['eigvec']


def _case(rng, routine, n, m, cplx, spectrum, start):
    herm = routine == 'lanczos'
    A, v = KC.gen_problem(rng, n, herm, cplx, spectrum, start)
    real_v = bool(np.all(v.imag == 0)) and rng.random() < 0.7
    return {'routine': routine, 'n': n, 'm': m, 'A': KC.c2j(A), 'v': KC.c2j(v), 'real_A': not cplx, 'real_v': real_v,
            'spectrum': spectrum, 'start': start}


def cases(rng, tier):
    out = []
    # fixed edge cases
    for routine in ('lanczos', 'arnoldi'):
        out.append(_case(rng, routine, 1, 1, False, 'generic', 'generic'))
        out.append(_case(rng, routine, 1, 1, True, 'generic', 'generic'))
        out.append(_case(rng, routine, 2, 2, True, 'zero', 'generic'))
        out.append(_case(rng, routine, 3, 3, False, 'scalar', 'real'))
        c = _case(rng, routine, 3, 2, True, 'generic', 'generic')
        c['v'] = KC.c2j(np.zeros(3))
        c['start'] = 'zero-vector'
        out.append(c)
    # matrix-free maps that return their own argument or a view of it (identity and the exchange matrix, both Hermitian):
    # the iteration must not write into what Afunc returned
    for routine in ('lanczos', 'arnoldi'):
        for n, m in ((2, 2), (3, 2), (4, 3), (3, 4 if routine == 'lanczos' else 3)):
            for af in ('identity-alias', 'reverse-view'):
                c = _case(rng, routine, n, m, False, 'generic', 'generic')
                c['A'] = KC.c2j(np.eye(n) if af == 'identity-alias' else np.eye(n)[::-1])
                c['real_A'] = True
                c['afunc'] = af
                c['spectrum'] = af
                out.append(c)
    N = {'quick': 100, 'thorough': 900, 'search': 300}[tier]
    sizes = [2, 2, 3, 3, 3, 4, 4, 4, 5, 5, 6, 7] if tier != 'quick' else [2, 2, 3, 3, 3, 3, 4, 4, 4, 4, 5, 5, 5, 6, 7]
    for _ in range(N):
        routine = rng.choice(['lanczos', 'arnoldi'])
        n = rng.choice(sizes)
        m = 1 if rng.random() < 0.08 else rng.randint(min(2, n), n)
        if rng.random() < 0.45:
            m = n
        if routine == 'lanczos' and rng.random() < 0.08:
            m = n + 1
        out.append(_case(rng, routine, n, m, rng.random() < 0.55, rng.choice(SPECS), rng.choice(STARTS)))
    KC.add_magnitudes(rng, out)
    # large spaces (implementation-level only): n >> numiter, matrix-free Householder-rotated diagonal map, start vector in a
    # kdim-dimensional invariant subspace: the breakdown test (100 n eps max(1, max|A v0|), n the vector length) must recognise the exhausted space
    for n, m, kdim, scale in {'quick': ((10000, 4, 2, 1e3), (4000, 5, 3, 10.0), (300, 6, 2, 1.0)),
                              'thorough': ((10000, 4, 2, 1e3), (4000, 5, 3, 10.0), (300, 6, 2, 1.0), (20000, 3, 1, 1e3), (1000, 8, 4, 10.0)),
                              'search': ((10000, 4, 2, 1e3),)}[tier]:
        for routine in ('lanczos', 'arnoldi'):
            out.append({'routine': routine, 'big': True, 'n': n, 'm': m, 'kdim': kdim, 'scale': scale, 'seed': rng.getrandbits(30),
                        'spectrum': 'big', 'start': 'invariant', 'real_A': False})
    # start vectors whose norm is one, or within 1e-12 .. 1e-5 of one (implementation-level only: binary64 entries)
    for routine in ('lanczos', 'arnoldi'):
        for dn in (0.0, 4e-6, -3e-7, 1e-9, 2e-12):
            c = _case(rng, routine, 6, 4, True, 'generic', 'generic')
            v = KC.j2c(c['v'])
            v = v / np.linalg.norm(v) * (1.0 + dn)
            c['v'] = KC.c2j(v); c['real_v'] = False; c['proponly'] = True; c['start'] = 'norm=1%+g' % dn
            out.append(c)
    return out


def _impl_big(case):
    import pytenet.krylov as kr
    rs = np.random.default_rng(case['seed'])
    n, m, kd, scale = case['n'], case['m'], case['kdim'], case['scale']
    u = rs.standard_normal(n) + 1j * rs.standard_normal(n)
    u /= np.linalg.norm(u)
    d = scale * rs.uniform(0.5, 1.5, n) * rs.choice([-1, 1], n)
    Q = lambda x: x - 2 * u * np.vdot(u, x)          # Householder reflection: unitary and Hermitian
    Afunc = lambda x: Q(d * Q(x))
    e = np.zeros(n, dtype=complex)
    e[:kd] = rs.standard_normal(kd) + 1j * rs.standard_normal(kd)
    v = Q(e)
    try:
        with KC.Recorder() as rec:
            out = (kr.lanczos_iteration if case['routine'] == 'lanczos' else kr.arnoldi_iteration)(Afunc, v, m)
    except Exception as ex:
        return {'error': type(ex).__name__}
    if case['routine'] == 'lanczos':
        alpha, beta, V = out
        k = V.shape[1]
        sizes_ok = V.shape[0] == n and alpha.shape == (k,) and beta.shape == (max(k - 1, 0),)
        T = np.diag(np.asarray(alpha, dtype=complex)) + np.diag(np.asarray(beta, dtype=complex), 1) + np.diag(np.asarray(beta, dtype=complex), -1) if sizes_ok else None
        pos = bool(np.all(np.asarray(beta)[:kd - 1] > 0))
    else:
        H, V = out
        k = V.shape[1]
        sizes_ok = V.shape[0] == n and H.shape == (k, k)
        T = np.asarray(H, dtype=complex) if sizes_ok else None
        pos = True
    V0 = np.zeros(n, dtype=complex); V0[:] = v / np.linalg.norm(v)
    res = {'big': True, 'k': int(k), 'sizes_ok': bool(sizes_ok), 'warn': any(c == 'RuntimeWarning' for c, _ in rec.warns), 'pos': pos,
           'norms': rec.norms, 'mag': float(np.max(np.abs(Afunc(V0))))}
    if sizes_ok:
        L = min(k, kd)
        VL = V[:, :L]
        AV = np.stack([Afunc(VL[:, i]) for i in range(L)], axis=1)
        res['orth'] = float(np.abs(VL.conj().T @ VL - np.eye(L)).max())
        res['proj'] = float(np.abs(VL.conj().T @ AV - T[:L, :L]).max() / scale)
        res['first'] = float(abs(abs(np.vdot(V[:, 0], v)) - np.linalg.norm(v)) / np.linalg.norm(v))
    return res


def _prop_big(case, r):
    if 'error' in r:
        return ['routine raised %s' % r['error']]
    m, kd = case['m'], case['kdim']
    msgs = []
    if not r['sizes_ok'] or not (1 <= r['k'] <= m):
        return ['inconsistent output sizes (k=%d)' % r['k']]
    if r['k'] < min(m, kd):
        msgs.append('iteration stopped at %d although the Krylov space has dimension %d' % (r['k'], kd))
    # the exhausted space must be recognised whenever the residual norm recorded at the exhaustion point is below the documented
    # threshold 100 n eps max(1, |A v0|_inf) (n = length of the vectors); above it the test legitimately lets rounding noise pass
    if r['k'] > kd and len(r['norms']) > kd and r['norms'][kd] < KC.thr_of(case['n'], r.get('mag', 1.0)):
        msgs.append('%d vectors returned although the Krylov space has dimension %d (n=%d, numiter=%d): exhaustion not recognised' % (r['k'], kd, case['n'], m))
    if r['warn'] != (r['k'] < m):
        msgs.append('shortened output without breakdown warning or vice versa (k=%d, numiter=%d, warn=%s)' % (r['k'], m, r['warn']))
    if r['orth'] > 1e-8:
        msgs.append('vectors not orthonormal up to the exhaustion point (%.3g)' % r['orth'])
    if r['proj'] > 1e-8:
        msgs.append('V^H A V differs from the returned matrix up to the exhaustion point (%.3g)' % r['proj'])
    if r['first'] > 1e-9:
        msgs.append('first vector is not the normalised start vector')
    if not r['pos']:
        msgs.append('off-diagonal coefficient not positive')
    return msgs


def impl(case):
    if case.get('big'):
        return _impl_big(case)
    import pytenet.krylov as kr
    A, v = KC.make_arrays(case)
    f = kr.lanczos_iteration if case['routine'] == 'lanczos' else kr.arnoldi_iteration
    try:
        with KC.Recorder() as rec:
            afunc = {'identity-alias': (lambda x: x), 'reverse-view': (lambda x: x[::-1])}.get(case.get('afunc'), lambda x: A @ x)
            out = f(afunc, v, case['m'])
    except Exception as e:
        return {'error': type(e).__name__}
    r = KC.lanczos_json(out) if case['routine'] == 'lanczos' else KC.arnoldi_json(out)
    r['norms'] = rec.norms
    r['warn'] = any(c == 'RuntimeWarning' for c, _ in rec.warns)
    r['nwarn'] = len(rec.warns)
    r['other_warnings'] = sorted({c for c, _ in rec.warns if c != 'RuntimeWarning'})
    return r


def prop(case, r):
    if case.get('big'):
        return _prop_big(case, r)
    A, v = KC.make_arrays(case)
    if not np.any(v != 0):
        return [] if r.get('error') == 'AssertionError' else ['zero start vector accepted']
    if 'error' in r:
        return ['routine raised %s' % r['error']]
    d = KC.krylov_dim(np.asarray(A, dtype=complex), np.asarray(v, dtype=complex))
    if r['nwarn'] > 1 or r['other_warnings']:
        return ['unexpected warnings: %d issued, categories %s' % (r['nwarn'], r['other_warnings'])]
    if case['routine'] == 'lanczos':
        return KC.rel_lanczos(np.asarray(A, dtype=complex), np.asarray(v, dtype=complex), case['m'], r, d)
    return KC.rel_arnoldi(np.asarray(A, dtype=complex), np.asarray(v, dtype=complex), case['m'], r, d)


def _full(r):
    # whole-run replay in exact arithmetic: numerators triple in length per iteration (measured: Lanczos n=4, k=3: 60 s, 1.3 GB)
    k = len(r['V'])
    return k <= 2 or (k == 3 and 'alpha' in r and len(r['V'][0]) <= 3)


def coq(case, r):
    if case.get('big'):
        return None
    n, m = case['n'], case['m']
    v = KC.j2c(case['v'])
    if 'error' in r:
        fn = 'lanczos' if case['routine'] == 'lanczos' else 'arnoldi'
        return ('match %s QcF (matvec %s) (norm_tab QcF tol9 [qd 0 0%%N]) (small_thr QcF %s) %s %s with None => true | Some _ => false end'
                % (fn, KC.cmat(KC.j2c(case['A'])), KC.qd(KC.case_thr(case)), KC.cvec(v), E.nat(m)))
    if KC.ambiguous(r['norms'], n, KC.case_scale(case), KC.case_thr(case)) or case.get('mag') or case.get('proponly'):
        return None      # magnitude regimes: implementation-level property only (the tolerances of the Coq-side oracle lookup are absolute)
    head = KC.lanczos_args(case, r, r['norms'])
    if case['routine'] == 'lanczos':
        return 'check_lanczos %s %s %s %s %s' % (head, E.boolean(_full(r)), KC.cvec(v), E.nat(m), KC.lanczos_out(r, r['warn']))
    return 'check_arnoldi %s %s %s %s %s' % (head, E.boolean(_full(r)), KC.cvec(v), E.nat(m), KC.arnoldi_out(r, r['warn']))


def coq_diag(case, r):
    n, m = case['n'], case['m']
    v = KC.j2c(case['v'])
    fn = 'lanczos' if case['routine'] == 'lanczos' else 'arnoldi'
    return ('%s QcF (matvec %s) (norm_tab QcF tol9 %s) (small_thr QcF %s) %s %s'
            % (fn, KC.cmat(KC.j2c(case['A'])), KC.qdlist(r.get('norms', [0.0])), KC.qd(KC.case_thr(case)), KC.cvec(v), E.nat(min(m, 3))))


def klass(case, r):
    if 'error' in r:
        return '%s/error:%s' % (case['routine'], r['error'])
    if case.get('big'):
        return '%s/large-space/n%d/%s' % (case['routine'], case['n'], 'breakdown' if r['warn'] else 'complete')
    amb = '/ambiguous' if KC.ambiguous(r['norms'], case['n'], KC.case_scale(case), KC.case_thr(case)) else ''
    spec = case['spectrum'] if case['spectrum'] in ('generic', 'degenerate') else 'trivialA'
    start = 'invariant-start' if case['start'] in ('invariant', 'eigvec') else 'generic-start'
    return '%s/%s/%s/%s/%s%s%s' % (case['routine'], 'real' if case['real_A'] else 'cplx', spec, start,
                                   'breakdown' if r['warn'] else 'complete', '/full-run' if _full(r) else '/stepwise', amb)


def nontrivial(case, r):
    if case.get('big'):
        return 'error' not in r and r['k'] >= 2
    return 'error' not in r and len(r['V']) >= 2
