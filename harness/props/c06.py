"""C06 — built-in lattice Hamiltonians equal their textbook definitions."""
import numpy as np
import gen as G
import hamref as HR

PROP = 'C06'
COQ_IMPORTS = ['PT.Base.Scalar']
FORM = 'see coq(): chain tables / graph denotation where the model is available'
RULE = ('models: Ising, XXZ spin-1/2, XXZ spin-1, Bose-Hubbard (d in 1..4), Fermi-Hubbard, linear fermionic (both types, complex coefficients); '
        'L from 1 (chains shorter than the longest local term) to dense reach (d=2: 8, d=3: 5, d=4: 4); parameters from {0, 1, -1, dyadic, generic} '
        'excluding only the identically-zero operator; non-trivial = L >= 2 and at least two non-zero parameters; distinct by (model, L, parameters)')
IMPL_PARALLEL = True

VALS = [0.0, 1.0, -1.0, 0.5, -0.25, 2.0, 1.3, -0.7]


def cases(rng, tier):
    n = {'quick': 220, 'thorough': 2000, 'search': 220}[tier]
    out = []
    for k in range(n):
        model = rng.choice(['ising', 'xxz', 'xxz1', 'bose', 'fermi', 'linferm'])
        p = [rng.choice(VALS) if rng.random() < 0.8 else round(rng.uniform(-2, 2), 3) for _ in range(3)]
        c = {'model': model, 'p': p, 'seed': rng.getrandbits(30)}
        if model in ('ising', 'xxz'):
            c['L'] = rng.choice([1, 2, 2, 3, 4, 5, 6, 7, 8])
        elif model == 'xxz1':
            c['L'] = rng.choice([1, 2, 3, 4, 5])
        elif model == 'bose':
            c['d'] = rng.choice([1, 2, 3, 4]); c['L'] = rng.choice([1, 2, 3, 4] if c['d'] >= 3 else [1, 2, 3, 4, 5, 6])
        elif model == 'fermi':
            c['L'] = rng.choice([1, 2, 3, 4])
        else:
            c['L'] = rng.choice([1, 2, 3, 4, 5, 6, 7]); c['ftype'] = rng.choice(['c', 'a', 'create', 'annihil'])
        out.append(c)
    return out


def build(case):
    import pytenet as ptn
    m, L, p = case['model'], case['L'], case['p']
    if m == 'ising':
        return ptn.ising_mpo(L, *p), HR.ising(L, *p), 2
    if m == 'xxz':
        return ptn.heisenberg_xxz_mpo(L, *p), HR.xxz(L, *p, s2=1), 2
    if m == 'xxz1':
        return ptn.heisenberg_xxz_spin1_mpo(L, *p), HR.xxz(L, *p, s2=2), 3
    if m == 'bose':
        return ptn.bose_hubbard_mpo(case['d'], L, *p), HR.bose_hubbard(case['d'], L, *p), case['d']
    if m == 'fermi':
        return ptn.fermi_hubbard_mpo(L, *p), HR.fermi_hubbard(L, *p), 4
    rs = np.random.default_rng(case['seed'])
    co = rs.integers(-2, 3, size=L) + 1j * rs.integers(-2, 3, size=L)
    if not np.any(co):
        co[0] = 1
    create = case['ftype'] in ('c', 'create', 'creation')
    return ptn.linear_fermionic_mpo(co, case['ftype']), HR.linear_fermionic(co, create), 2


def impl(case):
    import warnings
    warnings.simplefilter('ignore')
    try:
        H, ref, d = build(case)
    except Exception as e:
        import traceback
        tb = traceback.extract_tb(e.__traceback__)[-1]
        refzero = None
        try:
            # is the reference operator identically zero? (the only excluded case)
            m, L, p = case['model'], case['L'], case['p']
            refzero = bool(np.linalg.norm({'ising': lambda: HR.ising(L, *p), 'xxz': lambda: HR.xxz(L, *p, 1), 'xxz1': lambda: HR.xxz(L, *p, 2),
                                           'bose': lambda: HR.bose_hubbard(case.get('d', 2), L, *p), 'fermi': lambda: HR.fermi_hubbard(L, *p)}[m]()) == 0)
        except Exception:
            pass
        return {'error': type(e).__name__, 'detail': '%s [%s:%d]' % (str(e)[:120], tb.filename.split('/')[-1], tb.lineno), 'ref_zero': refzero}
    M = G.mpo_dense(H.A)
    Msp = H.as_matrix(sparse_format=True).toarray() if H.nsites >= 1 else M
    Mpt = H.as_matrix()
    scale = 1.0 + float(np.linalg.norm(ref))
    real_params = True
    return {'err': float(np.linalg.norm(M - ref)) / scale, 'err_asmatrix': float(np.linalg.norm(Mpt - ref)) / scale,
            'err_sparse': float(np.linalg.norm(Msp - ref)) / scale,
            'herm': float(np.linalg.norm(M - M.conj().T)) / scale, 'sparsity': G.mpo_sparsity_ok(H),
            'dims': [int(x) for x in H.bond_dims], 'nsites': int(H.nsites),
            'boundary_q': [int(H.qD[0][0]), int(H.qD[-1][0])], 'refnorm': float(np.linalg.norm(ref))}


def prop(case, r):
    if 'error' in r:
        if r.get('ref_zero'):
            return []          # identically-zero operator: excluded by the property
        return ['%s constructor raised %s: %s' % (case['model'], r['error'], r.get('detail', ''))]
    msgs = []
    if max(r['err'], r['err_asmatrix'], r['err_sparse']) > 1e-11:
        msgs.append('dense matrix differs from the documented formula (relative %.3g)' % max(r['err'], r['err_asmatrix'], r['err_sparse']))
    if case['model'] != 'linferm' and r['herm'] > 1e-12:
        msgs.append('Hamiltonian is not Hermitian for real parameters (%.3g)' % r['herm'])
    if r['sparsity']:
        msgs.append('MPO tensors not block sparse under the returned quantum numbers: %s' % r['sparsity'])
    if r['nsites'] != case['L']:
        msgs.append('MPO has %d sites, requested %d' % (r['nsites'], case['L']))
    if case['model'] == 'linferm':
        want = 1 if case['ftype'] in ('c', 'create', 'creation') else -1
        if r['boundary_q'][1] - r['boundary_q'][0] != want:
            msgs.append('linear fermionic operator shifts particle number by %d, expected %d' % (r['boundary_q'][1] - r['boundary_q'][0], want))
    elif r['boundary_q'] != [0, 0]:
        msgs.append('model Hamiltonian does not conserve its quantum number (boundary charges %s)' % r['boundary_q'])
    return msgs


def coq(case, r):
    return None


def klass(case, r):
    if 'error' in r:
        return case['model'] + ('/zero-operator' if r.get('ref_zero') else '/error')
    nz = sum(1 for x in case['p'] if x != 0)
    return '%s/L%d/%dnonzero' % (case['model'], min(case['L'], 4), nz)


def nontrivial(case, r):
    return 'error' not in r and case['L'] >= 2 and sum(1 for x in case['p'] if x != 0) >= 2
