"""C06 — built-in lattice Hamiltonians equal their textbook definitions."""
from fractions import Fraction
import numpy as np
import gen as G
import hamref as HR
import emit as E
import props.c05 as C5

PROP = 'C06'
# AutOp / HamIsing first: C17Common and FromOpchains both define [res]/[Ok]/[Err]; the later import wins for bare names
COQ_IMPORTS = ['PT.Base.Scalar', 'PT.Base.Mx', 'PT.Model.OpGraph', 'PT.Model.C17Common', 'PT.Model.AutOp', 'PT.Model.HamIsing',
               'PT.Model.Tensor', 'PT.Model.FromOpchains', 'PT.Model.GraphMPO', 'PT.Proofs.DenRev_C05', 'PT.Model.Hamiltonians']
COQ_PREAMBLE = (C5.COQ_PREAMBLE +
                'Definition lcq (o q : list Z) (c : QI) : chain QIring := @mkchain QIring o q c 0%nat.\n'
                'Definition ce (i a b : Z) (o : list (Z * QI)) : aedge QIring := @cedge QIring i a b o.\n'
                'Definition sqt (l : list QI) : nat -> QI := fun k => nth k l q0.\n'
                'Definition half : QI := qr 1 2.\n')
FORM = ('E (exact; every float parameter is an exact rational, instance QIring): the arguments captured at _local_opchains_to_mpo '
        '(qd, local chain table, operator map, identity id) are compared with the model tables of Model/Hamiltonians.v instantiated at the '
        "case's parameters; the graph captured at MPO.from_opgraph is compared with graph_eqb against the model's from_opchains graph on the "
        'shifted chain list (recorded covers and the model cover routine), is_consistent / length / linkage evaluated in Coq; Ising: captured '
        'automaton and graph vs Model/HamIsing.v through the from_automaton model of C17; linear fermionic: captured graph vs the fold-built '
        'and the closed-form model graph; bond dimensions vs layer widths; error class for the identically-zero operator')
SHARD = 25
TRUSTED = ['hand-written Gallina tables Model/Hamiltonians.v, Model/HamIsing.v, tied to the code by exact agreement on every generated case',
           'np.sqrt(2.) and np.sqrt(k) enter the operator maps of spin-1 / bosons as recorded binary64 values (abstract elements in the theorems)',
           'independent dense references harness/hamref.py (own Jordan-Wigner operators) - search only']
PARTIAL = ('proved for all L >= 1 and all parameters (Properties/C06.v): the shift loop enumerates exactly the identity-padded translates that fit; '
           'every graph from_opchains returns for the four chain-built models denotes the textbook word sum (L = 1, 2 included); the linear '
           'fermionic graph denotes sum_i coeff_i I^i (C|A) Z^(L-1-i) for every L; the Ising automaton graph denotes the path sum of the '
           'automaton (C17) which equals the textbook word sum; kernel-checked finite facts: spin-1/2 and Fermi-Hubbard operator maps, '
           'XX+YY = (S+S- + S-S+)/2, Kronecker structure, word adjoint / Hermiticity of each table, charges of each operator. '
           'SUCCESS for every L >= 1 and all parameters (C06_xxz_total, C06_xxz1_total, C06_bose_total, C06_fermi_total, with C05 and the proved cover model): '
           'whenever some local chain that fits has a non-zero coefficient (some_term, equivalent to: not all resulting chain coefficients vanish) the shifted '
           'chain list is well formed, the constructor\'s graph exists, is linked, cannot fail is_consistent, has length L and denotes the textbook formula '
           '-- no "returns Ok" hypothesis. '
           'JORDAN-WIGNER LINK FOR EVERY L (Proofs/HamJW*.v): the second-quantised Fermi-Hubbard formula -t sum (a+_{i,s} a_{i+1,s} + h.c.) + U sum (n_up - 1/2)(n_dn - 1/2) '
           '- mu sum (n_up + n_dn) is written literally with Jordan-Wigner mode operators a_k = I^k a Z^(2L-1-k) on 2L modes (0 up, 0 dn, 1 up, ...; products sitewise with '
           'the signs of the checked 2x2 table omul); for every L the Z strings cancel outside the two sites (C06_jw_padding, C06_jw_hopping_words, C06_jw_number_words) and the '
           'textbook word sum of the constructor graph, every site letter replaced by its expansion into pairs of mode letters (table exact entry by entry over any ring with '
           'half + half = 1, C06_fermi_letter_entries), equals the formula on every mode word (C06_fermi_hubbard_jw_all_L, C06_fermi_hubbard_graph_jw); letter substitution preserves '
           'matrix elements for any number of sites (C06_fermi_expand_sem), so every matrix element of the MPO equals that of the second-quantised formula between occupation-number '
           'states for every L >= 1 (C06_fermi_hubbard_dense_jw, under the per-case checked hypotheses of C06_spec_mpo: linked graph, from_opgraph returns, last layer = end terminal); '
           'linear fermionic graph = sum_i coeff_i JW(a+_i | a_i) with the same words (C06_linferm_jw); boson map: b+ b = n, [b, b+] = 1 below the top level (-(d-1) on it), '
           '2 (n(n-1)/2) = n(n-1) over any ring from sq k * sq k = k alone (C06_bose_opmap_relations). '
           'NOT proved: dense-matrix equality for all L for the spin and boson models '
           '(only through C05_chains_to_mpo under its per-case hypotheses); that sitewise word products are matrix products is used through the checked 2x2 table only '
           '(mixed-product property of the Kronecker product not restated); sqrt entries of spin-1 / boson maps stay abstract elements with the stated square.')
ASSUMPTIONS = ['"documented formula" = the docstring read with: first site most significant, Jordan-Wigner strings to the right (I..I a Z..Z), local basis |n_up n_dn>']
RULE = ('models: Ising, XXZ spin-1/2, XXZ spin-1, Bose-Hubbard (d in 1..4), Fermi-Hubbard, linear fermionic (both types, complex coefficients); '
        'L from 1 (chains shorter than the longest local term) to dense reach (d=2: 8, d=3: 5, d=4: 4); parameters from {0, 1, -1, dyadic, generic} '
        'excluding only the identically-zero operator; non-trivial = L >= 2 and at least two non-zero parameters; distinct by (model, L, parameters)')
IMPL_PARALLEL = True

VALS = [0.0, 1.0, -1.0, 0.5, -0.25, 2.0, 1.3, -0.7]


def cases(rng, tier):
    n = {'quick': 400, 'thorough': 2000, 'search': 220}[tier]
    out = []
    for k in range(n):
        model = rng.choice(['ising', 'xxz', 'xxz1', 'bose', 'fermi', 'linferm'])
        p = [rng.choice(VALS) if rng.random() < 0.8 else round(rng.uniform(-2, 2), 3) for _ in range(3)]
        c = {'model': model, 'p': p, 'seed': rng.getrandbits(30)}
        if model in ('ising', 'xxz'):
            c['L'] = rng.choice([1, 2, 2, 3, 4, 5, 6, 7, 8])
        elif model == 'xxz1':
            c['L'] = rng.choice([1, 2, 3, 4, 5])
        elif model == 'bose':
            c['d'] = rng.choice([1, 2, 3, 4]); c['L'] = rng.choice([1, 2, 3, 4] if c['d'] >= 3 else [1, 2, 3, 4, 5, 6])
        elif model == 'fermi':
            c['L'] = rng.choice([1, 2, 3, 4])
        else:
            c['L'] = rng.choice([1, 2, 3, 4, 5, 6, 7]); c['ftype'] = rng.choice(['c', 'a', 'create', 'annihil'])
        _magnitude(rng, c)
        if rng.random() < 0.15:
            c['twice'] = True
        out.append(c)
    # correspondence-only cases (no dense reference): every model for L in 1..7, parameters with zeros / ones / sign changes
    m = {'quick': 240, 'thorough': 700, 'search': 0}[tier]
    for k in range(m):
        model = ['ising', 'xxz', 'xxz1', 'bose', 'fermi', 'linferm'][k % 6]
        p = [rng.choice(VALS[:6]) if rng.random() < 0.85 else rng.randint(-16, 16) / 8.0 for _ in range(3)]
        if rng.random() < 0.25:
            p[rng.randrange(3)] = 0.0
        c = {'model': model, 'p': p, 'seed': rng.getrandbits(30), 'L': rng.choice([1, 2, 3, 4, 5, 6, 7]), 'graphonly': True}
        if model == 'bose':
            c['d'] = rng.choice([1, 2, 3, 4, 5])
        if model == 'linferm':
            c['ftype'] = rng.choice(['c', 'a', 'creation', 'annihilation'])
        _magnitude(rng, c)
        out.append(c)
    return out


def _magnitude(rng, c):
    """magnitude regimes (powers of two: exact): all parameters tiny / large, or one parameter far below the others"""
    u = rng.random()
    if u < 0.12:
        k = rng.choice([-40, -30, -27, 24])
        c['p'] = [x * 2.0 ** k for x in c['p']]
        c['mag'] = k
    elif u < 0.2:
        i = rng.randrange(3)
        c['p'][i] = c['p'][i] * 2.0 ** -30
        c['mag1'] = i


def build(case):
    import pytenet as ptn
    m, L, p = case['model'], case['L'], case['p']
    if case.get('graphonly'):
        if m == 'linferm':
            rs = np.random.default_rng(case['seed'])
            co = rs.integers(-2, 3, size=L) + 1j * rs.integers(-2, 3, size=L)
            if not np.any(co):
                co[0] = 1
            co = co * 2.0 ** case.get('mag', 0)
            return ptn.linear_fermionic_mpo(co, case['ftype']), None, 2
        f = {'ising': lambda: ptn.ising_mpo(L, *p), 'xxz': lambda: ptn.heisenberg_xxz_mpo(L, *p), 'xxz1': lambda: ptn.heisenberg_xxz_spin1_mpo(L, *p),
             'bose': lambda: ptn.bose_hubbard_mpo(case['d'], L, *p), 'fermi': lambda: ptn.fermi_hubbard_mpo(L, *p)}[m]
        return f(), None, None
    if m == 'ising':
        return ptn.ising_mpo(L, *p), HR.ising(L, *p), 2
    if m == 'xxz':
        return ptn.heisenberg_xxz_mpo(L, *p), HR.xxz(L, *p, s2=1), 2
    if m == 'xxz1':
        return ptn.heisenberg_xxz_spin1_mpo(L, *p), HR.xxz(L, *p, s2=2), 3
    if m == 'bose':
        return ptn.bose_hubbard_mpo(case['d'], L, *p), HR.bose_hubbard(case['d'], L, *p), case['d']
    if m == 'fermi':
        return ptn.fermi_hubbard_mpo(L, *p), HR.fermi_hubbard(L, *p), 4
    rs = np.random.default_rng(case['seed'])
    co = rs.integers(-2, 3, size=L) + 1j * rs.integers(-2, 3, size=L)
    if not np.any(co):
        co[0] = 1
    co = co * 2.0 ** case.get('mag', 0)
    create = case['ftype'] in ('c', 'create', 'creation')
    return ptn.linear_fermionic_mpo(co, case['ftype']), HR.linear_fermionic(co, create), 2


class _Hooks:
    """wrap (from the outside) the names the constructors use: _local_opchains_to_mpo, MPO.from_opgraph,
    OpGraph.from_automaton, and the cover routine inside from_opchains; record their arguments"""

    def __init__(self, cap):
        self.cap = cap

    def __enter__(self):
        import pytenet.hamiltonian as ham
        import pytenet.opgraph as og
        import pytenet.mpo as pm
        cap = self.cap
        self.ham, self.og, self.pm = ham, og, pm
        # private names may be renamed or moved by a harmless refactoring: a hook that cannot be placed is recorded (the tie is then
        # reported as broken, 'no-failing-input-found'); the implementation still runs and the property is still evaluated
        missing = cap.setdefault('hook_missing', [])
        self.o_loc = getattr(ham, '_local_opchains_to_mpo', None)
        self.o_fog = pm.MPO.__dict__.get('from_opgraph')
        self.o_fa = og.OpGraph.__dict__.get('from_automaton')
        self.o_bg, self.o_mvc = getattr(og, 'BipartiteGraph', None), getattr(og, 'minimum_vertex_cover', None)
        for nm, o in (('hamiltonian._local_opchains_to_mpo', self.o_loc), ('MPO.from_opgraph', self.o_fog), ('OpGraph.from_automaton', self.o_fa),
                      ('opgraph.BipartiteGraph', self.o_bg), ('opgraph.minimum_vertex_cover', self.o_mvc)):
            if o is None:
                missing.append(nm)
        covers = cap.setdefault('covers', [])
        if self.o_bg is None:
            self.o_bg = object

        def loc(qd, lopchains, size, opmap, oid_identity):
            cap['loc'] = {'qd': [int(x) for x in qd], 'size': int(size), 'idn': int(oid_identity),
                          'lop': [{'oids': [int(o) for o in c.oids], 'qnums': [int(q) for q in c.qnums], 'coeff': float(c.coeff),
                                   'istart': int(c.istart)} for c in lopchains],
                          'opmap': {str(int(k)): np.asarray(v, dtype=float).tolist() for k, v in opmap.items()}}
            return self.o_loc(qd, lopchains, size, opmap, oid_identity)

        def fog(cls, qd, graph, opmap, compute_nid_map=False):
            cap['fog'] = {'qd': [int(x) for x in qd], 'graph': C5._gjson(graph),
                          'opmap': {str(int(k)): np.asarray(v, dtype=float).tolist() for k, v in opmap.items()}}
            return self.o_fog.__func__(cls, qd, graph, opmap, compute_nid_map)

        def fa(cls, autop, length):
            def const(x):
                assert not callable(x)
                return x
            cap['aut'] = {'nodes': [[int(n.nid), [int(x) for x in n.eids[0]], [int(x) for x in n.eids[1]], int(n.qnum)] for n in autop.nodes.values()],
                          'edges': [[int(e.eid), int(e.nids[0]), int(e.nids[1]), [[int(i), float(c)] for i, c in const(e.opics)], bool(const(e.active))]
                                    for e in autop.edges.values()],
                          't': [int(autop.nid_terminal[0]), int(autop.nid_terminal[1])], 'L': int(length)}
            return self.o_fa.__func__(cls, autop, length)

        class RecBG(self.o_bg):
            def __init__(self, num_u, num_v, edges):
                self._rec_edges = [(int(a), int(b)) for a, b in edges]
                super().__init__(num_u, num_v, edges)

        def rec_mvc(graph):
            uc, vc = self.o_mvc(graph)
            covers.append({'nu': int(graph.num_u), 'nv': int(graph.num_v), 'edges': [list(e) for e in getattr(graph, '_rec_edges', [])],
                           'uc': [int(x) for x in uc], 'vc': [int(x) for x in vc]})
            return uc, vc
        if 'hamiltonian._local_opchains_to_mpo' not in missing:
            ham._local_opchains_to_mpo = loc
        if 'MPO.from_opgraph' not in missing:
            pm.MPO.from_opgraph = classmethod(fog)
        if 'OpGraph.from_automaton' not in missing:
            og.OpGraph.from_automaton = classmethod(fa)
        if 'opgraph.BipartiteGraph' not in missing and 'opgraph.minimum_vertex_cover' not in missing:
            og.BipartiteGraph, og.minimum_vertex_cover = RecBG, rec_mvc
        self._missing = list(missing)
        return self

    def __exit__(self, *a):
        m = self._missing
        if 'hamiltonian._local_opchains_to_mpo' not in m:
            self.ham._local_opchains_to_mpo = self.o_loc
        if 'MPO.from_opgraph' not in m:
            self.pm.MPO.from_opgraph = self.o_fog
        if 'OpGraph.from_automaton' not in m:
            self.og.OpGraph.from_automaton = self.o_fa
        if 'opgraph.BipartiteGraph' not in m and 'opgraph.minimum_vertex_cover' not in m:
            self.og.BipartiteGraph, self.og.minimum_vertex_cover = self.o_bg, self.o_mvc
        return False


def _zero_operator(case):
    """independent of the code: is the documented operator identically zero for these parameters?"""
    m, L, p = case['model'], case['L'], case['p']
    if m in ('xxz', 'xxz1'):
        return p[2] == 0 and (L < 2 or (p[0] == 0 and p[1] == 0))
    if m in ('bose', 'fermi'):
        return p[1] == 0 and p[2] == 0 and (L < 2 or p[0] == 0)
    return None


def impl(case):
    import warnings
    warnings.simplefilter('ignore')
    cap = {}
    try:
        if case.get('twice'):
            # an earlier result of the same constructor call is modified in place (charges switched off, tensors rescaled,
            # orthonormalised) before the call that is judged: constructors must not hand out shared state
            try:
                H0 = build(case)[0]
            except Exception:
                H0 = None        # e.g. the excluded zero operator: the judged call below raises again and is handled there
            try:
                H0.zero_qnumbers()
                for a in H0.A:
                    a *= 3
                H0.orthonormalize(mode='left')
            except Exception:
                pass
        with _Hooks(cap):
            H, ref, d = build(case)
    except Exception as e:
        import traceback
        tb = traceback.extract_tb(e.__traceback__)[-1]
        refzero = None
        try:
            # is the reference operator identically zero? (the only excluded case)
            m, L, p = case['model'], case['L'], case['p']
            if case.get('graphonly'):
                refzero = _zero_operator(case)
            else:
                refzero = bool(np.linalg.norm({'ising': lambda: HR.ising(L, *p), 'xxz': lambda: HR.xxz(L, *p, 1), 'xxz1': lambda: HR.xxz(L, *p, 2),
                                               'bose': lambda: HR.bose_hubbard(case.get('d', 2), L, *p), 'fermi': lambda: HR.fermi_hubbard(L, *p)}[m]()) == 0)
        except Exception:
            pass
        return {'error': type(e).__name__, 'detail': '%s [%s:%d]' % (str(e)[:120], tb.filename.split('/')[-1], tb.lineno), 'ref_zero': refzero,
                'cap': cap}
    base = {'dims': [int(x) for x in H.bond_dims], 'nsites': int(H.nsites), 'sparsity': G.mpo_sparsity_ok(H),
            'boundary_q': [int(H.qD[0][0]), int(H.qD[-1][0])], 'cap': cap}
    if case['model'] == 'linferm':
        rs = np.random.default_rng(case['seed'])
        L = case['L']
        co = rs.integers(-2, 3, size=L) + 1j * rs.integers(-2, 3, size=L)
        if not np.any(co):
            co[0] = 1
        base['coeff'] = [[int(c.real), int(c.imag)] for c in co]
        base['cmag'] = int(case.get('mag', 0))      # the coefficients handed to the constructor are these times 2^cmag
    if ref is None:
        base['graphonly'] = True
        return base
    M = G.mpo_dense(H.A)
    Msp = H.as_matrix(sparse_format=True).toarray() if H.nsites >= 1 else M
    Mpt = H.as_matrix()
    scale = float(np.linalg.norm(ref)) or 1.0
    base.update({'err': float(np.linalg.norm(M - ref)) / scale, 'err_asmatrix': float(np.linalg.norm(Mpt - ref)) / scale,
                 'err_sparse': float(np.linalg.norm(Msp - ref)) / scale,
                 'herm': float(np.linalg.norm(M - M.conj().T)) / scale, 'refnorm': float(np.linalg.norm(ref))})
    return base


def prop(case, r):
    if 'error' in r:
        if r.get('ref_zero'):
            return []          # identically-zero operator: excluded by the property
        return ['%s constructor raised %s: %s' % (case['model'], r['error'], r.get('detail', ''))]
    msgs = []
    if not r.get('graphonly'):
        if max(r['err'], r['err_asmatrix'], r['err_sparse']) > 1e-11:
            msgs.append('dense matrix differs from the documented formula (relative %.3g)' % max(r['err'], r['err_asmatrix'], r['err_sparse']))
        if case['model'] != 'linferm' and r['herm'] > 1e-12:
            msgs.append('Hamiltonian is not Hermitian for real parameters (%.3g)' % r['herm'])
    if r['sparsity']:
        msgs.append('MPO tensors not block sparse under the returned quantum numbers: %s' % r['sparsity'])
    if r['nsites'] != case['L']:
        msgs.append('MPO has %d sites, requested %d' % (r['nsites'], case['L']))
    if case['model'] == 'linferm':
        want = 1 if case['ftype'] in ('c', 'create', 'creation') else -1
        if r['boundary_q'][1] - r['boundary_q'][0] != want:
            msgs.append('linear fermionic operator shifts particle number by %d, expected %d' % (r['boundary_q'][1] - r['boundary_q'][0], want))
    elif r['boundary_q'] != [0, 0]:
        msgs.append('model Hamiltonian does not conserve its quantum number (boundary charges %s)' % r['boundary_q'])
    return msgs


# --------------------------------------------------------------------------- model side
def _q(x):
    """exact rational of a python float as a QI literal"""
    return C5.qi_lit(Fraction(float(x)), 0)


def _mx(a):
    a = np.asarray(a, dtype=float)
    if a.ndim != 2:
        a = a.reshape(a.shape[0], -1)
    return '(mq %s %s %s)' % (E.nat(a.shape[0]), E.nat(a.shape[1]), E.lst([E.lst([_q(x) for x in row]) for row in a]))


def _opmap(om):
    return E.lst([E.pair(E.z(int(k)), _mx(v)) for k, v in om.items()])      # dictionary insertion order


def _spec(loc):
    lop = E.lst(['(@mkchain QIring %s %s %s %s)' % (E.zlist(c['oids']), E.zlist(c['qnums']), _q(c['coeff']), E.nat(c['istart'])) for c in loc['lop']])
    return '(@mkspec QIring %s %s %s %s)' % (E.zlist(loc['qd']), lop, _opmap(loc['opmap']), E.z(loc['idn']))


def _model_spec(case):
    m, p = case['model'], [_q(x) for x in case['p']]
    if m == 'xxz':
        return '(@xxz_spec QIring half %s %s %s)' % tuple(p)
    if m == 'xxz1':
        return '(@xxz1_spec QIring half %s %s %s %s)' % ((_q(float(np.sqrt(2.0))),) + tuple(p))
    if m == 'bose':
        d = case['d']
        return '(@bose_spec QIring %s (sqt %s) %s %s %s)' % ((E.nat(d), E.lst([_q(float(np.sqrt(float(k)))) for k in range(max(d, 1))])) + tuple(p))
    if m == 'fermi':
        return '(@fermi_spec QIring half %s %s %s)' % tuple(p)
    raise KeyError(m)


def _aut(a):
    nodes = E.lst(['(mknode %s %s %s %s)' % (E.z(n[0]), E.zlist(n[1]), E.zlist(n[2]), E.z(n[3])) for n in a['nodes']])
    edges = E.lst(['(ce %s %s %s %s)' % (E.z(e[0]), E.z(e[1]), E.z(e[2]), E.lst([E.pair(E.z(i), _q(c)) for i, c in e[3]])) for e in a['edges']])
    return '(@mkautop QIring %s %s %s %s)' % (nodes, edges, E.z(a['t'][0]), E.z(a['t'][1]))


def coq(case, r):
    cap = r.get('cap') or {}
    m, L = case['model'], case['L']
    if m in ('xxz', 'xxz1', 'bose', 'fermi'):
        loc = cap.get('loc')
        if loc is None:
            return 'false'            # the constructor no longer goes through _local_opchains_to_mpo
        tbl = C5.cover_lit(cap.get('covers', []))
        if 'error' in r:
            exp = '(FromOpchains.Err FromOpchains.%s)' % C5.ERRMAP.get(r['error'], 'EFuel')
            return 'Nat.eqb %s %s && check_ham (R := QIring) %s %s %s %s 1%%nat %s []' % (
                E.nat(loc['size']), E.nat(L), _model_spec(case), _spec(loc), E.nat(L), tbl, exp)
        fog = cap.get('fog')
        if fog is None:
            return 'false'
        g = C5.graph_lit(fog['graph'])
        return ('let g := %s in Nat.eqb %s %s && check_ham (R := QIring) %s %s %s %s %s (FromOpchains.Ok g) %s && hyp_ok g && '
                'zlist_eqb %s %s && opmap_eqb (R := QIring) %s %s') % (
            g, E.nat(loc['size']), E.nat(L), _model_spec(case), _spec(loc), E.nat(L), tbl, C5.big_nat(C5.bfs_fuel(fog['graph'])),
            E.natlist(r['dims']), E.zlist(loc['qd']), E.zlist(fog['qd']), _opmap(loc['opmap']), _opmap(fog['opmap']))
    if 'error' in r:
        return 'false'
    fog = cap.get('fog')
    if fog is None:
        return 'false'
    g = C5.graph_lit(fog['graph'])
    if m == 'ising':
        a = cap.get('aut')
        if a is None:
            return 'false'
        p = [_q(x) for x in case['p']]
        return ('let g := %s in Nat.eqb %s %s && check_ising (R := QIring) %s %s %s %s %s g && hyp_ok g && zlist_eqb [0; 0] %s && '
                'opmap_eqb (R := QIring) ising_opmap %s && match bond_dims g with Some ws => nat_list_eqb ws %s | None => false end') % (
            g, E.nat(a['L']), E.nat(L), p[0], p[1], p[2], E.nat(L), _aut(a), E.zlist(fog['qd']), _opmap(fog['opmap']), E.natlist(r['dims']))
    # linear fermionic
    co = E.lst([C5.qi_lit(Fraction(a) * Fraction(2) ** r.get('cmag', 0), Fraction(b) * Fraction(2) ** r.get('cmag', 0)) for a, b in r['coeff']])
    create = case['ftype'] in ('c', 'create', 'creation')
    return 'let g := %s in check_linferm (R := QIring) %s %s %s g %s && hyp_ok g && zlist_eqb [0; 1] %s' % (
        g, co, E.boolean(create), _opmap(fog['opmap']), E.natlist(r['dims']), E.zlist(fog['qd']))


def coq_diag(case, r):
    cap = r.get('cap') or {}
    m, L = case['model'], case['L']
    if m in ('xxz', 'xxz1', 'bose', 'fermi') and cap.get('loc'):
        return '(spec_eqb (R := QIring) %s %s, spec_graph (R := QIring) (cover_table %s) %s %s)' % (
            _model_spec(case), _spec(cap['loc']), C5.cover_lit(cap.get('covers', [])), _model_spec(case), E.nat(L))
    if m == 'ising':
        p = [_q(x) for x in case['p']]
        return 'from_automaton_r (@ising_autop QIring %s %s %s) %s' % (p[0], p[1], p[2], E.nat(L))
    if m == 'linferm' and 'coeff' in r:
        return 'linferm_build (R := QIring) %s %s' % (E.lst([C5.qi_lit(Fraction(a) * Fraction(2) ** r.get('cmag', 0), Fraction(b) * Fraction(2) ** r.get('cmag', 0)) for a, b in r['coeff']]),
                                                      E.boolean(case['ftype'] in ('c', 'create', 'creation')))
    return 'true'


def klass(case, r):
    if 'error' in r:
        return case['model'] + ('/zero-operator' if r.get('ref_zero') else '/error')
    nz = sum(1 for x in case['p'] if x != 0)
    return '%s/L%d/%dnonzero%s' % (case['model'], min(case['L'], 4), nz, '/graph-only' if case.get('graphonly') else '')


def nontrivial(case, r):
    return 'error' not in r and case['L'] >= 2 and sum(1 for x in case['p'] if x != 0) >= 2
