"""C12 — truncated block-sparse SVD split (pytenet/bond_ops.py: retained_bond_indices, split_matrix_svd;
pytenet/mps.py: split_mps_tensor).

Form R: numpy.linalg.svd and the unstable numpy.argsort inside retained_bond_indices are wrapped from outside and
recorded; the Coq model (Model/BondOps.v: retained, block_svd) runs over the rationals with the recorded answers as
oracles and must return the implementation's u, s, v, q (and kept indices) exactly.  The only arithmetic the model
performs is the cumulative relative weight in `retained`; inputs on which exact arithmetic puts a cumulative weight
within 1e-12 of the tolerance are counted `ambiguous` and not compared; boundary behaviour (cum == tol) is exercised
with dyadic weights k/16, k/64 where binary64 and exact arithmetic coincide."""
import itertools
from fractions import Fraction
import numpy as np
import emit as E
import bondops_common as BC

PROP = 'C12'
COQ_IMPORTS = ['PT.Base.Scalar', 'PT.Base.Field', 'PT.Base.Mx', 'PT.Model.BondOps', 'PT.Model.Tensor', 'PT.Model.MPSOps', 'PT.Model.SplitMps']
COQ_PREAMBLE = E.QC_PREAMBLE + 'Definition cmx := @mkmx CQ.\n'
FORM = ('R (replay): numpy.linalg.svd answers and the numpy.argsort permutation recorded per call; retained / block_svd evaluated '
        'by vm_compute over Q resp. Q(i) with the recorded table (lookup by exact argument) as oracle; u, s, v, q, the kept index set and '
        'the list of oracle arguments compared exactly; tolerance-boundary cases flagged ambiguous by exact arithmetic are skipped; '
        'malformed inputs: both sides must reject.  split_mps_tensor: its inner split_matrix_svd call (arguments checked against an independent reshape / charge sum) is replayed through block_svd, '
        'AND the composed model split_mps_tensor_full (Model/SplitMps.v: reshape + block_svd + distribution + reshape back) is run on the tensor with the recorded svd / argsort answers and the recorded numpy.sqrt values: '
        'qbond and all shapes compared exactly, the entries of A0 and A1 within 1e-12 (1 + |A|) in exact rational arithmetic (they went through one float multiplication by sigma)')
RULE = ('quick: retained_bond_indices on dyadic spectra (sum of squares 4, 16, 64; all k/16 boundary tolerances), generic, tied and zero spectra; '
        'split_matrix_svd on all shapes 1..6 x 1..6 with charge vectors from every class (sorted / unsorted on either or both sides / constant / '
        'disjoint / partly shared / negative / >= 2^16), real and complex, integer and generic binary64 entries, decaying / degenerate / '
        'rank-deficient / zero blocks, diagonal integer matrices with dyadic weights for exact boundary tolerances, tol in {0, generic, boundary}; '
        'split_mps_tensor with left/right/sqrt; malformed stream (wrong lengths, non-sparse A). thorough: more of each and every charge-vector pair over '
        '{0,1,2} for m, n <= 3. non-trivial = non-zero matrix with a block larger than 1x1 or a permutation or a genuine truncation; distinct by full input')
SHARD = 40
IMPL_PARALLEL = True
TRUSTED = ['hand-written Gallina mirror of bond_ops.retained_bond_indices / split_matrix_svd (Model/BondOps.v) tied to the code by exact agreement on every generated input',
           'numpy.linalg.svd (LAPACK gesdd): contract U diag(s) V = B, U^H U = I, V V^H = I, s >= 0; assumed in the theorems only for the issued calls, measured to 1e-12 on every recorded call',
           'numpy.argsort (unstable): assumed to return a permutation sorting its argument; the recorded permutation is an input of the model',
           'independent numpy re-implementation of the clauses (dense SVD of the whole matrix) in harness/props/c12.py (search only)']
PARTIAL = ('proved for all inputs (Properties/C12.v, all closed under the global context): C12_retained_spec / C12_retained_zero (truncation rule over every '
           'ordered field: discarded relative weight <= tol, kept >= discarded, maximality, tol = 0 keeps exactly the non-zero values, increasing in-range '
           'indices, zero vector -> no index) for every argsort answer that is a sorting permutation; C12_block_svd_spec (all shapes and charge vectors, '
           'non-zero block-sparse A, 0 <= tol < 1, oracles meeting their contracts on the issued calls): no failure, s = S[K] with K = retained S, isometric u and v, '
           'kept values > 0, block sparsity under the returned charges, lengths, tol = 0 => (u*s) v = A, and ||A - (u*s) v||_F^2 = sum of discarded sigma^2; '
           'C12_block_svd_zero (zero matrix: no failure, product zero). '
           'split_mps_tensor (Model/SplitMps.v split_mps_tensor_full = reshape + block_svd + distribution of sigma + reshape back; C12_split_mps_agrees: it is the '
           'Model/MPSOps.v model of C03 with the split oracle instantiated by block_svd): C12_split_mps_spec, for every ordered field, all d0, d1 >= 1, all charge '
           'vectors, every non-zero block-sparse two-site tensor, 0 <= tol < 1, left/right/sqrt, oracles meeting dsvd_ok / pick_ok on the issued calls and, for sqrt only, '
           'ksqrt(x)^2 = x on the kept values: no failure; shapes (d0, D0, k), (d1, k, D2) with k = len qbond = number of kept singular values, 1 <= k <= min(d0 D0, d1 D2); '
           'A0 block sparse under (qd0, qD0, qbond), A1 under (qd1, qbond, qD2); ||A||^2 = sum S^2; sum over entries |A - merge(A0, A1)|^2 = sum of discarded sigma^2 <= tol ||A||^2; '
           'tol = 0 => merge(A0, A1) = A; right: A0 left isometry; left: A1 right isometry; sqrt: both Gram matrices = diag(kept sigma). C12_split_mps_zero (zero tensor, any tol / '
           'distribution / argsort / sqrt oracle: no failure, merge = 0 = A). C12_split_mps_nonvacuous: rational 2x2x2x2 instance with a genuine truncation for each distribution. '
           'Not modelled, validated on every generated input only: non-mutation of the input array (byte snapshot), '
           'that the code computes what the models compute (exact agreement for split_matrix_svd; qbond / shapes exact and entries within 1e-12 for split_mps_tensor), '
           'that LAPACK / argsort / numpy.sqrt meet their contracts (measured).')
ASSUMPTIONS = ['binary64 values are read as exact rationals; (s/w)**2 is modelled as s^2/w^2 and norm(s) == 0 as sum s^2 == 0 (no underflow on generated inputs)',
               'numpy.sqrt on the kept singular values is an oracle of the model (ksqrt); the sqrt theorem assumes ksqrt(x)^2 = x exactly on the kept values (binary64 sqrt meets it to 1 ulp; measured)']

DYADIC = [[1, 1, 1, 1], [2, 2, 2, 2], [3, 2, 1, 1, 1], [2, 2, 2, 1, 1, 1, 1], [4], [2, 2, 2, 2, 0, 0], [6, 4, 2, 2, 2],
          [7, 3, 2, 1, 1], [5, 5, 3, 2, 1], [4, 4, 4, 4], [1, 1, 1, 1, 2, 2, 2], [2, 0, 0], [1, 1, 1, 1, 0], [3, 2, 1, 1, 1, 0]]


def _mx(a):
    return E.qimx(a).replace('(mkmx ', '(cmx ', 1)


def _dyadic_tols(s):
    w2 = sum(x * x for x in s)
    cums = sorted({sum(sorted(x * x for x in s)[:k]) for k in range(len(s) + 1)})
    out = [c / w2 for c in cums if c < w2]
    return out


def _svd_case(rng, q0, q1, cplx, entries, tol, tag, A=None):
    if A is None:
        A = BC.random_sparse(rng, q0, q1, cplx, entries)
    dtype_int = bool(not cplx and not np.any(A != np.rint(A)) and rng.random() < 0.35)
    return {'kind': 'svd', 'q0': [int(x) for x in q0], 'q1': [int(x) for x in q1], 'A': BC.mat_to_json(A), 'cplx': bool(cplx),
            'entries': entries, 'tol': float(tol), 'tag': tag, 'dtype_int': dtype_int}


def corpus():
    """regression inputs: integer dtype matrices"""
    mk = lambda A, q0, q1, tol: {'kind': 'svd', 'q0': q0, 'q1': q1, 'A': BC.mat_to_json(np.array(A, dtype=float)), 'cplx': False,
                                 'entries': 'int', 'tol': tol, 'tag': 'corpus-int-dtype', 'dtype_int': True}
    return [mk([[1, 2], [3, 4]], [0, 0], [0, 0], 0.0),
            mk([[0, 3], [2, 0], [1, 0]], [1, 0, 0], [0, 1], 0.1),
            mk([[3, 0], [0, 1]], [0, 1], [0, 1], 0.1)]


def _rand_tol(rng):
    u = rng.random()
    if u < 0.35:
        return 0.0
    return rng.choice([1e-12, 1e-6, 1e-3, 0.02, 0.1, 0.25, 0.3, 0.5, 0.75, 0.9, 0.999])


def _spectrum_block(rng, nprng, r, c, cplx, kind):
    """block with prescribed singular values (decaying / degenerate), built from random unitaries"""
    k = min(r, c)
    if kind == 'decay':
        s = [2.0 ** (-rng.randint(0, 3) - 2 * i) for i in range(k)]
    else:
        s = [float(rng.choice([1, 2]))] * k
    def unitary(n):
        x = nprng.standard_normal((n, n)) + (1j * nprng.standard_normal((n, n)) if cplx else 0)
        return np.linalg.qr(x)[0]
    return unitary(r)[:, :k] @ np.diag(s) @ unitary(c)[:k, :]


def _spectrum_matrix(rng, q0, q1, cplx, kind):
    nprng = np.random.default_rng(rng.getrandbits(32))
    m, n = len(q0), len(q1)
    A = np.zeros((m, n), dtype=complex if cplx else float)
    for qn in sorted(set(q0) & set(q1)):
        rows = [i for i in range(m) if q0[i] == qn]
        cols = [j for j in range(n) if q1[j] == qn]
        if kind == 'hadamard' and len(rows) == 2 and len(cols) == 2:
            B = float(rng.choice([1, 2, 3])) * np.array([[1, 1], [1, -1]])
        else:
            B = _spectrum_block(rng, nprng, len(rows), len(cols), cplx, 'decay' if kind == 'hadamard' else kind)
        A[np.ix_(rows, cols)] = B
    return A


def cases(rng, tier):
    from props import c11
    out = []
    # ---- retained_bond_indices alone
    for s in DYADIC:
        tols = _dyadic_tols(s)
        reps = 1 if tier == 'quick' else 3
        for _ in range(reps):
            p = list(s)
            rng.shuffle(p)
            for t in tols + [0.0] if tier != 'search' else [rng.choice(tols)]:
                out.append({'kind': 'ret', 's': [float(x) for x in p], 'tol': float(t), 'tag': 'dyadic'})
    n_ret = {'quick': 60, 'thorough': 400, 'search': 100}[tier]
    for _ in range(n_ret):
        n = rng.randint(1, 7)
        u = rng.random()
        if u < 0.5:
            s = [abs(rng.gauss(0, 1)) for _ in range(n)]; tag = 'generic'
        elif u < 0.8:
            vals = [abs(rng.gauss(0, 1)) for _ in range(2)] + [0.0]
            s = [rng.choice(vals) for _ in range(n)]; tag = 'ties'
        elif u < 0.9:
            s = [0.0] * n; tag = 'zero'
        else:
            s = sorted((2.0 ** -rng.randint(0, 30) for _ in range(n)), reverse=True); tag = 'decay'
        out.append({'kind': 'ret', 's': s, 'tol': _rand_tol(rng), 'tag': tag})
    # ---- split_matrix_svd
    reps = {'quick': 1, 'thorough': 3, 'search': 1}[tier]
    for _ in range(reps):
        for m in range(1, 7):
            for n in range(1, 7):
                for name, q0, q1 in c11._classes(rng, m, n):
                    out.append(_svd_case(rng, q0, q1, rng.random() < 0.5, rng.choice(['int', 'float']), _rand_tol(rng), name))
    for cplx in (False, True):
        for entries in ('int', 'float'):
            for (m, n) in ((3, 3), (4, 5), (6, 2)):
                name, q0, q1 = c11._classes(rng, m, n)[3]
                out.append(_svd_case(rng, q0, q1, cplx, entries, _rand_tol(rng), name))
    n_spec = {'quick': 90, 'thorough': 500, 'search': 200}[tier]
    for _ in range(n_spec):
        m, n = rng.randint(1, 6), rng.randint(1, 6)
        name, q0, q1 = rng.choice(c11._classes(rng, m, n))
        kind = rng.choice(['decay', 'degenerate', 'hadamard'])
        cplx = rng.random() < 0.5
        out.append(_svd_case(rng, q0, q1, cplx, 'float', _rand_tol(rng), name + '/' + kind, A=_spectrum_matrix(rng, q0, q1, cplx, kind)))
    # diagonal integer matrices with dyadic weights, all charges distinct (1x1 blocks: singular values exact), boundary tolerances
    n_dy = {'quick': 50, 'thorough': 300, 'search': 60}[tier]
    for _ in range(n_dy):
        s = list(rng.choice([d for d in DYADIC if len(d) <= 6]))
        rng.shuffle(s)
        k = len(s)
        charges = rng.sample(range(-5, 9), k)
        q0 = list(charges)
        perm = list(range(k)); rng.shuffle(perm)
        q1 = [charges[p] for p in perm]
        A = np.zeros((k, k))
        for j, p in enumerate(perm):
            A[p, j] = s[p] * rng.choice([1, -1])
        tol = rng.choice(_dyadic_tols(s) + [0.0])
        out.append(_svd_case(rng, q0, q1, False, 'int', tol, 'diag-dyadic', A=A))
    # zero matrices with shared charges
    for _ in range({'quick': 12, 'thorough': 40, 'search': 5}[tier]):
        m, n = rng.randint(1, 5), rng.randint(1, 5)
        name, q0, q1 = rng.choice(c11._classes(rng, m, n)[:5])
        out.append(_svd_case(rng, q0, q1, rng.random() < 0.5, 'int', _rand_tol(rng), 'zero', A=np.zeros((m, n))))
    if tier == 'thorough':
        for m in range(1, 4):
            for n in range(1, 4):
                for q0 in itertools.product(range(3), repeat=m):
                    for q1 in itertools.product(range(3), repeat=n):
                        out.append(_svd_case(rng, list(q0), list(q1), rng.random() < 0.3, rng.choice(['int', 'float']), _rand_tol(rng), 'enum012'))
    # ---- split_mps_tensor
    n_mps = {'quick': 60, 'thorough': 300, 'search': 60}[tier]
    for _ in range(n_mps):
        d0, d1 = rng.randint(1, 3), rng.randint(1, 3)
        D0, D2 = rng.randint(1, 3), rng.randint(1, 3)
        qd0 = [rng.randint(-1, 1) for _ in range(d0)]
        qd1 = [rng.randint(-1, 1) for _ in range(d1)]
        qD0 = [rng.randint(-1, 1) for _ in range(D0)]
        qD2 = [rng.randint(-1, 2) for _ in range(D2)]
        cplx = rng.random() < 0.5
        nprng = np.random.default_rng(rng.getrandbits(32))
        T = nprng.standard_normal((d0 * d1, D0, D2)) + (1j * nprng.standard_normal((d0 * d1, D0, D2)) if cplx else 0)
        if rng.random() < 0.3:
            T = np.round(2 * T)
        for a in range(d0):
            for b in range(d1):
                for i in range(D0):
                    for j in range(D2):
                        if qd0[a] + qd1[b] + qD0[i] != qD2[j]:
                            T[a * d1 + b, i, j] = 0
        out.append({'kind': 'mps', 'qd0': qd0, 'qd1': qd1, 'qD0': qD0, 'qD2': qD2, 'cplx': cplx,
                    'T': [BC.mat_to_json(T[k]) for k in range(d0 * d1)], 'distr': rng.choice(['left', 'right', 'sqrt']),
                    'tol': _rand_tol(rng), 'tag': 'mps'})
    # ---- magnitude regimes: power-of-two multiples (exact in binary64) of a sample of the cases above; the truncation rule is relative,
    #      so the retained set must not depend on the common factor
    base = [c for c in out if c.get('tag') != 'zero']
    for c in rng.sample(base, min(len(base), {'quick': 70, 'thorough': 400, 'search': 60}[tier])):
        k = rng.choice([-60, -40, -30, -27, -24, 30, 40])
        f = 2.0 ** k
        c2 = dict(c)
        c2['tag'] = c['tag'] + '/x2^%d' % k
        if c['kind'] == 'ret':
            c2['s'] = [x * f for x in c['s']]
        elif c['kind'] == 'svd':
            c2['A'] = [[[re * f, im * f] for re, im in row] for row in c['A']]
            c2['dtype_int'] = bool(c['dtype_int'] and k > 0)
        else:
            c2['T'] = [[[[re * f, im * f] for re, im in row] for row in m] for m in c['T']]
        out.append(c2)
    for c in out:
        if c['kind'] == 'svd' and rng.random() < 0.2:
            c['layout'] = rng.randrange(1, 4)
    # ---- malformed stream
    n_bad = {'quick': 18, 'thorough': 48, 'search': 0}[tier]
    for k in range(n_bad):
        m, n = rng.randint(1, 4), rng.randint(1, 4)
        name, q0, q1 = rng.choice(c11._classes(rng, m, n)[:5])
        c = _svd_case(rng, q0, q1, rng.random() < 0.5, 'int', _rand_tol(rng), 'malformed')
        kind = k % 3
        if kind == 0:
            c['q0'] = c['q0'] + [c['q0'][-1]] if rng.random() < 0.5 else c['q0'][:-1]
            c['bad'] = 'len-q0'
        elif kind == 1:
            c['q1'] = c['q1'] + [c['q1'][-1]] if rng.random() < 0.5 else c['q1'][:-1]
            c['bad'] = 'len-q1'
        else:
            pos = [(i, j) for i in range(m) for j in range(n) if c['q0'][i] != c['q1'][j]]
            if not pos:
                c['q0'][0] += 1
                pos = [(0, j) for j in range(n)]
            i, j = rng.choice(pos)
            c['A'][i][j] = [float(rng.randint(1, 3)), 0.0]
            c['bad'] = 'non-sparse'
        out.append(c)
    return out


# ----------------------------------------------------------------------------

def impl(case):
    import pytenet.bond_ops as bo
    rec = BC.Recorder()
    if case['kind'] == 'ret':
        s = np.array(case['s'], dtype=float)
        snap = s.tobytes()
        try:
            with rec.patch_svd():
                idx = bo.retained_bond_indices(s, case['tol'])
        except Exception as e:
            return {'error': type(e).__name__}
        return {'idx': [int(i) for i in idx], 'sort_idx': rec.argsort_calls[0][1] if rec.argsort_calls else [], 'sort_arg': [float(x) for x in rec.argsort_calls[0][0]] if rec.argsort_calls else [],
                'n_argsort': len(rec.argsort_calls), 'unchanged': s.tobytes() == snap}
    if case['kind'] == 'svd':
        A = BC.mat_from_json(case['A'], case['cplx'])
        if case.get('dtype_int'):
            A = np.rint(A).astype(int)
        if case.get('layout'):
            import gen as G
            A = G.relayout(A, case['layout'])      # Fortran order / non-contiguous view / negative strides: same values
        q0 = np.array(case['q0'], dtype=int)
        q1 = np.array(case['q1'], dtype=int)
        snap = (A.tobytes(), q0.tobytes(), q1.tobytes())
        try:
            with rec.patch_svd():
                u, s, v, q = bo.split_matrix_svd(A, q0, q1, case['tol'])
        except Exception as e:
            return {'error': type(e).__name__}
        return {'u': BC.mat_to_json(u), 's': [float(x) for x in s], 'v': BC.mat_to_json(v), 'q': [int(x) for x in q],
                'shapes': [list(np.shape(u)), list(np.shape(s)), list(np.shape(v)), list(np.shape(q))],
                'calls': [{'arg': BC.mat_to_json(a), 'u': BC.mat_to_json(uu), 's': [float(x) for x in ss], 'v': BC.mat_to_json(vv),
                           'shapes': [list(a.shape), list(uu.shape), list(vv.shape)]} for a, uu, ss, vv in rec.svd_calls],
                'sort_idx': rec.argsort_calls[0][1] if rec.argsort_calls else [], 'sort_arg': [float(x) for x in rec.argsort_calls[0][0]] if rec.argsort_calls else [],
                'n_argsort': len(rec.argsort_calls),
                'unchanged': (A.tobytes(), q0.tobytes(), q1.tobytes()) == snap}
    if case['kind'] == 'mps':
        import pytenet as ptn
        T = np.array([BC.mat_from_json(t, True) for t in case['T']])
        if not case['cplx']:
            T = np.ascontiguousarray(T.real)
        qd0 = np.array(case['qd0'], dtype=int); qd1 = np.array(case['qd1'], dtype=int)
        qD = [np.array(case['qD0'], dtype=int), np.array(case['qD2'], dtype=int)]
        snap = (T.tobytes(), qd0.tobytes(), qd1.tobytes(), qD[0].tobytes(), qD[1].tobytes())
        import pytenet.mps as pm
        inner = {}
        orig_split = pm.split_matrix_svd
        def split_wrapper(M, q0, q1, tol):
            inner['A'] = np.array(M, copy=True); inner['q0'] = [int(x) for x in q0]; inner['q1'] = [int(x) for x in q1]; inner['tol'] = float(tol)
            res = orig_split(M, q0, q1, tol)
            inner['res'] = tuple(np.array(x, copy=True) for x in res)
            return res
        pm.split_matrix_svd = split_wrapper
        try:
            with rec.patch_svd():
                A0, A1, qb = pm.split_mps_tensor(T, qd0, qd1, qD, case['distr'], case['tol'])
        except Exception as e:
            return {'error': type(e).__name__}
        finally:
            pm.split_matrix_svd = orig_split
        out = {'A0': [BC.mat_to_json(a) for a in A0], 'A1': [BC.mat_to_json(a) for a in A1], 'qbond': [int(x) for x in qb],
               'shapes': [list(A0.shape), list(A1.shape)],
               'unchanged': (T.tobytes(), qd0.tobytes(), qd1.tobytes(), qD[0].tobytes(), qD[1].tobytes()) == snap}
        if 'res' in inner:
            u, s, v, q = inner['res']
            out['inner_case'] = {'kind': 'svd', 'q0': inner['q0'], 'q1': inner['q1'], 'A': BC.mat_to_json(inner['A']), 'cplx': True,
                                 'entries': 'float', 'tol': inner['tol'], 'tag': 'mps-inner'}
            out['inner'] = {'u': BC.mat_to_json(u), 's': [float(x) for x in s], 'v': BC.mat_to_json(v), 'q': [int(x) for x in q],
                            'shapes': [list(np.shape(u)), list(np.shape(s)), list(np.shape(v)), list(np.shape(q))],
                            'calls': [{'arg': BC.mat_to_json(a), 'u': BC.mat_to_json(uu), 's': [float(x) for x in ss], 'v': BC.mat_to_json(vv),
                                       'shapes': [list(a.shape), list(uu.shape), list(vv.shape)]} for a, uu, ss, vv in rec.svd_calls],
                            'sort_idx': rec.argsort_calls[0][1] if rec.argsort_calls else [],
                            'sort_arg': [float(x) for x in rec.argsort_calls[0][0]] if rec.argsort_calls else [],
                            'n_argsort': len(rec.argsort_calls)}
        return out
    raise ValueError(case['kind'])


# ----------------------------------------------------------------------------
# the property's clauses on the implementation
# ----------------------------------------------------------------------------

def _truncation_clauses(all_sigma, kept, tol, what):
    """all_sigma: reference singular values (any order); kept: the values returned. returns (msgs, discarded values, ambiguous)"""
    msgs = []
    ref = np.sort(np.asarray(all_sigma, dtype=float))[::-1]
    kept_sorted = np.sort(np.asarray(kept, dtype=float))[::-1]
    w2 = float(np.sum(ref ** 2))
    k = len(kept_sorted)
    scale = ref[0] if len(ref) else 1.0
    if k > len(ref) or np.abs(kept_sorted - ref[:k]).max(initial=0.0) > 1e-9 * scale:
        msgs.append('%s: kept values are not the %d largest singular values (a kept value is smaller than a discarded one)' % (what, k))
        return msgs, None, False
    disc = ref[k:]
    dw = float(np.sum(disc ** 2)) / w2
    cum = np.cumsum(ref[::-1] ** 2) / w2
    ambiguous = bool(np.any(np.abs(cum - tol) < 1e-9))
    if any(x <= 0 for x in kept_sorted):
        msgs.append('%s: a kept singular value is not positive' % what)
    if ambiguous:
        return msgs, disc, True
    if dw > tol:
        msgs.append('%s: discarded relative weight %.17g exceeds tol %.17g' % (what, dw, tol))
    if k == 0:
        msgs.append('%s: nothing kept although tol < 1' % what)
    elif dw + kept_sorted[-1] ** 2 / w2 <= tol:
        msgs.append('%s: not maximal, the smallest kept value could be discarded as well' % what)
    return msgs, disc, False



def _argsort_contract(r, s):
    """the recorded numpy.argsort call: argument = normalised squares of s, answer = a permutation sorting it"""
    s = np.asarray(s, dtype=float)
    if not np.any(s):
        return [] if r.get('n_argsort', 0) == 0 else ['numpy.argsort called on a zero spectrum']
    if r.get('n_argsort') != 1:
        return ['numpy.argsort called %s times inside retained_bond_indices' % r.get('n_argsort')]
    arg = np.array(r['sort_arg']); idx = r['sort_idx']
    msgs = []
    if sorted(idx) != list(range(len(s))) or np.any(np.diff(arg[idx]) < 0):
        msgs.append('numpy.argsort answer is not a sorting permutation of its argument')
    w2 = float(np.sum(s ** 2))
    if len(arg) != len(s) or np.abs(arg - s ** 2 / w2).max(initial=0.0) > 1e-14:
        msgs.append('numpy.argsort was not applied to the normalised squares')
    return msgs

def prop(case, r):
    if case.get('bad'):
        return []
    if 'error' in r:
        return ['%s raised %s on a valid input' % (case['kind'], r['error'])]
    msgs = []
    tol = case['tol']
    if not r.get('unchanged', True):
        msgs.append('input array modified')
    if case['kind'] == 'ret':
        s = np.array(case['s'])
        idx = r['idx']
        if idx != sorted(set(idx)) or any(not (0 <= i < len(s)) for i in idx):
            msgs.append('indices not increasing / out of range')
            return msgs
        if not np.any(s):
            if idx:
                msgs.append('zero vector: indices returned')
            return msgs
        m2, _, _ = _truncation_clauses(s, s[idx], tol, 'retained_bond_indices')
        msgs += m2
        msgs += _argsort_contract(r, s)
        if tol == 0 and sorted(idx) != [i for i in range(len(s)) if s[i] != 0]:
            msgs.append('tol = 0 does not keep exactly the non-zero values')
        return msgs
    if case['kind'] == 'svd':
        A = BC.mat_from_json(case['A'], True)
        m, n = A.shape
        q0, q1 = case['q0'], case['q1']
        sh = r['shapes']
        k = sh[1][0]
        if sh[0] != [m, k] or sh[2] != [k, n] or sh[3] != [k]:
            return msgs + ['shapes of u, s, v, q inconsistent: %s' % sh]
        u = BC.mat_from_json2(r['u'], (m, k)); v = BC.mat_from_json2(r['v'], (k, n)); s = np.array(r['s'], dtype=float)
        q = r['q']
        nrmA = float(np.linalg.norm(A))
        err = float(np.linalg.norm(A - (u * s) @ v))
        if nrmA == 0:
            if err != 0:
                msgs.append('zero matrix: product differs from zero')
            return msgs
        if np.abs(u.conj().T @ u - np.eye(k)).max(initial=0.0) > 1e-10:
            msgs.append('u is not an isometry')
        if np.abs(v @ v.conj().T - np.eye(k)).max(initial=0.0) > 1e-10:
            msgs.append('v is not an isometry')
        if not BC.sparse_under(u, q0, q):
            msgs.append('u not block sparse under (q0, q)')
        if not BC.sparse_under(v, q, q1):
            msgs.append('v not block sparse under (q, q1)')
        ref = np.linalg.svd(A, compute_uv=False)
        m2, disc, amb = _truncation_clauses(ref, s, tol, 'split_matrix_svd')
        msgs += m2
        if disc is not None:
            expect = float(np.sqrt(np.sum(disc ** 2)))
            if abs(err - expect) > 1e-9 * nrmA:
                msgs.append('||A - u s v|| = %.12g but sqrt(sum discarded sigma^2) = %.12g' % (err, expect))
        if tol == 0 and err > 1e-10 * nrmA:
            msgs.append('tol = 0 does not reproduce the matrix (error %.3g)' % err)
        msgs += _argsort_contract(r, [x for c in r['calls'] for x in c['s']])
        for c in r['calls']:
            B = BC.mat_from_json2(c['arg'], c['shapes'][0]); uu = BC.mat_from_json2(c['u'], c['shapes'][1]); vv = BC.mat_from_json2(c['v'], c['shapes'][2])
            ss = np.array(c['s'])
            kk = min(B.shape)
            if uu.shape != (B.shape[0], kk) or vv.shape != (kk, B.shape[1]) or ss.shape != (kk,):
                msgs.append('numpy.linalg.svd returned unexpected shapes')
            elif (np.abs((uu * ss) @ vv - B).max(initial=0.0) > 1e-12 * (1 + np.abs(B).max(initial=0.0)) * max(B.shape)
                  or np.abs(uu.conj().T @ uu - np.eye(kk)).max(initial=0.0) > 1e-12 * max(B.shape)
                  or np.abs(vv @ vv.conj().T - np.eye(kk)).max(initial=0.0) > 1e-12 * max(B.shape) or np.any(ss < 0)):
                msgs.append('numpy.linalg.svd answer violates its contract beyond 1e-12')
        return msgs
    if case['kind'] == 'mps':
        d0, d1, D0, D2 = len(case['qd0']), len(case['qd1']), len(case['qD0']), len(case['qD2'])
        T = np.array([BC.mat_from_json2(t, (D0, D2)) for t in case['T']]).reshape((d0 * d1, D0, D2))
        qb = r['qbond']
        k = len(qb)
        if r['shapes'] != [[d0, D0, k], [d1, k, D2]]:
            return msgs + ['split_mps_tensor: shapes %s' % r['shapes']]
        A0 = np.array([BC.mat_from_json2(a, (D0, k)) for a in r['A0']]).reshape((d0, D0, k))
        A1 = np.array([BC.mat_from_json2(a, (k, D2)) for a in r['A1']]).reshape((d1, k, D2))
        # dense reference
        M = T.reshape((d0, d1, D0, D2)).transpose((0, 2, 1, 3)).reshape((d0 * D0, d1 * D2))
        L = A0.reshape((d0 * D0, k))
        Rm = A1.transpose((1, 0, 2)).reshape((k, d1 * D2))
        nrm = float(np.linalg.norm(M))
        err = float(np.linalg.norm(M - L @ Rm))
        distr = case['distr']
        if nrm == 0:
            if err != 0:
                msgs.append('split_mps_tensor: zero tensor: product differs from zero')
            return msgs
        # sparsity of the two tensors under the returned bond charges
        for a in range(d0):
            for i in range(D0):
                for c in range(k):
                    if A0[a, i, c] != 0 and case['qd0'][a] + case['qD0'][i] != qb[c]:
                        msgs.append('split_mps_tensor: A0 not block sparse'); break
        for b in range(d1):
            for c in range(k):
                for j in range(D2):
                    if A1[b, c, j] != 0 and case['qd1'][b] + qb[c] != case['qD2'][j]:
                        msgs.append('split_mps_tensor: A1 not block sparse'); break
        # singular values recovered from the factor that carries them
        if distr == 'left':
            sig = np.linalg.norm(L, axis=0); iso_l = L / sig; iso_r = Rm
        elif distr == 'right':
            sig = np.linalg.norm(Rm, axis=1); iso_l = L; iso_r = Rm / sig[:, None]
        else:
            sig = np.linalg.norm(L, axis=0) ** 2; iso_l = L / np.sqrt(sig); iso_r = Rm / np.sqrt(sig)[:, None]
        if np.abs(iso_l.conj().T @ iso_l - np.eye(k)).max(initial=0.0) > 1e-9:
            msgs.append('split_mps_tensor(%s): left factor not isometric' % distr)
        if np.abs(iso_r @ iso_r.conj().T - np.eye(k)).max(initial=0.0) > 1e-9:
            msgs.append('split_mps_tensor(%s): right factor not isometric' % distr)
        # the recorded inner split_matrix_svd call: arguments are the reshaped tensor and the flattened charge sums,
        # and (A0, A1) are its factors with the singular values distributed as requested
        if 'inner' in r:
            ic, ir = r['inner_case'], r['inner']
            q0_ref = [a + b for a in case['qd0'] for b in case['qD0']]
            q1_ref = [-a + b for a in case['qd1'] for b in case['qD2']]
            Min = BC.mat_from_json2(ic['A'], (d0 * D0, d1 * D2))
            if ic['q0'] != q0_ref or ic['q1'] != q1_ref or not np.array_equal(Min, M) or ic['tol'] != tol:
                msgs.append('split_mps_tensor: split_matrix_svd called with unexpected arguments')
            ui = BC.mat_from_json2(ir['u'], (d0 * D0, k)); vi = BC.mat_from_json2(ir['v'], (k, d1 * D2)); si = np.array(ir['s'])
            wl = {'left': si, 'right': np.ones(k), 'sqrt': np.sqrt(si)}[distr] if k == len(si) else None
            wr = {'left': np.ones(k), 'right': si, 'sqrt': np.sqrt(si)}[distr] if k == len(si) else None
            if wl is None or ir['q'] != qb or np.abs(L - ui * wl).max(initial=0.0) > 1e-12 * (1 + nrm) \
                    or np.abs(Rm - wr[:, None] * vi).max(initial=0.0) > 1e-12 * (1 + nrm):
                msgs.append('split_mps_tensor(%s): factors are not the split_matrix_svd factors with the singular values distributed' % distr)
        ref = np.linalg.svd(M, compute_uv=False)
        m2, disc, amb = _truncation_clauses(ref, sig, tol, 'split_mps_tensor')
        msgs += m2
        if disc is not None and abs(err - float(np.sqrt(np.sum(disc ** 2)))) > 1e-9 * nrm:
            msgs.append('split_mps_tensor: error %.12g but sqrt(sum discarded sigma^2) = %.12g' % (err, float(np.sqrt(np.sum(disc ** 2)))))
        if tol == 0 and err > 1e-10 * nrm:
            msgs.append('split_mps_tensor: tol = 0 does not reproduce the tensor')
        return sorted(set(msgs))
    return msgs


# ----------------------------------------------------------------------------
# correspondence terms
# ----------------------------------------------------------------------------

def _ambiguous(case, r):
    if case['kind'] == 'ret':
        s = case['s']
    else:
        s = [x for c in r.get('calls', []) for x in c['s']]
    if not r.get('sort_idx') and any(s):
        return False
    if not any(s) or case['tol'] == 0:
        return False   # cum > 0 is decided identically by binary64 and exact arithmetic (no underflow in the generated range)
    kept, dist = BC.exact_retained(s, r['sort_idx'], case['tol'])
    if dist is None:
        return False
    if dist == 0:
        # a cumulative weight equals tol exactly: compared only where binary64 arithmetic is exact (dyadic weights)
        return case.get('tag') not in ('dyadic', 'diag-dyadic')
    return dist < Fraction(1, 10 ** 12)


def _flist(xs):
    return E.lst([E.qc(float(x)) for x in xs])


def _tbl(r):
    return E.lst([E.pair(_mx(BC.mat_from_json2(c['arg'], c['shapes'][0])),
                         '(%s, %s, %s)' % (_mx(BC.mat_from_json2(c['u'], c['shapes'][1])), _flist(c['s']),
                                           _mx(BC.mat_from_json2(c['v'], c['shapes'][2]))))
                  for c in r.get('calls', [])])


def _site(mats, shape):
    return E.lst([_mx(BC.mat_from_json2(a, shape)) for a in mats])


def _coq_split_full(case, r):
    """the composed model split_mps_tensor_full on the tensor itself, with the recorded svd / argsort / sqrt answers"""
    ir = r['inner']
    d0, d1, D0, D2 = len(case['qd0']), len(case['qd1']), len(case['qD0']), len(case['qD2'])
    k = len(r['qbond'])
    if r['shapes'] != [[d0, D0, k], [d1, k, D2]]:
        return 'false'
    sig = [float(x) for x in ir['s']]
    sq = [float(x) for x in np.sqrt(np.array(sig))]
    sqtbl = E.lst([E.pair(E.qc(a), E.qc(b)) for a, b in zip(sig, sq)])
    nrm = float(np.sqrt(sum(x[0] ** 2 + x[1] ** 2 for t in case['T'] for row in t for x in row)))
    eps = 1e-12 * (1 + nrm)
    distr = {'left': 0, 'right': 1, 'sqrt': 2}[case['distr']]
    expect = '(Some (%s, %s, %s))' % (_site(r['A0'], (D0, k)), _site(r['A1'], (k, D2)), E.zlist(r['qbond']))
    return 'check_split_full (F:=QcF) %s %s %s %s %s %s %s %s %d%%nat %s %s %s' % (
        _tbl(ir), E.natlist(ir.get('sort_idx', [])), sqtbl, _site(case['T'], (D0, D2)),
        E.zlist(case['qd0']), E.zlist(case['qd1']), E.zlist(case['qD0']), E.zlist(case['qD2']), distr,
        E.qc(case['tol']), E.qc(eps), expect)


def coq(case, r):
    if case['kind'] == 'mps':
        if 'inner' not in r:
            return None
        inner = coq(r['inner_case'], r['inner'])
        if inner is None:
            return None
        return '(%s) && (%s)' % (inner, _coq_split_full(case, r))
    if 'error' not in r and _ambiguous(case, r):
        return None
    if case['kind'] == 'ret':
        if 'error' in r:
            return 'false'
        return 'check_retained (F:=QcF) %s %s %s %s' % (E.natlist(r['sort_idx']), _flist(case['s']), E.qc(case['tol']), E.natlist(r['idx']))
    A = BC.mat_from_json(case['A'], True)
    if 'error' in r:
        if r['error'] != 'AssertionError':
            return 'false'
        expect = 'None'
    else:
        sh = r['shapes']
        expect = '(Some (%s, %s, %s, %s))' % (_mx(BC.mat_from_json2(r['u'], sh[0])), _flist(r['s']),
                                              _mx(BC.mat_from_json2(r['v'], sh[2])), E.zlist(r['q']))
    return 'check_svd (F:=QcF) %s %s %s %s %s %s %s' % (_tbl(r), E.natlist(r.get('sort_idx', [])), _mx(A), E.zlist(case['q0']),
                                                        E.zlist(case['q1']), E.qc(case['tol']), expect)


def coq_diag(case, r):
    if case['kind'] == 'mps':
        return coq_diag(r['inner_case'], r['inner'])
    if case['kind'] == 'ret':
        return 'retained (F:=QcF) (fun _ => %s) %s %s' % (E.natlist(r['sort_idx']), _flist(case['s']), E.qc(case['tol']))
    A = BC.mat_from_json(case['A'], True)
    return 'block_svd (F:=QcF) (svd_oracle %s) (fun _ => %s) %s %s %s %s' % (
        _tbl(r), E.natlist(r.get('sort_idx', [])), _mx(A), E.zlist(case['q0']), E.zlist(case['q1']), E.qc(case['tol']))


def klass(case, r):
    if case.get('bad'):
        return 'malformed/%s/%s' % (case['bad'], 'rejected' if 'error' in r else 'accepted')
    tol = case['tol']
    t = 'tol0' if tol == 0 else ('tol-dyadic' if case['tag'] in ('dyadic', 'diag-dyadic') else 'tol-generic')
    amb = '/ambiguous' if ('error' not in r and case['kind'] != 'mps' and _ambiguous(case, r)) else ''
    if case['kind'] == 'ret':
        trunc = 'trunc' if 'idx' in r and len(r['idx']) < sum(1 for x in case['s'] if x != 0) else 'full'
        return 'ret/%s/%s/%s%s' % (case['tag'], t, trunc, amb)
    if case['kind'] == 'mps':
        return 'mps/%s/%s/%s' % (case['distr'], t, 'c' if case['cplx'] else 'r')
    q0, q1 = case['q0'], case['q1']
    shared = len(set(q0) & set(q1))
    s0 = 'S' if q0 == sorted(q0) else 'U'
    s1 = 'S' if q1 == sorted(q1) else 'U'
    ntot = sum(len(c['s']) for c in r.get('calls', []))
    trunc = 'trunc' if 'q' in r and len(r['q']) < ntot else 'full'
    return 'svd/%s/q0%s.q1%s/shared%d/%s/%s/%s%s' % (case['tag'], s0, s1, min(shared, 3), 'i' if case.get('dtype_int') else ('c' if case['cplx'] else 'r'), t, trunc, amb)


def nontrivial(case, r):
    if case.get('bad') or 'error' in r:
        return False
    if case['kind'] == 'ret':
        return any(case['s']) and len(case['s']) > 1
    if case['kind'] == 'mps':
        return len(r['qbond']) >= 1 and any(any(any(x != [0.0, 0.0] for x in row) for row in t) for t in case['T'])
    q0, q1 = case['q0'], case['q1']
    if not set(q0) & set(q1) or not any(any(x != [0.0, 0.0] for x in row) for row in case['A']):
        return False
    big = any(c['shapes'][0][0] > 1 or c['shapes'][0][1] > 1 for c in r['calls'])
    ntot = sum(len(c['s']) for c in r['calls'])
    return big or q0 != sorted(q0) or q1 != sorted(q1) or len(r['q']) < ntot
