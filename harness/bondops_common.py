"""Shared helpers of the C11 / C12 plugins: JSON <-> numpy, input generators, recorders for the LAPACK primitives."""
import contextlib
from fractions import Fraction
import numpy as np


def mat_to_json(a):
    a = np.asarray(a)
    assert a.ndim == 2
    return [[[float(np.real(x)), float(np.imag(x))] for x in row] for row in a]


def mat_from_json(rows, cplx, ncols=None):
    m = len(rows)
    n = len(rows[0]) if m else (ncols or 0)
    a = np.zeros((m, n), dtype=complex)
    for i, row in enumerate(rows):
        for j, (re, im) in enumerate(row):
            a[i, j] = complex(re, im)
    if not cplx:
        assert not np.any(a.imag)
        return np.ascontiguousarray(a.real)
    return a


def sparse_under(M, qrow, qcol):
    """independent re-implementation of block sparsity: M[i, j] != 0 only where qrow[i] == qcol[j]"""
    M = np.asarray(M)
    for i in range(M.shape[0]):
        for j in range(M.shape[1]):
            if M[i, j] != 0 and int(qrow[i]) != int(qcol[j]):
                return False
    return True


def random_block(rng, nprng, r, c, cplx, entries, rankdef=True):
    def draw(shape):
        if entries == 'int':
            x = nprng.integers(-3, 4, size=shape).astype(float)
            if cplx:
                x = x + 1j * nprng.integers(-3, 4, size=shape)
        else:
            x = nprng.standard_normal(shape)
            if cplx:
                x = x + 1j * nprng.standard_normal(shape)
        return x
    u = rng.random() if rankdef else 1.0
    if u < 0.12:
        return np.zeros((r, c), dtype=complex if cplx else float)
    if u < 0.3 and min(r, c) >= 2:
        # rank one (exactly, for integer entries)
        return draw((r, 1)) @ draw((1, c))
    if u < 0.4 and r >= 2:
        B = draw((r, c))
        B[-1] = B[0]
        return B
    return draw((r, c))


def random_sparse(rng, q0, q1, cplx, entries):
    nprng = np.random.default_rng(rng.getrandbits(32))
    m, n = len(q0), len(q1)
    A = np.zeros((m, n), dtype=complex if cplx else float)
    for qn in sorted(set(q0) & set(q1)):
        rows = [i for i in range(m) if q0[i] == qn]
        cols = [j for j in range(n) if q1[j] == qn]
        A[np.ix_(rows, cols)] = random_block(rng, nprng, len(rows), len(cols), cplx, entries)
    return A


class Recorder:
    """wraps numpy primitives from outside and records (argument, answer) per call"""

    def __init__(self):
        self.qr_calls = []
        self.svd_calls = []
        self.argsort_calls = []

    @contextlib.contextmanager
    def patch_qr(self):
        orig = np.linalg.qr
        def wrapper(a, *args, **kw):
            arg = np.array(a, copy=True)
            res = orig(a, *args, **kw)
            self.qr_calls.append((arg, np.array(res[0], copy=True), np.array(res[1], copy=True)))
            return res
        np.linalg.qr = wrapper
        try:
            yield self
        finally:
            np.linalg.qr = orig

    @contextlib.contextmanager
    def patch_svd(self):
        orig_svd = np.linalg.svd
        orig_argsort = np.argsort
        def svd_wrapper(a, *args, **kw):
            arg = np.array(a, copy=True)
            res = orig_svd(a, *args, **kw)
            self.svd_calls.append((arg, np.array(res[0], copy=True), np.array(res[1], copy=True), np.array(res[2], copy=True)))
            return res
        def argsort_wrapper(a, *args, **kw):
            res = orig_argsort(a, *args, **kw)
            arr = np.asarray(a)
            if not args and not kw and arr.dtype.kind == 'f':
                # the unstable sort inside retained_bond_indices (the others are stable sorts of integer vectors)
                self.argsort_calls.append((np.array(arr, copy=True), [int(i) for i in res]))
            return res
        np.linalg.svd = svd_wrapper
        np.argsort = argsort_wrapper
        try:
            yield self
        finally:
            np.linalg.svd = orig_svd
            np.argsort = orig_argsort


def exact_retained(s, sort_idx, tol):
    """retained_bond_indices in exact rational arithmetic with the recorded sort order.
    returns (kept indices, minimal distance of a cumulative weight from tol)"""
    fs = [Fraction(float(x)) for x in s]
    w2 = sum(x * x for x in fs)
    if w2 == 0:
        return [], None
    sn = [x * x / w2 for x in fs]
    cum = list(sn)
    acc = Fraction(0)
    for i in sort_idx:
        acc += sn[i]
        cum[i] = acc
    t = Fraction(float(tol))
    return [i for i in range(len(fs)) if cum[i] > t], min(abs(c - t) for c in cum)


def mat_from_json2(rows, shape):
    """complex array of the given shape (needed when a dimension is zero)"""
    a = np.zeros(tuple(shape), dtype=complex)
    for i, row in enumerate(rows):
        for j, (re, im) in enumerate(row):
            a[i, j] = complex(re, im)
    return a
