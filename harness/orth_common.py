"""Shared helpers of the C01 / C13 plugins (form R replay of MPS/MPO.orthonormalize and MPS.compress):
JSON <-> tensors, recording of numpy.linalg.qr / svd / argsort and of retained_bond_indices, Gallina emitters for
Model/Orthonormalize.v, detection of inputs on which a nearest-argument oracle lookup would be ambiguous."""
import contextlib
from fractions import Fraction
import numpy as np
import emit as E
import bondops_common as BC

COQ_IMPORTS = ['PT.Base.Scalar', 'PT.Base.Field', 'PT.Base.Mx', 'PT.Model.Tensor', 'PT.Model.BondOps', 'PT.Model.Orthonormalize']
COQ_PREAMBLE = E.QC_PREAMBLE + 'Definition cmx := @mkmx CQ.\n'
EPS = 1e-9


def t2j(A):
    A = np.asarray(A)
    flat = np.asarray(A, dtype=complex).reshape(-1)
    return {'shape': [int(x) for x in A.shape], 'data': [[float(x.real), float(x.imag)] for x in flat]}


def j2t(j):
    a = np.array([complex(re, im) for re, im in j['data']], dtype=complex)
    return a.reshape(tuple(j['shape']))


def obj_to_json(obj):
    return {'qd': [int(x) for x in obj.qd], 'qD': [[int(x) for x in q] for q in obj.qD], 'A': [t2j(a) for a in obj.A]}


def _mx(a):
    return E.qimx(a).replace('(mkmx ', '(cmx ', 1)


class _Obj:
    def __init__(self, j):
        self.qd = j['qd']; self.qD = j['qD']; self.A = [j2t(a) for a in j['A']]


def mps_lit(j):
    return E.mps(_Obj(j), _mx)


def mpo_lit(j):
    return E.mpo(_Obj(j), _mx)


def qr_table(calls):
    return E.lst([E.pair(_mx(j2t(c['arg'])), E.pair(_mx(j2t(c['Q'])), _mx(j2t(c['R'])))) for c in calls])


def flist(xs):
    return E.lst([E.qc(float(x)) for x in xs])


def svd_table(calls):
    return E.lst([E.pair(_mx(j2t(c['arg'])), '(%s, %s, %s)' % (_mx(j2t(c['u'])), flist(c['s']), _mx(j2t(c['v'])))) for c in calls])


def pick_table(calls):
    return E.lst([E.pair(flist(c['arg']), E.natlist(c['idx'])) for c in calls])


def qr_calls_json(rec):
    return [{'arg': t2j(a), 'Q': t2j(q), 'R': t2j(r)} for a, q, r in rec.qr_calls]


def svd_calls_json(rec):
    return [{'arg': t2j(a), 'u': t2j(u), 's': [float(x) for x in s], 'v': t2j(v)} for a, u, s, v in rec.svd_calls]


def argsort_calls_json(rec):
    return [{'arg': [float(x) for x in a], 'idx': [int(i) for i in idx]} for a, idx in rec.argsort_calls]


@contextlib.contextmanager
def patch_retained(log):
    """record (s, tol, kept indices) of every retained_bond_indices call issued by split_matrix_svd"""
    import pytenet.bond_ops as bo
    orig = bo.retained_bond_indices
    def wrapper(s, tol):
        s0 = np.array(s, copy=True)
        idx = orig(s, tol)
        log.append({'s': [float(x) for x in s0], 'tol': float(tol), 'idx': [int(i) for i in idx]})
        return idx
    bo.retained_bond_indices = wrapper
    try:
        yield log
    finally:
        bo.retained_bond_indices = orig


def scale_of(*jsons):
    m = 0.0
    for j in jsons:
        for a in j:
            if a['data']:
                m = max(m, max(max(abs(re), abs(im)) for re, im in a['data']))
    return m


def eps_for(scale):
    """comparison / lookup tolerance used inside Coq: 1e-9 * (1 + largest entry), as an exact rational"""
    return Fraction(EPS) * (1 + Fraction(float(scale)))


def lookup_ambiguous(args, answers, eps):
    """two recorded oracle arguments of the same shape closer than 1000*eps whose answers differ by more than eps/1000:
    a nearest-argument lookup could then return the other call's answer (LAPACK is not continuous at rank-deficient
    blocks).  args: list of arrays; answers: list of tuples of arrays"""
    for i in range(len(args)):
        for k in range(i + 1, len(args)):
            a, b = np.asarray(args[i]), np.asarray(args[k])
            if a.shape != b.shape:
                continue
            if a.size == 0 or np.abs(a - b).max() <= 1000 * eps:
                for x, y in zip(answers[i], answers[k]):
                    x, y = np.asarray(x), np.asarray(y)
                    if x.shape != y.shape or (x.size and np.abs(x - y).max() > eps / 1000):
                        return True
    return False


def qr_contract_msgs(calls):
    """LAPACK's contract, measured on every recorded call (trusted-base measurement): Q R = B, Q^H Q = I to 1e-12,
    and the diagonal of R is real (exactly: zgeqrf stores the real beta)"""
    msgs = []
    for c in calls:
        B, Q, R = j2t(c['arg']), j2t(c['Q']), j2t(c['R'])
        k = min(B.shape)
        if Q.shape != (B.shape[0], k) or R.shape != (k, B.shape[1]):
            msgs.append('numpy.linalg.qr returned unexpected shapes'); continue
        if np.abs(Q @ R - B).max(initial=0.0) > 1e-12 * (1 + np.abs(B).max(initial=0.0)) * max(B.shape) \
                or np.abs(Q.conj().T @ Q - np.eye(k)).max(initial=0.0) > 1e-12 * max(B.shape):
            msgs.append('numpy.linalg.qr answer violates its contract beyond 1e-12')
        if np.abs(np.diag(R).imag).max(initial=0.0) != 0.0:
            msgs.append('numpy.linalg.qr returned an R with non-real diagonal')
    return sorted(set(msgs))


def svd_contract_msgs(calls):
    msgs = []
    for c in calls:
        B, U, V = j2t(c['arg']), j2t(c['u']), j2t(c['v'])
        s = np.array(c['s'])
        k = min(B.shape)
        if U.shape != (B.shape[0], k) or V.shape != (k, B.shape[1]) or s.shape != (k,):
            msgs.append('numpy.linalg.svd returned unexpected shapes'); continue
        if (np.abs((U * s) @ V - B).max(initial=0.0) > 1e-12 * (1 + np.abs(B).max(initial=0.0)) * max(B.shape)
                or np.abs(U.conj().T @ U - np.eye(k)).max(initial=0.0) > 1e-12 * max(B.shape)
                or np.abs(V @ V.conj().T - np.eye(k)).max(initial=0.0) > 1e-12 * max(B.shape) or np.any(s < 0)):
            msgs.append('numpy.linalg.svd answer violates its contract beyond 1e-12')
    return sorted(set(msgs))


def retained_ambiguous(ret_calls, argsort_calls):
    """a cumulative relative weight within 1e-9 of the tolerance in exact arithmetic (binary64 may decide differently),
    or recorded calls that cannot be aligned"""
    nz = [c for c in ret_calls if any(c['s'])]
    if len(nz) != len(argsort_calls):
        return True
    for c, a in zip(nz, argsort_calls):
        if c['tol'] == 0:
            continue
        kept, dist = BC.exact_retained(c['s'], a['idx'], c['tol'])
        if dist is not None and dist < Fraction(1, 10 ** 9):
            return True
        if kept != c['idx']:
            return True
    return False


@contextlib.contextmanager
def patch_svd_phase(seed, cplx):
    """replace numpy.linalg.svd by an equally valid SVD oracle: (U D^-1, s, D V) with D a random diagonal of phases
    (signs for real input).  The property is about every valid SVD; LAPACK itself always returns V = [[1]] for a column."""
    rs = np.random.default_rng(seed)
    orig = np.linalg.svd
    def wrapper(a, *args, **kw):
        res = orig(a, *args, **kw)
        if kw.get('compute_uv', True) is False or len(res) != 3:
            return res
        u, s, v = res
        k = len(s)
        if np.iscomplexobj(u) and cplx:
            ph = np.exp(2j * np.pi * rs.random(k))
        else:
            ph = rs.choice([-1.0, 1.0], size=k)
        return (u * np.conj(ph)[None, :], s, ph[:, None] * v)
    np.linalg.svd = wrapper
    try:
        yield
    finally:
        np.linalg.svd = orig
