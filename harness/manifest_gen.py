"""Regenerates MANIFEST.json from harness/claims.json (kept valid at all times)."""
import json, os
HERE = os.path.dirname(os.path.abspath(__file__))
VERIF = os.path.dirname(HERE)
claims = json.load(open(os.path.join(HERE, 'claims.json')))
props = [json.loads(l) for l in open(os.path.join(VERIF, 'properties.jsonl'))]
checks = []
na = []
for p in props:
    pid = p['id']
    c = claims['claimed'].get(pid)
    if c:
        checks.append({
            'property_id': pid,
            'quick_cmd': './check %s --tier quick' % pid,
            'thorough_cmd': './check %s --tier thorough' % pid,
            'evidence_file': 'evidence/%s.json' % pid,
            'replay_cmd_template': './check %s --replay {path}' % pid,
            'engine': 'coq-model+correspondence',
            'level_claimed': {'category': 'proof', 'text': c['text'], 'design_ref': c.get('design_ref', 'DESIGN.md section 8 ' + pid)},
            'level_note': c['note'],
            'technique': c.get('technique', 'Coq 8.16 theorems about a hand-written executable Gallina model; model tied to /repo by a differential correspondence check evaluated with vm_compute'),
        })
    else:
        na.append({'property_id': pid, 'reason': claims['not_applicable'].get(pid, 'model not built yet in this round; never claimed on the strength of testing alone')})
man = {
    'version': 1,
    'setup_cmd': 'cd /verif && /venv/bin/python harness/build_all.py',
    'hooks': {
        'guard': 'PYTENET_VERIF',
        'enable': 'no source hooks: the harness wraps numpy/scipy/pytenet attributes from outside the package (harness/record.py); the guard variable is reserved and unused',
        'baseline_off_cmd': 'cd /repo && /venv/bin/python -m pytest -ra -q -p no:cacheprovider --timeout=900 --continue-on-collection-errors',
        'source_commits': [],
        'add_only': True,
    },
    'engines': [{'name': 'coq-model+correspondence', 'path': 'coq/ harness/', 'serves_properties': sorted(claims['claimed']),
                 'kind_free_text': 'Coq 8.16.1 development (Base/Model/Proofs/Properties) + Python harness that runs /repo and the model on the same inputs'}],
    'checks': checks,
    'not_applicable': na,
    'notes': claims.get('notes', ''),
}
json.dump(man, open(os.path.join(VERIF, 'MANIFEST.json'), 'w'), indent=1)
print('claimed', [c['property_id'] for c in checks])
