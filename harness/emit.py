"""Gallina literal emitters (case files open Z_scope)."""
from fractions import Fraction
import numpy as np


def z(n):
    n = int(n)
    return '(%d)' % n if n < 0 else '%d' % n


def nat(n):
    n = int(n)
    assert 0 <= n < 5000
    return '%d%%nat' % n


def lst(items):
    return '[' + '; '.join(items) + ']'


def zlist(xs):
    return lst([z(x) for x in xs])


def natlist(xs):
    return lst([nat(x) for x in xs])


def boolean(b):
    return 'true' if b else 'false'


def pair(a, b):
    return '(%s, %s)' % (a, b)


def option(x):
    return 'None' if x is None else '(Some %s)' % x


def gi(c):
    """Gaussian integer from an (exactly integer valued) python/numpy number"""
    c = complex(c)
    re, im = c.real, c.imag
    assert re == int(re) and im == int(im), c
    return '(%s, %s)' % (z(int(re)), z(int(im)))


def gimx(a):
    """2-D numpy array with Gaussian-integer entries -> mkmx literal"""
    a = np.asarray(a)
    assert a.ndim == 2
    return '(mkmx %s %s %s)' % (nat(a.shape[0]), nat(a.shape[1]),
                                 lst([lst([gi(x) for x in row]) for row in a]))


def qc(x):
    """exact rational of a float / Fraction -> Qc term  (qcm n d) defined in the preamble"""
    fr = Fraction(x) if not isinstance(x, Fraction) else x
    return '(qcm %s %d)' % (z(fr.numerator), fr.denominator)


def qi(c):
    c = complex(c)
    return '(%s, %s)' % (qc(c.real), qc(c.imag))


def qimx(a):
    a = np.asarray(a)
    assert a.ndim == 2
    return '(mkmx %s %s %s)' % (nat(a.shape[0]), nat(a.shape[1]),
                                 lst([lst([qi(x) for x in row]) for row in a]))


QC_PREAMBLE = 'Definition qcm (n : Z) (d : positive) : Qc := Q2Qc (Qmake n d).\n'
