"""Gallina literal emitters (case files open Z_scope)."""
from fractions import Fraction
import numpy as np


def z(n):
    n = int(n)
    return '(%d)' % n if n < 0 else '%d' % n


def nat(n):
    n = int(n)
    assert 0 <= n < 5000
    return '%d%%nat' % n


def lst(items):
    return '[' + '; '.join(items) + ']'


def zlist(xs):
    return lst([z(x) for x in xs])


def natlist(xs):
    return lst([nat(x) for x in xs])


def boolean(b):
    return 'true' if b else 'false'


def pair(a, b):
    return '(%s, %s)' % (a, b)


def option(x):
    return 'None' if x is None else '(Some %s)' % x


def gi(c):
    """Gaussian integer from an (exactly integer valued) python/numpy number"""
    c = complex(c)
    re, im = c.real, c.imag
    assert re == int(re) and im == int(im), c
    return '(%s, %s)' % (z(int(re)), z(int(im)))


def gimx(a):
    """2-D numpy array with Gaussian-integer entries -> mkmx literal"""
    a = np.asarray(a)
    assert a.ndim == 2
    return '(mkmx %s %s %s)' % (nat(a.shape[0]), nat(a.shape[1]),
                                 lst([lst([gi(x) for x in row]) for row in a]))


def qc(x):
    """exact rational of a float / Fraction -> Qc term  (qcm n d) defined in the preamble"""
    fr = Fraction(x) if not isinstance(x, Fraction) else x
    return '(qcm %s %d)' % (z(fr.numerator), fr.denominator)


def qi(c):
    c = complex(c)
    return '(%s, %s)' % (qc(c.real), qc(c.imag))


def qimx(a):
    a = np.asarray(a)
    assert a.ndim == 2
    return '(mkmx %s %s %s)' % (nat(a.shape[0]), nat(a.shape[1]),
                                 lst([lst([qi(x) for x in row]) for row in a]))


QC_PREAMBLE = 'Definition qcm (n : Z) (d : positive) : Qc := Q2Qc (Qmake n d).\n'


# ---- MPS / MPO literals for Model/Tensor.v ----
def site(A, mxf=None):
    """numpy array of shape (d, Dl, Dr) -> list of d matrices A[s]"""
    mxf = mxf or gimx
    A = np.asarray(A)
    assert A.ndim == 3
    return lst([mxf(A[s]) for s in range(A.shape[0])])


def osite(W, mxf=None):
    """numpy array of shape (d, d, Dl, Dr) -> list of lists of matrices W[s][t]"""
    mxf = mxf or gimx
    W = np.asarray(W)
    assert W.ndim == 4
    return lst([lst([mxf(W[s, t]) for t in range(W.shape[1])]) for s in range(W.shape[0])])


def mps(psi, mxf=None):
    return '(mkmps %s %s %s)' % (zlist(psi.qd), lst([zlist(q) for q in psi.qD]), lst([site(a, mxf) for a in psi.A]))


def mpo(op, mxf=None):
    return '(mkmpo %s %s %s)' % (zlist(op.qd), lst([zlist(q) for q in op.qD]), lst([osite(a, mxf) for a in op.A]))
