"""Shared generators for the sweep algorithms (C08, C09, C10): Hamiltonians and compatible states."""
import numpy as np
import gen as G

MODELS = ['xxz', 'xxz', 'ising', 'bose', 'randherm', 'randherm_q', 'fermi', 'xxz_dm']


def hamiltonian(model, L, rs):
    import pytenet as ptn
    if model == 'xxz':
        J, D, h = float(rs.choice([1.0, -0.7, 0.5])), float(rs.choice([0.0, 1.3, -0.4])), float(rs.choice([0.0, 0.25]))
        if L == 1:
            h = 0.25   # the two-site terms do not fit: avoid the identically-zero operator
        return ptn.heisenberg_xxz_mpo(L, J, D, h)
    if model == 'xxz_dm':
        # XXZ chain with a Dzyaloshinskii-Moriya-like complex hopping: sum J/2 (e^{-i theta} S+_j S-_{j+1} + h.c.) + D Sz Sz - h Sz,
        # obtained from the XXZ MPO by the site-dependent twist W_j[s,t] -> e^{i theta j (z_s - z_t)} W_j[s,t] (complex Hermitian, same charges)
        J, D, h = float(rs.choice([1.0, -0.7])), float(rs.choice([0.0, 1.3])), float(rs.choice([0.0, 0.25]))
        theta = float(rs.choice([0.4, 1.1, -0.7]))
        if L == 1:
            h = 0.25
        H = ptn.heisenberg_xxz_mpo(L, J, D, h)
        z = np.array([0.5, -0.5])
        for j in range(L):
            ph = np.exp(1j * theta * j * (z[:, None] - z[None, :]))
            H.A[j] = H.A[j] * ph[:, :, None, None]
        return H
    if model == 'ising':
        return ptn.ising_mpo(L, 1.0, float(rs.choice([0.0, 0.4])), float(rs.choice([0.7, -1.1])))
    if model == 'bose':
        return ptn.bose_hubbard_mpo(3, L, 0.8, 2.0, 0.3)
    if model == 'fermi':
        return ptn.fermi_hubbard_mpo(L, 1.0, 2.5, 0.1)
    if model == 'randherm':
        return G.hermitian_mpo(rs, L, int(rs.choice([2, 3])) if L <= 3 else 2, 'zero', Dmax=2)
    if model == 'randherm_q':
        return G.hermitian_mpo(rs, L, 2, 'unsorted', Dmax=2)
    raise ValueError(model)


def max_dims(qd, L, q_total, info=False):
    """complete-manifold bond charges: every charge reachable from the left and co-reachable to q_total, with multiplicity"""
    qd = [int(q) for q in qd]
    left = [{0: 1}]
    for i in range(L):
        nxt = {}
        for q, m in left[-1].items():
            for s in qd:
                nxt[q + s] = nxt.get(q + s, 0) + m
        left.append(nxt)
    right = [{q_total: 1}]
    for i in range(L):
        prv = {}
        for q, m in right[0].items():
            for s in qd:
                prv[q - s] = prv.get(q - s, 0) + m
        right.insert(0, prv)
    qD = []
    mixed = []
    for i in range(L + 1):
        qs = []
        common = sorted(set(left[i]) & set(right[i]))
        for q in common:
            qs += [q] * min(left[i][q], right[i][q])
        qD.append(np.array(qs, dtype=int))
        # a bond is "mixed" when some charge block is limited by the left part and another by the right part:
        # then it is neither left- nor right-complete
        mixed.append(any(left[i][q] < right[i][q] for q in common) and any(left[i][q] > right[i][q] for q in common))
    if info:
        return qD, mixed
    return qD


def state(H, rs, Dmax=3, complete=False, sectors=True, dtype='complex', info=None, qt=None):
    """random state compatible with H's physical charges; complete=True gives maximal bond dimensions of a sector"""
    import pytenet as ptn
    L = H.nsites
    qd = np.array(H.qd)
    d = len(qd)
    if complete:
        if np.any(qd) and sectors:
            word = rs.integers(0, d, size=L)
            if qt is None:
                qt = int(np.sum(qd[word]))
            qD, mixed = max_dims(qd, L, qt, info=True)
            if info is not None:
                info['mixed'] = mixed
        else:
            dims = [min(d ** i, d ** (L - i)) for i in range(L + 1)]
            qD = [np.zeros(D, dtype=int) for D in dims]
            if np.any(qd):
                # no usable sectors requested but H carries charges: switch them off on a copy is not allowed (H immutable);
                # fall back to the sector construction
                word = rs.integers(0, d, size=L)
                qD, mixed = max_dims(qd, L, int(np.sum(qd[word])), info=True)
                if info is not None:
                    info['mixed'] = mixed
        psi = ptn.MPS(qd, qD, fill='random', rng=rs)
        if dtype == 'real':
            # real-valued state (meets complex Hermitian MPOs): keep the real parts, block sparsity is unaffected
            psi.A = [np.ascontiguousarray(np.real(a)) for a in psi.A]
        return psi
    return G.rand_mps(rs, L, d, qclass='unsorted' if np.any(qd) else 'zero', Dmax=Dmax, qd=qd, dtype=dtype)


def energy(H, psi):
    """<psi|H|psi> by independent dense contraction"""
    v = G.mps_dense(psi.A)
    M = G.mpo_dense(H.A)
    return complex(np.vdot(v, M @ v))


def herm_defect(H):
    M = G.mpo_dense(H.A)
    return float(np.linalg.norm(M - M.conj().T))
