"""Recorders and Gallina emitters for the trace correspondence (form T) of the sweep algorithms (C08, C09, C10).

The module-level names used by pytenet/evolution.py and pytenet/minimization.py are wrapped from the OUTSIDE while one
integrator / optimiser call runs; every call is appended to a trace with its kind, the site it acts on (found from object
identity of the MPO tensor / environment block / MPS tensor passed, not from the call order), the time argument as a
multiple of the user's dt/2, and its tensor arguments and answer (numeric mode) or only their shapes (shape mode).
Model/Sweeps.v's check_tdvp / check_dmrg re-run the sweep skeleton with the recorded answers as oracle table.
"""
import contextlib
import numpy as np
import emit as E

BAD = 999   # site index used when the callee was invoked on something the recorder cannot place


def enc(a, numeric):
    a = np.asarray(a)
    out = {'s': [int(x) for x in a.shape]}
    if numeric:
        c = a.astype(complex).reshape(-1)
        out['re'] = [float(x) for x in c.real]
        out['im'] = [float(x) for x in c.imag]
    return out


def dec(e):
    return (np.array(e['re']) + 1j * np.array(e['im'])).reshape(e['s'])


class Rec:
    def __init__(self, H, psi, user_dt, numiter, numeric):
        self.H, self.psi, self.user_dt, self.numiter, self.numeric = H, psi, user_dt, numiter, numeric
        self.missing = set()
        self.trace = []
        self.keep = []
        self.merged = {}
        self.blmap = {}
        self.last_pair = None
        self.last_solver_site = None
        self.orth = None
        self.BR = None
        self.ctx_site = None

    # ---- helpers
    def e(self, a):
        return enc(a, self.numeric)

    def wsite(self, W):
        for i, Wi in enumerate(self.H.A):
            if W is Wi:
                return ('one', i)
        if id(W) in self.merged:
            return ('two', self.merged[id(W)])
        return ('one', BAD)

    def coef(self, dt, numiter):
        if numiter != self.numiter:
            return 98
        u = self.user_dt
        for c, v in ((1, 0.5 * u), (-1, -0.5 * u), (2, u), (-2, -u)):
            if dt == v:
                return c
        return 99

    def add(self, k, i, c, envs=(), ten=(), qs=(), ans=None):
        self.trace.append({'k': k, 'i': int(i), 'c': int(c), 'envs': [self.e(x) for x in envs], 'ten': [self.e(x) for x in ten],
                           'qs': [[int(q) for q in x] for x in qs], 'ans': ans})

    def psi_site_of(self, A):
        for i, Ai in enumerate(self.psi.A):
            if A is Ai:
                return i
        return BAD

    def qr_site_by_value(self, M):
        cands = []
        for j, A in enumerate(self.psi.A):
            d, Dl, Dr = A.shape
            if M.shape == (d * Dl, Dr) and np.array_equal(A.reshape(d * Dl, Dr), M):
                cands.append(j)
            elif M.shape == (d * Dr, Dl) and np.array_equal(A.transpose(0, 2, 1).reshape(d * Dr, Dl), M):
                cands.append(j)
        if not cands:
            return BAD
        if self.last_solver_site in cands:
            return self.last_solver_site
        return cands[0]

    # ---- wrappers
    def w_kexp(self, orig):
        def f(L, R, W, A, dt, numiter):
            res = orig(L, R, W, A, dt, numiter)
            kind, i = self.wsite(W)
            self.keep.append(res)
            if kind == 'two':
                self.last_pair = (res, i)
            self.last_solver_site = i
            self.add('KH' if kind == 'one' else 'KH2', i, self.coef(dt, numiter), envs=[L, R], ten=[A], ans={'t': 'site', 'A': self.e(res)})
            return res
        return f

    def w_kexp0(self, orig):
        def f(L, R, C, dt, numiter):
            res = orig(L, R, C, dt, numiter)
            b = self.blmap.get(id(L), 0) - 1
            self.add('KB', b if b >= 0 else BAD, self.coef(dt, numiter), envs=[L, R], ten=[C[None, :, :]], ans={'t': 'mx', 'C': self.e(res)})
            return res
        return f

    def w_keig(self, orig):
        def f(L, R, W, A, numiter):
            en, Aopt = orig(L, R, W, A, numiter)
            kind, i = self.wsite(W)
            self.keep.append(Aopt)
            if kind == 'two':
                self.last_pair = (Aopt, i)
            self.last_solver_site = i
            c = 0 if numiter == self.numiter else 98
            self.add('EIG' if kind == 'one' else 'EIG2', i, c, envs=[L, R], ten=[A],
                     ans={'t': 'eig', 'e': [float(np.real(en)), float(np.imag(en))], 'A': self.e(Aopt)})
            return en, Aopt
        return f

    def w_qr_tdvp(self, orig):
        def f(M, q0, q1):
            i = self.qr_site_by_value(M)
            Q, C, qb = orig(M, q0, q1)
            self.add('QR', i, 0, ten=[np.asarray(M)[None, :, :]], qs=[q0, q1], ans={'t': 'qr', 'Q': self.e(Q), 'C': self.e(C), 'q': [int(x) for x in qb]})
            return Q, C, qb
        return f

    def w_qr_inner(self, orig):
        def f(M, q0, q1):
            Q, C, qb = orig(M, q0, q1)
            if self.ctx_site is not None:
                self.add('QR', self.ctx_site, 0, ten=[np.asarray(M)[None, :, :]], qs=[q0, q1],
                         ans={'t': 'qr', 'Q': self.e(Q), 'C': self.e(C), 'q': [int(x) for x in qb]})
            return Q, C, qb
        return f

    def w_lo(self, orig):
        def f(A, Anb, qd, qD):
            self.ctx_site = self.psi_site_of(A)
            try:
                return orig(A, Anb, qd, qD)
            finally:
                self.ctx_site = None
        return f

    def w_split(self, orig):
        def f(Am, qd0, qd1, qD, distr, tol=0):
            i = self.last_pair[1] if (self.last_pair is not None and Am is self.last_pair[0]) else BAD
            A0, A1, qb = orig(Am, qd0, qd1, qD, distr, tol=tol)
            kind = {'left': 'SPLITL', 'right': 'SPLITR'}.get(distr, 'SPLITL')
            if tol != 0 or distr not in ('left', 'right'):
                i = BAD
            self.add(kind, i, 0, ten=[Am], qs=[qd0, qd1, qD[0], qD[1]], ans={'t': 'split', 'A0': self.e(A0), 'A1': self.e(A1), 'q': [int(x) for x in qb]})
            return A0, A1, qb
        return f

    def w_step(self, orig, left):
        def f(A, B, W, X):
            res = orig(A, B, W, X)
            kind, i = self.wsite(W)
            if kind != 'one' or A is not B:
                i = BAD
            self.keep.append(res)
            if left:
                self.blmap[id(res)] = i + 1
            self.add('STL' if left else 'STR', i, 0, envs=[X, res], ten=[A])
            return res
        return f

    def w_merge_mpo(self, orig):
        def f(W0, W1):
            res = orig(W0, W1)
            k0, i0 = self.wsite(W0)
            k1, i1 = self.wsite(W1)
            self.keep.append(res)
            self.merged[id(res)] = i0 if (k0 == 'one' and k1 == 'one' and i1 == i0 + 1) else BAD
            return res
        return f

    def w_rblocks(self, orig):
        def f(psi, H):
            res = orig(psi, H)
            if psi is self.psi and H is self.H:
                self.BR = [self.e(b) for b in res]
            return res
        return f

    def w_orth(self, orig):
        rec = self

        def f(self_, mode='left'):
            nrm = orig(self_, mode=mode)
            if self_ is rec.psi and rec.orth is None:
                rec.orth = {'mode': mode, 'nrm': float(np.real(nrm)), 'A': [rec.e(a) for a in self_.A], 'qD': [[int(q) for q in x] for x in self_.qD],
                            'qd': [int(q) for q in self_.qd]}
            return nrm
        return f


@contextlib.contextmanager
def patched(rec, module):
    """wrap the module-level names of pytenet.evolution / pytenet.minimization (whichever are present)"""
    import pytenet.mps as MPSMOD
    saved = []

    def robust(name, wrapper):
        """the recorder must never change what the implementation does: if a wrapper fails (a private helper got another signature,
        an argument another type) the original is called with the caller's own arguments exactly once, the hook is recorded as lost
        (the trace is then incomplete: the tie is reported as broken, never a failing input)"""
        def g(orig):
            def h(*a, **k):
                st = {}

                def once(*aa, **kk):
                    st['res'] = orig(*aa, **kk)
                    return st['res']
                try:
                    return wrapper(once)(*a, **k)
                except Exception:
                    rec.missing.add(name)
                    if 'res' in st:
                        return st['res']
                    return orig(*a, **k)
            return h
        return g

    def patch(obj, name, wrapper):
        if hasattr(obj, name):
            orig = getattr(obj, name)
            saved.append((obj, name, orig))
            setattr(obj, name, robust(name, wrapper)(orig))
    try:
        patch(module, '_local_hamiltonian_step', rec.w_kexp)
        patch(module, '_local_bond_step', rec.w_kexp0)
        patch(module, '_minimize_local_energy', rec.w_keig)
        patch(module, 'qr', rec.w_qr_tdvp)
        patch(module, 'split_mps_tensor', rec.w_split)
        patch(module, 'contraction_operator_step_left', lambda o: rec.w_step(o, True))
        patch(module, 'contraction_operator_step_right', lambda o: rec.w_step(o, False))
        patch(module, 'merge_mpo_tensor_pair', rec.w_merge_mpo)
        patch(module, 'compute_right_operator_blocks', rec.w_rblocks)
        patch(module, 'local_orthonormalize_left_qr', rec.w_lo)
        patch(module, 'local_orthonormalize_right_qr', rec.w_lo)
        if hasattr(module, 'local_orthonormalize_left_qr'):
            patch(MPSMOD, 'qr', rec.w_qr_inner)
        patch(MPSMOD.MPS, 'orthonormalize', rec.w_orth)
        yield rec
    finally:
        for obj, name, orig in reversed(saved):
            setattr(obj, name, orig)


def run_recorded(module, fn, H, psi, user_dt, numiter, numeric, *args, **kw):
    """run fn(H, psi, *args, **kw) under the recorder; returns (return value, JSON-able record)"""
    rec = Rec(H, psi, user_dt, numiter, numeric)
    with patched(rec, module):
        ret = fn(H, psi, *args, **kw)
    out = {'numeric': bool(numeric), 'orth': rec.orth, 'BR': rec.BR if numeric else None, 'trace': rec.trace, 'hook_lost': sorted(rec.missing),
           'A': [rec.e(a) for a in psi.A], 'qD': [[int(q) for q in x] for x in psi.qD]}
    return ret, out


def enc_mpo(H, numeric):
    return {'qd': [int(q) for q in H.qd], 'qD': [[int(q) for q in x] for x in H.qD], 'A': [enc(a, numeric) for a in H.A]}


# ----------------------------------------------------------------------------------------------------
# Gallina emission
# ----------------------------------------------------------------------------------------------------
PREAMBLE = (E.QC_PREAMBLE + 'Definition cm (m n : nat) (d : list (list (Qc * Qc))) : mx CQ := @mkmx CQ m n d.\n'
            'Definition cs (a b : Qc) : CQ := (a, b).\nDefinition gz : GIring := (0, 0).\n')


def qimx(a):
    a = np.asarray(a)
    assert a.ndim == 2
    return '(cm %s %s %s)' % (E.nat(a.shape[0]), E.nat(a.shape[1]), E.lst([E.lst([E.qi(x) for x in row]) for row in a]))


def g_site(e, numeric):
    d, Dl, Dr = e['s']
    if not numeric:
        return '(zsite %s %s %s)' % (E.nat(d), E.nat(Dl), E.nat(Dr))
    a = dec(e)
    return E.lst([qimx(a[s]) for s in range(d)])


def g_mx(e, numeric):
    m, n = e['s']
    if not numeric:
        return '(zmx %s %s)' % (E.nat(m), E.nat(n))
    return qimx(dec(e))


def g_env(e, numeric):
    Da, Dw, Db = e['s']
    if not numeric:
        return '(zenv %s %s %s)' % (E.nat(Da), E.nat(Dw), E.nat(Db))
    a = dec(e)
    return E.lst([qimx(a[:, w, :]) for w in range(Dw)])


def g_osite(e, numeric):
    d, d2, Dl, Dr = e['s']
    if not numeric:
        assert d == d2
        return '(zosite %s %s %s)' % (E.nat(d), E.nat(Dl), E.nat(Dr))
    a = dec(e)
    return E.lst([E.lst([qimx(a[s, t]) for t in range(d2)]) for s in range(d)])


def g_scalar(x, numeric):
    if not numeric:
        return 'gz'
    c = complex(x[0], x[1]) if isinstance(x, (list, tuple)) else complex(x)
    return '(cs %s %s)' % (E.qc(c.real), E.qc(c.imag))


KIND = {'KH', 'KH2', 'KB', 'EIG', 'EIG2', 'QR', 'SPLITL', 'SPLITR', 'STL', 'STR'}


def g_ans(a, numeric):
    if a is None:
        return 'ANone'
    t = a['t']
    if t == 'site':
        return '(ASite %s)' % g_site(a['A'], numeric)
    if t == 'mx':
        return '(AMx %s)' % g_mx(a['C'], numeric)
    if t == 'qr':
        return '(AQR %s %s %s)' % (g_mx(a['Q'], numeric), g_mx(a['C'], numeric), E.zlist(a['q']))
    if t == 'split':
        return '(ASplit %s %s %s)' % (g_site(a['A0'], numeric), g_site(a['A1'], numeric), E.zlist(a['q']))
    if t == 'eig':
        return '(AEig %s %s)' % (g_scalar(a['e'], numeric), g_site(a['A'], numeric))
    raise ValueError(t)


def g_rcall(c, numeric):
    assert c['k'] in KIND
    return '(mkr (mkcall %s %s %s) %s %s %s %s)' % (
        c['k'], E.nat(c['i']), E.z(c['c']),
        E.lst([g_env(x, numeric) for x in c['envs']]),
        E.lst([g_site(x, numeric) for x in c['ten']]),
        E.lst([E.zlist(q) for q in c['qs']]),
        g_ans(c['ans'], numeric))


def g_mpo(h, numeric):
    return '(mkmpo %s %s %s)' % (E.zlist(h['qd']), E.lst([E.zlist(q) for q in h['qD']]), E.lst([g_osite(a, numeric) for a in h['A']]))


def g_run(run):
    numeric = run['numeric']
    o = run['orth']
    psi1 = '(mkmps %s %s %s)' % (E.zlist(o['qd']), E.lst([E.zlist(q) for q in o['qD']]), E.lst([g_site(a, numeric) for a in o['A']]))
    br = 'None' if run['BR'] is None else '(Some %s)' % E.lst([g_env(b, numeric) for b in run['BR']])
    return '(mkrun %s %s %s %s %s %s)' % (psi1, g_scalar(o['nrm'], numeric), br, E.lst([g_rcall(c, numeric) for c in run['trace']]),
                                          E.lst([g_site(a, numeric) for a in run['A']]), E.lst([E.zlist(q) for q in run['qD']]))


def ring_args(numeric):
    return ('(R:=CQ) (cq_close (qcm 1 1000000000000000000))' if numeric else '(R:=GIring) any_close')


def term_tdvp(two, h, steps, run):
    if run.get('hook_lost'):
        return 'false'      # the recorder lost a hook (%s): the trace is incomplete, the tie is broken
    numeric = run['numeric']
    return 'check_tdvp %s %s %s %s %s' % (ring_args(numeric), E.boolean(two), g_mpo(h, numeric), E.nat(steps), g_run(run))


def term_dmrg(two, h, sweeps, run, ens):
    if run.get('hook_lost'):
        return 'false'
    numeric = run['numeric']
    return 'check_dmrg %s %s %s %s %s %s' % (ring_args(numeric), E.boolean(two), g_mpo(h, numeric), E.nat(sweeps), g_run(run),
                                             E.lst([g_scalar(x, numeric) for x in ens]))


COQ_IMPORTS = ['PT.Base.Scalar', 'PT.Base.Field', 'PT.Base.BigSum', 'PT.Base.Mx', 'PT.Model.Tensor', 'PT.Model.Operation', 'PT.Model.Sweeps']


FORM_TEXT = ('T (trace refinement) + R (replay): %s run with the module-level callees wrapped from outside; the recorded call sequence '
             '(kind, site found by object identity, time argument / (dt/2), numiter, shapes, quantum-number arguments, answers) must be reproduced '
             'exactly by Model/Sweeps.v run with the recorded answers as oracle table (all cases: at Z[i] with zero tensors of the recorded shapes, '
             'i.e. order / kinds / sites / time coefficients / shapes / charges; small cases (L <= 3, D <= 3, d = 2): at Q[i] with the recorded floats '
             'as exact rationals, every environment block and tensor passed to a recorded call, compute_right_operator_blocks and the final tensors '
             'compared to 1e-9 inside Coq); the solver-call subsequence is compared with the schedule list of the theorems')
TRUSTED = ['hand-written Gallina sweep skeletons (Model/Sweeps.v) tied to evolution.py / minimization.py by the trace correspondence on every case',
           'recorders in harness/sweeprec.py (wrap module attributes from outside; identify sites by object identity)',
           'dense numpy / scipy references in the plugins (search for a failing input only)']
ASSUMPTIONS = ['local Krylov solvers, block QR, SVD split and MPS.orthonormalize are oracles of the model; theorems assume their algebraic contracts '
               '(isometry of Q, Q.R = M, norm / energy preservation resp. Ritz property) only where stated',
               'numiter and tol_split are closed over by the oracles (the recorder checks that the user\'s values are passed through unchanged)']


def mark_replay(cases, limit, nkey):
    """mark the first `limit` small cases for the numeric replay (no random draws: the generator stream is untouched)"""
    n = 0
    for c in cases:
        if n >= limit:
            break
        if (c['L'] <= 3 and c.get('Dmax', 2) <= 3 and c['model'] in ('xxz', 'ising', 'randherm', 'randherm_q', 'xxz_dm') and c.get(nkey, 1) <= 2
                and c.get('repeat', 1) == 1 and c.get('numiter', 3) <= 4 and not c.get('complete')):
            c['replay'] = True
            n += 1


def numeric_ok(case, H, psi):
    """numeric replay (exact rational re-run inside Coq) for the marked small cases and for every small case whose
    right-orthonormalised state still has a bond of dimension 2..3 (these exercise the transposes / absorptions non-trivially)"""
    if not (len(H.qd) == 2 and H.nsites <= 3 and max(H.bond_dims) <= 5 and max(psi.bond_dims) <= 4):
        return False
    if case.get('replay'):
        return max(psi.bond_dims) <= 3
    if case.get('repeat', 1) != 1 or case.get('steps', case.get('sweeps', 1)) > 2:
        return False
    import copy
    p2 = copy.deepcopy(psi)
    p2.orthonormalize(mode='right')
    return 2 <= max(p2.bond_dims) <= 3
