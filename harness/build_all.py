"""setup: full .vo build of the dependency cones of every property claimed in MANIFEST.json"""
import json, os, sys
sys.path.insert(0, os.path.dirname(os.path.abspath(__file__)))
import core
man = json.load(open(os.path.join(core.VERIF, 'MANIFEST.json')))
pids = [c['property_id'] for c in man['checks']]
# fresh restore: remove stale build output so that the whole claimed development is rebuilt from its sources
for root, _, files in os.walk(core.COQ):
    for f in files:
        if f.endswith(('.vo', '.vok', '.vos', '.glob', '.aux')):
            os.remove(os.path.join(root, f))
ok, out, files = core.coq_build(pids)
print(out[-3000:])
print('built %d files for %s: %s' % (len(files), pids, 'OK' if ok else 'FAILED'))
sys.exit(0 if ok else 1)
