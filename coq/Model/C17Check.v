(* Comparison functions evaluated by the correspondence check of property C17 (harness/props/c17.py). *)
From Coq Require Import ZArith List Lia Bool.
From PT Require Import Base.Scalar Base.BigSum Base.Mx Model.OpGraph Model.C17Common Model.OpTree Model.AutOp Model.DenseOp.
Import ListNotations.
Open Scope Z_scope.

Section Check.
  Variable R : cring.

  Definition is_true (o : option bool) : bool := match o with Some true => true | _ => false end.

  (* from_optrees up to simplify(): same graph / same error class; the model's graph is consistent, of length L *)
  Definition check_from_optrees (ts : list (optree R)) (L : nat) (oid_id : Z) (expected : res (graph R)) : bool :=
    let r := from_optrees_raw_r ts (Z.of_nat L) oid_id in
    res_graph_eqb r expected &&
    match r with Ok g => glength_is g L && is_true (is_consistent g) | Err _ => true end.

  (* the statements of the den theorems, evaluated on every word over [ops] *)
  Definition check_aut_den (aut : autop R) (L : nat) (ops : list Z) : bool :=
    match from_automaton_r aut L with
    | Ok g => forallb (fun n => forallb (fun w => keqb R (den g w) (aut_den aut L w)) (words ops n)) (seq 0 (S (S L)))
    | Err _ => true
    end.
  Definition check_optrees_den (ts : list (optree R)) (L : nat) (oid_id : Z) (ops : list Z) : bool :=
    match from_optrees_raw_r ts (Z.of_nat L) oid_id with
    | Ok g => forallb (fun w => keqb R (den g w) (optrees_den oid_id L ts w)) (words ops L)
    | Err _ => true
    end.

  (* dense meaning = sum over words of den * Kronecker product, entry by entry *)
  Definition check_dense_sum (opmap : Z -> mx R) (ops : list Z) (n : nat) (coef : list Z -> R) (m : res (mx R)) : bool :=
    match m with
    | Ok A => Nat.eqb (nr A) (nc A) && mxeqb A (word_sum_mx opmap ops n coef (nr A))
    | Err _ => false
    end.
  Definition check_graph_dense (opmap : Z -> mx R) (g : graph R) (L : nat) (ops : list Z) (e0 e1 : res (mx R)) (sums : bool) : bool :=
    let m0 := graph_as_matrix opmap g 0 in
    let m1 := graph_as_matrix opmap g 1 in
    res_mx_eqb m0 e0 && res_mx_eqb m1 e1 &&
    (if sums then check_dense_sum opmap ops L (den g) m1 && check_dense_sum opmap ops L (den_rev g) m0 else true).
  Definition check_tree_dense (opmap : Z -> mx R) (oid_id : Z) (t : optree R) (ops : list Z) (e : res (mx R)) (sums : bool) : bool :=
    let m := tree_as_matrix opmap t in
    res_mx_eqb m e &&
    (if sums && negb (is_leaf (ot_root t))
     then check_dense_sum opmap ops (tree_height (ot_root t)) (tree_den oid_id (ot_root t)) m else true).
  Definition check_chain_dense (opmap : Z -> mx R) (oids : list Z) (c : R) (ops : list Z) (e : res (mx R)) : bool :=
    let m := Ok (chain_as_matrix opmap oids c) in
    res_mx_eqb m e &&
    check_dense_sum opmap ops (length oids) (fun w => if zl_eqb w oids then c else k0 R) m.
End Check.

Arguments check_from_optrees {R} _ _ _ _. Arguments check_aut_den {R} _ _ _. Arguments check_optrees_den {R} _ _ _ _.
Arguments check_dense_sum {R} _ _ _ _ _. Arguments check_graph_dense {R} _ _ _ _ _ _ _.
Arguments check_tree_dense {R} _ _ _ _ _ _. Arguments check_chain_dense {R} _ _ _ _ _.
