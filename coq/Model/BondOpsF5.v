(* pytenet/bond_ops.py split_matrix_svd AFTER fix F5 ("return a length-one bond label from the no-common-quantum-number
   branch of split_matrix_svd also for a matrix without rows"):

       if len(qis) == 0:
           assert np.linalg.norm(A) == 0
           u = np.zeros((A.shape[0], 1)); v = np.zeros((1, A.shape[1])); s = np.zeros(1)
           if A.shape[0] > 0: u[0, 0] = 1
           q = q0[:1] if A.shape[0] > 0 else np.zeros(1, dtype=int)
           return (u, s, v, q)

   [block_svd] of Model/BondOps.v returns  q = q0[:1]  in that branch, which is the empty list for a matrix without rows;
   [block_svd5] is the mirror of the code as it stands.  The two agree on every matrix with at least one row
   (Proofs/Hist4Zero.v: block_svd5_rows); everything else (sorting, block loop, truncation) is shared.
   Definitions only. *)
From Coq Require Import ZArith List Bool Lia Arith.
From PT Require Import Base.Scalar Base.Field Base.BigSum Base.Mx Model.BondOps.
Import ListNotations.

Section SVD5.
  Variable F : ofield.
  Notation CF := (Cx F).
  Notation mx := (mx CF).
  Variable dsvd : mx -> mx * list F * mx.   (* numpy.linalg.svd(B, full_matrices=False) *)
  Variable pick : list F -> list nat.       (* numpy.argsort inside retained_bond_indices *)

  (* the label of the dummy bond *)
  Definition dummy_label (A : mx) (q0 : list Z) : list Z := if Nat.eqb (nr A) 0 then [0%Z] else firstn 1 q0.

  Definition block_svd5 (A : mx) (q0 q1 : list Z) (tol : F) : option (mx * list F * mx * list Z) :=
    if negb (valid_in A q0 q1) then None else
    match intersect1d q0 q1 with
    | [] =>
        if negb (is_zeromx A) then None
        else Some (e0col (nr A), [f0 F], zeromx 1 (nc A), dummy_label A q0)
    | _ => block_svd dsvd pick A q0 q1 tol
    end.

  (* split_matrix_svd in the form expected by Model/MPSOps.v split_mps_tensor and by the state machine Model/History.v
     (singular values embedded into the scalars; the error value becomes an answer of impossible shape) *)
  Definition svd_result5 (tol : F) (A : mx) (q0 q1 : list Z) : mx * list CF * mx * list Z :=
    match block_svd5 A q0 q1 tol with
    | Some (u, s, v, q) => (u, map (@cof F) s, v, q)
    | None => (A, [], A, [])
    end.
End SVD5.

Arguments dummy_label {F} A q0.
Arguments block_svd5 {F} dsvd pick A q0 q1 tol.
Arguments svd_result5 {F} dsvd pick tol A q0 q1.
