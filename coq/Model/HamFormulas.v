(* Textbook forms of the built-in lattice Hamiltonians as functions  word of operator ids -> coefficient,
   written independently of the chain tables of Model/Hamiltonians.v: sums over sites of identity-padded local words.
   [T1 L a i w] = [w is  I^i a I^(L-1-i)],  [T2 L a b i w] = [w is  I^i a b I^(L-2-i)]  (identity id 0). *)
From Coq Require Import ZArith List Lia Bool.
From PT Require Import Base.Scalar Base.BigSum Model.OpGraph Model.FromOpchains.
Import ListNotations.
Open Scope Z_scope.

Section Formulas.
  Variable R : cring.
  Notation "0r" := (k0 R). Notation "1r" := (k1 R).
  Infix "+r" := (kadd R) (at level 50, left associativity).
  Infix "*r" := (kmul R) (at level 40, left associativity).
  Infix "-r" := (ksub R) (at level 50, left associativity).

  Definition indb (b : bool) : R := if b then 1r else 0r.
  (* the word I^i . oids . I^(L - |oids| - i) *)
  Definition padw (L : nat) (idn : Z) (oids : list Z) (i : nat) : list Z :=
    repeat idn i ++ oids ++ repeat idn (L - length oids - i).
  Definition is_word (L : nat) (idn : Z) (oids : list Z) (i : nat) (w : list Z) : R := indb (zlist_eqb (padw L idn oids i) w).
  (* sum over all translates of a local word that fit on L sites (none if the word is longer than L) *)
  Definition hits (L : nat) (idn : Z) (oids : list Z) (w : list Z) : R :=
    sumn (L + 1 - length oids) (fun i => is_word L idn oids i w).
  (* sum over a table of local terms: coeff . sum_i [w = I^i oids I^(L-len-i)] *)
  Definition local_sum (L : nat) (idn : Z) (lop : list (chain R)) (w : list Z) : R :=
    suml lop (fun l => c_coeff l *r hits L idn (c_oids l) w).

  Definition T1 (L : nat) (a : Z) (i : nat) (w : list Z) : R := is_word L 0 [a] i w.
  Definition T2 (L : nat) (a b : Z) (i : nat) (w : list Z) : R := is_word L 0 [a; b] i w.

  (* XXZ (spin 1/2 and spin 1; ids S- = -1, S+ = 1, Sz = 2):
       sum_{i<L-1} [ (J/2) (S+_i S-_{i+1} + S-_i S+_{i+1}) + D Sz_i Sz_{i+1} ]  -  h sum_{i<L} Sz_i *)
  Definition xxz_formula (half J D h : R) (L : nat) (w : list Z) : R :=
    sumn (L - 1) (fun i => (half *r J) *r (T2 L 1 (-1) i w +r T2 L (-1) 1 i w) +r D *r T2 L 2 2 i w)
    -r h *r sumn L (fun i => T1 L 2 i w).
  (* Bose-Hubbard (ids b = -1, b^dag = 1, n = 2, n(n-1)/2 = 3):
       -t sum_{i<L-1} (b^dag_i b_{i+1} + b_i b^dag_{i+1})  - mu sum_i n_i  + U sum_i n_i (n_i - 1) / 2 *)
  Definition bose_formula (t U mu : R) (L : nat) (w : list Z) : R :=
    kopp R t *r sumn (L - 1) (fun i => T2 L 1 (-1) i w +r T2 L (-1) 1 i w)
    -r mu *r sumn L (fun i => T1 L 2 i w) +r U *r sumn L (fun i => T1 L 3 i w).
  (* Fermi-Hubbard (site operators: CZ = 3, AI = 2, AZ = 4, CI = 1, IC = 5, ZA = 8, IA = 6, ZC = 7, n_up + n_dn = 9,
     (n_up - 1/2)(n_dn - 1/2) = 10):
       -t sum_{i<L-1} [ (CZ_i AI_{i+1} + AZ_i CI_{i+1}) + (IC_i ZA_{i+1} + IA_i ZC_{i+1}) ] - mu sum_i N_i + U sum_i NI_i *)
  Definition fermi_formula (t U mu : R) (L : nat) (w : list Z) : R :=
    kopp R t *r sumn (L - 1) (fun i => T2 L 3 2 i w +r T2 L 4 1 i w +r T2 L 5 8 i w +r T2 L 6 7 i w)
    -r mu *r sumn L (fun i => T1 L 9 i w) +r U *r sumn L (fun i => T1 L 10 i w).
  (* Ising (ids Z = 1, X = 2):  J sum_{i<L-1} Z_i Z_{i+1} + sum_i (h Z_i + g X_i) *)
  Definition ising_formula (J h g : R) (L : nat) (w : list Z) : R :=
    J *r sumn (L - 1) (fun i => T2 L 1 1 i w) +r sumn L (fun i => h *r T1 L 1 i w +r g *r T1 L 2 i w).
  (* linear fermionic (ids A = -1, C = 1, Z = 2):  sum_i coeff_i  I^i (C|A) Z^(L-1-i) *)
  Definition jw_word (L : nat) (o : Z) (i : nat) : list Z := repeat 0 i ++ [o] ++ repeat 2 (L - 1 - i).
  Definition linferm_formula (coeff : list R) (o : Z) (w : list Z) : R :=
    sumn (length coeff) (fun i => nth i coeff 0r *r indb (zlist_eqb (jw_word (length coeff) o i) w)).
End Formulas.
Arguments indb {R} _. Arguments is_word {R} _ _ _ _ _. Arguments hits {R} _ _ _ _. Arguments local_sum {R} _ _ _ _.
Arguments T1 {R} _ _ _ _. Arguments T2 {R} _ _ _ _ _.
Arguments xxz_formula {R} _ _ _ _ _ _. Arguments bose_formula {R} _ _ _ _ _. Arguments fermi_formula {R} _ _ _ _ _.
Arguments ising_formula {R} _ _ _ _ _. Arguments linferm_formula {R} _ _ _.

(* ---- charges of local operators and the word adjoint (used by the finite checks of C06) ---- *)
From PT Require Import Base.Mx Model.GraphMPO Model.Hamiltonians.
Section Charges.
  Variable R : cring.
  (* every non-zero entry M[s,t] changes the physical charge by dq:  qd[s] - qd[t] = dq *)
  Definition op_charge_okb (qd : list Z) (M : mx R) (dq : Z) : bool :=
    forallb (fun s => forallb (fun t => keqb R (get M s t) (k0 R) || (nth s qd 0 - nth t qd 0 =? dq)) (seq 0 (nc M))) (seq 0 (nr M)).
  (* along a chain the operator at position k carries the difference of the interleaved bond charges *)
  Fixpoint chain_charges_okb (qd : list Z) (om : Z -> mx R) (oids qnums : list Z) : bool :=
    match oids, qnums with
    | [], _ => true
    | o :: os, q0 :: ((q1 :: _) as qs) => op_charge_okb qd (om o) (q1 - q0) && chain_charges_okb qd om os qs
    | _, _ => false
    end.
  Definition spec_charges_okb (sp : hamspec R) : bool :=
    let om := opmap_of (h_opmap sp) in
    op_charge_okb (h_qd sp) (om (h_idn sp)) 0 &&
    forallb (fun c => chain_charges_okb (h_qd sp) om (c_oids c) (c_qnums c)) (h_lop sp) &&
    forallb (fun p => Nat.eqb (nr (snd p)) (length (h_qd sp)) && Nat.eqb (nc (snd p)) (length (h_qd sp)) && wfb (snd p)) (h_opmap sp).
  (* adjoint of a chain: operator ids mapped by [adjo], bond charges negated, coefficient conjugated *)
  Definition chain_adj (adjo : Z -> Z) (c : chain R) : chain R :=
    mkchain (map adjo (c_oids c)) (map Z.opp (c_qnums c)) (kconj R (c_coeff c)) (c_istart c).
  (* opmap(adj o) = opmap(o)^H on the listed ids *)
  Definition opmap_adj_okb (om : list (Z * mx R)) (adjo : Z -> Z) : bool :=
    forallb (fun p => mxeqb (adjmx (snd p)) (opmap_of om (adjo (fst p)))) om.
End Charges.
Arguments op_charge_okb {R} _ _ _. Arguments chain_charges_okb {R} _ _ _ _. Arguments spec_charges_okb {R} _.
Arguments chain_adj {R} _ _. Arguments opmap_adj_okb {R} _ _.
(* S+ <-> S-, b <-> b^dag, C <-> A  (ids 1 <-> -1);  Fermi-Hubbard: CI <-> AI, CZ <-> AZ, IC <-> IA, ZC <-> ZA *)
Definition adjo_pm (o : Z) : Z := if o =? 1 then -1 else if o =? -1 then 1 else o.
Definition adjo_fermi (o : Z) : Z :=
  if o =? 1 then 2 else if o =? 2 then 1 else if o =? 3 then 4 else if o =? 4 then 3 else
  if o =? 5 then 6 else if o =? 6 then 5 else if o =? 7 then 8 else if o =? 8 then 7 else o.
