(* Executable mirror of pytenet/krylov.py over K := Cx F (F an ordered field).
   Vectors are [list K]; the linear map [Afunc], numpy.linalg.norm ([dnorm]), the breakdown
   test [beta < 100*n*eps*max(1, max|A v0|)] ([small]: the tolerance is fixed per call, after fix F9 relative to the operator), scipy eigh_tridiagonal ([deigh]), numpy.exp ([dexp]) and
   scipy expm ([dexpm]) are arguments (section variables): nothing numerical is assumed here. *)
From Coq Require Import ZArith QArith Qcanon List Bool Arith Lia.
From PT Require Import Base.Scalar Base.Field.
Import ListNotations.

Section Krylov.
  Variable F : ofield.
  Notation K := (Cx F).
  Definition vec : Type := list K.

  (* ---- vector helpers ---- *)
  Fixpoint zipw {A B X} (f : A -> B -> X) (x : list A) (y : list B) : list X :=
    match x, y with a :: x', b :: y' => f a b :: zipw f x' y' | _, _ => [] end.
  (* np.vdot: first argument conjugated *)
  Fixpoint vdot (x y : vec) : K :=
    match x, y with a :: x', b :: y' => kadd K (kmul K (kconj K a) b) (vdot x' y') | _, _ => k0 K end.
  (* unconjugated dot (row of a matrix times a vector) *)
  Fixpoint dotu (x y : vec) : K :=
    match x, y with a :: x', b :: y' => kadd K (kmul K a b) (dotu x' y') | _, _ => k0 K end.
  Definition vadd (x y : vec) : vec := zipw (kadd K) x y.
  Definition vsub (x y : vec) : vec := zipw (ksub K) x y.
  Definition cscale (c : K) (x : vec) : vec := map (kmul K c) x.
  Definition rscale (a : F) (x : vec) : vec := cscale (cof a) x.
  Definition vdivr (x : vec) (r : F) : vec := map (fun z => cdivr z r) x.
  Definition vzero (n : nat) : vec := repeat (k0 K) n.
  Fixpoint nrm2 (x : vec) : F := match x with [] => f0 F | z :: x' => fadd F (cnorm2 z) (nrm2 x') end.
  Definition matvec (A : list vec) (x : vec) : vec := map (fun row => dotu row x) A.
  (* V @ c for V given by its columns: sum_j c_j * V_j  (n = vector length) *)
  Fixpoint lincomb (n : nat) (cs : list K) (Vs : list vec) : vec :=
    match cs, Vs with c :: cs', v :: Vs' => vadd (cscale c v) (lincomb n cs' Vs') | _, _ => vzero n end.

  Variable Afunc : vec -> vec.
  Variable dnorm : vec -> F.
  Variable small : F -> bool.

  (* ---- lanczos_iteration ---- *)
  (* loop body at index j:  w = Afunc(V[j]); alpha[j] = vdot(w, V[j]).real;
     w -= alpha[j]*V[j] + (beta[j-1]*V[j-1] if j > 0 else 0); beta[j] = norm(w) *)
  Definition lanczos_body (j : nat) (be : list F) (Vs : list vec) : F * vec * F :=
    let vj := nth j Vs [] in
    let w := Afunc vj in
    let a := cre (vdot w vj) in
    let w' := vsub w (match j with
                      | O => rscale a vj
                      | S j' => vadd (rscale a vj) (rscale (nth j' be (f0 F)) (nth j' Vs []))
                      end) in
    (a, w', dnorm w').

  (* [fuel] = remaining passes of  for j in range(numiter-1);  at fuel 0 the final iteration
     (alpha only). Result: (alpha, beta, V as list of columns, RuntimeWarning issued) *)
  Fixpoint lanczos_loop (fuel j : nat) (al be : list F) (Vs : list vec) : list F * list F * list vec * bool :=
    match fuel with
    | O => let vj := nth j Vs [] in (al ++ [cre (vdot (Afunc vj) vj)], be, Vs, false)
    | S fuel' =>
        let '(a, w', b) := lanczos_body j be Vs in
        if small b then (al ++ [a], be, Vs, true)          (* alpha[:j+1], beta[:j], V[:j+1] *)
        else lanczos_loop fuel' (S j) (al ++ [a]) (be ++ [b]) (Vs ++ [vdivr w' b])
    end.

  (* None = the call raises (assert nrmv > 0; numiter = 0) *)
  Definition lanczos (v : vec) (m : nat) : option (list F * list F * list vec * bool) :=
    let nrmv := dnorm v in
    if fltb F (f0 F) nrmv then
      match m with O => None | S m' => Some (lanczos_loop m' 0 [] [] [vdivr v nrmv]) end
    else None.

  (* the norm calls issued by the loop, with their answers (for the oracle contract) *)
  Fixpoint lanczos_loop_calls (fuel j : nat) (be : list F) (Vs : list vec) : list (vec * F) :=
    match fuel with
    | O => []
    | S fuel' =>
        let '(a, w', b) := lanczos_body j be Vs in
        (w', b) :: (if small b then [] else lanczos_loop_calls fuel' (S j) (be ++ [b]) (Vs ++ [vdivr w' b]))
    end.
  Definition lanczos_calls (v : vec) (m : nat) : list (vec * F) :=
    (v, dnorm v) :: match m with O => [] | S m' => lanczos_loop_calls m' 0 [] [vdivr v (dnorm v)] end.

  (* ---- arnoldi_iteration ---- *)
  (* for k in range(j+1): H[k,j] = vdot(V[k], w); w -= H[k,j]*V[k] *)
  Fixpoint mgs (Vs : list vec) (w : vec) : list K * vec :=
    match Vs with
    | [] => ([], w)
    | vk :: rest => let h := vdot vk w in
                    let '(hs, w') := mgs rest (vsub w (cscale h vk)) in (h :: hs, w')
    end.
  Definition arnoldi_body (j : nat) (Vs : list vec) : list K * vec * F :=
    let w := Afunc (nth j Vs []) in
    let '(hs, w') := mgs (firstn (S j) Vs) w in (hs, w', dnorm w').
  (* H is accumulated by columns; column j holds H[0..j+1, j] (H[0..j, j] for the last one) *)
  Fixpoint arnoldi_loop (fuel j : nat) (cols : list (list K)) (Vs : list vec) : list (list K) * list vec * bool :=
    match fuel with
    | O => let '(hs, _, _) := arnoldi_body j Vs in (cols ++ [hs], Vs, false)
    | S fuel' =>
        let '(hs, w', b) := arnoldi_body j Vs in
        if small b then (cols ++ [hs], Vs, true)            (* H[:j+1,:j+1], V[:j+1] *)
        else arnoldi_loop fuel' (S j) (cols ++ [hs ++ [cof b]]) (Vs ++ [vdivr w' b])
    end.
  (* the k x k array (list of rows) whose column j is cols[j] padded with zeros *)
  Definition hentry (cols : list (list K)) (i j : nat) : K := nth i (nth j cols []) (k0 K).
  Definition hmat (k : nat) (cols : list (list K)) : list (list K) :=
    map (fun i => map (fun j => hentry cols i j) (seq 0 k)) (seq 0 k).
  Definition arnoldi (v : vec) (m : nat) : option (list (list K) * list vec * bool) :=
    let nrmv := dnorm v in
    if fltb F (f0 F) nrmv then
      match m with O => None | S m' =>
        let '(cols, Vs, wn) := arnoldi_loop m' 0 [] [vdivr v nrmv] in Some (hmat (length Vs) cols, Vs, wn) end
    else None.
  Fixpoint arnoldi_loop_calls (fuel j : nat) (Vs : list vec) : list (vec * F) :=
    match fuel with
    | O => []
    | S fuel' =>
        let '(hs, w', b) := arnoldi_body j Vs in
        (w', b) :: (if small b then [] else arnoldi_loop_calls fuel' (S j) (Vs ++ [vdivr w' b]))
    end.
  Definition arnoldi_calls (v : vec) (m : nat) : list (vec * F) :=
    (v, dnorm v) :: match m with O => [] | S m' => arnoldi_loop_calls m' 0 [vdivr v (dnorm v)] end.

  (* ---- eigh_krylov / expm_krylov ---- *)
  Variable deigh : list F -> list F -> list F * list (list F).   (* eigh_tridiagonal: (w, U rows) *)
  Variable dexp : K -> K.                                         (* numpy.exp, elementwise *)
  Variable dexpm : list (list K) -> list (list K).               (* scipy.linalg.expm *)

  Definition ncols {A} (U : list (list A)) : nat := match U with [] => 0 | r :: _ => length r end.
  Definition ucol (U : list (list F)) (q : nat) : list K := map (fun row => cof (nth q row (f0 F))) U.

  (* returns (w_hess[0:numeig], columns of V @ u_hess[:, 0:numeig]) *)
  Definition eigh_krylov (v : vec) (m numeig : nat) : option (list F * list vec) :=
    match lanczos v m with
    | None => None
    | Some (al, be, Vs, _) =>
        let '(w, U) := deigh al be in
        Some (firstn numeig w,
              map (fun q => lincomb (length v) (ucol U q) Vs) (seq 0 (Nat.min numeig (ncols U))))
    end.

  (* V @ (u_hess @ (norm(v) * exp(dt*w_hess) * u_hess[0])) *)
  Definition expm_coeffs_h (nrm : F) (dt : K) (w : list F) (U : list (list F)) : list K :=
    let y := zipw (fun wk u0k => kmul K (kmul K (cof nrm) (dexp (kmul K dt (cof wk)))) (cof u0k)) w (nth 0 U []) in
    map (fun row => dotu (map cof row) y) U.
  Definition expm_krylov_h (v : vec) (dt : K) (m : nat) : option vec :=
    match lanczos v m with
    | None => None
    | Some (al, be, Vs, _) =>
        let '(w, U) := deigh al be in
        Some (lincomb (length v) (expm_coeffs_h (dnorm v) dt w U) Vs)
    end.
  (* V @ (norm(v) * expm(dt*H)[:, 0]) *)
  Definition expm_krylov_g (v : vec) (dt : K) (m : nat) : option vec :=
    match arnoldi v m with
    | None => None
    | Some (H, Vs, _) =>
        let E := dexpm (map (cscale dt) H) in
        Some (lincomb (length v) (map (fun row => kmul K (cof (dnorm v)) (nth 0 row (k0 K))) E) Vs)
    end.
  Definition expm_krylov (v : vec) (dt : K) (m : nat) (hermitian : bool) : option vec :=
    if hermitian then expm_krylov_h v dt m else expm_krylov_g v dt m.
End Krylov.

Arguments vdot {F} x y. Arguments dotu {F} x y. Arguments vadd {F} x y. Arguments vsub {F} x y.
Arguments cscale {F} c x. Arguments rscale {F} a x. Arguments vdivr {F} x r. Arguments vzero {F} n.
Arguments nrm2 {F} x. Arguments matvec {F} A x. Arguments lincomb {F} n cs Vs.
Arguments hentry {F} cols i j. Arguments hmat {F} k cols. Arguments ucol {F} U q.

(* ======================================================================================
   Replay support (correspondence check): comparison in exact arithmetic with tolerance,
   oracles built from the answers recorded while the implementation ran.
   ====================================================================================== *)
Section Replay.
  Variable F : ofield.
  Notation K := (Cx F).
  Definition fabs (x : F) : F := if fleb F (f0 F) x then x else fopp F x.
  (* |x - y| <= tol * (1 + |y|) *)
  Definition approx_eqb (tol x y : F) : bool :=
    fleb F (fabs (fsub F x y)) (fmul F tol (fadd F (f1 F) (fabs y))).
  Definition capprox_eqb (tol : F) (x y : K) : bool :=
    approx_eqb tol (cre x) (cre y) && approx_eqb tol (cim x) (cim y).
  Fixpoint list_approx {A} (eq : A -> A -> bool) (x y : list A) : bool :=
    match x, y with [] , [] => true | a :: x', b :: y' => eq a b && list_approx eq x' y' | _, _ => false end.
  Definition fl_approx tol := list_approx (approx_eqb tol).
  Definition vec_approx tol := list_approx (capprox_eqb tol).
  Definition vecs_approx tol := list_approx (vec_approx tol).

  (* numpy.linalg.norm from the recorded answers: the recorded r that satisfies the contract
     r^2 = sum |x_i|^2 on this argument (|r^2 - s| <= tol (r^2 + s) + tol^2); -1 if there is none *)
  Definition norm_tab (tol : F) (rs : list F) (x : list K) : F :=
    let s := nrm2 x in
    match find (fun r => let r2 := fmul F r r in
                 fleb F (fabs (fsub F r2 s)) (fadd F (fmul F tol (fadd F r2 s)) (fmul F tol tol))) rs with
    | Some r => r | None => fopp F (f1 F) end.
  Definition small_thr (thr : F) (b : F) : bool := fltb F b thr.

  (* recorded eigh_tridiagonal / expm call: answer only if the argument matches *)
  Definition eigh_tab (tol : F) (al be : list F) (ans : list F * list (list F)) (al' be' : list F)
    : list F * list (list F) :=
    if fl_approx tol al' al && fl_approx tol be' be then ans else ([], []).
  Definition expm_tab (tol : F) (arg ans : list (list K)) (arg' : list (list K)) : list (list K) :=
    if vecs_approx tol arg' arg then ans else [].
  Definition exp_tab (tol : F) (tab : list (K * K)) (z : K) : K :=
    match find (fun p => capprox_eqb tol z (fst p)) tab with Some p => snd p | None => k0 K end.

  Section Checks.
    Variables (tol thr : F) (A : list (list K)) (rs : list F).
    Let Af := matvec A.
    Let dn := norm_tab tol rs.
    Let sm := small_thr thr.

    (* full run of the model against the returned (alpha, beta, V, warned) *)
    Definition check_lanczos_full (v : list K) (m : nat) (al be : list F) (Vs : list (list K)) (wn : bool) : bool :=
      match lanczos F Af dn sm v m with
      | None => false
      | Some (al', be', Vs', wn') =>
          fl_approx tol al' al && fl_approx tol be' be && vecs_approx tol Vs' Vs && Bool.eqb wn' wn
      end.

    (* step-wise: every pass of the loop is run by the model from the implementation's own state
       (its V[..j], beta[..j-1]) and must reproduce the implementation's next alpha, beta, V[j+1],
       the breakdown decision and the output shapes *)
    Fixpoint lanczos_steps (fuel j : nat) (al be : list F) (Vs : list (list K)) : bool :=
      match fuel with
      | O => true
      | S fuel' =>
          let '(a, w', b) := lanczos_body F Af dn j be Vs in
          approx_eqb tol a (nth j al (f0 F)) && approx_eqb tol b (nth j be (f0 F)) && negb (sm b) &&
          vec_approx tol (vdivr w' b) (nth (S j) Vs []) && lanczos_steps fuel' (S j) al be Vs
      end.
    Definition check_lanczos_steps (v : list K) (m : nat) (al be : list F) (Vs : list (list K)) (wn : bool) : bool :=
      let k := length Vs in
      Nat.leb 1 k && Nat.leb k m && Nat.eqb (length al) k && Nat.eqb (S (length be)) k &&
      Bool.eqb wn (Nat.ltb k m) &&
      fltb F (f0 F) (dn v) && vec_approx tol (vdivr v (dn v)) (nth 0 Vs []) &&
      lanczos_steps (k - 1) 0 al be Vs &&
      (let '(a, w', b) := lanczos_body F Af dn (k - 1) be Vs in
       approx_eqb tol a (nth (k - 1) al (f0 F)) && (if wn then sm b else true)).
    Definition check_lanczos (full : bool) v m al be Vs wn : bool :=
      check_lanczos_steps v m al be Vs wn && (if full then check_lanczos_full v m al be Vs wn else true).

    Definition hmat_approx (H H' : list (list K)) : bool := vecs_approx tol H H'.
    Definition check_arnoldi_full (v : list K) (m : nat) (H : list (list K)) (Vs : list (list K)) (wn : bool) : bool :=
      match arnoldi F Af dn sm v m with
      | None => false
      | Some (H', Vs', wn') => hmat_approx H' H && vecs_approx tol Vs' Vs && Bool.eqb wn' wn
      end.
    Definition hcol (H : list (list K)) (j : nat) (len : nat) : list K :=
      map (fun i => nth j (nth i H []) (k0 K)) (seq 0 len).
    Fixpoint arnoldi_steps (fuel j : nat) (H : list (list K)) (Vs : list (list K)) : bool :=
      match fuel with
      | O => true
      | S fuel' =>
          let '(hs, w', b) := arnoldi_body F Af dn j Vs in
          vec_approx tol (hs ++ [cof b]) (hcol H j (S (S j))) && negb (sm b) &&
          vec_approx tol (vdivr w' b) (nth (S j) Vs []) && arnoldi_steps fuel' (S j) H Vs
      end.
    (* entries below the first subdiagonal of the returned array are exactly zero *)
    Definition hess_zero (H : list (list K)) : bool :=
      forallb (fun i => forallb (fun j => Nat.leb i (S j) || keqb K (nth j (nth i H []) (k0 K)) (k0 K))
                          (seq 0 (length H))) (seq 0 (length H)).
    Definition check_arnoldi_steps (v : list K) (m : nat) (H : list (list K)) (Vs : list (list K)) (wn : bool) : bool :=
      let k := length Vs in
      Nat.leb 1 k && Nat.leb k m && Nat.eqb (length H) k && forallb (fun r => Nat.eqb (length r) k) H &&
      Bool.eqb wn (Nat.ltb k m) && hess_zero H &&
      fltb F (f0 F) (dn v) && vec_approx tol (vdivr v (dn v)) (nth 0 Vs []) &&
      arnoldi_steps (k - 1) 0 H Vs &&
      (let '(hs, w', b) := arnoldi_body F Af dn (k - 1) Vs in
       vec_approx tol hs (hcol H (k - 1) k) && (if wn then sm b else true)).
    Definition check_arnoldi (full : bool) v m H Vs wn : bool :=
      check_arnoldi_steps v m H Vs wn && (if full then check_arnoldi_full v m H Vs wn else true).
  End Checks.

  (* C15: the functions built on top, run from the implementation's own Lanczos / Arnoldi output
     (itself checked by check_lanczos / check_arnoldi): the oracles deigh, dexp, dexpm answer only
     on (approximately) the recorded arguments *)
  Section Checks15.
    Variables (tol thr : F) (A : list (list K)) (rs : list F).
    Let Af := matvec A.
    Let dn := norm_tab tol rs.
    Let sm := small_thr thr.
    (* oracle stubs for lanczos/arnoldi replaced by the implementation's recorded output:
       the model functions eigh_krylov / expm_krylov are run with an [Afunc]/[dnorm] replay when
       [full], and in any case their post-processing is run on the recorded iteration output *)
    Definition post_eigh (n numeig : nat) (Vs : list (list K)) (w : list F) (U : list (list F)) : list F * list (list K) :=
      (firstn numeig w, map (fun q => lincomb n (ucol U q) Vs) (seq 0 (Nat.min numeig (ncols U)))).
    Definition check_eigh (full : bool) (v : list K) (m numeig : nat)
        (al be : list F) (Vs : list (list K)) (wn : bool)
        (ew : list F) (eU : list (list F)) (rw : list F) (ru : list (list K)) : bool :=
      check_lanczos tol thr A rs full v m al be Vs wn &&
      (let '(w', u') := post_eigh (length v) numeig Vs ew eU in fl_approx tol w' rw && vecs_approx tol u' ru) &&
      (if full then
         match eigh_krylov F Af dn sm (eigh_tab tol al be (ew, eU)) v m numeig with
         | Some (w', u') => fl_approx tol w' rw && vecs_approx tol u' ru
         | None => false end
       else true).
    Definition check_expm_h (full : bool) (v : list K) (dt : K) (m : nat)
        (al be : list F) (Vs : list (list K)) (wn : bool)
        (ew : list F) (eU : list (list F)) (etab : list (K * K)) (res : list K) : bool :=
      check_lanczos tol thr A rs full v m al be Vs wn &&
      vec_approx tol (lincomb (length v) (expm_coeffs_h F (exp_tab tol etab) (dn v) dt ew eU) Vs) res &&
      (if full then
         match expm_krylov F Af dn sm (eigh_tab tol al be (ew, eU)) (exp_tab tol etab) (fun _ => []) v dt m true with
         | Some r => vec_approx tol r res | None => false end
       else true).
    Definition check_expm_g (full : bool) (v : list K) (dt : K) (m : nat)
        (H : list (list K)) (Vs : list (list K)) (wn : bool)
        (marg mans : list (list K)) (res : list K) : bool :=
      check_arnoldi tol thr A rs full v m H Vs wn &&
      (let E := expm_tab tol marg mans (map (cscale dt) H) in
       vec_approx tol (lincomb (length v) (map (fun row => kmul K (cof (dn v)) (nth 0 row (k0 K))) E) Vs) res) &&
      (if full then
         match expm_krylov F Af dn sm (fun _ _ => ([], [])) (fun z => z) (expm_tab tol marg mans) v dt m false with
         | Some r => vec_approx tol r res | None => false end
       else true).
  End Checks15.
End Replay.

(* literals: n / 2^e *)
Definition qd (n : Z) (e : N) : Qc := Q2Qc (Qmake n (Pos.shiftl 1 e)).
Definition qdc (a : Z) (ea : N) (b : Z) (eb : N) : C QcF := (qd a ea, qd b eb).
