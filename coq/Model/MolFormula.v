(* C07 (b): the FORMULA side, written independently of the chain enumerations:

     H      = sum_{i,j} t_ij a+_i a_j + 1/2 sum_{i,j,k,l} v_ijkl a+_i a+_j a_l a_k                              (spinless)
     H_spin = sum_{i,j,s} t_ij a+_{i,s} a_{j,s} + 1/2 sum_{i,j,k,l,s,u} v_ijkl a+_{i,s} a+_{j,u} a_{l,u} a_{k,s}  (spin orbitals)

   expanded into words of single-mode operators by the Jordan-Wigner transformation
     a_k = I^(k) (x) A (x) Z^(n-1-k),   a+_k = I^(k) (x) C (x) Z^(n-1-k)       (string to the right, as in harness/hamref.py)
   and SITEWISE products of words (mixed-product property of the Kronecker product), using the multiplication table
   [omul] of the 2x2 operators I, C = |1><0|, A = |0><1|, N = |1><1|, Z = diag(1,-1), M = |0><0| (M = A C only makes the
   table closed; it never survives in a term).  [omul_table_ok] checks the table against the 2x2 matrices.
   Spin orbitals: mode 2 i + s (s = 0 up, 1 down); a site letter is the pair of the two mode letters, numbered as in
   SpinMolecularOID (the numbering and the matrices kron(op_a, op_b) are compared with the implementation's tables on every
   run of the harness).

   The second half of this file is the executable comparison used by the bounded theorem: both sides as lists of
   (word, sign, coefficient tag) and a multiset comparison [perm_b]; soundness in Proofs/MolFormulaProofs.v. *)
From Coq Require Import ZArith List Lia Bool.
From PT Require Import Base.Scalar Base.BigSum Base.Mx Model.OpGraph Model.FromOpchains Model.Molecular.
Import ListNotations.
Open Scope Z_scope.

Inductive op : Type := OI | OC | OA | ON | OZ | OM.
Definition all_ops : list op := [OI; OC; OA; ON; OZ; OM].
(* MolecularOID of a letter (M has no id in the library: 4) *)
Definition op_id (o : op) : Z := match o with OA => -1 | OI => 0 | OC => 1 | ON => 2 | OZ => 3 | OM => 4 end.
(* the matrices of _molecular_hamiltonian_generate_operator_map *)
Definition op_mx (o : op) : mx Zring :=
  match o with
  | OI => @mkmx Zring 2 2 [[1; 0]; [0; 1]]
  | OC => @mkmx Zring 2 2 [[0; 0]; [1; 0]]      (* a_dag *)
  | OA => @mkmx Zring 2 2 [[0; 1]; [0; 0]]      (* a_ann *)
  | ON => @mkmx Zring 2 2 [[0; 0]; [0; 1]]      (* numop *)
  | OZ => @mkmx Zring 2 2 [[1; 0]; [0; -1]]
  | OM => @mkmx Zring 2 2 [[1; 0]; [0; 0]]
  end.

(* signed operator or zero *)
Inductive sop : Type := SZero | SOp (neg : bool) (o : op).
Definition omul (a b : op) : sop :=
  match a, b with
  | OI, x => SOp false x
  | x, OI => SOp false x
  | OC, OC => SZero          | OC, OA => SOp false ON   | OC, ON => SZero          | OC, OZ => SOp false OC   | OC, OM => SOp false OC
  | OA, OC => SOp false OM   | OA, OA => SZero          | OA, ON => SOp false OA   | OA, OZ => SOp true OA    | OA, OM => SZero
  | ON, OC => SOp false OC   | ON, OA => SZero          | ON, ON => SOp false ON   | ON, OZ => SOp true ON    | ON, OM => SZero
  | OZ, OC => SOp true OC    | OZ, OA => SOp false OA   | OZ, ON => SOp true ON    | OZ, OZ => SOp false OI   | OZ, OM => SOp false OM
  | OM, OC => SZero          | OM, OA => SOp false OA   | OM, ON => SZero          | OM, OZ => SOp false OM   | OM, OM => SOp false OM
  end.
Definition sop_mx (x : sop) : mx Zring :=
  match x with SZero => @zeromx Zring 2 2 | SOp s o => @scalemx Zring (if s then -1 else 1) (op_mx o) end.
Definition omul_table_ok : bool :=
  forallb (fun a => forallb (fun b => mxeqb (mulmx (op_mx a) (op_mx b)) (sop_mx (omul a b))) all_ops) all_ops.

(* signed word or zero *)
Definition sword : Type := option (bool * list op).
(* sitewise product of two words of the same length *)
Fixpoint wmul (u v : list op) : sword :=
  match u, v with
  | [], [] => Some (false, [])
  | a :: u', b :: v' =>
      match omul a b, wmul u' v' with
      | SOp s o, Some (s', w) => Some (xorb s s', o :: w)
      | _, _ => None
      end
  | _, _ => None
  end.
Definition smul (x : sword) (v : list op) : sword :=
  match x with
  | None => None
  | Some (s, u) => match wmul u v with Some (s', w) => Some (xorb s s', w) | None => None end
  end.
(* Jordan-Wigner words on n modes *)
Definition jw (n k : nat) (o : op) : list op := repeat OI k ++ [o] ++ repeat OZ (n - 1 - k).
Definition cre (n k : nat) : list op := jw n k OC.
Definition ann (n k : nat) : list op := jw n k OA.
(* a+_i a_j   and   a+_i a+_j a_l a_k  (note the order of l and k) *)
Definition term2 (n i j : nat) : sword := wmul (cre n i) (ann n j).
Definition term4 (n i j k l : nat) : sword := smul (smul (wmul (cre n i) (cre n j)) (ann n l)) (ann n k).

(* letters of a word as operator ids: spinless *)
Definition mol_ids (u : list op) : list Z := map op_id u.
(* spin orbitals: pair the letters of modes (2 i, 2 i + 1); pairs outside SpinMolecularOID get ids >= 100 *)
Definition spin_letter (a b : op) : Z :=
  match pair_oid (op_id a) (op_id b) with Some o => o | None => 100 + 10 * (op_id a + 1) + (op_id b + 1) end.
Fixpoint spin_ids (u : list op) : list Z :=
  match u with a :: b :: rest => spin_letter a b :: spin_ids rest | _ => [] end.

(* which coefficient a term carries *)
Inductive ctag : Type := Tt (i j : nat) | Tv (i j k l : nat).
Definition sterm : Type := (list Z * bool * ctag)%type.     (* word of ids, negative?, coefficient *)
Definition sw_terms (ids : list op -> list Z) (x : sword) (tg : ctag) : list sterm :=
  match x with Some (s, u) => [(ids u, s, tg)] | None => [] end.

Section Formula.
  Variable R : cring.
  Variable half : R.
  Notation "0r" := (k0 R). Notation "1r" := (k1 R).

  (* coefficient of the word w (of operator ids) in a signed word *)
  Definition sw_coef (ids : list op -> list Z) (x : sword) (w : list Z) : R :=
    match x with
    | Some (s, u) => if zlist_eqb (ids u) w then (if s then kopp R 1r else 1r) else 0r
    | None => 0r
    end.

  Definition mol_formula (L : nat) (t : nat -> nat -> R) (v : nat -> nat -> nat -> nat -> R) (w : list Z) : R :=
    kadd R
      (suml (seq 0 L) (fun i => suml (seq 0 L) (fun j => kmul R (t i j) (sw_coef mol_ids (term2 L i j) w))))
      (kmul R half
        (suml (seq 0 L) (fun i => suml (seq 0 L) (fun j => suml (seq 0 L) (fun k => suml (seq 0 L) (fun l =>
           kmul R (v i j k l) (sw_coef mol_ids (term4 L i j k l) w))))))).

  (* mode of spatial orbital i with spin s *)
  Definition md (i s : nat) : nat := (2 * i + s)%nat.
  Definition spin_formula (L : nat) (t : nat -> nat -> R) (v : nat -> nat -> nat -> nat -> R) (w : list Z) : R :=
    kadd R
      (suml (seq 0 L) (fun i => suml (seq 0 L) (fun j => suml (seq 0 2) (fun s =>
         kmul R (t i j) (sw_coef spin_ids (term2 (2 * L) (md i s) (md j s)) w)))))
      (kmul R half
        (suml (seq 0 L) (fun i => suml (seq 0 L) (fun j => suml (seq 0 L) (fun k => suml (seq 0 L) (fun l =>
         suml (seq 0 2) (fun s => suml (seq 0 2) (fun u =>
           kmul R (v i j k l) (sw_coef spin_ids (term4 (2 * L) (md i s) (md j u) (md k s) (md l u)) w))))))))).

  (* value of a coefficient tag, and of a symbolic term at the word w *)
  Definition phi (t : nat -> nat -> R) (v : nat -> nat -> nat -> nat -> R) (tg : ctag) : R :=
    match tg with Tt i j => t i j | Tv i j k l => kmul R half (v i j k l) end.
  Definition ev (t : nat -> nat -> R) (v : nat -> nat -> nat -> nat -> R) (w : list Z) (e : sterm) : R :=
    if zlist_eqb (fst (fst e)) w then (if snd (fst e) then kopp R (phi t v (snd e)) else phi t v (snd e)) else 0r.
End Formula.

Arguments sw_coef {R} _ _ _. Arguments mol_formula {R} _ _ _ _ _. Arguments spin_formula {R} _ _ _ _ _.
Arguments phi {R} _ _ _ _. Arguments ev {R} _ _ _ _ _.

(* ---- both sides as lists of symbolic terms ---- *)
Definition skel_word (L : nat) (s : skel) : list Z :=
  repeat 0 (k_istart s) ++ k_oids s ++ repeat 0 (L - length (k_oids s) - k_istart s).
(* chain side, spinless: gint = 1/2 (v_ijkl - v_jikl - v_ijlk + v_jilk) *)
Definition mol_expand (L : nat) (st : skel * mtag) : list sterm :=
  let w := skel_word L (fst st) in
  match snd st with
  | THop i j => [(w, false, Tt i j)]
  | TInt i j k l => [(w, false, Tv i j k l); (w, true, Tv j i k l); (w, true, Tv i j l k); (w, false, Tv j i l k)]
  end.
Definition mol_lhs (L : nat) : list sterm := flat_map (mol_expand L) (mol_skels L).
(* chain side, spin: gint0 = 1/2 (v_ijkl + v_jilk), gint1 = 1/2 (v_jikl + v_ijlk) *)
Definition spin_expand (L : nat) (st : skel * stag) : list sterm :=
  let w := skel_word L (fst st) in
  match snd st with
  | SHop i j => [(w, false, Tt i j)]
  | SInt i j k l c0 c1 =>
      (if c0 then [(w, false, Tv i j k l); (w, false, Tv j i l k)] else []) ++
      (if c1 then [(w, true, Tv j i k l); (w, true, Tv i j l k)] else [])
  end.
Definition spin_lhs (L : nat) : option (list sterm) :=
  match spin_skels L with Ok sk => Some (flat_map (spin_expand L) sk) | Err _ => None end.

(* formula side *)
Definition mol_rhs (L : nat) : list sterm :=
  flat_map (fun i => flat_map (fun j => sw_terms mol_ids (term2 L i j) (Tt i j)) (seq 0 L)) (seq 0 L) ++
  flat_map (fun i => flat_map (fun j => flat_map (fun k => flat_map (fun l =>
    sw_terms mol_ids (term4 L i j k l) (Tv i j k l)) (seq 0 L)) (seq 0 L)) (seq 0 L)) (seq 0 L).
Definition spin_rhs (L : nat) : list sterm :=
  flat_map (fun i => flat_map (fun j => flat_map (fun s =>
    sw_terms spin_ids (term2 (2 * L) (md i s) (md j s)) (Tt i j)) (seq 0 2)) (seq 0 L)) (seq 0 L) ++
  flat_map (fun i => flat_map (fun j => flat_map (fun k => flat_map (fun l => flat_map (fun s => flat_map (fun u =>
    sw_terms spin_ids (term4 (2 * L) (md i s) (md j u) (md k s) (md l u)) (Tv i j k l))
    (seq 0 2)) (seq 0 2)) (seq 0 L)) (seq 0 L)) (seq 0 L)) (seq 0 L).

(* ---- multiset comparison ---- *)
Definition ctag_eqb (a b : ctag) : bool :=
  match a, b with
  | Tt i j, Tt i' j' => Nat.eqb i i' && Nat.eqb j j'
  | Tv i j k l, Tv i' j' k' l' => Nat.eqb i i' && Nat.eqb j j' && Nat.eqb k k' && Nat.eqb l l'
  | _, _ => false
  end.
Definition sterm_eqb (a b : sterm) : bool :=
  zlist_eqb (fst (fst a)) (fst (fst b)) && Bool.eqb (snd (fst a)) (snd (fst b)) && ctag_eqb (snd a) (snd b).
Fixpoint remove1 (x : sterm) (l : list sterm) : option (list sterm) :=
  match l with
  | [] => None
  | y :: t => if sterm_eqb x y then Some t else option_map (cons y) (remove1 x t)
  end.
Fixpoint perm_b (P Q : list sterm) : bool :=
  match P with
  | [] => match Q with [] => true | _ => false end
  | x :: P' => match remove1 x Q with Some Q' => perm_b P' Q' | None => false end
  end.
Definition mol_formula_check (L : nat) : bool := perm_b (mol_lhs L) (mol_rhs L).
Definition spin_formula_check (L : nat) : bool :=
  match spin_lhs L with Some l => perm_b l (spin_rhs L) | None => false end.

(* ---- the implementation's operator maps against the letters used above (data check, per run) ----
   spinless: opmap[id] is the 2x2 matrix of the letter; spin: opmap[SpinMolecularOID(a, b)] = kron(op_a, op_b), first
   factor = mode 2 i (spin up) *)
Definition find_mx (tbl : list (Z * mx Zring)) (o : Z) : option (mx Zring) :=
  option_map snd (find (fun p => fst p =? o) tbl).
Definition mol_opmap_check (tbl : list (Z * mx Zring)) : bool :=
  Nat.eqb (length tbl) 5 &&
  forallb (fun a => match find_mx tbl (op_id a) with Some m => mxeqb m (op_mx a) | None => false end) [OI; OC; OA; ON; OZ].
Definition spin_opmap_check (tbl : list (Z * mx Zring)) : bool :=
  Nat.eqb (length tbl) 23 &&
  forallb (fun a => forallb (fun b =>
    match pair_oid (op_id a) (op_id b) with
    | Some o => match find_mx tbl o with Some m => mxeqb m (kronmx (op_mx a) (op_mx b)) | None => false end
    | None => true
    end) [OI; OC; OA; ON; OZ]) [OI; OC; OA; ON; OZ].
