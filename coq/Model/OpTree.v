(* Executable mirror of pytenet/optree.py (operator trees) and of OpGraph._insert_opchain,
   OpGraph._insert_subtree, OpGraph.from_optrees up to (not including) the final graph.simplify()
   (pytenet/opgraph.py), and the symbolic meaning [tree_den] of a tree. *)
From Coq Require Import ZArith List Lia Bool.
From PT Require Import Base.Scalar Base.BigSum Model.OpGraph Model.C17Common.
Import ListNotations.
Open Scope Z_scope.

Section OpTree.
  Variable R : cring.
  Notation "0r" := (k0 R). Notation "1r" := (k1 R).
  Notation graph := (graph R).

  (* OpTreeNode: quantum number and children; OpTreeEdge: (operator id, coefficient, child node) *)
  Inductive tree : Type := TNode (q : Z) (children : list (Z * R * tree)).
  Definition tree_q (t : tree) : Z := match t with TNode q _ => q end.
  Definition tree_children (t : tree) : list (Z * R * tree) := match t with TNode _ ch => ch end.
  Definition is_leaf (t : tree) : bool := match tree_children t with [] => true | _ => false end.
  (* OpTree: root and first site *)
  Record optree : Type := mkoptree { ot_root : tree; ot_istart : Z }.

  Fixpoint tree_height (t : tree) : nat :=
    match t with
    | TNode _ ch =>
        match ch with
        | [] => O
        | _ => S ((fix go (ch : list (Z * R * tree)) : nat :=
                     match ch with [] => O | (_, _, s) :: r => Nat.max (tree_height s) (go r) end) ch)
        end
    end.

  (* ---- symbolic meaning over the remaining sites: coefficient of the word w (one operator id per
          remaining site); a leaf is continued by identities up to the end of the word ---- *)
  Definition all_identity (oid_id : Z) (w : list Z) : bool := forallb (fun o => o =? oid_id) w.
  Fixpoint tree_den (oid_id : Z) (t : tree) (w : list Z) : R :=
    match t with
    | TNode _ ch =>
        match ch with
        | [] => if all_identity oid_id w then 1r else 0r
        | _ => match w with
               | [] => 0r
               | o :: w' =>
                   (fix go (ch : list (Z * R * tree)) : R :=
                      match ch with
                      | [] => 0r
                      | (oid, c, s) :: r =>
                          kadd R (if oid =? o then kmul R c (tree_den oid_id s w') else 0r) (go r)
                      end) ch
               end
        end
    end.
  (* a tree starting at site istart inside a system of L sites: identities before the start site *)
  Definition optree_den (oid_id : Z) (L : nat) (t : optree) (w : list Z) : R :=
    if (0 <=? ot_istart t) && Nat.eqb (length w) L && Nat.leb (Z.to_nat (ot_istart t)) L
    then if all_identity oid_id (firstn (Z.to_nat (ot_istart t)) w)
         then tree_den oid_id (ot_root t) (skipn (Z.to_nat (ot_istart t)) w) else 0r
    else 0r.
  Definition optrees_den (oid_id : Z) (L : nat) (ts : list optree) (w : list Z) : R :=
    suml ts (fun t => optree_den oid_id L t w).

  (* ---- OpGraph._insert_opchain ---- *)
  Fixpoint opchain_loop (dir : nat) (g : graph) (cur nid_next eid_next : Z)
                        (ocq : list (Z * R * Z)) : res (graph * Z * Z * Z) :=
    match ocq with
    | [] => Ok (g, cur, nid_next, eid_next)
    | (oid, c, q) :: rest =>
        let edge := match dir with
                    | O => new_edge eid_next nid_next cur [(oid, c)]
                    | _ => new_edge eid_next cur nid_next [(oid, c)]
                    end in
        bind (of_opt EValue (add_node g (mknode nid_next [] [] q))) (fun g1 =>
        bind (of_opt EValue (add_connect_edge g1 edge)) (fun g2 =>
        opchain_loop dir g2 nid_next (nid_next + 1) (eid_next + 1) rest))
    end.
  Definition insert_opchain (g : graph) (nid_start nid_end : Z) (oids : list Z) (coeffs : list R)
                            (qnums : list Z) (dir : nat) : res graph :=
    if negb (has_node g nid_start) then Err EAssert else
    if negb (has_node g nid_end) then Err EAssert else
    if negb (Nat.eqb (length oids) (length coeffs)) then Err EAssert else
    if negb (Nat.eqb (length oids) (S (length qnums))) then Err EAssert else
    bind (max_nid g) (fun mx =>
      let nid_next := mx + 1 in
      let eid_next := max_eid g + 1 in
      (* zip(oids[:-1], coeffs[:-1], qnums) *)
      let ocq := combine (combine (removelast oids) (removelast coeffs)) qnums in
      bind (opchain_loop dir g nid_start nid_next eid_next ocq) (fun r =>
        match r with
        | (g1, cur, _, eid) =>
            let o := last oids 0 in
            let c := last coeffs 0r in
            of_opt EValue (add_connect_edge g1
              (match dir with
               | O => new_edge eid nid_end cur [(o, c)]
               | _ => new_edge eid cur nid_end [(o, c)]
               end))
        end)).

  (* identity string of n sites *)
  Definition insert_identities (g : graph) (nid_start nid_end : Z) (n : Z) (oid_id : Z) : res graph :=
    insert_opchain g nid_start nid_end (repeat oid_id (Z.to_nat n)) (repeat 1r (Z.to_nat n))
                   (repeat 0 (Z.to_nat (n - 1))) 1.

  (* ---- OpGraph._insert_subtree: structural recursion on the tree, graph threaded through the children ---- *)
  Fixpoint insert_subtree (oid_id : Z) (t : tree) (g : graph) (nid_root : Z) (td : Z) : res graph :=
    if td <? 0 then Err EValue else
    match find_node g nid_root with
    | None => Err EKey
    | Some node =>
        if negb (n_q node =? tree_q t) then Err ERuntime else
        match t with
        | TNode _ ch =>
            match ch with
            | [] =>
                if 0 <? td then insert_identities g nid_root (g_t1 g) td oid_id
                else if nid_root =? g_t1 g then Ok g else Err EAssert
            | _ =>
                (fix go (ch : list (Z * R * tree)) (g : graph) : res graph :=
                   match ch with
                   | [] => Ok g
                   | (oid, c, s) :: rest =>
                       bind (if 1 <? td then bind (max_nid g) (fun m => Ok (m + 1)) else Ok (g_t1 g)) (fun nid_next =>
                       let eid_next := max_eid g + 1 in
                       let g1 := upd_node g nid_root (node_add_eid eid_next 1) in
                       bind (of_opt EValue (add_edge g1 (new_edge eid_next nid_root nid_next [(oid, c)]))) (fun g2 =>
                       bind (if 1 <? td
                             then of_opt EValue (add_node g2 (mknode nid_next [eid_next] [] (tree_q s)))
                             else if has_node g2 nid_next then Ok (upd_node g2 nid_next (node_add_eid eid_next 0))
                                  else Err EKey) (fun g3 =>
                       bind (insert_subtree oid_id s g3 nid_next (td - 1)) (fun g4 => go rest g4))))
                   end) ch g
            end
        end
    end.

  (* ---- OpGraph.from_optrees without the final simplify() ---- *)
  Definition insert_optree (oid_id : Z) (L : Z) (acc : res graph) (t : optree) : res graph :=
    bind acc (fun g =>
      bind (if 0 <? ot_istart t
            then bind (max_nid g) (fun m =>
                   let nid_root := m + 1 in
                   bind (of_opt EValue (add_node g (mknode nid_root [] [] (tree_q (ot_root t))))) (fun g1 =>
                   bind (insert_identities g1 0 nid_root (ot_istart t) oid_id) (fun g2 => Ok (g2, nid_root))))
            else Ok (g, 0)) (fun gr =>
      insert_subtree oid_id (ot_root t) (fst gr) (snd gr) (L - ot_istart t))).
  Definition from_optrees_raw_r (ts : list optree) (L : Z) (oid_id : Z) : res graph :=
    fold_left (insert_optree oid_id L) ts (Ok (mkgraph [mknode 0 [] [] 0; mknode 1 [] [] 0] [] 0 1)).
  Definition from_optrees_raw (ts : list optree) (L : Z) (oid_id : Z) : option graph :=
    to_opt (from_optrees_raw_r ts L oid_id).
End OpTree.

Arguments TNode {R} _ _. Arguments tree_q {R} _. Arguments tree_children {R} _. Arguments is_leaf {R} _.
Arguments mkoptree {R} _ _. Arguments ot_root {R} _. Arguments ot_istart {R} _.
Arguments tree_height {R} _. Arguments tree_den {R} _ _ _. Arguments optree_den {R} _ _ _ _. Arguments optrees_den {R} _ _ _ _.
Arguments opchain_loop {R} _ _ _ _ _ _. Arguments insert_opchain {R} _ _ _ _ _ _ _. Arguments insert_identities {R} _ _ _ _ _.
Arguments insert_subtree {R} _ _ _ _ _. Arguments insert_optree {R} _ _ _ _.
Arguments from_optrees_raw_r {R} _ _ _. Arguments from_optrees_raw {R} _ _ _.
