(* C17, totality of OpGraph.from_automaton: the executable hypothesis "the automaton has a path of the
   requested length".  A path is given by the list of its edge ids; step number i (0-based) must leave the current
   node and be active at site i (python: edge.active(i) / edge.active), and after the last step the current node must
   be the end terminal. *)
From Coq Require Import ZArith List Bool.
From PT Require Import Base.Scalar Model.OpGraph Model.C17Common Model.AutOp.
Import ListNotations.
Open Scope Z_scope.

Section AutOpPath.
  Variable R : cring.

  (* [eids] is a path from node [x], whose first step is taken at site [i], to the end terminal *)
  Fixpoint is_path_from (aut : autop R) (i : nat) (x : Z) (eids : list Z) : bool :=
    match eids with
    | [] => x =? a_t1 aut
    | eid :: t =>
        match afind_edge aut eid with
        | None => false
        | Some e => (ae_from e =? x) && ae_active e i && is_path_from aut (S i) (ae_to e) t
        end
    end.
  (* a path of exactly L steps between the two terminals *)
  Definition is_path (aut : autop R) (L : nat) (eids : list Z) : bool :=
    Nat.eqb (length eids) L && is_path_from aut 0 (a_t0 aut) eids.
End AutOpPath.

Arguments is_path_from {R} _ _ _ _. Arguments is_path {R} _ _ _.
