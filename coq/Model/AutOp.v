(* Executable mirror of pytenet/autop.py (AutOp data) and of OpGraph.from_automaton (pytenet/opgraph.py),
   and the symbolic meaning [aut_den] of an operator state automaton unrolled over L sites.
   Automaton nodes reuse [gnode] (id, incoming edge ids, outgoing edge ids, quantum number). *)
From Coq Require Import ZArith List Lia Bool.
From PT Require Import Base.Scalar Base.BigSum Model.OpGraph Model.C17Common.
Import ListNotations.
Open Scope Z_scope.

Section AutOp.
  Variable R : cring.
  Notation "0r" := (k0 R). Notation "1r" := (k1 R).
  Notation graph := (graph R).

  (* AutOpEdge: opics and active may depend on the site (python callables; constants are constant functions) *)
  Record aedge : Type := mkaedge { ae_id : Z; ae_from : Z; ae_to : Z;
                                   ae_opics : nat -> list (Z * R); ae_active : nat -> bool }.
  Record autop : Type := mkautop { a_nodes : list gnode; a_edges : list aedge; a_t0 : Z; a_t1 : Z }.

  Definition afind_node (aut : autop) (nid : Z) : option gnode := find (fun n => n_id n =? nid) (a_nodes aut).
  Definition afind_edge (aut : autop) (eid : Z) : option aedge := find (fun e => ae_id e =? eid) (a_edges aut).
  Definition ae_nid (e : aedge) (dir : nat) : Z := match dir with O => ae_from e | _ => ae_to e end.

  (* ---- symbolic meaning: sum over all automaton paths from node [nid] at site [i] to the end terminal,
          spelling the word w; activity and coefficients are evaluated at the site of each step ---- *)
  Fixpoint aut_den_from (aut : autop) (i : nat) (w : list Z) (nid : Z) : R :=
    match w with
    | [] => if nid =? a_t1 aut then 1r else 0r
    | o :: w' => suml (a_edges aut) (fun e =>
                   if (ae_from e =? nid) && ae_active e i
                   then kmul R (opics_coeff o (ae_opics e i)) (aut_den_from aut (S i) w' (ae_to e))
                   else 0r)
    end.
  Definition aut_den (aut : autop) (L : nat) (w : list Z) : R :=
    if Nat.eqb (length w) L then aut_den_from aut 0 w (a_t0 aut) else 0r.

  (* ---- AutOp.is_consistent (plus: dictionary keys and the edge-id lists of a node are duplicate free,
          which python dictionaries / the AutOpNode constructor guarantee) ---- *)
  Definition anode_refs_ok (aut : autop) (n : gnode) : bool :=
    forallb (fun dir => forallb (fun eid =>
      match afind_edge aut eid with
      | None => false
      | Some e => ae_nid e (1 - dir) =? n_id n
      end) (node_eids n dir)) [0%nat; 1%nat].
  Definition aedge_refs_ok (aut : autop) (e : aedge) : bool :=
    forallb (fun dir =>
      match afind_node aut (ae_nid e dir) with
      | None => false
      | Some n => zmem (ae_id e) (node_eids n (1 - dir))
      end) [0%nat; 1%nat].
  Definition aut_consistent (aut : autop) : bool :=
    nodupz (map n_id (a_nodes aut)) && nodupz (map ae_id (a_edges aut)) &&
    forallb (fun n => nodupz (n_in n) && nodupz (n_out n) && anode_refs_ok aut n) (a_nodes aut) &&
    forallb (aedge_refs_ok aut) (a_edges aut) &&
    existsb (fun n => n_id n =? a_t0 aut) (a_nodes aut) && existsb (fun n => n_id n =? a_t1 aut) (a_nodes aut).

  (* ---- sets of node ids as strictly increasing lists ---- *)
  Fixpoint zset_add (x : Z) (s : list Z) : list Z :=
    match s with
    | [] => [x]
    | y :: t => if x <? y then x :: s else if x =? y then s else y :: zset_add x t
    end.

  (* follow the active edges at site i in direction dir from every node of [prev] *)
  Definition step_edge (aut : autop) (dir i : nat) (acc : res (list Z)) (eid : Z) : res (list Z) :=
    bind acc (fun s =>
      match afind_edge aut eid with
      | None => Err EKey
      | Some e => Ok (if ae_active e i then zset_add (ae_nid e dir) s else s)
      end).
  Definition step_node (aut : autop) (dir i : nat) (acc : res (list Z)) (nid : Z) : res (list Z) :=
    bind acc (fun s =>
      match afind_node aut nid with
      | None => Err EKey
      | Some n => fold_left (step_edge aut dir i) (node_eids n dir) (Ok s)
      end).
  Definition step (aut : autop) (dir i : nat) (prev : list Z) : res (list Z) :=
    fold_left (step_node aut dir i) prev (Ok []).

  (* nids_active_dir[1][i]: nodes reachable from the start terminal after i sites *)
  Fixpoint fwd (aut : autop) (i : nat) : res (list Z) :=
    match i with O => Ok [a_t0 aut] | S j => bind (fwd aut j) (step aut 1 j) end.
  (* nids_active_dir[0][L-k]: nodes from which the end terminal is reached over the last k sites *)
  Fixpoint back (aut : autop) (L k : nat) : res (list Z) :=
    match k with O => Ok [a_t1 aut] | S k' => bind (back aut L k') (step aut 0 (L - S k')) end.
  (* nids_active[i] = sorted(list(s0 & s1)) *)
  Definition active_layer (aut : autop) (L i : nat) : res (list Z) :=
    bind (back aut L (L - i)) (fun s0 => bind (fwd aut i) (fun s1 => Ok (filter (fun x => zmem x s1) s0))).
  Fixpoint sequence {A} (l : list (res A)) : res (list A) :=
    match l with [] => Ok [] | r :: t => bind r (fun a => bind (sequence t) (fun t' => Ok (a :: t'))) end.
  Definition active_layers (aut : autop) (L : nat) : res (list (list Z)) :=
    sequence (map (active_layer aut L) (seq 0 (S L))).

  (* ---- the left-to-right sweep ---- *)
  Record bstate : Type := mkb { b_g : graph; b_nid : Z; b_eid : Z }.

  (* one incoming automaton edge of the automaton node that became graph node [nid_new] in layer i+1 *)
  Definition build_edge (i : nat) (act_i map_i : list Z) (nid_new : Z) (acc : res bstate) (e : aedge) : res bstate :=
    bind acc (fun st =>
      if negb (ae_active e i) then Ok st else
      match index_of (ae_from e) act_i with
      | None => Ok st
      | Some idx =>
          match nth_error map_i idx with
          | None => Err EIndex
          | Some nid_prev =>
              bind (of_opt EValue (add_connect_edge (b_g st) (new_edge (b_eid st) nid_prev nid_new (ae_opics e i))))
                   (fun g' => Ok (mkb g' (b_nid st) (b_eid st + 1)))
          end
      end).
  Fixpoint lookup_edges (aut : autop) (eids : list Z) : res (list aedge) :=
    match eids with
    | [] => Ok []
    | eid :: t => match afind_edge aut eid with
                  | None => Err EKey
                  | Some e => bind (lookup_edges aut t) (fun es => Ok (e :: es))
                  end
    end.
  (* one automaton node of layer i+1: new graph node, then its incoming edges *)
  Definition build_node (aut : autop) (i : nat) (act_i map_i : list Z)
                        (acc : res (bstate * list Z)) (na : gnode) : res (bstate * list Z) :=
    bind acc (fun sl =>
      let st := fst sl in
      bind (of_opt EValue (add_node (b_g st) (mknode (b_nid st) [] [] (n_q na)))) (fun g1 =>
      bind (lookup_edges aut (n_in na)) (fun es =>
      bind (fold_left (build_edge i act_i map_i (b_nid st)) es (Ok (mkb g1 (b_nid st + 1) (b_eid st)))) (fun st' =>
      Ok (st', snd sl ++ [b_nid st]))))).
  Fixpoint lookup_nodes (aut : autop) (nids : list Z) : res (list gnode) :=
    match nids with
    | [] => Ok []
    | nid :: t => match afind_node aut nid with
                  | None => Err EKey
                  | Some n => bind (lookup_nodes aut t) (fun ns => Ok (n :: ns))
                  end
    end.
  Definition build_layer (aut : autop) (i : nat) (act_i act_next map_i : list Z) (st : bstate) : res (bstate * list Z) :=
    bind (lookup_nodes aut act_next) (fun nas =>
      fold_left (build_node aut i act_i map_i) nas (Ok (st, []))).
  (* layers i, i+1, ...: [acts] = nids_active[i:], map_i = nids_map[i] *)
  Fixpoint build_layers (aut : autop) (i : nat) (acts : list (list Z)) (map_i : list Z) (st : bstate) : res bstate :=
    match acts with
    | act_i :: ((act_next :: _) as rest) =>
        bind (build_layer aut i act_i act_next map_i st) (fun sl => build_layers aut (S i) rest (snd sl) (fst sl))
    | _ => Ok st
    end.

  Definition zl_eq1 (l : list Z) (x : Z) : bool := match l with [y] => y =? x | _ => false end.

  (* everything up to (not including) the final assertion graph.is_consistent() *)
  Definition from_automaton_raw (aut : autop) (L : nat) : res graph :=
    if Nat.ltb L 1 then Err EValue else
    bind (active_layers aut L) (fun acts =>
      if negb (zl_eq1 (nth 0 acts []) (a_t0 aut)) then Err EAssert else
      if negb (zl_eq1 (last acts []) (a_t1 aut)) then Err EAssert else
      match afind_node aut (a_t0 aut) with
      | None => Err EKey
      | Some n0 =>
          let g0 := mkgraph [mknode 0 [] [] (n_q n0); mknode (-1) [] [] 0] [] 0 (-1) in
          bind (build_layers aut 0 acts [0] (mkb g0 1 0)) (fun st =>
            let g := b_g st in
            bind (max_nid g) (fun t1 =>
              Ok (remove_node (mkgraph (g_nodes g) (g_edges g) (g_t0 g) t1) (-1))))
      end).

  (* fuel for the breadth-first level check of is_consistent: it dequeues one entry per walk that
     starts at the terminal (re-enqueueing seen nodes), so count those walks, cut off at [depth] *)
  Fixpoint walks (g : graph) (dir : nat) (depth : nat) (nid : Z) : nat :=
    match depth with
    | O => 1%nat
    | S d => match find_node g nid with
             | None => 1%nat
             | Some n => S (fold_left (fun acc e => (acc + walks g dir d (edge_nid e (1 - dir)))%nat)
                                      (edges_of g (node_eids n (1 - dir))) 0%nat)
             end
    end.
  Definition cons_fuel (g : graph) : nat :=
    let d := S (length (g_nodes g)) in
    S (walks g 0 d (g_t0 g) + walks g 1 d (g_t1 g)).
  Definition is_consistent (g : graph) : option bool := is_consistent_fuel (cons_fuel g) g.

  Definition from_automaton_r (aut : autop) (L : nat) : res graph :=
    bind (from_automaton_raw aut L) (fun g =>
      match is_consistent g with
      | Some true => Ok g
      | Some false => Err EAssert
      | None => Err EFuel
      end).
  Definition from_automaton (aut : autop) (L : nat) : option graph := to_opt (from_automaton_r aut L).

  (* ---- comparison with the implementation's result ---- *)
  Definition res_graph_eqb (a b : res graph) : bool :=
    match a, b with
    | Ok g, Ok h => graph_eqb g h
    | Err e, Err f => err_eqb e f
    | _, _ => false
    end.
  Definition glength_is (g : graph) (L : nat) : bool :=
    match glength g with Some n => Nat.eqb n L | None => false end.
  (* model = implementation; the produced graph has the requested length *)
  Definition check_from_automaton (aut : autop) (L : nat) (expected : res graph) : bool :=
    let r := from_automaton_r aut L in
    res_graph_eqb r expected && match r with Ok g => glength_is g L | Err _ => true end.

  (* table-backed site functions *)
  Definition tab_opics (t : list (list (Z * R))) : nat -> list (Z * R) := fun i => nth i t [].
  Definition tab_active (t : list bool) : nat -> bool := fun i => nth i t false.
End AutOp.

Arguments mkaedge {R} _ _ _ _ _. Arguments mkautop {R} _ _ _ _.
Arguments ae_id {R} _. Arguments ae_from {R} _. Arguments ae_to {R} _. Arguments ae_opics {R} _ _. Arguments ae_active {R} _ _.
Arguments a_nodes {R} _. Arguments a_edges {R} _. Arguments a_t0 {R} _. Arguments a_t1 {R} _.
Arguments afind_node {R} _ _. Arguments afind_edge {R} _ _. Arguments ae_nid {R} _ _.
Arguments aut_den_from {R} _ _ _ _. Arguments aut_den {R} _ _ _. Arguments aut_consistent {R} _.
Arguments step {R} _ _ _ _. Arguments fwd {R} _ _. Arguments back {R} _ _ _.
Arguments active_layer {R} _ _ _. Arguments active_layers {R} _ _.
Arguments mkb {R} _ _ _. Arguments b_g {R} _. Arguments b_nid {R} _. Arguments b_eid {R} _.
Arguments build_edge {R} _ _ _ _ _ _. Arguments build_node {R} _ _ _ _ _ _. Arguments build_layer {R} _ _ _ _ _ _.
Arguments build_layers {R} _ _ _ _ _. Arguments lookup_edges {R} _ _. Arguments lookup_nodes {R} _ _.
Arguments from_automaton_raw {R} _ _. Arguments from_automaton_r {R} _ _. Arguments from_automaton {R} _ _.
Arguments walks {R} _ _ _ _. Arguments cons_fuel {R} _. Arguments is_consistent {R} _.
Arguments res_graph_eqb {R} _ _. Arguments glength_is {R} _ _. Arguments check_from_automaton {R} _ _ _.
Arguments tab_opics {R} _ _.
