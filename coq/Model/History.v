(* C02 — the state machine of operation histories.

   A [state] is a finite pool of MPS and MPO values (python: the objects a user holds).  An [op] is one public
   operation of pytenet that creates or updates an MPS / MPO; [step_opt] performs it on the pool:
     - ring operations (add_mps / __add__ / __sub__, add_mpo, multiply_mpo / __matmul__, apply_operator, MPO.identity,
       MPS(...) / MPO(...) constructors with their charge mask, MPO.from_opgraph, merge_mps_tensor_pair) use the executable
       mirrors of Model/MPSOps.v and Model/GraphMPO.v;  a failing python assertion is the value [None] (the pool is then
       unchanged, [step]);
     - LAPACK-dependent operations (split_mps_tensor's block SVD, MPS.orthonormalize, MPS.compress, MPO.orthonormalize,
       MPS.from_vector, the TDVP integrators and the DMRG sweeps) are abstract result functions, the fields of [oracles];
       the theorems (Proofs/Hist*.v, Properties/C02.v) assume of them only what is stated there, for the calls a history
       actually issues.
   The result of an operation is written to the slot [dst] of the pool ([put]: overwrite, or append when dst is past the end),
   in-place operations (orthonormalize, compress, split, TDVP, DMRG) overwrite the slot of their operand. *)
From Coq Require Import ZArith List Lia Bool Arith.
From PT Require Import Base.Scalar Base.BigSum Base.Mx Model.OpGraph Model.FromOpchains Model.GraphMPO.
From PT Require Import Model.Tensor Model.MPSOps.
Import ListNotations.
Open Scope nat_scope.

(* states[k] = x, or states.append(x) when k is past the end *)
Fixpoint put {A} (k : nat) (x : A) (l : list A) : list A :=
  match l, k with
  | [], _ => [x]
  | _ :: t, O => x :: t
  | y :: t, S k' => y :: put k' x t
  end.

Definition zeros (n : nat) : list Z := repeat 0%Z n.

Section History.
  Variable R : cring.
  Notation mx := (mx R).
  Notation site := (site R). Notation osite := (osite R).
  Notation mps := (mps R). Notation mpo := (mpo R).

  Record state : Type := mkstate { states : list mps; operators : list mpo }.

  (* ---------- constructors MPS(qd, qD, fill) / MPO(qd, qD, fill): np.where(mask == 0, A, 0) ---------- *)
  (* [f] gives the entries before masking (a constant for a numeric fill, the drawn numbers for fill='random') *)
  Definition mask_site (qd ql qr : list Z) (f : nat -> nat -> nat -> R) : site :=
    stab (length qd) (fun s => tab (length ql) (length qr) (fun a b =>
      if Z.eqb (zget qd s + zget ql a) (zget qr b) then f s a b else k0 R)).
  Definition omask_site (qd ql qr : list Z) (f : nat -> nat -> nat -> nat -> R) : osite :=
    otab (length qd) (fun s t => tab (length ql) (length qr) (fun a b =>
      if Z.eqb (zget qd s - zget qd t + zget ql a) (zget qr b) then f s t a b else k0 R)).
  Fixpoint mask_chain (qd : list Z) (qDs : list (list Z)) (i : nat) (f : nat -> nat -> nat -> nat -> R) : list site :=
    match qDs with
    | ql :: ((qr :: _) as qDs') => mask_site qd ql qr (f i) :: mask_chain qd qDs' (S i) f
    | _ => []
    end.
  Fixpoint omask_chain (qd : list Z) (qDs : list (list Z)) (i : nat) (f : nat -> nat -> nat -> nat -> nat -> R) : list osite :=
    match qDs with
    | ql :: ((qr :: _) as qDs') => omask_site qd ql qr (f i) :: omask_chain qd qDs' (S i) f
    | _ => []
    end.
  (* assert D[0] == 1 and D[-1] == 1  (an empty qD raises IndexError) *)
  Definition bond1 (qDs : list (list Z)) : bool :=
    match qDs with [] => false | q0 :: _ => Nat.eqb (length q0) 1 && Nat.eqb (length (last qDs [])) 1 end.
  Definition new_mps (qd : list Z) (qDs : list (list Z)) (f : nat -> nat -> nat -> nat -> R) : option mps :=
    if bond1 qDs then Some (mkmps qd qDs (mask_chain qd qDs 0 f)) else None.
  (* the MPO constructor has no assertion on the boundary bonds *)
  Definition new_mpo (qd : list Z) (qDs : list (list Z)) (f : nat -> nat -> nat -> nat -> nat -> R) : option mpo :=
    match qDs with [] => None | _ => Some (mkmpo qd qDs (omask_chain qd qDs 0 f)) end.

  (* ---------- MPS.from_vector: the TT-SVD loop is an oracle returning the tensors; all charges are zero and
                qD[i+1] = np.zeros(len(s)) has the length of the bond the tensor A[i] ends on ---------- *)
  Definition site_nc (A : site) : nat := nc (sel A 0).
  Definition from_vector_mps (d : nat) (As : list site) : mps :=
    mkmps (zeros d) ([0%Z] :: map (fun A => zeros (site_nc A)) As) As.

  (* ---------- merge two neighbouring tensors and split them again (the two-site update pattern
                psi.A[k], psi.A[k+1], psi.qD[k+1] = split_mps_tensor(merge_mps_tensor_pair(psi.A[k], psi.A[k+1]),
                                                                     psi.qd, psi.qd, [psi.qD[k], psi.qD[k+2]], distr, tol)) *)
  Section Split.
    Variable svd : mx -> list Z -> list Z -> mx * list R * mx * list Z.
    Variable ksqrt : R -> R.
    Fixpoint split_at (distr k : nat) (qd : list Z) (qDs : list (list Z)) (As : list site)
      : option (list (list Z) * list site) :=
      match k, As, qDs with
      | O, A0 :: A1 :: As', q0 :: _ :: q2 :: qs' =>
          let '(B0, B1, qb) := split_mps_tensor svd ksqrt (merge_mps_tensor_pair A0 A1) qd qd q0 q2 distr in
          Some (q0 :: qb :: q2 :: qs', B0 :: B1 :: As')
      | S k', A :: As', q :: qs' =>
          match split_at distr k' qd qs' As' with
          | Some (qs2, As2) => Some (q :: qs2, A :: As2)
          | None => None
          end
      | _, _, _ => None
      end.
    (* physical dimension 0 is excluded (numpy cannot infer the shapes of the reshapes) *)
    Definition split_merge (distr k : nat) (p : mps) : option mps :=
      if Nat.eqb (length (m_qd p)) 0 then None else
      match split_at distr k (m_qd p) (m_qD p) (m_A p) with
      | Some (qs, As) => Some (mkmps (m_qd p) qs As)
      | None => None
      end.
  End Split.

  (* ---------- oracles: results of the LAPACK-dependent operations; [tag] stands for the remaining parameters of the
                call (tolerance, time step, number of steps / sweeps, Krylov dimension) ---------- *)
  Record oracles : Type := mkoracles {
    or_svd : nat -> mx -> list Z -> list Z -> mx * list R * mx * list Z;   (* split_matrix_svd(M, q0, q1, tol) *)
    or_sqrt : R -> R;                                                       (* numpy.sqrt on singular values *)
    or_orth : bool -> mps -> mps;                 (* MPS.orthonormalize(mode): true = 'left' *)
    or_compress : nat -> bool -> mps -> mps;      (* MPS.compress(tol, mode) *)
    or_orth_mpo : bool -> mpo -> mpo;             (* MPO.orthonormalize(mode) *)
    or_from_vector : nat -> nat -> nat -> list R -> list site;   (* tensors of MPS.from_vector(d, L, v, tol) *)
    or_tdvp : bool -> nat -> mpo -> mps -> mps;   (* integrate_local_singlesite / _twosite (true) *)
    or_dmrg : bool -> nat -> mpo -> mps -> mps    (* calculate_ground_state_local_singlesite / _twosite (true) *)
  }.

  Inductive op : Type :=
  | NewMps (dst : nat) (qd : list Z) (qDs : list (list Z)) (f : nat -> nat -> nat -> nat -> R)
  | NewMpo (dst : nat) (qd : list Z) (qDs : list (list Z)) (f : nat -> nat -> nat -> nat -> nat -> R)
  | FromVector (dst d L tag : nat) (v : list R)
  | AddMps (dst i j : nat) (alpha : R)          (* add_mps(states[i], states[j], alpha);  __add__ is alpha = 1 *)
  | SubMps (dst i j : nat)                      (* states[i] - states[j] = add_mps(.., .., alpha = -1) *)
  | AddMpo (dst a b : nat) (alpha : R)
  | SubMpo (dst a b : nat)
  | MulMpo (dst a b : nat)                      (* operators[a] @ operators[b] *)
  | Apply (dst a i : nat)                       (* apply_operator(operators[a], states[i]) *)
  | Identity (dst : nat) (qd : list Z) (L : nat) (scale : R)
  | FromOpgraph (dst : nat) (qd : list Z) (g : graph R) (opmap : Z -> mx)   (* also every Hamiltonian constructor *)
  | SplitMerge (i k distr tag : nat)            (* merge + split at bond k+1 of states[i]; distr 0/1/2 = left/right/sqrt *)
  | Orth (i : nat) (left : bool)
  | Compress (i tag : nat) (left : bool)
  | OrthMpo (a : nat) (left : bool)
  | Tdvp (twosite : bool) (a i tag : nat)
  | Dmrg (twosite : bool) (a i tag : nat).

  Variable O : oracles.

  Definition set_state (s : state) (k : nat) (p : mps) : state := mkstate (put k p (states s)) (operators s).
  Definition set_oper (s : state) (k : nat) (o : mpo) : state := mkstate (states s) (put k o (operators s)).
  Definition mone : R := kopp R (k1 R).

  Definition step_opt (s : state) (o : op) : option state :=
    match o with
    | NewMps dst qd qDs f => option_map (set_state s dst) (new_mps qd qDs f)
    | NewMpo dst qd qDs f => option_map (set_oper s dst) (new_mpo qd qDs f)
    | FromVector dst d L tag v =>
        (* assert len(v) == d**nsites *)
        if Nat.eqb (length v) (d ^ L) then Some (set_state s dst (from_vector_mps d (or_from_vector O d L tag v))) else None
    | AddMps dst i j alpha =>
        obind2 (nth_error (states s) i) (nth_error (states s) j) (fun p q =>
          option_map (set_state s dst) (add_mps_run alpha p q))
    | SubMps dst i j =>
        obind2 (nth_error (states s) i) (nth_error (states s) j) (fun p q =>
          option_map (set_state s dst) (add_mps_run mone p q))
    | AddMpo dst a b alpha =>
        obind2 (nth_error (operators s) a) (nth_error (operators s) b) (fun x y =>
          option_map (set_oper s dst) (add_mpo_run alpha x y))
    | SubMpo dst a b =>
        obind2 (nth_error (operators s) a) (nth_error (operators s) b) (fun x y =>
          option_map (set_oper s dst) (add_mpo_run mone x y))
    | MulMpo dst a b =>
        obind2 (nth_error (operators s) a) (nth_error (operators s) b) (fun x y =>
          option_map (set_oper s dst) (multiply_mpo_run x y))
    | Apply dst a i =>
        obind2 (nth_error (operators s) a) (nth_error (states s) i) (fun x p =>
          option_map (set_state s dst) (apply_operator_run x p))
    | Identity dst qd L scale => Some (set_oper s dst (mpo_identity qd L scale))
    | FromOpgraph dst qd g opmap =>
        match from_opgraph qd g opmap with Ok (o', _) => Some (set_oper s dst o') | Err _ => None end
    | SplitMerge i k distr tag =>
        obind (nth_error (states s) i) (fun p =>
          option_map (set_state s i) (split_merge (or_svd O tag) (or_sqrt O) distr k p))
    | Orth i md => option_map (fun p => set_state s i (or_orth O md p)) (nth_error (states s) i)
    | Compress i tag md => option_map (fun p => set_state s i (or_compress O tag md p)) (nth_error (states s) i)
    | OrthMpo a md => option_map (fun x => set_oper s a (or_orth_mpo O md x)) (nth_error (operators s) a)
    | Tdvp two a i tag =>
        obind2 (nth_error (operators s) a) (nth_error (states s) i) (fun x p => Some (set_state s i (or_tdvp O two tag x p)))
    | Dmrg two a i tag =>
        obind2 (nth_error (operators s) a) (nth_error (states s) i) (fun x p => Some (set_state s i (or_dmrg O two tag x p)))
    end.

  (* an operation that raises leaves the pool as it was *)
  Definition step (s : state) (o : op) : state := match step_opt s o with Some s' => s' | None => s end.
  Definition run (ops : list op) (s : state) : state := fold_left step ops s.

  (* the invariant of C02 on a pool, as a boolean *)
  Definition inv_b (s : state) : bool := forallb mps_ok (states s) && forallb mpo_ok (operators s).

  (* ---------- correspondence (form E): replay of a history of ring operations ---------- *)
  (* what the implementation produced at one step: the new MPS, the new MPO, or an exception *)
  Inductive outcome : Type := OutMps (p : mps) | OutMpo (o : mpo) | OutErr.
  Definition dst_of (o : op) : nat :=
    match o with
    | NewMps d _ _ _ | NewMpo d _ _ _ | FromVector d _ _ _ _ | AddMps d _ _ _ | SubMps d _ _ | AddMpo d _ _ _ | SubMpo d _ _
    | MulMpo d _ _ | Apply d _ _ | Identity d _ _ _ | FromOpgraph d _ _ _ => d
    | SplitMerge i _ _ _ | Orth i _ | Compress i _ _ | Tdvp _ _ i _ | Dmrg _ _ i _ => i
    | OrthMpo a _ => a
    end.
  Definition slot {A} (k : nat) (l : list A) : option A := nth_error l (Nat.min k (length l - 1)).
  (* the model performs the step; the object it writes is exactly the implementation's, and satisfies the invariant *)
  Definition check_step (s : state) (o : op) (e : outcome) : bool * state :=
    match step_opt s o, e with
    | None, OutErr => (true, s)
    | Some s', OutMps p =>
        (match slot (dst_of o) (states s') with Some p' => mps_eqb p' p && mps_ok p' | None => false end, s')
    | Some s', OutMpo x =>
        (match slot (dst_of o) (operators s') with Some x' => mpo_eqb x' x && mpo_ok x' | None => false end, s')
    | Some s', OutErr => (false, s')
    | None, _ => (false, s)
    end.
  Fixpoint check_steps (s : state) (l : list (op * outcome)) : bool :=
    match l with
    | [] => true
    | (o, e) :: l' => let '(b, s') := check_step s o e in b && check_steps s' l'
    end.
  (* initial pool satisfies the invariant, every step agrees, and the final pool is the implementation's final pool *)
  Definition state_eqb (s t : state) : bool :=
    list_eqb mps_eqb (states s) (states t) && list_eqb mpo_eqb (operators s) (operators t).
  Definition check_history (s : state) (l : list (op * outcome)) (final : state) : bool :=
    inv_b s && check_steps s l && state_eqb (run (map fst l) s) final && inv_b (run (map fst l) s).
End History.

Arguments mkstate {R} _ _. Arguments states {R} _. Arguments operators {R} _.
Arguments mask_site {R} qd ql qr f. Arguments omask_site {R} qd ql qr f.
Arguments mask_chain {R} qd qDs i f. Arguments omask_chain {R} qd qDs i f.
Arguments new_mps {R} qd qDs f. Arguments new_mpo {R} qd qDs f.
Arguments site_nc {R} A. Arguments from_vector_mps {R} d As.
Arguments split_at {R} svd ksqrt distr k qd qDs As. Arguments split_merge {R} svd ksqrt distr k p.
Arguments mkoracles {R} _ _ _ _ _ _ _ _.
Arguments or_svd {R} _. Arguments or_sqrt {R} _. Arguments or_orth {R} _. Arguments or_compress {R} _.
Arguments or_orth_mpo {R} _. Arguments or_from_vector {R} _. Arguments or_tdvp {R} _. Arguments or_dmrg {R} _.
Arguments NewMps {R} dst qd qDs f. Arguments NewMpo {R} dst qd qDs f. Arguments FromVector {R} dst d L tag v.
Arguments AddMps {R} dst i j alpha. Arguments SubMps {R} dst i j. Arguments AddMpo {R} dst a b alpha.
Arguments SubMpo {R} dst a b. Arguments MulMpo {R} dst a b. Arguments Apply {R} dst a i.
Arguments Identity {R} dst qd L scale. Arguments FromOpgraph {R} dst qd g opmap.
Arguments SplitMerge {R} i k distr tag. Arguments Orth {R} i left. Arguments Compress {R} i tag left.
Arguments OrthMpo {R} a left. Arguments Tdvp {R} twosite a i tag. Arguments Dmrg {R} twosite a i tag.
Arguments set_state {R} s k p. Arguments set_oper {R} s k o. Arguments mone {R}.
Arguments step_opt {R} O s o. Arguments step {R} O s o. Arguments run {R} O ops s. Arguments inv_b {R} s.
Arguments OutMps {R} p. Arguments OutMpo {R} o. Arguments OutErr {R}.
Arguments dst_of {R} o. Arguments check_step {R} O s o e. Arguments check_steps {R} O s l.
Arguments state_eqb {R} s t. Arguments check_history {R} O s l final.

(* oracles of a history that contains ring operations only (never called) *)
Definition no_oracles (R : cring) : oracles R :=
  mkoracles (fun _ M _ _ => (M, [], M, [])) (fun x => x) (fun _ p => p) (fun _ _ p => p) (fun _ o => o)
            (fun _ _ _ _ => []) (fun _ _ _ p => p) (fun _ _ _ p => p).

(* LAPACK-dependent steps are compared at the level of the invariant: the implementation's object is shipped as its
   sparsity pattern (charges, shapes, 1 where the entry is non-zero) over the integers and the invariant is evaluated on it *)
Definition pattern_mps_ok (p : mps Zring) : bool := mps_ok p.
Definition pattern_mpo_ok (o : mpo Zring) : bool := mpo_ok o.
(* total charge kept: first and last bond charges equal *)
Definition boundary_eqb (qa qb : list (list Z)) : bool :=
  zl_eqb (hd [] qa) (hd [] qb) && zl_eqb (last qa []) (last qb []).
