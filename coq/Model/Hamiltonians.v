(* Executable mirror of the chain-built lattice Hamiltonians of pytenet/hamiltonian.py:
     _local_opchains_to_mpo (the shift loop, lines 1927-1950),
     heisenberg_xxz_mpo, heisenberg_xxz_spin1_mpo, bose_hubbard_mpo, fermi_hubbard_mpo (local chain tables,
     physical quantum numbers, operator maps, lines 72-272) and the hand-wired graph of linear_fermionic_mpo
     (lines 275-340).  The Ising automaton lives in Model/HamIsing.v.
   Coefficients live in any [cring]; numbers that are not ring constants are ARGUMENTS:
     [half]  (python 0.5),  [sq2] (np.sqrt(2.)),  [sq k] (np.sqrt(k), bosons).
   Operator ids are the values of the python IntEnum classes. *)
From Coq Require Import ZArith List Lia Bool.
From PT Require Import Base.Scalar Base.BigSum Base.Mx Model.OpGraph Model.Bipartite Model.FromOpchains Model.GraphMPO.
Import ListNotations.
Open Scope Z_scope.

Section Ham.
  Variable R : cring.
  Notation "0r" := (k0 R). Notation "1r" := (k1 R).
  Notation chain := (chain R).
  Notation mx := (mx R).
  Notation graph := (graph R).

  (* ---- _local_opchains_to_mpo: for lopc in lopchains: for i in range(size - lopc.length + 1): copy with istart = i ---- *)
  Definition shift_chain (c : chain) (i : nat) : chain := mkchain (c_oids c) (c_qnums c) (c_coeff c) i.
  Definition shifts (L : nat) (c : chain) : list chain := map (shift_chain c) (seq 0 (L + 1 - length (c_oids c))).
  Definition local_opchains_to_chains (lop : list chain) (L : nat) : list chain := flat_map (shifts L) lop.

  (* a local chain (istart = 0) *)
  Definition lc (oids qnums : list Z) (c : R) : chain := mkchain oids qnums c 0.
  (* _encode_quantum_number_pair *)
  Definition enc (qa qb : Z) : Z := Z.shiftl qa 16 + qb.
  (* small natural numbers as ring elements *)
  Fixpoint rnat (n : nat) : R := match n with O => 0r | S m => kadd R (rnat m) 1r end.
  Definition m22 (a b c d : R) : mx := mkmx 2 2 [[a; b]; [c; d]].
  Definition m33 (a b c d e f g h i : R) : mx := mkmx 3 3 [[a; b; c]; [d; e; f]; [g; h; i]].
  Definition diag4 (a b c d : R) : mx := mkmx 4 4 [[a; 0r; 0r; 0r]; [0r; b; 0r; 0r]; [0r; 0r; c; 0r]; [0r; 0r; 0r; d]].

  (* what a constructor hands to _local_opchains_to_mpo: (qd, lopchains, opmap, oid_identity) *)
  Record hamspec : Type := mkspec { h_qd : list Z; h_lop : list chain; h_opmap : list (Z * mx); h_idn : Z }.

  (* ---- heisenberg_xxz_mpo: OID Sd = -1, Id = 0, Su = 1, Sz = 2 ---- *)
  Definition xxz_lop (half J D h : R) : list chain :=
    [lc [1; -1] [0;  2; 0] (kmul R half J);
     lc [-1; 1] [0; -2; 0] (kmul R half J);
     lc [2; 2]  [0;  0; 0] D;
     lc [2]     [0;  0]    (kopp R h)].
  Definition xxz_opmap (half : R) : list (Z * mx) :=
    [(-1, m22 0r 0r 1r 0r); (0, idmx 2); (1, m22 0r 1r 0r 0r); (2, m22 half 0r 0r (kopp R half))].
  Definition xxz_spec (half J D h : R) : hamspec := mkspec [1; -1] (xxz_lop half J D h) (xxz_opmap half) 0.

  (* ---- heisenberg_xxz_spin1_mpo ---- *)
  Definition xxz1_lop (half J D h : R) : list chain :=
    [lc [1; -1] [0;  1; 0] (kmul R half J);
     lc [-1; 1] [0; -1; 0] (kmul R half J);
     lc [2; 2]  [0;  0; 0] D;
     lc [2]     [0;  0]    (kopp R h)].
  Definition xxz1_opmap (sq2 : R) : list (Z * mx) :=
    [(-1, m33 0r 0r 0r  sq2 0r 0r  0r sq2 0r); (0, idmx 3);
     (1, m33 0r sq2 0r  0r 0r sq2  0r 0r 0r); (2, m33 1r 0r 0r  0r 0r 0r  0r 0r (kopp R 1r))].
  Definition xxz1_spec (half sq2 J D h : R) : hamspec := mkspec [1; 0; -1] (xxz1_lop half J D h) (xxz1_opmap sq2) 0.

  (* ---- bose_hubbard_mpo: OID B = -1, Id = 0, Bd = 1, N = 2, NI = 3; [sq k] stands for np.sqrt(k) ---- *)
  Definition bose_lop (t U mu : R) : list chain :=
    [lc [1; -1] [0;  1; 0] (kopp R t);
     lc [-1; 1] [0; -1; 0] (kopp R t);
     lc [2]     [0;  0]    (kopp R mu);
     lc [3]     [0;  0]    U].
  Definition bose_opmap (d : nat) (sq : nat -> R) : list (Z * mx) :=
    [(-1, tab d d (fun i j => if Nat.eqb (S i) j then sq j else 0r));            (* b_ann = diag(sqrt(1..d-1), +1) *)
     (0, idmx d);
     (1, tab d d (fun i j => if Nat.eqb i (S j) then sq i else 0r));             (* b_dag = diag(sqrt(1..d-1), -1) *)
     (2, tab d d (fun i j => if Nat.eqb i j then rnat i else 0r));               (* numop *)
     (3, tab d d (fun i j => if Nat.eqb i j then rnat (i * (i - 1) / 2) else 0r))]. (* numop (numop - 1) / 2 *)
  Definition bose_spec (d : nat) (sq : nat -> R) (t U mu : R) : hamspec :=
    mkspec (map Z.of_nat (seq 0 d)) (bose_lop t U mu) (bose_opmap d sq) 0.

  (* ---- fermi_hubbard_mpo: OID Id 0, CI 1, AI 2, CZ 3, AZ 4, IC 5, IA 6, ZC 7, ZA 8, Nt 9, NI 10 ---- *)
  Definition fermi_lop (t U mu : R) : list chain :=
    [lc [3; 2] [0; enc 1 1; 0]       (kopp R t);
     lc [4; 1] [0; enc (-1) (-1); 0] (kopp R t);
     lc [5; 8] [0; enc 1 (-1); 0]    (kopp R t);
     lc [6; 7] [0; enc (-1) 1; 0]    (kopp R t);
     lc [9]    [0; 0]                (kopp R mu);
     lc [10]   [0; 0]                U].
  Definition f_id2 : mx := idmx 2.
  Definition f_adag : mx := m22 0r 0r 1r 0r.
  Definition f_aann : mx := m22 0r 1r 0r 0r.
  Definition f_num : mx := m22 0r 0r 0r 1r.
  Definition f_Z : mx := m22 1r 0r 0r (kopp R 1r).
  Definition fermi_opmap (half : R) : list (Z * mx) :=
    let q := kmul R half half in
    [(0, idmx 4);
     (1, kronmx f_adag f_id2); (2, kronmx f_aann f_id2);
     (3, kronmx f_adag f_Z);   (4, kronmx f_aann f_Z);
     (5, kronmx f_id2 f_adag); (6, kronmx f_id2 f_aann);
     (7, kronmx f_Z f_adag);   (8, kronmx f_Z f_aann);
     (9, addmx (kronmx f_num f_id2) (kronmx f_id2 f_num));
     (10, diag4 q (kopp R q) (kopp R q) q)].
  Definition fermi_qd : list Z := [enc 0 0; enc 1 (-1); enc 1 1; enc 2 0].
  Definition fermi_spec (half t U mu : R) : hamspec := mkspec fermi_qd (fermi_lop t U mu) (fermi_opmap half) 0.

  (* the chain list and the graph a constructor builds for L sites *)
  Definition spec_chains (sp : hamspec) (L : nat) : list chain := local_opchains_to_chains (h_lop sp) L.
  Definition spec_graph (cover : cover_t) (sp : hamspec) (L : nat) : res graph :=
    from_opchains cover (spec_chains sp L) L (h_idn sp).

  (* ---- linear_fermionic_mpo: OID A = -1, I = 0, C = 1, Z = 2; qd = [0, 1] ----
     (1) as the code builds it: 2L nodes, then add_connect_edge for identities, Z strings, operators *)
  Definition lf_oid (create : bool) : Z := if create then 1 else -1.
  Definition lf_q (create : bool) : Z := if create then 1 else -1.
  Definition lf_edges (coeff : list R) (create : bool) : list (gedge R) :=
    let L := length coeff in let Lz := Z.of_nat L in
    map (fun i => new_edge (Z.of_nat i) (Z.of_nat i) (Z.of_nat i + 1) [(0, 1r)]) (seq 0 (L - 1)) ++
    map (fun i => new_edge (Lz - 1 + (Z.of_nat i - 1)) (Lz + Z.of_nat i - 1) (Lz + Z.of_nat i) [(2, 1r)]) (seq 1 (L - 1)) ++
    map (fun ic => new_edge (2 * Lz - 2 + Z.of_nat (fst ic)) (Z.of_nat (fst ic)) (Lz + Z.of_nat (fst ic)) [(lf_oid create, snd ic)])
        (combine (seq 0 L) coeff).
  Definition linferm_build (coeff : list R) (create : bool) : option graph :=
    let L := length coeff in let Lz := Z.of_nat L in
    match coeff with [] => None | _ =>                                          (* identity_l[0]: KeyError *)
    let nodes := map (fun i => mknode (Z.of_nat i) [] [] 0) (seq 0 L) ++
                 map (fun i => mknode (Lz + Z.of_nat i - 1) [] [] (lf_q create)) (seq 1 L) in
    fold_left (fun acc e => match acc with None => None | Some g => add_connect_edge g e end)
              (lf_edges coeff create) (Some (mkgraph nodes [] 0 (2 * Lz - 1)))
    end.
  (* (2) the same graph in closed form (node k and edge k sit at position k of the dictionaries) *)
  Definition lf_node (L : nat) (create : bool) (k : nat) : gnode :=
    let Lz := Z.of_nat L in let kz := Z.of_nat k in
    if Nat.ltb k L then
      mknode kz (if Nat.eqb k 0 then [] else [kz - 1]) ((if Nat.ltb (S k) L then [kz] else []) ++ [2 * Lz - 2 + kz]) 0
    else (* z_string_r[i], i = k - L + 1, id L + i - 1 = k *)
      mknode kz ((if Nat.ltb L k then [kz - 2] else []) ++ [Lz - 2 + kz]) (if Nat.ltb (S k) (2 * L) then [kz - 1] else []) (lf_q create).
  Definition lf_edge (L : nat) (create : bool) (coeff : list R) (k : nat) : gedge R :=
    let Lz := Z.of_nat L in let kz := Z.of_nat k in
    if Nat.ltb k (L - 1) then mkedge kz kz (kz + 1) [(0, 1r)]
    else if Nat.ltb k (2 * L - 2) then mkedge kz (kz + 1) (kz + 2) [(2, 1r)]
    else mkedge kz (kz - (2 * Lz - 2)) (kz - (Lz - 2)) [(lf_oid create, nth (k - (2 * L - 2)) coeff 0r)].
  Definition linferm_graph (coeff : list R) (create : bool) : graph :=
    let L := length coeff in
    mkgraph (map (lf_node L create) (seq 0 (2 * L))) (map (lf_edge L create coeff) (seq 0 (3 * L - 2))) 0 (2 * Z.of_nat L - 1).
  Definition linferm_opmap : list (Z * mx) :=
    [(-1, m22 0r 1r 0r 0r); (0, idmx 2); (1, m22 0r 0r 1r 0r); (2, m22 1r 0r 0r (kopp R 1r))].

  (* ---- bond dimensions of the MPO made from a graph: the layer widths found by MPO.from_opgraph ---- *)
  Definition bond_dims (g : graph) : option (list nat) :=
    match graph_layers g with Ok ls => Some (map (@length Z) ls) | Err _ => None end.

  (* ---- correspondence predicates ---- *)
  Definition chain_eqb (a b : chain) : bool :=
    zlist_eqb (c_oids a) (c_oids b) && zlist_eqb (c_qnums a) (c_qnums b) && keqb R (c_coeff a) (c_coeff b) &&
    Nat.eqb (c_istart a) (c_istart b).
  Definition opmap_eqb (a b : list (Z * mx)) : bool :=
    list_eqb (fun p q => (fst p =? fst q) && wfb (snd q) && mxeqb (snd p) (snd q)) a b.
  Definition nat_list_eqb (a b : list nat) : bool := list_eqb Nat.eqb a b.
  (* the arguments captured at _local_opchains_to_mpo equal the model's tables *)
  Definition spec_eqb (model impl : hamspec) : bool :=
    zlist_eqb (h_qd model) (h_qd impl) && list_eqb chain_eqb (h_lop model) (h_lop impl) &&
    opmap_eqb (h_opmap model) (h_opmap impl) && (h_idn model =? h_idn impl).
  (* captured tables = model tables; the graph handed to MPO.from_opgraph = model graph built with the RECORDED covers
     (each checked to be a valid vertex cover of the site graph it answers: validity is all that C06 needs, minimality
     is C20's business), consistent, of length L; bond dimensions = layer widths *)
  Definition check_ham (model impl : hamspec) (L : nat)
             (tbl : list ((nat * nat * list (nat * nat)) * (list nat * list nat)))
             (fuel : nat) (expected : res graph) (dims : list nat) : bool :=
    spec_eqb model impl &&
    let r := spec_graph (cover_table tbl) model L in
    res_graph_eqb r expected &&
    forallb (fun row => let '(nu, nv, es) := fst row in cover_okb nu nv es (snd row)) tbl &&
    match r with
    | Ok g => match is_consistent_fuel fuel g with Some true => true | _ => false end &&
              match glength g with Some n => Nat.eqb n L | None => false end &&
              match bond_dims g with Some ws => nat_list_eqb ws dims | None => false end
    | Err _ => true
    end.
  Definition check_linferm (coeff : list R) (create : bool) (impl_opmap : list (Z * mx)) (g : graph) (dims : list nat) : bool :=
    match linferm_build coeff create with Some g1 => graph_eqb g1 g | None => false end &&
    graph_eqb (linferm_graph coeff create) g && opmap_eqb linferm_opmap impl_opmap &&
    match bond_dims g with Some ws => nat_list_eqb ws dims | None => false end.
End Ham.

Arguments shift_chain {R} _ _. Arguments shifts {R} _ _. Arguments local_opchains_to_chains {R} _ _.
Arguments lc {R} _ _ _. Arguments rnat {R} _.
Arguments mkspec {R} _ _ _ _. Arguments h_qd {R} _. Arguments h_lop {R} _. Arguments h_opmap {R} _. Arguments h_idn {R} _.
Arguments xxz_lop {R} _ _ _ _. Arguments xxz_opmap {R} _. Arguments xxz_spec {R} _ _ _ _.
Arguments xxz1_lop {R} _ _ _ _. Arguments xxz1_opmap {R} _. Arguments xxz1_spec {R} _ _ _ _ _.
Arguments bose_lop {R} _ _ _. Arguments bose_opmap {R} _ _. Arguments bose_spec {R} _ _ _ _ _.
Arguments fermi_lop {R} _ _ _. Arguments fermi_opmap {R} _. Arguments fermi_spec {R} _ _ _ _.
Arguments spec_chains {R} _ _. Arguments spec_graph {R} _ _ _.
Arguments lf_edges {R} _ _. Arguments linferm_build {R} _ _. Arguments lf_edge {R} _ _ _ _.
Arguments linferm_graph {R} _ _. Arguments linferm_opmap {R}.
Arguments bond_dims {R} _. Arguments chain_eqb {R} _ _. Arguments opmap_eqb {R} _ _. Arguments spec_eqb {R} _ _.
Arguments check_ham {R} _ _ _ _ _ _ _. Arguments check_linferm {R} _ _ _ _ _.
