(* Core data of matrix product states and operators and their dense meaning.
   An MPS site tensor A (numpy shape (d, Dl, Dr)) is the list of its d matrices A[s];
   an MPO site tensor W (numpy shape (d, d, Dl, Dr)) is the list of lists of matrices W[s][t]. *)
From Coq Require Import ZArith List Lia Bool.
From PT Require Import Base.Scalar Base.BigSum Base.Mx.
Import ListNotations.

Section Tensor.
  Variable R : cring.
  Notation mx := (mx R).

  Definition site := list mx.                 (* A[s] *)
  Definition osite := list (list mx).         (* W[s][t] *)

  Definition sel (A : site) (s : nat) : mx := nth s A (zeromx 0 0).
  Definition osel (W : osite) (s t : nat) : mx := nth t (nth s W []) (zeromx 0 0).

  Record mps : Type := mkmps { m_qd : list Z; m_qD : list (list Z); m_A : list site }.
  Record mpo : Type := mkmpo { o_qd : list Z; o_qD : list (list Z); o_A : list osite }.

  (* shapes: every matrix of a site has the same shape *)
  Definition site_shape (d Dl Dr : nat) (A : site) : bool :=
    Nat.eqb (length A) d && forallb (fun M => wfb M && Nat.eqb (nr M) Dl && Nat.eqb (nc M) Dr) A.
  Definition osite_shape (d Dl Dr : nat) (W : osite) : bool :=
    Nat.eqb (length W) d && forallb (site_shape d Dl Dr) W.
  (* bond dimension profile D_0 .. D_L fits the tensors *)
  Fixpoint chain_shape (d : nat) (Ds : list nat) (As : list site) : bool :=
    match As, Ds with
    | [], [_] => true
    | A :: As', Dl :: ((Dr :: _) as Ds') => site_shape d Dl Dr A && chain_shape d Ds' As'
    | _, _ => false
    end.
  Fixpoint ochain_shape (d : nat) (Ds : list nat) (Ws : list osite) : bool :=
    match Ws, Ds with
    | [], [_] => true
    | W :: Ws', Dl :: ((Dr :: _) as Ds') => osite_shape d Dl Dr W && ochain_shape d Ds' Ws'
    | _, _ => false
    end.

  (* product of a list of matrices, starting from the identity of size n *)
  Fixpoint mprod (n : nat) (Ms : list mx) : mx :=
    match Ms with [] => idmx n | M :: Ms' => mulmx M (mprod (nc M) Ms') end.

  (* matrices picked by a word of physical indices *)
  Fixpoint pick (As : list site) (w : list nat) : list mx :=
    match As, w with A :: As', s :: w' => sel A s :: pick As' w' | _, _ => [] end.
  Fixpoint opick (Ws : list osite) (w w' : list nat) : list mx :=
    match Ws, w, w' with W :: Ws', s :: u, t :: u' => osel W s t :: opick Ws' u u' | _, _, _ => [] end.

  (* amplitude <w|psi> and matrix element <w|O|w'> (leading and trailing bond dimension 1) *)
  Definition amp (As : list site) (w : list nat) : R := get (mprod 1 (pick As w)) 0 0.
  Definition opamp (Ws : list osite) (w w' : list nat) : R := get (mprod 1 (opick Ws w w')) 0 0.

  (* all words of length L over {0..d-1}, in lexicographic order (first site most significant):
     position of w in this list = row-major flat index of as_vector / as_matrix *)
  Fixpoint words (d L : nat) : list (list nat) :=
    match L with O => [[]] | S L' => flat_map (fun s => map (cons s) (words d L')) (seq 0 d) end.

  (* block sparsity: entries vanish unless  qd[s] + qDl[a] = qDr[b]  (MPS)
     resp. qd[s] - qd[t] + qDl[a] = qDr[b] (MPO) *)
  Definition zget (l : list Z) (i : nat) : Z := nth i l 0%Z.
  Definition site_qsparse (qd qDl qDr : list Z) (A : site) : bool :=
    forallb (fun s => forallb (fun a => forallb (fun b =>
      keqb R (get (sel A s) a b) (k0 R) || Z.eqb (zget qd s + zget qDl a) (zget qDr b))
      (seq 0 (length qDr))) (seq 0 (length qDl))) (seq 0 (length qd)).
  Definition osite_qsparse (qd qDl qDr : list Z) (W : osite) : bool :=
    forallb (fun s => forallb (fun t => forallb (fun a => forallb (fun b =>
      keqb R (get (osel W s t) a b) (k0 R) || Z.eqb (zget qd s - zget qd t + zget qDl a) (zget qDr b))
      (seq 0 (length qDr))) (seq 0 (length qDl))) (seq 0 (length qd))) (seq 0 (length qd)).

  Fixpoint chain_qsparse (qd : list Z) (qDs : list (list Z)) (As : list site) : bool :=
    match As, qDs with
    | [], [_] => true
    | A :: As', ql :: ((qr :: _) as qDs') => site_qsparse qd ql qr A && chain_qsparse qd qDs' As'
    | _, _ => false
    end.
  Fixpoint ochain_qsparse (qd : list Z) (qDs : list (list Z)) (Ws : list osite) : bool :=
    match Ws, qDs with
    | [], [_] => true
    | W :: Ws', ql :: ((qr :: _) as qDs') => osite_qsparse qd ql qr W && ochain_qsparse qd qDs' Ws'
    | _, _ => false
    end.

  (* the invariant "Inv" of DESIGN C02 for one object: shapes match the quantum-number lists
     and every tensor is block sparse *)
  Definition mps_ok (p : mps) : bool :=
    chain_shape (length (m_qd p)) (map (@length Z) (m_qD p)) (m_A p) && chain_qsparse (m_qd p) (m_qD p) (m_A p).
  Definition mpo_ok (o : mpo) : bool :=
    ochain_shape (length (o_qd o)) (map (@length Z) (o_qD o)) (o_A o) && ochain_qsparse (o_qd o) (o_qD o) (o_A o).

  (* structural equality used by correspondence checks *)
  Fixpoint list_eqb {A} (eqb : A -> A -> bool) (l1 l2 : list A) : bool :=
    match l1, l2 with [], [] => true | x :: t1, y :: t2 => eqb x y && list_eqb eqb t1 t2 | _, _ => false end.
  Definition site_eqb : site -> site -> bool := list_eqb mxeqb.
  Definition osite_eqb : osite -> osite -> bool := list_eqb site_eqb.
  Definition zl_eqb : list Z -> list Z -> bool := list_eqb Z.eqb.
  Definition mps_eqb (p q : mps) : bool :=
    zl_eqb (m_qd p) (m_qd q) && list_eqb zl_eqb (m_qD p) (m_qD q) && list_eqb site_eqb (m_A p) (m_A q).
  Definition mpo_eqb (p q : mpo) : bool :=
    zl_eqb (o_qd p) (o_qd q) && list_eqb zl_eqb (o_qD p) (o_qD q) && list_eqb osite_eqb (o_A p) (o_A q).
End Tensor.

Arguments sel {R} A s. Arguments osel {R} W s t.
Arguments mkmps {R} _ _ _. Arguments mkmpo {R} _ _ _.
Arguments m_qd {R} _. Arguments m_qD {R} _. Arguments m_A {R} _.
Arguments o_qd {R} _. Arguments o_qD {R} _. Arguments o_A {R} _.
Arguments site_shape {R} d Dl Dr A. Arguments osite_shape {R} d Dl Dr W.
Arguments chain_shape {R} d Ds As. Arguments ochain_shape {R} d Ds Ws.
Arguments mprod {R} n Ms. Arguments pick {R} As w. Arguments opick {R} Ws w w'.
Arguments amp {R} As w. Arguments opamp {R} Ws w w'.
Arguments site_qsparse {R} qd qDl qDr A. Arguments osite_qsparse {R} qd qDl qDr W.
Arguments chain_qsparse {R} qd qDs As. Arguments ochain_qsparse {R} qd qDs Ws.
Arguments mps_ok {R} p. Arguments mpo_ok {R} o.
Arguments site_eqb {R} _ _. Arguments osite_eqb {R} _ _. Arguments mps_eqb {R} p q. Arguments mpo_eqb {R} p q.
