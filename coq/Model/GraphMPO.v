(* Executable mirror of MPO.from_opgraph (pytenet/mpo.py:73-141): layer discovery from the start
   terminal following out-edges (first-occurrence de-duplication), sorted(nids1), qD from the node
   charges, tensor assembly ([+=] over parallel edges, sum(c * opmap[i])), nid_map, and the final
   block-sparsity assertion.  The numpy tensor A[s, t, i, j] is the list of lists of matrices W[s][t]
   of Model/Tensor.v; the accumulation loop is modelled by its meaning as an index comprehension
   (sum over the out-edges of nids0[i] whose target sits at position j = nids1.index(target)). *)
From Coq Require Import ZArith List Lia Bool.
From PT Require Import Base.Scalar Base.BigSum Base.Mx Model.OpGraph Model.Tensor Model.FromOpchains.
Import ListNotations.
Open Scope Z_scope.

Fixpoint zinsert (x : Z) (l : list Z) : list Z :=
  match l with [] => [x] | y :: t => if x <=? y then x :: l else y :: zinsert x t end.
Definition zsort (l : list Z) : list Z := fold_right zinsert [] l.

Section GraphMPO.
  Variable R : cring.
  Notation "0r" := (k0 R).
  Notation graph := (graph R).
  Notation mx := (mx R).

  (* targets of the out-edges of one node, appended to l unless already there *)
  Definition node_targets (g : graph) (nid : Z) (acc : res (list Z)) : res (list Z) :=
    bind acc (fun l =>
    match find_node g nid with None => Err EKey | Some n =>
      fold_left (fun acc eid => bind acc (fun l =>
        match find_edge g eid with None => Err EKey | Some e =>
          if negb (e_from e =? nid) then Err EAssert else
          Ok (if zmem (e_to e) l then l else l ++ [e_to e])
        end)) (n_out n) (Ok l)
    end).
  Definition next_layer (g : graph) (nids0 : list Z) : res (list Z) :=
    fold_left (fun acc nid => node_targets g nid acc) nids0 (Ok []).

  (* the node layers after nids0 (each sorted by id); fuel bounds the number of layers *)
  Fixpoint layers (fuel : nat) (g : graph) (nids0 : list Z) : res (list (list Z)) :=
    match fuel with
    | O => Err EFuel
    | S f =>
        bind (next_layer g nids0) (fun n1 =>
        match n1 with
        | [] => Ok []
        | _ => let n1s := zsort n1 in bind (layers f g n1s) (fun r => Ok (n1s :: r))
        end)
    end.

  Fixpoint layer_q (g : graph) (nids : list Z) : res (list Z) :=
    match nids with
    | [] => Ok []
    | nid :: t => match find_node g nid with None => Err EKey | Some n =>
                    bind (layer_q g t) (fun qs => Ok (n_q n :: qs)) end
    end.
  Fixpoint all_q (g : graph) (ls : list (list Z)) : res (list (list Z)) :=
    match ls with
    | [] => Ok []
    | l :: t => bind (layer_q g l) (fun q => bind (all_q g t) (fun qs => Ok (q :: qs)))
    end.

  (* sum(c * opmap[i] for i, c in edge.opics) at physical indices (s, t) *)
  Definition opsum (opmap : Z -> mx) (s t : nat) (opics : list (Z * R)) : R :=
    suml opics (fun p => kmul R (snd p) (get (opmap (fst p)) s t)).
  Definition zindex (x : Z) (l : list Z) : option nat := index_of Z.eqb x l.
  Definition onat_eqb (a : option nat) (j : nat) : bool := match a with Some k => Nat.eqb k j | None => false end.
  Definition bond_mx (g : graph) (opmap : Z -> mx) (nids0 nids1 : list Z) (s t : nat) : mx :=
    tab (length nids0) (length nids1) (fun i j =>
      suml (out_edges g (nth i nids0 0)) (fun e =>
        if onat_eqb (zindex (e_to e) nids1) j then opsum opmap s t (e_opics e) else 0r)).
  Definition site_tensor (d : nat) (g : graph) (opmap : Z -> mx) (nids0 nids1 : list Z) : osite R :=
    map (fun s => map (fun t => bond_mx g opmap nids0 nids1 s t) (seq 0 d)) (seq 0 d).
  Fixpoint tensors (d : nat) (g : graph) (opmap : Z -> mx) (nids0 : list Z) (ls : list (list Z)) : list (osite R) :=
    match ls with
    | [] => []
    | nids1 :: t => site_tensor d g opmap nids0 nids1 :: tensors d g opmap nids1 t
    end.

  (* nid_map as the association list of assignments in program order (a later assignment to the same
     key overrides: look up with [nid_lookup]) *)
  Definition layer_map (l : nat) (nids : list Z) : list (Z * (nat * nat)) :=
    map (fun p => (snd p, (l, fst p))) (combine (seq 0 (length nids)) nids).
  Fixpoint nid_map_from (l : nat) (ls : list (list Z)) : list (Z * (nat * nat)) :=
    match ls with [] => [] | nids :: t => layer_map l nids ++ nid_map_from (S l) t end.
  Definition nid_lookup (m : list (Z * (nat * nat))) (nid : Z) : option (nat * nat) :=
    option_map snd (find (fun p => fst p =? nid) (rev m)).

  Definition graph_layers (g : graph) : res (list (list Z)) :=
    bind (layers (S (length (g_nodes g))) g [g_t0 g]) (fun ls => Ok ([g_t0 g] :: ls)).

  Definition from_opgraph (qd : list Z) (g : graph) (opmap : Z -> mx) : res (mpo R * list (Z * (nat * nat))) :=
    let d := length qd in
    if Nat.eqb d 0 then Err EValue else
    match find_node g (g_t0 g) with None => Err EKey | Some _ =>
    bind (graph_layers g) (fun ls =>
    bind (all_q g ls) (fun qD =>
    let A := tensors d g opmap [g_t0 g] (tl ls) in
    if ochain_qsparse qd qD A then Ok (mkmpo qd qD A, nid_map_from 0 ls) else Err EAssert))
    end.

  (* ---- correspondence predicate ---- *)
  Definition nidmap_eqb (a b : list (Z * (nat * nat))) : bool :=
    Nat.eqb (length a) (length b) &&
    forallb (fun p => (fst (fst p) =? fst (snd p)) && pair_eqb (snd (fst p)) (snd (snd p))) (combine a b).
  Definition check_opgraph (qd : list Z) (g : graph) (opmap : Z -> mx)
             (expected : res (mpo R * list (Z * (nat * nat)))) : bool :=
    match from_opgraph qd g opmap, expected with
    | Ok (o, m), Ok (o', m') =>
        mpo_eqb o o' && nidmap_eqb m m' &&
        ochain_shape (length qd) (map (@length Z) (o_qD o)) (o_A o)
    | Err e, Err e' => err_eqb e e'
    | _, _ => false
    end.
  (* from chains to the MPO in one go *)
  Definition check_chains_mpo (tbl : list ((nat * nat * list (nat * nat)) * (list nat * list nat)))
             (chains : list (chain R)) (L : nat) (idn : Z) (qd : list Z) (opmap : Z -> mx)
             (expected : res (mpo R * list (Z * (nat * nat)))) : bool :=
    match from_opchains (cover_table tbl) chains L idn with
    | Ok g => check_opgraph qd g opmap expected
    | Err _ => false
    end.

  (* operator maps as association lists (python dict / list); a missing key is the 0x0 matrix *)
  Definition opmap_of (tbl : list (Z * mx)) : Z -> mx :=
    fun o => match find (fun p => fst p =? o) tbl with Some p => snd p | None => zeromx 0 0 end.
End GraphMPO.

Arguments node_targets {R} _ _ _. Arguments next_layer {R} _ _. Arguments layers {R} _ _ _.
Arguments layer_q {R} _ _. Arguments all_q {R} _ _. Arguments opsum {R} _ _ _ _.
Arguments bond_mx {R} _ _ _ _ _ _. Arguments site_tensor {R} _ _ _ _ _. Arguments tensors {R} _ _ _ _ _.
Arguments graph_layers {R} _. Arguments from_opgraph {R} _ _ _.
Arguments check_opgraph {R} _ _ _ _. Arguments check_chains_mpo {R} _ _ _ _ _ _ _. Arguments opmap_of {R} _ _.
