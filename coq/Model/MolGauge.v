(* C07 (d): exact evaluation (no proof) of the orbital-gauge identity of molecular_hamiltonian_orbital_gauge_transform in the
   convention of the library's documented usage (test_molecular_hamiltonian_orbital_rotation):

       H.A[0..i-1] . (v_l W'_i) . (W'_{i+1} v_r^T) . H.A[i+2..]   =   H'            (all 4^L matrix elements)

   where H is the explicit MPO of the original coefficients, H' (tensors W') the explicit MPO of the rotated coefficients,
   v_l, v_r the matrices returned by the implementation.  All tensors are shipped as exact Gaussian rationals.
   [entries] contracts an MPO from the left for all pairs of basis words at once (row vector times site matrix). *)
From Coq Require Import ZArith QArith Qabs Qcanon List Bool.
From PT Require Import Base.Scalar Base.Mx Model.Tensor.
Import ListNotations.

Section Gauge.
  Variable R : cring.
  Notation "0r" := (k0 R).

  Fixpoint vadd (a b : list R) : list R :=
    match a, b with x :: a', y :: b' => kadd R x y :: vadd a' b' | _, _ => [] end.
  (* row vector r (length nr M) times M; zero entries of r are skipped *)
  Definition vecmat (r : list R) (M : mx R) : list R :=
    fold_left (fun acc xr => if keqb R (fst xr) 0r then acc else vadd acc (map (kmul R (fst xr)) (snd xr)))
              (combine r (dat M)) (repeat 0r (nc M)).
  Definition opt_vecmat (r : list R) (M : option (mx R)) : list R :=
    match M with Some m => vecmat r m | None => r end.

  (* a site tensor with optional matrices multiplied onto its left / right bond *)
  Definition gsite : Type := (option (mx R) * osite R * option (mx R))%type.
  (* all matrix elements <w|O|w'>, w and w' running over the words in lexicographic order of (s_0, t_0, s_1, t_1, ...) *)
  Fixpoint entries (Ws : list gsite) (r : list R) : list R :=
    match Ws with
    | [] => r
    | (pre, W, post) :: Ws' =>
        let r1 := opt_vecmat r pre in
        flat_map (fun row => flat_map (fun M => entries Ws' (opt_vecmat (vecmat r1 M) post)) row) W
    end.
  Definition plain (Ws : list (osite R)) : list gsite := map (fun W => (None, W, None)) Ws.
  (* H.A with sites i, i+1 replaced by (v_l W'_i), (W'_{i+1} v_r^T) *)
  Definition gauged (H H' : list (osite R)) (i : nat) (vl vr : mx R) : list gsite :=
    plain (firstn i H) ++
    [(Some vl, nth i H' [], None); (None, nth (S i) H' [], Some (trmx vr))] ++
    plain (skipn (S (S i)) H).
  Fixpoint rl_eqb (a b : list R) : bool :=
    match a, b with [], [] => true | x :: a', y :: b' => keqb R x y && rl_eqb a' b' | _, _ => false end.
  Definition gauge_identity (H H' : list (osite R)) (i : nat) (vl vr : mx R) : bool :=
    rl_eqb (entries (gauged H H' i vl vr) [k1 R]) (entries (plain H') [k1 R]) &&
    Nat.eqb (length (entries (plain H') [k1 R])) (Nat.pow 4 (length H')).
End Gauge.

Arguments entries {R} _ _. Arguments plain {R} _. Arguments gauged {R} _ _ _ _ _. Arguments gauge_identity {R} _ _ _ _ _.

(* the recorded (float) gauge matrices against the exact rationals they round: entrywise, real and imaginary parts *)
Definition qclose (eps : Q) (a b : QI) : bool :=
  Qle_bool (Qabs (this (fst a - fst b)%Qc)) eps && Qle_bool (Qabs (this (snd a - snd b)%Qc)) eps.
Definition mx_close (eps : Q) (A B : mx QIring) : bool :=
  Nat.eqb (nr A) (nr B) && Nat.eqb (nc A) (nc B) &&
  forallb (fun i => forallb (fun j => qclose eps (get A i j) (get B i j)) (seq 0 (nc A))) (seq 0 (nr A)).
Definition check_gauge (H H' : list (osite QIring)) (i : nat) (vl vr vl_rec vr_rec : mx QIring) : bool :=
  mx_close (1 # 1099511627776) vl vl_rec && mx_close (1 # 1099511627776) vr vr_rec &&
  gauge_identity H H' i vl vr.
