(* Executable sweep skeletons of pytenet/evolution.py (single-site / two-site TDVP) and pytenet/minimization.py
   (single-site / two-site DMRG) over an arbitrary [cring], with the numerical callees as ORACLE arguments:

     orth_right psi                       psi.orthonormalize(mode='right'): (state afterwards, nrm)
     qr  pos M q0 q1                      bond_ops.qr(M, q0, q1) = (Q, R, qbond)
     split pos Am qd0 qd1 qDl qDr left    mps.split_mps_tensor(Am, qd0, qd1, [qDl, qDr], 'left' | 'right', tol) = (A0, A1, qbond)
     kexp pos BL BR W A t                 _local_hamiltonian_step(BL, BR, W, A, t, numiter)
     kexp0 pos BL BR C t                  _local_bond_step(BL, BR, C, t, numiter)
     keig pos BL BR W A                   _minimize_local_energy(BL, BR, W, A, numiter) = (w[0], Aopt)

   [pos] is the index of the call in the emitted trace (so that an oracle may be a recorded table consumed in call
   order); the theorems quantify over arbitrary oracles, in particular over position-independent ones.
   Everything else is computed by the model exactly as the code does it: which block is updated when, which time
   fraction goes to which local step, reshapes / transposes around the QR calls, absorption of the bond matrix C into
   the neighbouring tensor (C . A[s] in the left-to-right sweep, A[s] . C after C = C^T in the right-to-left sweep),
   the environment updates (Model/Operation.v), quantum-number bookkeeping, the final QR of each DMRG sweep.

   Every run returns the final tensors and bond quantum numbers, the reported numbers (nrm resp. the list en_min),
   and the emitted trace: one [tcall] per call of a wrapped module-level callee, in program order, with
   (kind, site, time coefficient in units of dt/2) and the tensor / environment / quantum-number arguments. *)
From Coq Require Import ZArith QArith Qcanon List Lia Bool.
From PT Require Import Base.Scalar Base.Field Base.BigSum Base.Mx Model.Tensor Model.Operation.
Import ListNotations.

(* kinds of traced calls *)
Inductive ckind := KH | KH2 | KB | EIG | EIG2 | QR | SPLITL | SPLITR | STL | STR.
(* c_coef: time argument as a multiple of dt/2 (1 = 0.5*dt, -1 = -0.5*dt, 2 = dt); 0 for calls without a time *)
Record call := mkcall { c_kind : ckind; c_site : nat; c_coef : Z }.

Definition ckind_eqb (a b : ckind) : bool :=
  match a, b with
  | KH, KH | KH2, KH2 | KB, KB | EIG, EIG | EIG2, EIG2 | QR, QR | SPLITL, SPLITL | SPLITR, SPLITR | STL, STL | STR, STR => true
  | _, _ => false
  end.
Definition call_eqb (a b : call) : bool :=
  ckind_eqb (c_kind a) (c_kind b) && Nat.eqb (c_site a) (c_site b) && Z.eqb (c_coef a) (c_coef b).
Definition is_solver (c : call) : bool :=
  match c_kind c with KH | KH2 | KB | EIG | EIG2 => true | _ => false end.

Fixpoint lset {T} (l : list T) (i : nat) (x : T) : list T :=
  match l, i with
  | [], _ => []
  | _ :: t, O => x :: t
  | h :: t, S j => h :: lset t j x
  end.
Definition zneg (q : list Z) : list Z := map Z.opp q.
(* qnumber_flatten([qa, qb]) *)
Definition qflat (qa qb : list Z) : list Z := flat_map (fun x => map (fun y => (x + y)%Z) qb) qa.

(* ---------------- the static schedules (local solver calls of ONE time step / ONE sweep) ---------------- *)
Definition sched1_lr (L : nat) : list call :=
  flat_map (fun i => [mkcall KH i 1; mkcall KB i (-1)]) (seq 0 (L - 1)).
Definition sched1_rl (L : nat) : list call :=
  flat_map (fun i => [mkcall KB (i - 1) (-1); mkcall KH (i - 1) 1]) (rev (seq 1 (L - 1))).
Definition sched1 (L : nat) : list call := sched1_lr L ++ [mkcall KH (L - 1) 2] ++ sched1_rl L.

Definition sched2_lr (L : nat) : list call :=
  flat_map (fun i => [mkcall KH2 i 1; mkcall KH (S i) (-1)]) (seq 0 (L - 2)).
Definition sched2_rl (L : nat) : list call :=
  flat_map (fun i => [mkcall KH (S i) (-1); mkcall KH2 i 1]) (rev (seq 0 (L - 2))).
Definition sched2 (L : nat) : list call := sched2_lr L ++ [mkcall KH2 (L - 2) 2] ++ sched2_rl L.

Definition dsched1 (L : nat) : list call :=
  map (fun i => mkcall EIG i 0) (seq 0 (L - 1)) ++ map (fun i => mkcall EIG i 0) (rev (seq 1 (L - 1))).
Definition dsched2 (L : nat) : list call :=
  map (fun i => mkcall EIG2 i 0) (seq 0 (L - 2)) ++ map (fun i => mkcall EIG2 i 0) (rev (seq 0 (L - 1))).

Fixpoint all2 {A B} (f : A -> B -> bool) (l1 : list A) (l2 : list B) : bool :=
  match l1, l2 with [], [] => true | x :: t1, y :: t2 => f x y && all2 f t1 t2 | _, _ => false end.
Fixpoint ncat {T} (n : nat) (l : list T) : list T := match n with O => [] | S m => l ++ ncat m l end.
Definition neg_call (c : call) : call := mkcall (c_kind c) (c_site c) (- c_coef c).

Section Sweeps.
  Variable R : cring.
  Notation mx := (mx R).
  Notation site := (site R).
  Notation osite := (osite R).
  Notation env := (env R).

  Record tcall := mkt { t_call : call; t_envs : list env; t_ten : list site; t_qs : list (list Z) }.

  Record sw := mksw { s_A : list site; s_qD : list (list Z); s_BL : list env; s_BR : list env; s_tr : list tcall }.
  Definition gA (st : sw) (i : nat) : site := nth i (s_A st) [].
  Definition gq (st : sw) (i : nat) : list Z := nth i (s_qD st) [].
  Definition gBL (st : sw) (i : nat) : env := nth i (s_BL st) [].
  Definition gBR (st : sw) (i : nat) : env := nth i (s_BR st) [].

  (* A.reshape((d*Dl, Dr)) and Q.reshape((d, Dl, k)) *)
  Definition site_flat (A : site) : mx :=
    let Dl := sdl A in tab (length A * Dl) (sdr A) (fun r c => get (sel A (r / Dl)) (r mod Dl) c).
  Definition site_unflat (d Dl : nat) (Q : mx) : site :=
    tabl d (fun s => tab Dl (nc Q) (fun a c => get Q (s * Dl + a) c)).
  (* A.transpose((0, 2, 1)) *)
  Definition site_tr (A : site) : site := map (@trmx R) A.
  (* einsum(A, (0,3,2), C, (1,3), (0,1,2)): C . A[s];   einsum(A, (0,1,3), C, (3,2), (0,1,2)) / tensordot(A, C^T...): A[s] . C *)
  Definition lmul_site (C : mx) (A : site) : site := map (mulmx C) A.
  Definition rmul_site (A : site) (C : mx) : site := map (fun M => mulmx M C) A.

  (* time value of a coefficient: hdt = 0.5*dt as computed by the caller *)
  Definition tval (dt hdt : R) (c : Z) : R :=
    if Z.eqb c 1 then hdt else if Z.eqb c (-1) then kopp R hdt
    else if Z.eqb c 2 then dt else if Z.eqb c (-2) then kopp R dt else k0 R.

  (* is_qsparse(E, [qa, qw, qb]) for an environment block E[a, w, b] *)
  Definition env_qsparse (qa qw qb : list Z) (E : env) : bool :=
    forallb (fun w => forallb (fun a => forallb (fun b =>
      keqb R (get (esel E w) a b) (k0 R) || Z.eqb (zget qa a + zget qw w + zget qb b) 0)
      (seq 0 (length qb))) (seq 0 (length qa))) (seq 0 (length qw)).

  (* ---------------- oracles ---------------- *)
  Variable orth_right : mps R -> mps R * R.
  Variable qr : nat -> mx -> list Z -> list Z -> mx * mx * list Z.
  Variable split : nat -> site -> list Z -> list Z -> list Z -> list Z -> bool -> site * site * list Z.
  Variable kexp : nat -> env -> env -> osite -> site -> R -> site.
  Variable kexp0 : nat -> env -> env -> mx -> R -> mx.
  Variable keig : nat -> env -> env -> osite -> site -> R * site.

  (* ---------------- common prologue of all four functions ----------------
     assert L == psi.nsites; psi.orthonormalize(mode='right'); BR = compute_right_operator_blocks(psi, H);
     BL = [None]*L; BL[0] = [[[1]]]; assert is_qsparse(BR[i], [psi.qD[i+1], H.qD[i+1], -psi.qD[i+1]]) *)
  Definition sweep_init (H : mpo R) (psi : mps R) : option (sw * R) :=
    if negb (Nat.eqb (length (o_A H)) (length (m_A psi))) then None else
    let '(psi1, nrm) := orth_right psi in
    match compute_right_operator_blocks psi1 H with
    | None => None
    | Some BR =>
        let BL := env_one :: repeat [] (length (o_A H) - 1) in
        if forallb (fun i => env_qsparse (nth (S i) (m_qD psi1) []) (nth (S i) (o_qD H) [])
                                         (zneg (nth (S i) (m_qD psi1) [])) (nth i BR []))
                   (seq 0 (length BR))
        then Some (mksw (m_A psi1) (m_qD psi1) BL BR [], nrm) else None
    end.

  (* ---------------- mps.py:221-252 (the block QR is the oracle) ----------------
     returns (A', C = the R factor, qbond); the caller absorbs C into the neighbour *)
  Definition qr_left (pos : nat) (A : site) (qd qDl qDr : list Z) : site * mx * list Z * tcall :=
    let M := site_flat A in
    let q0 := qflat qd qDl in
    let '(Q, C, qb) := qr pos M q0 qDr in
    (site_unflat (length A) (sdl A) Q, C, qb, mkt (mkcall QR 0 0) [] [[M]] [q0; qDr]).
  Definition qr_right (pos : nat) (A : site) (qd qDl qDr : list Z) : site * mx * list Z * tcall :=
    let At := site_tr A in
    let M := site_flat At in
    let q0 := qflat qd (zneg qDr) in
    let q1 := zneg qDl in
    let '(Q, C, qb) := qr pos M q0 q1 in
    (site_tr (site_unflat (length At) (sdl At) Q), C, zneg qb, mkt (mkcall QR 0 0) [] [[M]] [q0; q1]).
  Definition at_site (i : nat) (t : tcall) : tcall :=
    mkt (mkcall (c_kind (t_call t)) i (c_coef (t_call t))) (t_envs t) (t_ten t) (t_qs t).

  (* ======================= evolution.py:17-100  integrate_local_singlesite ======================= *)
  Section TDVP.
    Variables (Hs : list osite) (qd : list Z) (dt hdt : R).

    Definition tdvp1_lr (st : sw) (i : nat) : sw :=
      let W := nth i Hs [] in
      let BLi := gBL st i in
      let BRi := gBR st i in
      let A0 := gA st i in
      let p := length (s_tr st) in
      (* psi.A[i] = _local_hamiltonian_step(BL[i], BR[i], H.A[i], psi.A[i], 0.5*dt, numiter) *)
      let A1 := kexp p BLi BRi W A0 (tval dt hdt 1) in
      let tr1 := mkt (mkcall KH i 1) [BLi; BRi] [A0] [] :: s_tr st in
      (* (Q, C, psi.qD[i+1]) = qr(psi.A[i].reshape(..), qnumber_flatten([psi.qd, psi.qD[i]]), psi.qD[i+1]) *)
      let '(Aq, C, qb, tq) := qr_left (S p) A1 qd (gq st i) (gq st (S i)) in
      let tr2 := at_site i tq :: tr1 in
      (* BL[i+1] = contraction_operator_step_left(psi.A[i], psi.A[i], H.A[i], BL[i]) *)
      let BLn := contraction_operator_step_left Aq Aq W BLi in
      let tr3 := mkt (mkcall STL i 0) [BLi; BLn] [Aq] [] :: tr2 in
      (* C = _local_bond_step(BL[i+1], BR[i], C, -0.5*dt, numiter) *)
      let C1 := kexp0 (S (S (S p))) BLn BRi C (tval dt hdt (-1)) in
      let tr4 := mkt (mkcall KB i (-1)) [BLn; BRi] [[C]] [] :: tr3 in
      (* psi.A[i+1] = einsum(psi.A[i+1], (0,3,2), C, (1,3), (0,1,2)) *)
      let An := lmul_site C1 (gA st (S i)) in
      mksw (lset (lset (s_A st) i Aq) (S i) An) (lset (s_qD st) (S i) qb) (lset (s_BL st) (S i) BLn) (s_BR st) tr4.

    Definition tdvp1_mid (st : sw) (i : nat) : sw :=
      let A0 := gA st i in
      let A1 := kexp (length (s_tr st)) (gBL st i) (gBR st i) (nth i Hs []) A0 (tval dt hdt 2) in
      mksw (lset (s_A st) i A1) (s_qD st) (s_BL st) (s_BR st)
           (mkt (mkcall KH i 2) [gBL st i; gBR st i] [A0] [] :: s_tr st).

    Definition tdvp1_rl (st : sw) (i : nat) : sw :=
      let W := nth i Hs [] in
      let p := length (s_tr st) in
      (* transpose, qr(.., qnumber_flatten([psi.qd, -psi.qD[i+1]]), -psi.qD[i]); psi.qD[i] = -qbond; transpose back *)
      let '(Aq, C, qb, tq) := qr_right p (gA st i) qd (gq st i) (gq st (S i)) in
      let tr1 := at_site i tq :: s_tr st in
      (* BR[i-1] = contraction_operator_step_right(psi.A[i], psi.A[i], H.A[i], BR[i]) *)
      let BRi := gBR st i in
      let BRn := contraction_operator_step_right Aq Aq W BRi in
      let tr2 := mkt (mkcall STR i 0) [BRi; BRn] [Aq] [] :: tr1 in
      (* C = np.transpose(C); C = _local_bond_step(BL[i], BR[i-1], C, -0.5*dt, numiter) *)
      let Ct := trmx C in
      let BLi := gBL st i in
      let C1 := kexp0 (S (S p)) BLi BRn Ct (tval dt hdt (-1)) in
      let tr3 := mkt (mkcall KB (i - 1) (-1)) [BLi; BRn] [[Ct]] [] :: tr2 in
      (* psi.A[i-1] = einsum(psi.A[i-1], (0,1,3), C, (3,2), (0,1,2)) *)
      let Ap := rmul_site (gA st (i - 1)) C1 in
      (* psi.A[i-1] = _local_hamiltonian_step(BL[i-1], BR[i-1], H.A[i-1], psi.A[i-1], 0.5*dt, numiter) *)
      let BLp := gBL st (i - 1) in
      let Ap1 := kexp (S (S (S p))) BLp BRn (nth (i - 1) Hs []) Ap (tval dt hdt 1) in
      let tr4 := mkt (mkcall KH (i - 1) 1) [BLp; BRn] [Ap] [] :: tr3 in
      mksw (lset (lset (s_A st) i Aq) (i - 1) Ap1) (lset (s_qD st) i qb) (s_BL st) (lset (s_BR st) (i - 1) BRn) tr4.

    Definition tdvp1_step (L : nat) (st : sw) : sw :=
      let st1 := fold_left tdvp1_lr (seq 0 (L - 1)) st in
      let st2 := tdvp1_mid st1 (L - 1) in
      fold_left tdvp1_rl (rev (seq 1 (L - 1))) st2.

    (* ======================= evolution.py:103-202  integrate_local_twosite ======================= *)
    (* merge, evolve the pair by coefficient c, split with svd_distr = left|right; returns the state with A[i], A[i+1], qD[i+1] replaced *)
    Definition tdvp2_pair (st : sw) (i : nat) (c : Z) (left : bool) : sw :=
      let Am := c04_merge_site (gA st i) (gA st (S i)) in
      let Hm := c04_merge_osite (nth i Hs []) (nth (S i) Hs []) in
      let p := length (s_tr st) in
      let BLi := gBL st i in
      let BRj := gBR st (S i) in
      let Am1 := kexp p BLi BRj Hm Am (tval dt hdt c) in
      let tr1 := mkt (mkcall KH2 i c) [BLi; BRj] [Am] [] :: s_tr st in
      let '(A0, A1, qb) := split (S p) Am1 qd qd (gq st i) (gq st (S (S i))) left in
      let tr2 := mkt (mkcall (if left then SPLITL else SPLITR) i 0) [] [Am1] [qd; qd; gq st i; gq st (S (S i))] :: tr1 in
      mksw (lset (lset (s_A st) i A0) (S i) A1) (lset (s_qD st) (S i) qb) (s_BL st) (s_BR st) tr2.
    (* BL[i+1] = step_left(A[i], A[i], H.A[i], BL[i]) *)
    Definition upd_BL (st : sw) (i : nat) : sw :=
      let BLn := contraction_operator_step_left (gA st i) (gA st i) (nth i Hs []) (gBL st i) in
      mksw (s_A st) (s_qD st) (lset (s_BL st) (S i) BLn) (s_BR st)
           (mkt (mkcall STL i 0) [gBL st i; BLn] [gA st i] [] :: s_tr st).
    (* BR[j-1] = step_right(A[j], A[j], H.A[j], BR[j]) *)
    Definition upd_BR (st : sw) (j : nat) : sw :=
      let BRn := contraction_operator_step_right (gA st j) (gA st j) (nth j Hs []) (gBR st j) in
      mksw (s_A st) (s_qD st) (s_BL st) (lset (s_BR st) (j - 1) BRn)
           (mkt (mkcall STR j 0) [gBR st j; BRn] [gA st j] [] :: s_tr st).
    (* psi.A[j] = _local_hamiltonian_step(BL[j], BR[j], H.A[j], psi.A[j], c*dt/2) *)
    Definition evolve_site (st : sw) (j : nat) (c : Z) : sw :=
      let A1 := kexp (length (s_tr st)) (gBL st j) (gBR st j) (nth j Hs []) (gA st j) (tval dt hdt c) in
      mksw (lset (s_A st) j A1) (s_qD st) (s_BL st) (s_BR st)
           (mkt (mkcall KH j c) [gBL st j; gBR st j] [gA st j] [] :: s_tr st).

    Definition tdvp2_lr (st : sw) (i : nat) : sw :=
      evolve_site (upd_BL (tdvp2_pair st i 1 false) i) (S i) (-1).
    Definition tdvp2_mid (st : sw) (i : nat) : sw :=
      upd_BR (tdvp2_pair st i 2 true) (S i).
    Definition tdvp2_rl (st : sw) (i : nat) : sw :=
      upd_BR (tdvp2_pair (evolve_site st (S i) (-1)) i 1 true) (S i).
    Definition tdvp2_step (L : nat) (st : sw) : sw :=
      let st1 := fold_left tdvp2_lr (seq 0 (L - 2)) st in
      let st2 := tdvp2_mid st1 (L - 2) in
      fold_left tdvp2_rl (rev (seq 0 (L - 2))) st2.
  End TDVP.

  Fixpoint iter {T} (n : nat) (f : T -> T) (x : T) : T := match n with O => x | S m => iter m f (f x) end.

  Definition tdvp_result := (list site * list (list Z) * R * list tcall)%type.
  Definition tdvp_singlesite (H : mpo R) (psi : mps R) (dt hdt : R) (numsteps : nat) : option tdvp_result :=
    match sweep_init H psi with
    | None => None
    | Some (st, nrm) =>
        let L := length (o_A H) in
        let st' := iter numsteps (tdvp1_step (o_A H) (m_qd psi) dt hdt L) st in
        Some (s_A st', s_qD st', nrm, rev (s_tr st'))
    end.
  Definition tdvp_twosite (H : mpo R) (psi : mps R) (dt hdt : R) (numsteps : nat) : option tdvp_result :=
    if Nat.ltb (length (o_A H)) 2 then None else
    match sweep_init H psi with
    | None => None
    | Some (st, nrm) =>
        let L := length (o_A H) in
        let st' := iter numsteps (tdvp2_step (o_A H) (m_qd psi) dt hdt L) st in
        Some (s_A st', s_qD st', nrm, rev (s_tr st'))
    end.

  (* ======================= minimization.py ======================= *)
  Section DMRG.
    Variables (Hs : list osite) (qd : list Z).

    (* en, psi.A[i] = _minimize_local_energy(BL[i], BR[i], H.A[i], psi.A[i]) *)
    Definition dmrg_opt (se : sw * R) (i : nat) : sw * R :=
      let st := fst se in
      let '(en, A1) := keig (length (s_tr st)) (gBL st i) (gBR st i) (nth i Hs []) (gA st i) in
      (mksw (lset (s_A st) i A1) (s_qD st) (s_BL st) (s_BR st)
            (mkt (mkcall EIG i 0) [gBL st i; gBR st i] [gA st i] [] :: s_tr st), en).
    (* psi.A[i], psi.A[i+1], psi.qD[i+1] = local_orthonormalize_left_qr(psi.A[i], psi.A[i+1], psi.qd, psi.qD[i:i+2]) *)
    Definition dmrg_qr_left (st : sw) (i : nat) : sw :=
      let '(Aq, C, qb, tq) := qr_left (length (s_tr st)) (gA st i) qd (gq st i) (gq st (S i)) in
      (* Anext = tensordot(R, Anext, (1, 1)).transpose((1, 0, 2)) *)
      let An := lmul_site C (gA st (S i)) in
      mksw (lset (lset (s_A st) i Aq) (S i) An) (lset (s_qD st) (S i) qb) (s_BL st) (s_BR st) (at_site i tq :: s_tr st).
    (* psi.A[i], psi.A[i-1], psi.qD[i] = local_orthonormalize_right_qr(psi.A[i], psi.A[i-1], psi.qd, psi.qD[i:i+2]) *)
    Definition dmrg_qr_right (st : sw) (i : nat) : sw :=
      let '(Aq, C, qb, tq) := qr_right (length (s_tr st)) (gA st i) qd (gq st i) (gq st (S i)) in
      (* Aprev = tensordot(Aprev, R, (2, 1)) *)
      let Ap := rmul_site (gA st (i - 1)) (trmx C) in
      mksw (lset (lset (s_A st) i Aq) (i - 1) Ap) (lset (s_qD st) i qb) (s_BL st) (s_BR st) (at_site i tq :: s_tr st).
    (* psi.A[0], _, psi.qD[0] = local_orthonormalize_right_qr(psi.A[0], [[[1]]], psi.qd, psi.qD[:2]) *)
    Definition dmrg_final_qr (st : sw) : sw :=
      let '(Aq, C, qb, tq) := qr_right (length (s_tr st)) (gA st 0) qd (gq st 0) (gq st 1) in
      mksw (lset (s_A st) 0 Aq) (lset (s_qD st) 0 qb) (s_BL st) (s_BR st) (at_site 0 tq :: s_tr st).

    Definition lift (f : sw -> sw) (se : sw * R) : sw * R := (f (fst se), snd se).

    Definition dmrg1_lr (se : sw * R) (i : nat) : sw * R :=
      lift (fun st => upd_BL Hs (dmrg_qr_left st i) i) (dmrg_opt se i).
    Definition dmrg1_rl (se : sw * R) (i : nat) : sw * R :=
      lift (fun st => upd_BR Hs (dmrg_qr_right st i) i) (dmrg_opt se i).
    (* one sweep; returns the state and the energy recorded for it (en = 0 if no local problem was solved) *)
    Definition dmrg1_sweep (L : nat) (st : sw) : sw * R :=
      let se1 := fold_left dmrg1_lr (seq 0 (L - 1)) (st, k0 R) in
      let se2 := fold_left dmrg1_rl (rev (seq 1 (L - 1))) se1 in
      lift dmrg_final_qr se2.

    (* two-site: merge, minimise, split *)
    Definition dmrg2_pair (se : sw * R) (i : nat) (left : bool) : sw * R :=
      let st := fst se in
      let Am := c04_merge_site (gA st i) (gA st (S i)) in
      let Hm := c04_merge_osite (nth i Hs []) (nth (S i) Hs []) in
      let p := length (s_tr st) in
      let BLi := gBL st i in
      let BRj := gBR st (S i) in
      let '(en, Am1) := keig p BLi BRj Hm Am in
      let tr1 := mkt (mkcall EIG2 i 0) [BLi; BRj] [Am] [] :: s_tr st in
      let '(A0, A1, qb) := split (S p) Am1 qd qd (gq st i) (gq st (S (S i))) left in
      let tr2 := mkt (mkcall (if left then SPLITL else SPLITR) i 0) [] [Am1] [qd; qd; gq st i; gq st (S (S i))] :: tr1 in
      (mksw (lset (lset (s_A st) i A0) (S i) A1) (lset (s_qD st) (S i) qb) (s_BL st) (s_BR st) tr2, en).
    Definition dmrg2_lr (se : sw * R) (i : nat) : sw * R :=
      lift (fun st => upd_BL Hs st i) (dmrg2_pair se i false).
    Definition dmrg2_rl (se : sw * R) (i : nat) : sw * R :=
      lift (fun st => upd_BR Hs st (S i)) (dmrg2_pair se i true).
    Definition dmrg2_sweep (L : nat) (st : sw) : sw * R :=
      let se1 := fold_left dmrg2_lr (seq 0 (L - 2)) (st, k0 R) in
      let se2 := fold_left dmrg2_rl (rev (seq 0 (L - 1))) se1 in
      lift dmrg_final_qr se2.

    (* for n in range(numsweeps): ...; en_min[n] = en *)
    Fixpoint dmrg_loop (sweep : sw -> sw * R) (n : nat) (st : sw) (ens : list R) : sw * list R :=
      match n with
      | O => (st, ens)
      | S m => let '(st', en) := sweep st in dmrg_loop sweep m st' (ens ++ [en])
      end.
  End DMRG.

  Definition dmrg_result := (list site * list (list Z) * list R * list tcall)%type.
  Definition dmrg_singlesite (H : mpo R) (psi : mps R) (numsweeps : nat) : option dmrg_result :=
    match sweep_init H psi with
    | None => None
    | Some (st, _) =>
        let '(st', ens) := dmrg_loop (dmrg1_sweep (o_A H) (m_qd psi) (length (o_A H))) numsweeps st [] in
        Some (s_A st', s_qD st', ens, rev (s_tr st'))
    end.
  Definition dmrg_twosite (H : mpo R) (psi : mps R) (numsweeps : nat) : option dmrg_result :=
    match sweep_init H psi with
    | None => None
    | Some (st, _) =>
        let '(st', ens) := dmrg_loop (dmrg2_sweep (o_A H) (m_qd psi) (length (o_A H))) numsweeps st [] in
        Some (s_A st', s_qD st', ens, rev (s_tr st'))
    end.

  Definition solver_calls (tr : list tcall) : list call := filter is_solver (map t_call tr).
End Sweeps.

Arguments mkt {R} _ _ _ _. Arguments t_call {R} _. Arguments t_envs {R} _. Arguments t_ten {R} _. Arguments t_qs {R} _.
Arguments mksw {R} _ _ _ _ _. Arguments s_A {R} _. Arguments s_qD {R} _. Arguments s_BL {R} _. Arguments s_BR {R} _. Arguments s_tr {R} _.
Arguments gA {R} st i. Arguments gq {R} st i. Arguments gBL {R} st i. Arguments gBR {R} st i.
Arguments site_flat {R} A. Arguments site_unflat {R} d Dl Q. Arguments site_tr {R} A.
Arguments lmul_site {R} C A. Arguments rmul_site {R} A C. Arguments tval {R} dt hdt c.
Arguments env_qsparse {R} qa qw qb E.
Arguments sweep_init {R} orth_right H psi.
Arguments qr_left {R} qr pos A qd qDl qDr. Arguments qr_right {R} qr pos A qd qDl qDr. Arguments at_site {R} i t.
Arguments tdvp1_lr {R} qr kexp kexp0 Hs qd dt hdt st i. Arguments tdvp1_mid {R} kexp Hs dt hdt st i.
Arguments tdvp1_rl {R} qr kexp kexp0 Hs qd dt hdt st i. Arguments tdvp1_step {R} qr kexp kexp0 Hs qd dt hdt L st.
Arguments tdvp2_pair {R} split kexp Hs qd dt hdt st i c left.
Arguments upd_BL {R} Hs st i. Arguments upd_BR {R} Hs st j. Arguments evolve_site {R} kexp Hs dt hdt st j c.
Arguments tdvp2_lr {R} split kexp Hs qd dt hdt st i. Arguments tdvp2_mid {R} split kexp Hs qd dt hdt st i.
Arguments tdvp2_rl {R} split kexp Hs qd dt hdt st i. Arguments tdvp2_step {R} split kexp Hs qd dt hdt L st.
Arguments iter {T} n f x.
Arguments tdvp_singlesite {R} orth_right qr kexp kexp0 H psi dt hdt numsteps.
Arguments tdvp_twosite {R} orth_right split kexp H psi dt hdt numsteps.
Arguments dmrg_opt {R} keig Hs se i. Arguments dmrg_qr_left {R} qr qd st i. Arguments dmrg_qr_right {R} qr qd st i.
Arguments dmrg_final_qr {R} qr qd st. Arguments lift {R} f se.
Arguments dmrg1_lr {R} qr keig Hs qd se i. Arguments dmrg1_rl {R} qr keig Hs qd se i. Arguments dmrg1_sweep {R} qr keig Hs qd L st.
Arguments dmrg2_pair {R} split keig Hs qd se i left. Arguments dmrg2_lr {R} split keig Hs qd se i.
Arguments dmrg2_rl {R} split keig Hs qd se i. Arguments dmrg2_sweep {R} qr split keig Hs qd L st.
Arguments dmrg_loop {R} sweep n st ens.
Arguments dmrg_singlesite {R} orth_right qr keig H psi numsweeps.
Arguments dmrg_twosite {R} orth_right qr split keig H psi numsweeps.
Arguments solver_calls {R} tr.

(* =====================================================================================================
   Replay support for the correspondence check (harness/props/c08.py, c09.py, c10.py).
   A recorded call carries the abstract call, the recorded arguments and the recorded answer; the model is run with
   the answers as oracle table (looked up by trace position) and its emitted trace must agree with the recorded one:
   kinds, sites, time coefficients and quantum-number arguments exactly, tensor / environment arguments up to [close]
   entry-wise with equal shapes. *)
Section Replay.
  Variable R : cring.
  Notation mx := (mx R).
  Notation site := (site R).
  Notation env := (env R).

  Inductive oans :=
  | ANone
  | ASite (A : site)
  | AMx (C : mx)
  | AQR (Q C : mx) (q : list Z)
  | ASplit (A0 A1 : site) (q : list Z)
  | AEig (e : R) (A : site).
  Record rcall := mkr { r_call : call; r_envs : list env; r_ten : list site; r_qs : list (list Z); r_ans : oans }.

  Variable close : R -> R -> bool.
  Definition mx_close (A B : mx) : bool :=
    Nat.eqb (nr A) (nr B) && Nat.eqb (nc A) (nc B) && wfb A &&
    forallb (fun i => forallb (fun j => close (get A i j) (get B i j)) (seq 0 (nc A))) (seq 0 (nr A)).
  Definition site_close : site -> site -> bool := list_eqb mx_close.
  Definition env_close : env -> env -> bool := list_eqb mx_close.
  Definition tcall_match (t : tcall R) (r : rcall) : bool :=
    call_eqb (t_call t) (r_call r) && list_eqb env_close (t_envs t) (r_envs r) &&
    list_eqb site_close (t_ten t) (r_ten r) && list_eqb zl_eqb (t_qs t) (r_qs r).

  Definition ans_at (recs : list rcall) (pos : nat) : oans :=
    match nth_error recs pos with Some r => r_ans r | None => ANone end.
  Definition o_qr (recs : list rcall) (pos : nat) (_ : mx) (_ _ : list Z) : mx * mx * list Z :=
    match ans_at recs pos with AQR Q C q => (Q, C, q) | _ => (mx0, mx0, []) end.
  Definition o_split (recs : list rcall) (pos : nat) (_ : site) (_ _ _ _ : list Z) (_ : bool) : site * site * list Z :=
    match ans_at recs pos with ASplit A0 A1 q => (A0, A1, q) | _ => ([], [], []) end.
  Definition o_kexp (recs : list rcall) (pos : nat) (_ _ : env) (_ : osite R) (_ : site) (_ : R) : site :=
    match ans_at recs pos with ASite A => A | _ => [] end.
  Definition o_kexp0 (recs : list rcall) (pos : nat) (_ _ : env) (_ : mx) (_ : R) : mx :=
    match ans_at recs pos with AMx C => C | _ => mx0 end.
  Definition o_keig (recs : list rcall) (pos : nat) (_ _ : env) (_ : osite R) (_ : site) : R * site :=
    match ans_at recs pos with AEig e A => (e, A) | _ => (k0 R, []) end.

  (* recorded run: state after psi.orthonormalize and its nrm, result of compute_right_operator_blocks (None: not compared),
     the trace, the final tensors / quantum numbers *)
  Record rrun := mkrun { rr_orth : mps R; rr_nrm : R; rr_BR : option (list env); rr_trace : list rcall;
                         rr_A : list site; rr_qD : list (list Z) }.

  Definition br_ok (H : mpo R) (rr : rrun) : bool :=
    match rr_BR rr with
    | None => true
    | Some BR => match compute_right_operator_blocks (rr_orth rr) H with
                 | Some BR' => list_eqb env_close BR' BR
                 | None => false
                 end
    end.
  Definition final_ok (A : list site) (qD : list (list Z)) (tr : list (tcall R)) (rr : rrun) : bool :=
    all2 tcall_match tr (rr_trace rr) && list_eqb site_close A (rr_A rr) && list_eqb zl_eqb qD (rr_qD rr).

  (* two = false: integrate_local_singlesite, two = true: integrate_local_twosite.  (dt, hdt) only feed the oracles, which ignore them. *)
  Definition check_tdvp (two : bool) (H : mpo R) (numsteps : nat) (rr : rrun) : bool :=
    let recs := rr_trace rr in
    let orth := fun _ : mps R => (rr_orth rr, rr_nrm rr) in
    let res := if two then tdvp_twosite orth (o_split recs) (o_kexp recs) H (rr_orth rr) (k0 R) (k0 R) numsteps
               else tdvp_singlesite orth (o_qr recs) (o_kexp recs) (o_kexp0 recs) H (rr_orth rr) (k0 R) (k0 R) numsteps in
    match res with
    | None => false
    | Some (A, qD, nrm, tr) =>
        br_ok H rr && final_ok A qD tr rr &&
        list_eqb call_eqb (solver_calls tr) (ncat numsteps (if two then sched2 (length (o_A H)) else sched1 (length (o_A H)))) &&
        list_eqb call_eqb (rev (solver_calls tr)) (solver_calls tr)
    end.

  Definition check_dmrg (two : bool) (H : mpo R) (numsweeps : nat) (rr : rrun) (ens : list R) : bool :=
    let recs := rr_trace rr in
    let orth := fun _ : mps R => (rr_orth rr, rr_nrm rr) in
    let res := if two then dmrg_twosite orth (o_qr recs) (o_split recs) (o_keig recs) H (rr_orth rr) numsweeps
               else dmrg_singlesite orth (o_qr recs) (o_keig recs) H (rr_orth rr) numsweeps in
    match res with
    | None => false
    | Some (A, qD, ens', tr) =>
        br_ok H rr && final_ok A qD tr rr && list_eqb close ens' ens &&
        list_eqb call_eqb (solver_calls tr) (ncat numsweeps (if two then dsched2 (length (o_A H)) else dsched1 (length (o_A H))))
    end.
End Replay.

Arguments ANone {R}. Arguments ASite {R} A. Arguments AMx {R} C. Arguments AQR {R} Q C q.
Arguments ASplit {R} A0 A1 q. Arguments AEig {R} e A.
Arguments mkr {R} _ _ _ _ _. Arguments mkrun {R} _ _ _ _ _ _.
Arguments check_tdvp {R} close two H numsteps rr. Arguments check_dmrg {R} close two H numsweeps rr ens.
Arguments mx_close {R} close A B.

(* shape-only runs: Gaussian-integer zero tensors of the recorded shapes, every scalar comparison true *)
Definition zmx (m n : nat) : Mx.mx GIring := zeromx m n.
Definition zsite (d Dl Dr : nat) : site GIring := repeat (zmx Dl Dr) d.
Definition zosite (d Dl Dr : nat) : osite GIring := repeat (zsite d Dl Dr) d.
Definition zenv (Da Dw Db : nat) : env GIring := repeat (zmx Da Db) Dw.
Definition any_close (_ _ : GIring) : bool := true.

(* numeric runs at CQ = Gaussian rationals: |x - y|^2 <= tol2 * (1 + |y|^2) *)
Definition cq_close (tol2 : Qc) (x y : CQ) : bool :=
  fleb QcF (cnorm2 (F:=QcF) (ksub CQ x y)) (fmul QcF tol2 (fadd QcF (f1 QcF) (cnorm2 (F:=QcF) y))).
