(* Executable mirror of pytenet/mps.py: local_orthonormalize_left_qr / right_qr / left_svd / right_svd,
   MPS.orthonormalize, MPS.compress, and of pytenet/mpo.py: MPO.orthonormalize (with its two local functions).

   Representation (Model/Tensor.v): a site tensor A of numpy shape (d, Dl, Dr) is the list of its d matrices A[s].
   Index reading of the numpy calls (validated by the correspondence check on non-square random shapes):
     A.reshape((d*Dl, Dr))                               row index  s*Dl + a                          [site_mx]
     Q.reshape((d, Dl, k))                               A'[s][a, c] = Q[s*Dl + a, c]                 [mx_site]
     qnumber_flatten([qd, qD])                           entry s*Dl + a  =  qd[s] + qD[a]             [qflat]
     np.tensordot(R, Anext, (1, 1)).transpose((1,0,2))   Anext'[s] = R . Anext[s]                     [lmul]
     right variant: A.transpose((0,2,1)).reshape((d*Dr, Dl))  row index s*Dr + b, column a            [site_mx (trs A)]
                    Q.reshape((d, Dr, k)).transpose((0,2,1))  A'[s][c, b] = Q[s*Dr + b, c]            [trs (mx_site ..)]
                    np.tensordot(Aprev, R, (2, 1))            Aprev'[s] = Aprev[s] . R^T (no conjugation)  [rmul _ (trmx R)]
                    charges  q0 = qd[s] - qD[1][b],  q1 = -qD[0],  returned bond charges -qbond
     right SVD variant: A.transpose((1,0,2)).reshape((Dl, d*Dr))  column index s*Dr + b              [site_mx_r]
                    V.reshape((k, d, Dr)).transpose((1,0,2))      A'[s][c, b] = V[c, s*Dr + b]        [mx_site_r]
                    np.tensordot(Aprev, U * sigma, (2, 0))        Aprev'[s] = Aprev[s] . (U diag sigma)
   MPO: the same code on the tensor with the pair (s,t) as physical index p = s*d + t and physical charge
   qd[s] - qd[t]  ([mpo_view]).
   numpy.linalg.qr / svd, the unstable argsort and abs of a complex number are oracle arguments.
   Python exceptions (assertions, shape errors of tensordot / reshape, IndexError) are the error value [None].
   Not mirrored: the [is_qsparse] assertions inside MPS.compress (they only re-check the result of each step). *)
From Coq Require Import ZArith List Bool Lia Arith.
From PT Require Import Base.Scalar Base.Field Base.BigSum Base.Mx Model.Tensor Model.BondOps.
Import ListNotations.

(* qnumber_flatten([qa, qb]) *)
Definition qflat (qa qb : list Z) : list Z := flat_map (fun a => map (fun b => (a + b)%Z) qb) qa.
Definition zneg (q : list Z) : list Z := map Z.opp q.

Fixpoint map_last {A} (f : A -> A) (l : list A) : list A :=
  match l with [] => [] | [x] => [f x] | x :: t => x :: map_last f t end.

(* ------------------------------------------------------------------ *)
(* reshapes, the QR steps and the site sweep (any scalar ring)          *)
(* ------------------------------------------------------------------ *)
Section LocalQR.
  Variable R : cring.
  Notation mx := (mx R).
  Notation site := (site R).

  (* A.shape = (length A, sDl A, sDr A) *)
  Definition sDl (A : site) : nat := nr (sel A 0).
  Definition sDr (A : site) : nat := nc (sel A 0).

  Definition site_mx (A : site) : mx :=
    tab (length A * sDl A) (sDr A) (fun r b => get (sel A (r / sDl A)) (r mod sDl A) b).
  Definition mx_site (d Dl : nat) (Q : mx) : site :=
    map (fun s => tab Dl (nc Q) (fun a c => get Q (s * Dl + a) c)) (seq 0 d).
  Definition site_mx_r (A : site) : mx :=
    tab (sDl A) (length A * sDr A) (fun a c => get (sel A (c / sDr A)) a (c mod sDr A)).
  Definition mx_site_r (d Dr : nat) (V : mx) : site :=
    map (fun s => tab (nr V) Dr (fun c b => get V c (s * Dr + b))) (seq 0 d).

  Definition trs (A : site) : site := map (@trmx R) A.
  Definition lmul (M : mx) (A : site) : site := map (fun X => mulmx M X) A.
  Definition rmul (A : site) (M : mx) : site := map (fun X => mulmx X M) A.
  Definition neg_site (A : site) : site := map (@oppmx R) A.
  Definition scale_site (c : R) (A : site) : site := map (scalemx c) A.
  (* np.array([[[1]]]) *)
  Definition one_site : site := [tab 1 1 (fun _ _ => k1 R)].
  (* T.shape == (1, 1, 1) *)
  Definition is111 (T : site) : bool := Nat.eqb (length T) 1 && Nat.eqb (sDl T) 1 && Nat.eqb (sDr T) 1.

  Variable dqr : mx -> mx * mx.

  (* mps.py: local_orthonormalize_left_qr(A, Anext, qd, [qDl, qDr]) *)
  Definition local_left_qr (A Anext : site) (qd qDl qDr : list Z) : option (site * site * list Z) :=
    match block_qr dqr (site_mx A) (qflat qd qDl) qDr with
    | None => None
    | Some (Q, Rm, qb) =>
        (* tensordot contracts axis 1 of R with axis 1 of Anext *)
        if Nat.eqb (nc Rm) (sDl Anext)
        then Some (mx_site (length A) (sDl A) Q, lmul Rm Anext, qb) else None
    end.
  Definition local_left_qr_calls (A : site) (qd qDl qDr : list Z) : list mx :=
    block_qr_calls (site_mx A) (qflat qd qDl) qDr.

  (* mps.py: local_orthonormalize_right_qr(A, Aprev, qd, [qDl, qDr]) *)
  Definition local_right_qr (A Aprev : site) (qd qDl qDr : list Z) : option (site * site * list Z) :=
    match block_qr dqr (site_mx (trs A)) (qflat qd (zneg qDr)) (zneg qDl) with
    | None => None
    | Some (Q, Rm, qb) =>
        (* tensordot contracts axis 2 of Aprev with axis 1 of R *)
        if Nat.eqb (nc Rm) (sDr Aprev)
        then Some (trs (mx_site (length A) (sDr A) Q), rmul Aprev (trmx Rm), zneg qb) else None
    end.
  Definition local_right_qr_calls (A : site) (qd qDl qDr : list Z) : list mx :=
    block_qr_calls (site_mx (trs A)) (qflat qd (zneg qDr)) (zneg qDl).

  (* The site loop in sweep order.  [cur] is the tensor about to be factorised, [qb] the charges of the bond behind it
     (already final), [rest] the tensors ahead with the charges [qrest] of the bonds ahead.
     step cur next qb qa = (cur', next', qa'): the three values assigned by one loop iteration; the last iteration is
     the call with the trailing 1x1x1 tensor.  Returns the new tensors and bond charges in sweep order and the factor T. *)
  Definition step_t := site -> site -> list Z -> list Z -> option (site * site * list Z).
  Fixpoint sweep (step : step_t) (cur : site) (qb : list Z) (rest : list site) (qrest : list (list Z))
    : option (list site * list (list Z) * site) :=
    match rest, qrest with
    | [], [qa] =>
        match step cur one_site qb qa with
        | Some (A', T, q') => Some ([A'], [qb; q'], T)
        | None => None
        end
    | An :: rest', qa :: qrest' =>
        match step cur An qb qa with
        | Some (A', An', q') =>
            match sweep step An' q' rest' qrest' with
            | Some (As, qs, T) => Some (A' :: As, qb :: qs, T)
            | None => None
            end
        | None => None
        end
    | _, _ => None
    end.
  (* arguments of the oracle calls of a sweep, in order *)
  Fixpoint sweep_calls (callsf : site -> list Z -> list Z -> list mx) (step : step_t)
           (cur : site) (qb : list Z) (rest : list site) (qrest : list (list Z)) : list mx :=
    match rest, qrest with
    | [], [qa] => callsf cur qb qa
    | An :: rest', qa :: qrest' =>
        callsf cur qb qa ++
        match step cur An qb qa with
        | Some (_, An', q') => sweep_calls callsf step An' q' rest' qrest'
        | None => []
        end
    | _, _ => []
    end.

  Definition stepL (qd : list Z) : step_t := fun c n qb qa => local_left_qr c n qd qb qa.
  (* right sweep: the bond behind the current tensor is its right bond *)
  Definition stepR (qd : list Z) : step_t := fun c n qb qa => local_right_qr c n qd qa qb.
  Definition callsL (qd : list Z) := fun c qb qa => local_left_qr_calls c qd qb qa.
  Definition callsR (qd : list Z) := fun c qb qa => local_right_qr_calls c qd qa qb.

  (* MPO tensors seen as MPS tensors with physical index p = s*d + t *)
  Definition oview (W : osite R) : site := concat W.
  Definition ounview (d : nat) (A : site) : osite R :=
    map (fun s => map (fun t => sel A (s * d + t)) (seq 0 d)) (seq 0 d).
  Definition mpo_view (o : mpo R) : mps R :=
    mkmps (qflat (o_qd o) (zneg (o_qd o))) (o_qD o) (map oview (o_A o)).
  Definition mpo_unview (qd : list Z) (p : mps R) : mpo R :=
    mkmpo qd (m_qD p) (map (ounview (length qd)) (m_A p)).
End LocalQR.

Arguments sDl {R} A. Arguments sDr {R} A.
Arguments site_mx {R} A. Arguments mx_site {R} d Dl Q.
Arguments site_mx_r {R} A. Arguments mx_site_r {R} d Dr V.
Arguments trs {R} A. Arguments lmul {R} M A. Arguments rmul {R} A M.
Arguments neg_site {R} A. Arguments scale_site {R} c A. Arguments one_site {R}. Arguments is111 {R} T.
Arguments local_left_qr {R} dqr A Anext qd qDl qDr.
Arguments local_right_qr {R} dqr A Aprev qd qDl qDr.
Arguments local_left_qr_calls {R} A qd qDl qDr.
Arguments local_right_qr_calls {R} A qd qDl qDr.
Arguments sweep {R} step cur qb rest qrest.
Arguments sweep_calls {R} callsf step cur qb rest qrest.
Arguments stepL {R} dqr qd. Arguments stepR {R} dqr qd.
Arguments callsL {R} qd. Arguments callsR {R} qd.
Arguments oview {R} W. Arguments ounview {R} d A. Arguments mpo_view {R} o. Arguments mpo_unview {R} qd p.

(* ------------------------------------------------------------------ *)
(* MPS.orthonormalize / MPO.orthonormalize / MPS.compress over Cx F     *)
(* ------------------------------------------------------------------ *)
Section Orth.
  Variable F : ofield.
  Notation CF := (Cx F).
  Notation mx := (mx CF).
  Notation site := (site CF).
  Variable dqr : mx -> mx * mx.             (* numpy.linalg.qr(B, mode='reduced') *)

  (* sweep, assert T.shape == (1,1,1), nrm = T[0,0,0].real, sign flip of the last tensor of the sweep *)
  Definition orth_core (step : step_t CF) (As : list site) (qDs : list (list Z))
    : option (list site * list (list Z) * F) :=
    match As, qDs with
    | A0 :: rest, q0 :: qrest =>
        match sweep step A0 q0 rest qrest with
        | Some (As', qs', T) =>
            if is111 T then
              let nrm := cre (get (sel T 0) 0 0) in
              if fltb F nrm (f0 F) then Some (map_last neg_site As', qs', fopp F nrm)
              else Some (As', qs', nrm)
            else None
        | None => None
        end
    | _, _ => None
    end.
  Definition orth_core_calls (callsf : site -> list Z -> list Z -> list mx) (step : step_t CF)
             (As : list site) (qDs : list (list Z)) : list mx :=
    match As, qDs with
    | A0 :: rest, q0 :: qrest => sweep_calls callsf step A0 q0 rest qrest
    | _, _ => []
    end.

  (* MPS.orthonormalize(mode): [left = true] is mode='left'.  The right sweep runs over the reversed lists. *)
  Definition mps_orthonormalize (left : bool) (p : mps CF) : option (mps CF * F) :=
    match m_A p with
    | [] => Some (p, f1 F)
    | _ :: _ =>
        if left then
          match orth_core (stepL dqr (m_qd p)) (m_A p) (m_qD p) with
          | Some (As, qs, nrm) => Some (mkmps (m_qd p) qs As, nrm)
          | None => None
          end
        else
          match orth_core (stepR dqr (m_qd p)) (rev (m_A p)) (rev (m_qD p)) with
          | Some (As, qs, nrm) => Some (mkmps (m_qd p) (rev qs) (rev As), nrm)
          | None => None
          end
    end.
  Definition mps_orth_calls (left : bool) (p : mps CF) : list mx :=
    if left then orth_core_calls (callsL (m_qd p)) (stepL dqr (m_qd p)) (m_A p) (m_qD p)
    else orth_core_calls (callsR (m_qd p)) (stepR dqr (m_qd p)) (rev (m_A p)) (rev (m_qD p)).

  (* MPO.orthonormalize(mode) *)
  Definition mpo_orthonormalize (left : bool) (o : mpo CF) : option (mpo CF * F) :=
    match mps_orthonormalize left (mpo_view o) with
    | Some (p, nrm) => Some (mpo_unview (o_qd o) p, nrm)
    | None => None
    end.
  Definition mpo_orth_calls (left : bool) (o : mpo CF) : list mx := mps_orth_calls left (mpo_view o).

  (* ---------------- SVD steps and MPS.compress ---------------- *)
  Variable dsvd : mx -> mx * list F * mx.   (* numpy.linalg.svd(B, full_matrices=False) *)
  Variable pick : list F -> list nat.       (* numpy.argsort inside retained_bond_indices *)
  Variable cabs : CF -> F.                  (* abs of a complex number (square root) *)

  (* sigma[:, None] * V   and   U * sigma *)
  Definition srows (sv : list F) (V : mx) : mx :=
    tab (nr V) (nc V) (fun c j => kmul CF (cof (nth c sv (f0 F))) (get V c j)).
  Definition scols (U : mx) (sv : list F) : mx :=
    tab (nr U) (nc U) (fun i c => kmul CF (get U i c) (cof (nth c sv (f0 F)))).

  (* mps.py: local_orthonormalize_left_svd(A, Anext, qd, [qDl, qDr], tol) *)
  Definition local_left_svd (tol : F) (A Anext : site) (qd qDl qDr : list Z) : option (site * site * list Z) :=
    match block_svd dsvd pick (site_mx A) (qflat qd qDl) qDr tol with
    | None => None
    | Some (U, sv, V, qb) =>
        if Nat.eqb (nc V) (sDl Anext)
        then Some (mx_site (length A) (sDl A) U, lmul (srows sv V) Anext, qb) else None
    end.
  (* mps.py: local_orthonormalize_right_svd(A, Aprev, qd, [qDl, qDr], tol) *)
  Definition local_right_svd (tol : F) (A Aprev : site) (qd qDl qDr : list Z) : option (site * site * list Z) :=
    match block_svd dsvd pick (site_mx_r A) qDl (qflat (zneg qd) qDr) tol with
    | None => None
    | Some (U, sv, V, qb) =>
        if Nat.eqb (nr U) (sDr Aprev)
        then Some (mx_site_r (length A) (sDr A) V, rmul Aprev (scols U sv), qb) else None
    end.
  Definition stepLs (tol : F) (qd : list Z) : step_t CF := fun c n qb qa => local_left_svd tol c n qd qb qa.
  Definition stepRs (tol : F) (qd : list Z) : step_t CF := fun c n qb qa => local_right_svd tol c n qd qa qb.
  Definition callsLs (qd : list Z) := fun (c : site) qb qa => block_svd_calls (site_mx c) (qflat qd qb) qa.
  Definition callsRs (qd : list Z) := fun (c : site) qb qa => block_svd_calls (site_mx_r c) qa (qflat (zneg qd) qb).

  (* sweep, assert T.shape == (1,1,1), A[last] *= T / abs(T), return abs(T) *)
  Definition compress_core (step : step_t CF) (As : list site) (qDs : list (list Z))
    : option (list site * list (list Z) * F) :=
    match As, qDs with
    | A0 :: rest, q0 :: qrest =>
        match sweep step A0 q0 rest qrest with
        | Some (As', qs', T) =>
            if is111 T then
              let t := get (sel T 0) 0 0 in
              let sc := cabs t in
              Some (map_last (scale_site (R:=CF) (cdivr t sc)) As', qs', sc)
            else None
        | None => None
        end
    | _, _ => None
    end.

  (* MPS.compress(tol, mode): returns (state, nrm, scale) *)
  Definition mps_compress (tol : F) (left : bool) (p : mps CF) : option (mps CF * F * F) :=
    match mps_orthonormalize (negb left) p with
    | None => None
    | Some (p1, nrm) =>
        if left then
          match compress_core (stepLs tol (m_qd p1)) (m_A p1) (m_qD p1) with
          | Some (As, qs, sc) => Some (mkmps (m_qd p1) qs As, nrm, sc)
          | None => None
          end
        else
          match compress_core (stepRs tol (m_qd p1)) (rev (m_A p1)) (rev (m_qD p1)) with
          | Some (As, qs, sc) => Some (mkmps (m_qd p1) (rev qs) (rev As), nrm, sc)
          | None => None
          end
    end.
  (* the svd calls of the truncation sweep, given the orthonormalised state p1 *)
  Definition compress_svd_calls (tol : F) (left : bool) (p1 : mps CF) : list mx :=
    match (if left then m_A p1 else rev (m_A p1)), (if left then m_qD p1 else rev (m_qD p1)) with
    | A0 :: rest, q0 :: qrest =>
        if left then sweep_calls (callsLs (m_qd p1)) (stepLs tol (m_qd p1)) A0 q0 rest qrest
        else sweep_calls (callsRs (m_qd p1)) (stepRs tol (m_qd p1)) A0 q0 rest qrest
    | _, _ => []
    end.
End Orth.

Arguments orth_core {F} step As qDs.
Arguments orth_core_calls {F} callsf step As qDs.
Arguments mps_orthonormalize {F} dqr left p.
Arguments mps_orth_calls {F} dqr left p.
Arguments mpo_orthonormalize {F} dqr left o.
Arguments mpo_orth_calls {F} dqr left o.
Arguments srows {F} sv V. Arguments scols {F} U sv.
Arguments local_left_svd {F} dsvd pick tol A Anext qd qDl qDr.
Arguments local_right_svd {F} dsvd pick tol A Aprev qd qDl qDr.
Arguments stepLs {F} dsvd pick tol qd. Arguments stepRs {F} dsvd pick tol qd.
Arguments callsLs {F} qd. Arguments callsRs {F} qd.
Arguments compress_core {F} cabs step As qDs.
Arguments mps_compress {F} dqr dsvd pick cabs tol left p.
Arguments compress_svd_calls {F} dsvd pick tol left p1.

(* ------------------------------------------------------------------ *)
(* comparison functions of the correspondence check (form R)            *)
(* ------------------------------------------------------------------ *)
Section Check.
  Variable F : ofield.
  Notation CF := (Cx F).
  Notation mx := (mx CF).
  Notation site := (site CF).

  Definition fabs (x : F) : F := if fleb F (f0 F) x then x else fopp F x.
  Definition fclose (eps a b : F) : bool := fleb F (fabs (fsub F a b)) eps.
  Definition cclose (eps : F) (a b : CF) : bool := fclose eps (fst a) (fst b) && fclose eps (snd a) (snd b).
  (* same shape, entries within eps *)
  Definition mx_close (eps : F) (A B : mx) : bool :=
    Nat.eqb (nr A) (nr B) && Nat.eqb (nc A) (nc B) &&
    forallb (fun i => forallb (fun j => cclose eps (get A i j) (get B i j)) (seq 0 (nc A))) (seq 0 (nr A)).
  Fixpoint all2 {A B} (f : A -> B -> bool) (l1 : list A) (l2 : list B) : bool :=
    match l1, l2 with [], [] => true | x :: t1, y :: t2 => f x y && all2 f t1 t2 | _, _ => false end.
  Definition site_close (eps : F) : site -> site -> bool := all2 (mx_close eps).
  Definition osite_close (eps : F) : osite CF -> osite CF -> bool := all2 (site_close eps).
  Definition flist_close (eps : F) : list F -> list F -> bool := all2 (fclose eps).
  Definition qDs_eqb : list (list Z) -> list (list Z) -> bool := all2 zlist_eqb.
  (* quantum numbers exactly, shapes exactly, entries within eps *)
  Definition mps_close (eps : F) (p q : mps CF) : bool :=
    zlist_eqb (m_qd p) (m_qd q) && qDs_eqb (m_qD p) (m_qD q) && all2 (site_close eps) (m_A p) (m_A q).
  Definition mpo_close (eps : F) (p q : mpo CF) : bool :=
    zlist_eqb (o_qd p) (o_qd q) && qDs_eqb (o_qD p) (o_qD q) && all2 (osite_close eps) (o_A p) (o_A q).
  Definition mps_wfb (p : mps CF) : bool := forallb (forallb (@wfb CF)) (m_A p).
  Definition mpo_wfb (p : mpo CF) : bool := forallb (forallb (forallb (@wfb CF))) (o_A p).

  (* recorded LAPACK answers looked up by the nearest recorded argument (first one within eps, entry-wise);
     a miss gives an answer of impossible shape, which makes the model fail *)
  Definition alookup {T} (eps : F) (dflt : T) (tbl : list (mx * T)) (B : mx) : T :=
    match find (fun e => mx_close eps B (fst e)) tbl with Some e => snd e | None => dflt end.
  Definition mx00 : mx := mkmx 0 0 [].
  Definition qr_aoracle (eps : F) (tbl : list (mx * (mx * mx))) : mx -> mx * mx := alookup eps (mx00, mx00) tbl.
  Definition svd_aoracle (eps : F) (tbl : list (mx * (mx * list F * mx))) : mx -> mx * list F * mx :=
    alookup eps (mx00, [], mx00) tbl.
  (* recorded numpy.argsort answers looked up by the nearest recorded argument (the normalised squares);
     a miss gives the empty permutation *)
  Definition pick_aoracle (eps : F) (tbl : list (list F * list nat)) (sn : list F) : list nat :=
    match find (fun e => flist_close eps sn (fst e)) tbl with Some e => snd e | None => [] end.

  (* MPS.orthonormalize: model with the recorded table = implementation (qD exactly, shapes exactly, tensors and nrm
     within eps), and every recorded answer has a real diagonal of R up to eps *)
  Definition check_orth_mps (left : bool) (eps : F) (tbl : list (mx * (mx * mx))) (p expect : mps CF) (nrm : F) : bool :=
    match mps_orthonormalize (qr_aoracle eps tbl) left p with
    | Some (p', n') => mps_wfb expect && mps_close eps p' expect && fclose eps n' nrm
    | None => false
    end.
  Definition check_orth_mpo (left : bool) (eps : F) (tbl : list (mx * (mx * mx))) (o expect : mpo CF) (nrm : F) : bool :=
    match mpo_orthonormalize (qr_aoracle eps tbl) left o with
    | Some (o', n') => mpo_wfb expect && mpo_close eps o' expect && fclose eps n' nrm
    | None => false
    end.
  (* MPS.compress: the recorded value of abs(T) is the oracle answer; its contract abs(T)^2 = |T|^2, abs(T) >= 0 is
     checked on the model's T up to eps (relative to 1 + |T|^2) *)
  Definition compress_T (dqr : mx -> mx * mx) (dsvd : mx -> mx * list F * mx) (pick : list F -> list nat)
             (tol : F) (left : bool) (p : mps CF) : option CF :=
    match mps_orthonormalize dqr (negb left) p with
    | None => None
    | Some (p1, _) =>
        let As := if left then m_A p1 else rev (m_A p1) in
        let qs := if left then m_qD p1 else rev (m_qD p1) in
        let step := if left then stepLs dsvd pick tol (m_qd p1) else stepRs dsvd pick tol (m_qd p1) in
        match As, qs with
        | A0 :: rest, q0 :: qrest =>
            match sweep step A0 q0 rest qrest with
            | Some (_, _, T) => Some (get (sel T 0) 0 0)
            | None => None
            end
        | _, _ => None
        end
    end.
  Definition check_compress (left : bool) (eps tol : F) (qtbl : list (mx * (mx * mx)))
             (stbl : list (mx * (mx * list F * mx))) (ptbl : list (list F * list nat))
             (p expect : mps CF) (nrm scale : F) : bool :=
    let dqr := qr_aoracle eps qtbl in
    let dsvd := svd_aoracle eps stbl in
    let pk := pick_aoracle eps ptbl in
    match mps_compress dqr dsvd pk (fun _ => scale) tol left p, compress_T dqr dsvd pk tol left p with
    | Some (p', n', s'), Some t =>
        mps_wfb expect && mps_close eps p' expect && fclose eps n' nrm && fclose eps s' scale
        && fleb F (f0 F) scale
        && fclose (fmul F eps (fadd F (f1 F) (cnorm2 t))) (fmul F scale scale) (cnorm2 t)
    | _, _ => false
    end.
End Check.

Arguments fabs {F} x. Arguments fclose {F} eps a b. Arguments cclose {F} eps a b.
Arguments mx_close {F} eps A B. Arguments site_close {F} eps. Arguments mps_close {F} eps p q.
Arguments mpo_close {F} eps p q. Arguments alookup {F T} eps dflt tbl B.
Arguments qr_aoracle {F} eps tbl. Arguments svd_aoracle {F} eps tbl. Arguments pick_aoracle {F} eps tbl sn.
Arguments check_orth_mps {F} left eps tbl p expect nrm.
Arguments check_orth_mpo {F} left eps tbl o expect nrm.
Arguments compress_T {F} dqr dsvd pick tol left p.
Arguments check_compress {F} left eps tol qtbl stbl ptbl p expect nrm scale.
