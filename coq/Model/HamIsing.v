(* The Ising automaton of pytenet/hamiltonian.py:ising_mpo (lines 17-69) as an [autop] of Model/AutOp.v
   (property C17's model of AutOp / OpGraph.from_automaton).  OID I = 0, Z = 1, X = 2; qd = [0, 0].
   Nodes 0 (left terminal), 1 (right terminal), 2 (after the first Z); the edge-id lists are the result of the six
   add_connect_edge calls in program order (a self loop registers with the same node in both directions). *)
From Coq Require Import ZArith List Lia Bool.
From PT Require Import Base.Scalar Base.BigSum Base.Mx Model.OpGraph Model.C17Common Model.AutOp.
Import ListNotations.
Open Scope Z_scope.

Section Ising.
  Variable R : cring.
  Notation "0r" := (k0 R). Notation "1r" := (k1 R).

  Definition cedge (eid nfrom nto : Z) (opics : list (Z * R)) : aedge R :=
    mkaedge eid nfrom nto (fun _ => opics) (fun _ => true).
  Definition ising_autop (J h g : R) : autop R :=
    mkautop [mknode 0 [0] [0; 2; 4; 5] 0; mknode 1 [1; 3; 4; 5] [1] 0; mknode 2 [2] [3] 0]
            [cedge 0 0 0 [(0, 1r)]; cedge 1 1 1 [(0, 1r)];
             cedge 2 0 2 [(1, J)];  cedge 3 2 1 [(1, 1r)];
             cedge 4 0 1 [(1, h)];  cedge 5 0 1 [(2, g)]] 0 1.
  Definition ising_opmap : list (Z * mx R) :=
    [(0, idmx 2); (1, mkmx 2 2 [[1r; 0r]; [0r; kopp R 1r]]); (2, mkmx 2 2 [[0r; 1r]; [1r; 0r]])].
  Definition ising_graph (J h g : R) (L : nat) : option (graph R) := from_automaton (ising_autop J h g) L.

  (* comparison of a captured automaton with constant edges (evaluated at site 0) *)
  Definition aedge_eqb0 (a b : aedge R) : bool :=
    (ae_id a =? ae_id b) && (ae_from a =? ae_from b) && (ae_to a =? ae_to b) &&
    opics_eqb (ae_opics a 0%nat) (ae_opics b 0%nat) && Bool.eqb (ae_active a 0%nat) (ae_active b 0%nat).
  Definition autop_eqb0 (a b : autop R) : bool :=
    list_eqb node_eqb (a_nodes a) (a_nodes b) && list_eqb aedge_eqb0 (a_edges a) (a_edges b) &&
    (a_t0 a =? a_t0 b) && (a_t1 a =? a_t1 b).
  Definition check_ising (J h g : R) (L : nat) (aut_impl : autop R) (g_impl : graph R) : bool :=
    autop_eqb0 (ising_autop J h g) aut_impl && aut_consistent (ising_autop J h g) &&
    check_from_automaton (ising_autop J h g) L (Ok g_impl).
End Ising.
Arguments cedge {R} _ _ _ _. Arguments ising_autop {R} _ _ _. Arguments ising_opmap {R}. Arguments ising_graph {R} _ _ _ _.
Arguments autop_eqb0 {R} _ _. Arguments check_ising {R} _ _ _ _ _ _.
