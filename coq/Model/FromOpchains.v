(* Executable mirror of OpGraph.from_opchains (pytenet/opgraph.py:257-365), OpChain.padded
   (opchain.py:41-49), _site_partition_halfchains / OpHalfchain / UNode (opgraph.py:748-845) and of the
   adjacency lists of BipartiteGraph (bipartite_graph.py:20-36).
   Coefficients live in any [cring]; the vertex cover is an ARGUMENT [cover nu nv edges].
   Python exceptions are error values: ValueError -> EValue, AssertionError -> EAssert,
   IndexError -> EIndex, KeyError -> EKey.
   Not modelled (cannot fire, see Proofs/FromOpchainsInv.v): [assert eid not in eids] of add_edge_id
   and the length check of the OpHalfchain constructor.  The final [assert graph.is_consistent()] is a
   clause of the theorem (and of [check_chains] below), not of the function. *)
From Coq Require Import ZArith List Lia Bool.
From PT Require Import Base.Scalar Base.BigSum Model.OpGraph Model.Bipartite.
Import ListNotations.
Open Scope Z_scope.

Inductive err : Type := EValue | EAssert | EIndex | EKey | EFuel.
Inductive res (A : Type) : Type := Ok (a : A) | Err (e : err).
Arguments Ok {A} a. Arguments Err {A} e.
Definition bind {A B} (x : res A) (f : A -> res B) : res B :=
  match x with Ok a => f a | Err e => Err e end.
Definition err_eqb (a b : err) : bool :=
  match a, b with EValue, EValue | EAssert, EAssert | EIndex, EIndex | EKey, EKey | EFuel, EFuel => true | _, _ => false end.

Record hchain : Type := mkh { h_oids : list Z; h_qnums : list Z; h_nidl : Z }.
Record unode : Type := mku { u_oid : Z; u_q0 : Z; u_q1 : Z; u_nidl : Z }.

Fixpoint zlist_eqb (a b : list Z) : bool :=
  match a, b with [], [] => true | x :: a', y :: b' => (x =? y) && zlist_eqb a' b' | _, _ => false end.
(* OpHalfchain.__eq__ / UNode.__eq__ *)
Definition hchain_eqb (a b : hchain) : bool :=
  zlist_eqb (h_oids a) (h_oids b) && zlist_eqb (h_qnums a) (h_qnums b) && (h_nidl a =? h_nidl b).
Definition unode_eqb (a b : unode) : bool :=
  (u_oid a =? u_oid b) && (u_q0 a =? u_q0 b) && (u_q1 a =? u_q1 b) && (u_nidl a =? u_nidl b).

(* list.index: first position of x *)
Fixpoint index_of {A} (eqb : A -> A -> bool) (x : A) (l : list A) : option nat :=
  match l with [] => None | y :: l' => if eqb x y then Some O else option_map S (index_of eqb x l') end.

Definition pair_eqb (a b : nat * nat) : bool := Nat.eqb (fst a) (fst b) && Nat.eqb (snd a) (snd b).
Definition pmem (e : nat * nat) (l : list (nat * nat)) : bool := existsb (pair_eqb e) l.
(* list.remove: the first occurrence *)
Fixpoint premove (e : nat * nat) (l : list (nat * nat)) : list (nat * nat) :=
  match l with [] => [] | x :: t => if pair_eqb e x then t else x :: premove e t end.

(* BipartiteGraph.__init__: adjacency lists in insertion order, duplicates suppressed *)
Definition adj_u (es : list (nat * nat)) (i : nat) : list nat :=
  fold_left (fun acc e => if Nat.eqb (fst e) i then (if existsb (Nat.eqb (snd e)) acc then acc else acc ++ [snd e]) else acc) es [].
Definition adj_v (es : list (nat * nat)) (j : nat) : list nat :=
  fold_left (fun acc e => if Nat.eqb (snd e) j then (if existsb (Nat.eqb (fst e)) acc then acc else acc ++ [fst e]) else acc) es [].

Section FromOpchains.
  Variable R : cring.
  Notation "0r" := (k0 R). Notation "1r" := (k1 R).
  Notation graph := (graph R).

  Record chain : Type := mkchain { c_oids : list Z; c_qnums : list Z; c_coeff : R; c_istart : nat }.

  (* OpChain.__init__: len(oids) + 1 == len(qnums) (else ValueError) *)
  Definition chain_ok (c : chain) : bool := Nat.eqb (length (c_qnums c)) (S (length (c_oids c))).

  (* OpChain.padded *)
  Definition padded (L : nat) (idn : Z) (c : chain) : res chain :=
    if Nat.ltb L (length (c_oids c) + c_istart c) then Err EAssert else
    let npad := (L - length (c_oids c) - c_istart c)%nat in
    Ok (mkchain (repeat idn (c_istart c) ++ c_oids c ++ repeat idn npad)
                (repeat 0 (c_istart c) ++ c_qnums c ++ repeat 0 npad)
                (c_coeff c) O).
  Fixpoint pad_all (L : nat) (idn : Z) (cs : list chain) : res (list chain) :=
    match cs with
    | [] => Ok []
    | c :: t => bind (padded L idn c) (fun c' => bind (pad_all L idn t) (fun t' => Ok (c' :: t')))
    end.

  (* ---- _site_partition_halfchains ----
     [p_gamma] is the dict gamma in insertion order; its key list is the python list [edges]
     (both are extended at the same moment). *)
  Record part : Type := mkpart { p_u : list unode; p_v : list hchain; p_gamma : list ((nat * nat) * R) }.
  Fixpoint gamma_add (e : nat * nat) (c : R) (g : list ((nat * nat) * R)) : list ((nat * nat) * R) :=
    match g with
    | [] => [(e, c)]
    | (e', c') :: g' => if pair_eqb e e' then (e', kadd R c' c) :: g' else (e', c') :: gamma_add e c g'
    end.
  Definition gamma_get (e : nat * nat) (g : list ((nat * nat) * R)) : option R :=
    option_map snd (find (fun p => pair_eqb e (fst p)) g).
  Definition split_u (h : hchain) : unode :=
    mku (hd 0 (h_oids h)) (hd 0 (h_qnums h)) (hd 0 (tl (h_qnums h))) (h_nidl h).
  Definition split_v (h : hchain) : hchain := mkh (tl (h_oids h)) (tl (h_qnums h)) (-1).
  Definition part_step (p : part) (hc : hchain * R) : part :=
    let u := split_u (fst hc) in
    let v := split_v (fst hc) in
    let '(ul, i) := match index_of unode_eqb u (p_u p) with
                    | Some i => (p_u p, i) | None => (p_u p ++ [u], length (p_u p)) end in
    let '(vl, j) := match index_of hchain_eqb v (p_v p) with
                    | Some j => (p_v p, j) | None => (p_v p ++ [v], length (p_v p)) end in
    mkpart ul vl (gamma_add (i, j) (snd hc) (p_gamma p)).
  Definition site_partition (hcs : list (hchain * R)) : part :=
    fold_left part_step hcs (mkpart [] [] []).
  Definition p_edges (p : part) : list (nat * nat) := map fst (p_gamma p).

  (* ---- state of the sweep ---- *)
  Record st : Type := mkst { s_g : graph; s_nid : Z; s_eid : Z;
                             s_next : list (hchain * R);     (* zip(vlist_next, coeffs_next) *)
                             s_rem : list (nat * nat) }.     (* the list [edges], shrinking *)

  (* inner loop of the U branch: for j in bigraph.adj_u[i] *)
  Definition u_inner (p : part) (i : nat) (nid : Z) (acc : res st) (j : nat) : res st :=
    bind acc (fun s =>
    match nth_error (p_v p) j with None => Err EIndex | Some v =>
    match gamma_get (i, j) (p_gamma p) with None => Err EKey | Some c =>
    if pmem (i, j) (s_rem s) then
      Ok (mkst (s_g s) (s_nid s) (s_eid s) (s_next s ++ [(mkh (h_oids v) (h_qnums v) nid, c)]) (premove (i, j) (s_rem s)))
    else Err EValue
    end end).
  (* for i in u_cover *)
  Definition u_step (p : part) (acc : res st) (i : nat) : res st :=
    bind acc (fun s =>
    match nth_error (p_u p) i with None => Err EIndex | Some u =>
    let eid := s_eid s in let nid := s_nid s in
    match add_edge (s_g s) (new_edge eid (u_nidl u) nid [(u_oid u, 1r)]) with None => Err EValue | Some g1 =>
    match find_node g1 (u_nidl u) with None => Err EKey | Some np =>
    if negb (n_q np =? u_q0 u) then Err EAssert else
    match add_node (upd_node g1 (u_nidl u) (node_add_eid eid 1)) (mknode nid [eid] [] (u_q1 u)) with
    | None => Err EValue
    | Some g2 => fold_left (u_inner p i nid) (adj_u (p_edges p) i)
                   (Ok (mkst g2 (nid + 1) (eid + 1) (s_next s) (s_rem s)))
    end end end end).

  (* inner loop of the V branch: for i in bigraph.adj_v[j] *)
  Definition v_inner (p : part) (j : nat) (nid q : Z) (acc : res st) (i : nat) : res st :=
    bind acc (fun s =>
    if negb (pmem (i, j) (s_rem s)) then Ok s else
    match nth_error (p_u p) i with None => Err EIndex | Some u =>
    match gamma_get (i, j) (p_gamma p) with None => Err EKey | Some c =>
    if negb (u_q1 u =? q) then Err EAssert else
    match find_node (s_g s) (u_nidl u) with None => Err EKey | Some np =>
    if negb (n_q np =? u_q0 u) then Err EAssert else
    match add_connect_edge (s_g s) (new_edge (s_eid s) (u_nidl u) nid [(u_oid u, c)]) with
    | None => Err EValue
    | Some g1 => Ok (mkst g1 (s_nid s) (s_eid s + 1) (s_next s) (premove (i, j) (s_rem s)))
    end end end end).
  (* for j in v_cover *)
  Definition v_step (p : part) (acc : res st) (j : nat) : res st :=
    bind acc (fun s =>
    match nth_error (p_v p) j with None => Err EIndex | Some v =>
    match h_qnums v with [] => Err EIndex | q :: _ =>
    let nid := s_nid s in
    match add_node (s_g s) (mknode nid [] [] q) with None => Err EValue | Some g1 =>
    fold_left (v_inner p j nid q) (adj_v (p_edges p) j)
      (Ok (mkst g1 (nid + 1) (s_eid s) (s_next s ++ [(mkh (h_oids v) (h_qnums v) nid, 1r)]) (s_rem s)))
    end end end).

  (* one pass of the site loop, given the partition and the cover answer *)
  Definition site_step (p : part) (cv : list nat * list nat) (s : st) : res st :=
    let s0 := mkst (s_g s) (s_nid s) (s_eid s) [] (p_edges p) in
    bind (fold_left (v_step p) (snd cv) (fold_left (u_step p) (fst cv) (Ok s0))) (fun s2 =>
    match s_rem s2 with [] => Ok s2 | _ => Err EAssert end).           (* assert not edges *)

  Definition cover_t : Type := nat -> nat -> list (nat * nat) -> list nat * list nat.
  (* arguments of the minimum_vertex_cover call issued in state s *)
  Definition site_call (s : st) : nat * nat * list (nat * nat) :=
    let p := site_partition (s_next s) in (length (p_u p), length (p_v p), p_edges p).
  Definition site (cover : cover_t) (s : st) : res st :=
    let p := site_partition (s_next s) in
    (* BipartiteGraph.__init__: assert num_u >= 1, num_v >= 1 *)
    if Nat.eqb (length (p_u p)) 0 || Nat.eqb (length (p_v p)) 0 then Err EAssert else
    site_step p (cover (length (p_u p)) (length (p_v p)) (p_edges p)) s.
  Fixpoint sweep (cover : cover_t) (n : nat) (s : st) : res st :=
    match n with O => Ok s | S m => bind (site cover s) (sweep cover m) end.

  (* absorb the trailing coefficient into the unique edge leading to the last node *)
  Definition absorb (g : graph) (nid : Z) (c : R) : res graph :=
    match find_node g nid with None => Err EKey | Some n =>
    match n_in n with
    | [eid] => match find_edge g eid with None => Err EKey | Some _ =>
        Ok (upd_edge g eid (fun e => mkedge (e_id e) (e_from e) (e_to e)
                                       (map (fun p => (fst p, kmul R c (snd p))) (e_opics e)))) end
    | _ => Err EAssert
    end end.

  Definition init_graph : graph := mkgraph [mknode 0 [] [] 0; mknode (-1) [] [] 0] [] 0 (-1).
  Definition init_next (idn : Z) (cs : list chain) : list (hchain * R) :=
    map (fun c => (mkh (c_oids c ++ [idn]) (c_qnums c ++ [0]) 0, c_coeff c)) cs.
  Definition nonzero (c : chain) : bool := negb (keqb R (c_coeff c) 0r).

  Definition finish (s : st) : res graph :=
    match s_next s with
    | [(h, c)] =>
        bind (if keqb R c 1r then Ok (s_g s) else absorb (s_g s) (h_nidl h) c) (fun g =>
        Ok (remove_node (mkgraph (g_nodes g) (g_edges g) (g_t0 g) (h_nidl h)) (-1)))
    | _ => Err EAssert                                                  (* assert len(vlist_next) == 1 *)
    end.

  Definition from_opchains (cover : cover_t) (chains : list chain) (L : nat) (idn : Z) : res graph :=
    if negb (forallb chain_ok chains) then Err EValue else              (* OpChain.__init__ *)
    match chains with [] => Err EValue | _ =>                           (* empty list *)
    bind (pad_all L idn (filter nonzero chains)) (fun cs =>
    bind (sweep cover L (mkst init_graph 1 0 (init_next idn cs) [])) finish)
    end.

  (* ---- covers ---- *)
  (* cover_ok: what success needs of an answer: a valid vertex cover without repetitions, and — only when the
     bipartite graph has a single V vertex, as at the last site — of size <= 1 (true of every minimum cover:
     {v0} is a cover), because otherwise [assert len(vlist_next) == 1] fires.  Correctness of the meaning needs
     nothing of the cover (Proofs/FromOpchainsThm.v). *)
  Fixpoint nodupn (l : list nat) : bool :=
    match l with [] => true | x :: t => negb (existsb (Nat.eqb x) t) && nodupn t end.
  Definition cover_okb (nu nv : nat) (es : list (nat * nat)) (cv : list nat * list nat) : bool :=
    nodupn (fst cv) && nodupn (snd cv) &&
    forallb (fun i => Nat.ltb i nu) (fst cv) && forallb (fun j => Nat.ltb j nv) (snd cv) &&
    forallb (fun e => existsb (Nat.eqb (fst e)) (fst cv) || existsb (Nat.eqb (snd e)) (snd cv)) es &&
    (negb (Nat.eqb nv 1) || Nat.leb (length (fst cv) + length (snd cv)) 1).
  (* the answers to the calls actually issued during the sweep are valid covers *)
  Fixpoint calls_okb (cover : cover_t) (n : nat) (s : st) : bool :=
    match n with
    | O => true
    | S m => let '(nu, nv, es) := site_call s in
             cover_okb nu nv es (cover nu nv es) &&
             match site cover s with Ok s' => calls_okb cover m s' | Err _ => true end
    end.

  (* recorded answers of the implementation's minimum_vertex_cover, looked up by argument *)
  Definition plist_eqb (a b : list (nat * nat)) : bool :=
    Nat.eqb (length a) (length b) && forallb (fun p => pair_eqb (fst p) (snd p)) (combine a b).
  Definition cover_table (tbl : list ((nat * nat * list (nat * nat)) * (list nat * list nat))) : cover_t :=
    fun nu nv es =>
      match find (fun r => let '(a, b, c) := fst r in Nat.eqb a nu && Nat.eqb b nv && plist_eqb c es) tbl with
      | Some r => snd r
      | None => ([], [])
      end.
  (* the cover computed by the model of bipartite_graph.py *)
  Definition cover_model : cover_t :=
    fun nu nv es =>
      match min_vertex_cover (mk_bg nu nv (map (fun e => (Z.of_nat (fst e), Z.of_nat (snd e))) es)) with
      | Some (uc, vc) => (map Z.to_nat uc, map Z.to_nat vc)
      | None => ([], [])
      end.
  Definition cover_allU : cover_t := fun nu _ _ => (seq 0 nu, []).
  Definition cover_allV : cover_t := fun _ nv _ => ([], seq 0 nv).

  (* ---- reference meaning of a chain list ---- *)
  Definition padded_oids (L : nat) (idn : Z) (c : chain) : list Z :=
    repeat idn (c_istart c) ++ c_oids c ++ repeat idn (L - length (c_oids c) - c_istart c).
  Definition padded_qnums (L : nat) (c : chain) : list Z :=
    repeat 0 (c_istart c) ++ c_qnums c ++ repeat 0 (L - length (c_oids c) - c_istart c).
  Definition chains_den (L : nat) (idn : Z) (chains : list chain) (w : list Z) : R :=
    suml chains (fun c => if zlist_eqb (padded_oids L idn c) w then c_coeff c else 0r).
  (* hypotheses of the theorem as a boolean: chains fit, qnums interleave, leading charge 0
     (the start node carries charge 0), common final charge *)
  Definition wf_chain (L : nat) (c : chain) : bool :=
    chain_ok c && Nat.leb (length (c_oids c) + c_istart c) L && (hd 0 (padded_qnums L c) =? 0).
  Definition wf_chains (L : nat) (chains : list chain) : bool :=
    forallb (wf_chain L) chains &&
    match filter nonzero chains with
    | [] => false
    | c0 :: t => forallb (fun c => last (padded_qnums L c) 0 =? last (padded_qnums L c0) 0) t
    end.

  (* ---- correspondence predicates ---- *)
  Definition res_graph_eqb (a : res graph) (b : res graph) : bool :=
    match a, b with
    | Ok g, Ok g' => graph_eqb g g'
    | Err e, Err e' => err_eqb e e'
    | _, _ => false
    end.
  (* the model with the recorded covers and with the model cover both reproduce the implementation's
     result [expected]; on success the graph is consistent and has length L *)
  Definition check_chains (tbl : list ((nat * nat * list (nat * nat)) * (list nat * list nat)))
             (chains : list chain) (L : nat) (idn : Z) (fuel : nat) (expected : res graph) : bool :=
    let r := from_opchains (cover_table tbl) chains L idn in
    res_graph_eqb r expected &&
    res_graph_eqb (from_opchains cover_model chains L idn) expected &&
    match r with
    | Ok g => match is_consistent_fuel fuel g with Some true => true | _ => false end &&
              match glength g with Some n => Nat.eqb n L | None => false end
    | Err _ => true
    end.
End FromOpchains.

Arguments mkchain {R} _ _ _ _. Arguments c_oids {R} _. Arguments c_qnums {R} _. Arguments c_coeff {R} _. Arguments c_istart {R} _.
Arguments padded {R} _ _ _. Arguments pad_all {R} _ _ _.
Arguments mkpart {R} _ _ _. Arguments p_u {R} _. Arguments p_v {R} _. Arguments p_gamma {R} _. Arguments p_edges {R} _.
Arguments gamma_add {R} _ _ _. Arguments gamma_get {R} _ _. Arguments part_step {R} _ _. Arguments site_partition {R} _.
Arguments mkst {R} _ _ _ _ _. Arguments s_g {R} _. Arguments s_nid {R} _. Arguments s_eid {R} _. Arguments s_next {R} _. Arguments s_rem {R} _.
Arguments u_inner {R} _ _ _ _ _. Arguments u_step {R} _ _ _. Arguments v_inner {R} _ _ _ _ _ _. Arguments v_step {R} _ _ _.
Arguments site_step {R} _ _ _. Arguments site_call {R} _. Arguments site {R} _ _. Arguments sweep {R} _ _ _.
Arguments absorb {R} _ _ _. Arguments init_graph {R}. Arguments init_next {R} _ _. Arguments nonzero {R} _. Arguments finish {R} _.
Arguments from_opchains {R} _ _ _ _. Arguments calls_okb {R} _ _ _.
Arguments padded_oids {R} _ _ _. Arguments padded_qnums {R} _ _. Arguments chains_den {R} _ _ _ _.
Arguments chain_ok {R} _. Arguments wf_chain {R} _ _. Arguments wf_chains {R} _ _.
Arguments res_graph_eqb {R} _ _. Arguments check_chains {R} _ _ _ _ _ _.

(* two chains [1,2] (coeff 1) and [1,3] (coeff 2) on L = 2 *)
Eval vm_compute in @from_opchains Zring cover_model [@mkchain Zring [1;2] [0;0;0] 1 0%nat; @mkchain Zring [1;3] [0;0;0] 2 0%nat] 2 0.
