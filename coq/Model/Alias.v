(* C19 — ownership model: a heap of cells, objects as lists of cells, and the three kinds of effect
   the public operations of pytenet have according to their descriptors:
     - a pure operation allocates a result made of fresh cells and writes nothing else,
     - an in-place algorithm rebinds / overwrites cells of its documented target only,
     - a follow-up mutation writes one cell of its target.
   Which descriptor each public operation has is recorded in [desc_of]; the correspondence check
   validates the descriptors against byte snapshots and numpy.shares_memory on the real code. *)
From Coq Require Import List Arith ZArith Lia Bool.
Import ListNotations.

Definition cell := nat.
Definition obj := list cell.
Record state : Type := mkstate { heap : list Z; objs : list obj }.

Inductive event : Type :=
| EPure (contents : list Z)                    (* new object from fresh cells *)
| ERebind (target : nat) (contents : list Z)   (* in-place algorithm: target's tensors rebound to fresh arrays *)
| EWrite (target : nat) (k : nat) (v : Z).     (* in-place edit of the k-th cell of the target *)

Fixpoint upd {A} (l : list A) (i : nat) (x : A) : list A :=
  match l, i with [], _ => [] | _ :: t, O => x :: t | h :: t, S j => h :: upd t j x end.

Definition fresh_cells (h : list Z) (n : nat) : obj := seq (length h) n.

Definition step (s : state) (e : event) : state :=
  match e with
  | EPure c => mkstate (heap s ++ c) (objs s ++ [fresh_cells (heap s) (length c)])
  | ERebind t c =>
      if Nat.ltb t (length (objs s))
      then mkstate (heap s ++ c) (upd (objs s) t (fresh_cells (heap s) (length c)))
      else s
  | EWrite t k v =>
      match nth_error (objs s) t with
      | Some o => match nth_error o k with
                  | Some c => mkstate (upd (heap s) c v) (objs s)
                  | None => s
                  end
      | None => s
      end
  end.

Definition run (es : list event) (s : state) : state := fold_left step es s.

Definition target_of (e : event) : option nat :=
  match e with EPure _ => None | ERebind t _ => Some t | EWrite t _ _ => Some t end.

Definition content (s : state) (c : cell) : Z := nth c (heap s) 0%Z.
Definition obj_content (s : state) (o : obj) : list Z := map (content s) o.

(* ---- descriptors of the public operations ---- *)
Inductive kind : Type := KPure | KInPlace (target : nat).   (* target = position of the overwritten operand *)

Inductive opname : Type :=
| Op_mps_add | Op_mps_sub | Op_mpo_add | Op_mpo_sub | Op_mpo_matmul | Op_apply_operator
| Op_vdot | Op_norm | Op_operator_average | Op_operator_inner_product | Op_operator_density_average
| Op_as_vector | Op_as_matrix | Op_from_vector | Op_split_mps_tensor | Op_merge_mps_tensor_pair | Op_merge_mpo_tensor_pair
| Op_qr | Op_split_matrix_svd | Op_retained_bond_indices
| Op_from_opchains | Op_from_opgraph | Op_mpo_identity | Op_graph_as_matrix
| Op_compute_right_operator_blocks | Op_apply_local_hamiltonian | Op_apply_local_bond_contraction
| Op_hamiltonian_constructor
| Op_mps_orthonormalize | Op_mpo_orthonormalize | Op_mps_compress
| Op_tdvp_singlesite | Op_tdvp_twosite | Op_dmrg_singlesite | Op_dmrg_twosite
| Op_graph_add | Op_graph_simplify | Op_graph_flip.

(* operand positions: TDVP/DMRG are called as f(H, psi, …): operand 0 = H (never written), 1 = psi (overwritten);
   OpGraph.add: operand 0 = self (overwritten), 1 = other (never written) *)
Definition desc_of (o : opname) : kind :=
  match o with
  | Op_mps_orthonormalize | Op_mpo_orthonormalize | Op_mps_compress => KInPlace 0
  | Op_tdvp_singlesite | Op_tdvp_twosite | Op_dmrg_singlesite | Op_dmrg_twosite => KInPlace 1
  | Op_graph_add | Op_graph_simplify | Op_graph_flip => KInPlace 0
  | _ => KPure
  end.

(* observation of one call on the real code: for each operand whether any of its bytes changed,
   whether the result shares memory / object identity with any operand, and whether a follow-up
   mutation of the result changed any operand *)
Definition obs_ok (k : kind) (changed : list bool) (shares : bool) (followup_changed : bool) : bool :=
  negb shares && negb followup_changed &&
  match k with
  | KPure => forallb negb changed
  | KInPlace t => forallb (fun p => negb (snd p) || Nat.eqb (fst p) t) (combine (seq 0 (length changed)) changed)
  end.

(* the events an operation with descriptor k may emit, given the operand objects' positions *)
Definition allowed (k : kind) (operands : list nat) (e : event) : bool :=
  match target_of e, k with
  | None, _ => true
  | Some _, KPure => false
  | Some t, KInPlace i => match nth_error operands i with Some t' => Nat.eqb t t' | None => false end
  end.
