(* Executable mirror of pytenet/bond_ops.py: retained_bond_indices, split_matrix_svd, qr.
   numpy.linalg.qr / numpy.linalg.svd / the unstable numpy.argsort are oracle arguments.
   Assertion failures and numpy shape errors of the code are the error value [None]. *)
From Coq Require Import ZArith List Bool Lia Arith.
From PT Require Import Base.Scalar Base.Field Base.BigSum Base.Mx.
Import ListNotations.

(* ------------------------------------------------------------------ *)
(* quantum-number vectors                                               *)
(* ------------------------------------------------------------------ *)

(* np.argsort(q, kind='mergesort'): the stable sort is the unique permutation sorting by (key, index) *)
Definition lexlt (x y : Z * nat) : bool :=
  (fst x <? fst y)%Z || ((fst x =? fst y)%Z && Nat.ltb (snd x) (snd y)).
Fixpoint ins (x : Z * nat) (l : list (Z * nat)) : list (Z * nat) :=
  match l with [] => [x] | y :: t => if lexlt x y then x :: l else y :: ins x t end.
Definition sort_pairs (q : list Z) : list (Z * nat) := fold_right ins [] (combine q (seq 0 (length q))).
Definition argsort (q : list Z) : list nat := map snd (sort_pairs q).
(* np.argsort(idx) for an index vector (distinct keys: the result does not depend on the sort kind) *)
Definition argsort_nat (p : list nat) : list nat := argsort (map Z.of_nat p).
(* np.any(idx - np.arange(len(idx)))  is false *)
Definition is_id (p : list nat) : bool :=
  forallb (fun x => Nat.eqb (fst x) (snd x)) (combine p (seq 0 (length p))).
(* q[idx] *)
Definition takez (p : list nat) (q : list Z) : list Z := map (fun i => nth i q 0%Z) p.

(* np.intersect1d: sorted, unique common values *)
Fixpoint zins (x : Z) (l : list Z) : list Z :=
  match l with
  | [] => [x]
  | y :: t => if (x <? y)%Z then x :: l else if (x =? y)%Z then l else y :: zins x t
  end.
Definition zuniq (q : list Z) : list Z := fold_right zins [] q.
Definition zmem (x : Z) (l : list Z) : bool := existsb (Z.eqb x) l.
Definition intersect1d (a b : list Z) : list Z := filter (fun x => zmem x b) (zuniq a).

(* iqn = np.where(q == qn)[0]; (iqn[0], iqn[-1] + 1) *)
Definition where_eq (q : list Z) (x : Z) : list nat :=
  filter (fun i => (nth i q 0 =? x)%Z) (seq 0 (length q)).
Definition blk_range (q : list Z) (x : Z) : nat * nat :=
  let w := where_eq q x in (hd 0%nat w, S (last w 0%nat)).

Definition zlist_eqb (a b : list Z) : bool :=
  Nat.eqb (length a) (length b) && forallb (fun p => (fst p =? snd p)%Z) (combine a b).
Definition natlist_eqb (a b : list nat) : bool :=
  Nat.eqb (length a) (length b) && forallb (fun p => Nat.eqb (fst p) (snd p)) (combine a b).

(* ------------------------------------------------------------------ *)
(* the block loop shared by qr and split_matrix_svd                     *)
(* ------------------------------------------------------------------ *)
Section Blocks.
  Variable R : cring.
  Variable T : Type.                        (* per-column data: unit for qr, singular values for svd *)
  Notation mx := (mx R).

  (* M[i0:i0+nr B, j0:j0+nc B] = B *)
  Definition placemx (M : mx) (i0 j0 : nat) (B : mx) : mx :=
    tab (nr M) (nc M) (fun i j =>
      if (i0 <=? i) && (i <? i0 + nr B) && (j0 <=? j) && (j <? j0 + nc B)
      then get B (i - i0) (j - j0) else get M i j).

  (* is_qsparse(A, [q0, -q1]) *)
  Definition qsparseb (A : mx) (q0 q1 : list Z) : bool :=
    forallb (fun i => forallb (fun j => keqb R (get A i j) (k0 R) || (nth i q0 0 =? nth j q1 0)%Z)
                              (seq 0 (nc A))) (seq 0 (nr A)).
  Definition is_zeromx (A : mx) : bool :=
    forallb (fun i => forallb (fun j => keqb R (get A i j) (k0 R)) (seq 0 (nc A))) (seq 0 (nr A)).
  (* the four assertions at the top of qr / split_matrix_svd *)
  Definition valid_in (A : mx) (q0 q1 : list Z) : bool :=
    wfb A && Nat.eqb (length q0) (nr A) && Nat.eqb (length q1) (nc A) && qsparseb A q0 q1.

  (* sorting of the quantum numbers, "permute only if not yet sorted" *)
  Record sorted_in := mksi { sA : mx; sq0 : list Z; sq1 : list Z; sidx0 : list nat; sidx1 : list nat;
                             sperm0 : bool; sperm1 : bool }.
  Definition sort_input (A : mx) (q0 q1 : list Z) : sorted_in :=
    let idx0 := argsort q0 in
    let idx1 := argsort q1 in
    let p0 := negb (is_id idx0) in
    let p1 := negb (is_id idx1) in
    let q0' := if p0 then takez idx0 q0 else q0 in
    let A1 := if p0 then rowsel idx0 A else A in
    let q1' := if p1 then takez idx1 q1 else q1 in
    let A2 := if p1 then colsel idx1 A1 else A1 in
    mksi A2 q0' q1' idx0 idx1 p0 p1.
  (* undo sorting *)
  Definition unperm_rows (si : sorted_in) (Q : mx) : mx :=
    if sperm0 si then rowsel (argsort_nat (sidx0 si)) Q else Q.
  Definition unperm_cols (si : sorted_in) (V : mx) : mx :=
    if sperm1 si then colsel (argsort_nat (sidx1 si)) V else V.

  (* loop state: the two zero-initialised factor arrays, per-column data and charges (s[:D], q[:D]), D *)
  Record bst := mkbst { bU : mx; bV : mx; bS : list T; bq : list Z; bD : nat }.

  Definition block_of (A : mx) (q0 q1 : list Z) (qn : Z) : mx :=
    let '(i0, i1) := blk_range q0 qn in
    let '(j0, j1) := blk_range q1 qn in
    slicemx A i0 i1 j0 j1.

  Variable fac : mx -> mx * list T * mx.    (* factorisation of one block: left factor, column data, right factor *)

  Definition block_step (A : mx) (q0 q1 : list Z) (maxd : nat) (acc : option bst) (qn : Z) : option bst :=
    match acc with
    | None => None
    | Some st =>
      let '(i0, i1) := blk_range q0 qn in
      let '(j0, j1) := blk_range q1 qn in
      let '(U, sv, V) := fac (slicemx A i0 i1 j0 j1) in
      let k := length sv in
      let D := bD st in
      (* numpy raises on a shape mismatch of the slice assignments, also when D runs past max_interm_dim *)
      if Nat.eqb (nr U) (i1 - i0) && Nat.eqb (nc U) k && Nat.eqb (nr V) k && Nat.eqb (nc V) (j1 - j0)
         && (D + k <=? maxd)
      then Some (mkbst (placemx (bU st) i0 D U) (placemx (bV st) D j0 V)
                       (bS st ++ sv) (bq st ++ repeat qn k) (D + k))
      else None
    end.

  Definition block_init (A : mx) : bst :=
    let maxd := Nat.min (nr A) (nc A) in
    mkbst (zeromx (nr A) maxd) (zeromx maxd (nc A)) [] [] 0.

  (* the loop over the shared charges followed by the [:D] crop *)
  Definition block_loop (A : mx) (q0 q1 : list Z) (qis : list Z) : option bst :=
    match fold_left (block_step A q0 q1 (Nat.min (nr A) (nc A))) qis (Some (block_init A)) with
    | None => None
    | Some st => Some (mkbst (slicemx (bU st) 0 (nr A) 0 (bD st)) (slicemx (bV st) 0 (bD st) 0 (nc A))
                             (bS st) (bq st) (bD st))
    end.

  (* arguments of the oracle calls, in order (independent of the oracle's answers) *)
  Definition block_calls (A : mx) (q0 q1 : list Z) : list mx :=
    let si := sort_input A q0 q1 in
    map (block_of (sA si) (sq0 si) (sq1 si)) (intersect1d q0 q1).
End Blocks.

Arguments placemx {R} M i0 j0 B.
Arguments qsparseb {R} A q0 q1.
Arguments is_zeromx {R} A.
Arguments valid_in {R} A q0 q1.
Arguments sort_input {R} A q0 q1.
Arguments unperm_rows {R} si Q.
Arguments unperm_cols {R} si V.
Arguments block_of {R} A q0 q1 qn.
Arguments block_step {R T} fac A q0 q1 maxd acc qn.
Arguments block_init {R T} A.
Arguments block_loop {R T} fac A q0 q1 qis.
Arguments block_calls {R} A q0 q1.
Arguments mkbst {R T} bU bV bS bq bD.
Arguments bU {R T} b. Arguments bV {R T} b. Arguments bS {R T} b. Arguments bq {R T} b. Arguments bD {R T} b.
Arguments sA {R} s. Arguments sq0 {R} s. Arguments sq1 {R} s. Arguments sidx0 {R} s. Arguments sidx1 {R} s.
Arguments sperm0 {R} s. Arguments sperm1 {R} s.

(* ------------------------------------------------------------------ *)
(* pytenet.bond_ops.qr                                                  *)
(* ------------------------------------------------------------------ *)
Section QR.
  Variable R : cring.
  Notation mx := (mx R).
  Variable dqr : mx -> mx * mx.             (* numpy.linalg.qr(B, mode='reduced') *)

  Definition qr_fac (B : mx) : mx * list unit * mx :=
    let '(Q, Rm) := dqr B in (Q, repeat tt (nc Q), Rm).

  (* first column e_0 of the dummy bond *)
  Definition e0col (m : nat) : mx := tab m 1 (fun i _ => if Nat.eqb i 0 then k1 R else k0 R).

  Definition block_qr (A : mx) (q0 q1 : list Z) : option (mx * mx * list Z) :=
    if negb (valid_in A q0 q1) then None else
    match intersect1d q0 q1 with
    | [] =>
        (* assert norm(A) == 0;  Q[0, 0] = 1 raises for an empty first dimension *)
        if negb (is_zeromx A) || Nat.eqb (nr A) 0 then None
        else Some (e0col (nr A), zeromx 1 (nc A), firstn 1 q0)
    | qis =>
        let si := sort_input A q0 q1 in
        match block_loop qr_fac (sA si) (sq0 si) (sq1 si) qis with
        | None => None
        | Some st => Some (unperm_rows si (bU st), unperm_cols si (bV st), bq st)
        end
    end.

  Definition block_qr_calls (A : mx) (q0 q1 : list Z) : list mx := block_calls A q0 q1.
End QR.

Arguments block_qr {R} dqr A q0 q1.
Arguments block_qr_calls {R} A q0 q1.
Arguments qr_fac {R} dqr B.
Arguments e0col {R} m.

(* ------------------------------------------------------------------ *)
(* retained_bond_indices                                                *)
(* ------------------------------------------------------------------ *)
Fixpoint upd {A} (l : list A) (i : nat) (x : A) : list A :=
  match l, i with [], _ => [] | _ :: t, O => x :: t | h :: t, S j => h :: upd t j x end.

Section Retained.
  Variable F : ofield.
  Fixpoint fsum (l : list F) : F := match l with [] => f0 F | x :: t => fadd F x (fsum t) end.
  Definition sqsum (s : list F) : F := fsum (map (fun x => fmul F x x) s).
  (* (s / w)**2 computed as s^2 / w^2: no square root needed *)
  Definition normsq (s : list F) : list F := map (fun x => fdiv F (fmul F x x) (sqsum s)) s.
  (* s[sort_idx] = np.cumsum(s[sort_idx]) : running sums of the original values, scattered back *)
  Fixpoint scatter_cum (idx : list nat) (sn : list F) (acc : F) (out : list F) : list F :=
    match idx with
    | [] => out
    | i :: t => let acc' := fadd F acc (nth i sn (f0 F)) in scatter_cum t sn acc' (upd out i acc')
    end.
  Definition cumweights (pick : list F -> list nat) (s : list F) : list F :=
    let sn := normsq s in scatter_cum (pick sn) sn (f0 F) sn.
  (* pick = the (unstable) np.argsort applied to the normalised squares *)
  Definition retained (pick : list F -> list nat) (s : list F) (tol : F) : list nat :=
    if feqb F (sqsum s) (f0 F) then []
    else let c := cumweights pick s in
         filter (fun i => fltb F tol (nth i c (f0 F))) (seq 0 (length s)).
End Retained.

Arguments fsum {F} l. Arguments sqsum {F} s. Arguments normsq {F} s.
Arguments scatter_cum {F} idx sn acc out. Arguments cumweights {F} pick s.
Arguments retained {F} pick s tol.

(* ------------------------------------------------------------------ *)
(* split_matrix_svd                                                     *)
(* ------------------------------------------------------------------ *)
Section SVD.
  Variable F : ofield.
  Notation CF := (Cx F).
  Notation mx := (mx CF).
  Variable dsvd : mx -> mx * list F * mx.   (* numpy.linalg.svd(B, full_matrices=False) *)
  Variable pick : list F -> list nat.       (* numpy.argsort inside retained_bond_indices *)

  Definition block_svd (A : mx) (q0 q1 : list Z) (tol : F) : option (mx * list F * mx * list Z) :=
    if negb (valid_in A q0 q1) then None else
    match intersect1d q0 q1 with
    | [] =>
        if negb (is_zeromx A) then None
        else Some (e0col (nr A), [f0 F], zeromx 1 (nc A), firstn 1 q0)
    | qis =>
        let si := sort_input A q0 q1 in
        match block_loop dsvd (sA si) (sq0 si) (sq1 si) qis with
        | None => None
        | Some st =>
            let idx := retained pick (bS st) tol in
            let u := colsel idx (bU st) in
            let v := rowsel idx (bV st) in
            let s := map (fun i => nth i (bS st) (f0 F)) idx in
            let q := takez idx (bq st) in
            Some (unperm_rows si u, s, unperm_cols si v, q)
        end
    end.

  Definition block_svd_calls (A : mx) (q0 q1 : list Z) : list mx := block_calls A q0 q1.
End SVD.

Arguments block_svd {F} dsvd pick A q0 q1 tol.
Arguments block_svd_calls {F} A q0 q1.

(* ------------------------------------------------------------------ *)
(* comparison helpers for the correspondence check                      *)
(* ------------------------------------------------------------------ *)
Section Check.
  Variable R : cring.
  Notation mx := (mx R).
  Definition mxlist_eqb (a b : list mx) : bool :=
    Nat.eqb (length a) (length b) && forallb (fun p => mxeqb (fst p) (snd p)) (combine a b).
  (* recorded LAPACK answers, looked up by (exact) argument; a miss gives an answer of impossible shape *)
  Definition lookup {T} (dflt : T) (tbl : list (mx * T)) (B : mx) : T :=
    match find (fun e => mxeqb B (fst e)) tbl with Some e => snd e | None => dflt end.
  Definition qr_oracle (tbl : list (mx * (mx * mx))) : mx -> mx * mx :=
    lookup (mkmx 0 0 [], mkmx 0 0 []) tbl.

  (* model = implementation on (Q, R, qinterm) exactly, and the recorded calls are the model's calls *)
  Definition check_qr (tbl : list (mx * (mx * mx))) (A : mx) (q0 q1 : list Z)
             (expect : option (mx * mx * list Z)) : bool :=
    match block_qr (qr_oracle tbl) A q0 q1, expect with
    | Some (Q, Rm, qi), Some (Q', Rm', qi') =>
        wfb Q' && wfb Rm' && mxeqb Q Q' && mxeqb Rm Rm' && zlist_eqb qi qi'
        && mxlist_eqb (block_qr_calls A q0 q1) (map fst tbl)
    | None, None => true
    | _, _ => false
    end.
End Check.
Arguments mxlist_eqb {R} a b.
Arguments lookup {R T} dflt tbl B.
Arguments qr_oracle {R} tbl.
Arguments check_qr {R} tbl A q0 q1 expect.

Section CheckSVD.
  Variable F : ofield.
  Notation mx := (mx (Cx F)).
  Definition flist_eqb (a b : list F) : bool :=
    Nat.eqb (length a) (length b) && forallb (fun p => feqb F (fst p) (snd p)) (combine a b).
  Definition svd_oracle (tbl : list (mx * (mx * list F * mx))) : mx -> mx * list F * mx :=
    lookup (mkmx 0 0 [], [], mkmx 0 0 []) tbl.
  (* sort_idx : the recorded answer of np.argsort (None if it was not called) *)
  Definition check_svd (tbl : list (mx * (mx * list F * mx))) (sort_idx : list nat)
             (A : mx) (q0 q1 : list Z) (tol : F)
             (expect : option (mx * list F * mx * list Z)) : bool :=
    match block_svd (svd_oracle tbl) (fun _ => sort_idx) A q0 q1 tol, expect with
    | Some (u, s, v, q), Some (u', s', v', q') =>
        wfb u' && wfb v' && mxeqb u u' && mxeqb v v' && flist_eqb s s' && zlist_eqb q q'
        && mxlist_eqb (block_svd_calls A q0 q1) (map fst tbl)
    | None, None => true
    | _, _ => false
    end.
  (* retained_bond_indices alone *)
  Definition check_retained (sort_idx : list nat) (s : list F) (tol : F) (expect : list nat) : bool :=
    natlist_eqb (retained (fun _ => sort_idx) s tol) expect.
End CheckSVD.
Arguments flist_eqb {F} a b.
Arguments svd_oracle {F} tbl.
Arguments check_svd {F} tbl sort_idx A q0 q1 tol expect.
Arguments check_retained {F} sort_idx s tol expect.
