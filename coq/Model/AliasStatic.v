(* C19 — static tie of the descriptors [desc_of] to the source.
   harness/writeset.py derives, from the CURRENT source of /repo (Python ast, interprocedural, fail closed), for every
   concrete function behind a public operation the set of parameter positions whose referents it may write.
   The derived table is emitted as a Gallina term and [static_check] compares it with [desc_of]:
     Some []   ~ KPure            Some [k] ~ KInPlace k
     Some (two or more positions) and None (the analysis gave up: "unknown") match no descriptor.
   Several rows per operation are allowed (e.g. one per Hamiltonian constructor); every operation of [all_ops] must
   have at least one row. *)
From Coq Require Import List Arith Bool.
From PT Require Import Model.Alias.
Import ListNotations.

Definition kind_eqb (a b : kind) : bool :=
  match a, b with
  | KPure, KPure => true
  | KInPlace i, KInPlace j => Nat.eqb i j
  | _, _ => false
  end.

Definition all_ops : list opname :=
  [ Op_mps_add; Op_mps_sub; Op_mpo_add; Op_mpo_sub; Op_mpo_matmul; Op_apply_operator;
    Op_vdot; Op_norm; Op_operator_average; Op_operator_inner_product; Op_operator_density_average;
    Op_as_vector; Op_as_matrix; Op_from_vector; Op_split_mps_tensor; Op_merge_mps_tensor_pair; Op_merge_mpo_tensor_pair;
    Op_qr; Op_split_matrix_svd; Op_retained_bond_indices;
    Op_from_opchains; Op_from_opgraph; Op_mpo_identity; Op_graph_as_matrix;
    Op_compute_right_operator_blocks; Op_apply_local_hamiltonian; Op_apply_local_bond_contraction;
    Op_hamiltonian_constructor;
    Op_mps_orthonormalize; Op_mpo_orthonormalize; Op_mps_compress;
    Op_tdvp_singlesite; Op_tdvp_twosite; Op_dmrg_singlesite; Op_dmrg_twosite;
    Op_graph_add; Op_graph_simplify; Op_graph_flip ].

(* position of an operation in [all_ops]; used only to decide equality of operation names *)
Definition op_index (o : opname) : nat :=
  match o with
  | Op_mps_add => 0 | Op_mps_sub => 1 | Op_mpo_add => 2 | Op_mpo_sub => 3 | Op_mpo_matmul => 4 | Op_apply_operator => 5
  | Op_vdot => 6 | Op_norm => 7 | Op_operator_average => 8 | Op_operator_inner_product => 9
  | Op_operator_density_average => 10
  | Op_as_vector => 11 | Op_as_matrix => 12 | Op_from_vector => 13 | Op_split_mps_tensor => 14
  | Op_merge_mps_tensor_pair => 15 | Op_merge_mpo_tensor_pair => 16
  | Op_qr => 17 | Op_split_matrix_svd => 18 | Op_retained_bond_indices => 19
  | Op_from_opchains => 20 | Op_from_opgraph => 21 | Op_mpo_identity => 22 | Op_graph_as_matrix => 23
  | Op_compute_right_operator_blocks => 24 | Op_apply_local_hamiltonian => 25 | Op_apply_local_bond_contraction => 26
  | Op_hamiltonian_constructor => 27
  | Op_mps_orthonormalize => 28 | Op_mpo_orthonormalize => 29 | Op_mps_compress => 30
  | Op_tdvp_singlesite => 31 | Op_tdvp_twosite => 32 | Op_dmrg_singlesite => 33 | Op_dmrg_twosite => 34
  | Op_graph_add => 35 | Op_graph_simplify => 36 | Op_graph_flip => 37
  end.

Definition opname_eqb (a b : opname) : bool := Nat.eqb (op_index a) (op_index b).

(* a derived write-set: None = the analysis could not decide ("unknown", counts as "may write anything") *)
Definition writeset := option (list nat).

Definition kind_of_writes (w : writeset) : option kind :=
  match w with
  | Some [] => Some KPure
  | Some [k] => Some (KInPlace k)
  | _ => None
  end.

Definition static_table := list (opname * writeset).

Definition row_ok (r : opname * writeset) : bool :=
  match kind_of_writes (snd r) with
  | Some k => kind_eqb (desc_of (fst r)) k
  | None => false
  end.

Definition covers (t : static_table) (o : opname) : bool := existsb (fun r => opname_eqb (fst r) o) t.

(* the one evaluation the correspondence check performs *)
Definition static_check (t : static_table) : bool := forallb row_ok t && forallb (covers t) all_ops.

(* kind the table assigns to an operation: that of its first row *)
Fixpoint lookup (t : static_table) (o : opname) : option kind :=
  match t with
  | [] => None
  | r :: t' => if opname_eqb (fst r) o then kind_of_writes (snd r) else lookup t' o
  end.

(* the table harness/writeset.py derives from the unchanged tree (used by the non-vacuity example of Properties/C19.v) *)
Definition reference_table : static_table :=
  [(Op_mps_add, Some []); (Op_mps_add, Some []); (Op_mps_sub, Some []); (Op_mpo_add, Some []); (Op_mpo_add, Some []);
   (Op_mpo_sub, Some []); (Op_mpo_matmul, Some []); (Op_mpo_matmul, Some []); (Op_apply_operator, Some []);
   (Op_vdot, Some []); (Op_norm, Some []); (Op_operator_average, Some []); (Op_operator_inner_product, Some []);
   (Op_operator_density_average, Some []); (Op_as_vector, Some []); (Op_as_matrix, Some []); (Op_from_vector, Some []);
   (Op_split_mps_tensor, Some []); (Op_merge_mps_tensor_pair, Some []); (Op_merge_mpo_tensor_pair, Some []);
   (Op_qr, Some []); (Op_split_matrix_svd, Some []); (Op_retained_bond_indices, Some []); (Op_from_opchains, Some []);
   (Op_from_opgraph, Some []); (Op_mpo_identity, Some []); (Op_graph_as_matrix, Some []);
   (Op_compute_right_operator_blocks, Some []); (Op_apply_local_hamiltonian, Some []);
   (Op_apply_local_bond_contraction, Some []);
   (Op_hamiltonian_constructor, Some []); (Op_hamiltonian_constructor, Some []); (Op_hamiltonian_constructor, Some []);
   (Op_hamiltonian_constructor, Some []); (Op_hamiltonian_constructor, Some []); (Op_hamiltonian_constructor, Some []);
   (Op_hamiltonian_constructor, Some []); (Op_hamiltonian_constructor, Some []);
   (Op_mps_orthonormalize, Some [0]); (Op_mpo_orthonormalize, Some [0]); (Op_mps_compress, Some [0]);
   (Op_tdvp_singlesite, Some [1]); (Op_tdvp_twosite, Some [1]); (Op_dmrg_singlesite, Some [1]); (Op_dmrg_twosite, Some [1]);
   (Op_graph_add, Some [0]); (Op_graph_simplify, Some [0]); (Op_graph_flip, Some [0])].

