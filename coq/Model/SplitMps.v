(* Executable mirror of pytenet/mps.py split_mps_tensor composed with the executable model of
   bond_ops.split_matrix_svd ([block_svd], Model/BondOps.v):

     A = A.reshape((d0, d1, D0, D2)).transpose((0, 2, 1, 3))                      [split_matrix, Model/MPSOps.v]
     q0 = qnumber_flatten([ qd0, qD[0]]);  q1 = qnumber_flatten([-qd1, qD[1]])    [qflat]
     A0, sigma, A1, qbond = split_matrix_svd(A.reshape((d0*D0, d1*D2)), q0, q1, tol)   [block_svd]
     A0.shape = (d0, D0, k);  A1.shape = (k, d1, D2)
     'left': A0 = A0 * sigma   'right': A1 = A1 * sigma[:, None, None]   'sqrt': both times sqrt(sigma)
     A1 = A1.transpose((1, 0, 2))

   numpy.linalg.svd [dsvd], the unstable numpy.argsort [pick] and numpy.sqrt on the kept singular values [ksqrt]
   are oracle arguments.  svd_distr: 0 = 'left', 1 = 'right', 2 = 'sqrt', anything else is the ValueError.
   [None] = the code raises (assertions of split_mps_tensor / split_matrix_svd, numpy shape errors, IndexError on qD,
   ValueError).  Model/MPSOps.v [split_mps_tensor] is the same function over an abstract split_matrix_svd oracle;
   Proofs/SplitMpsAgree.v shows the two agree when that oracle is [block_svd]. *)
From Coq Require Import ZArith List Bool Lia Arith.
From PT Require Import Base.Scalar Base.Field Base.BigSum Base.Mx Model.Tensor Model.MPSOps Model.BondOps.
Import ListNotations.

Section SplitMps.
  Variable F : ofield.
  Notation CF := (Cx F).
  Notation mx := (mx CF).
  Notation site := (site CF).
  Variable dsvd : mx -> mx * list F * mx.   (* numpy.linalg.svd(B, full_matrices=False) *)
  Variable pick : list F -> list nat.       (* numpy.argsort inside retained_bond_indices *)
  Variable ksqrt : F -> F.                  (* numpy.sqrt on a singular value *)

  (* the factors by which column i of A0 resp. row i of A1 is multiplied *)
  Definition wleft (distr : nat) (sigma : list F) (i : nat) : CF :=
    match distr with
    | O => cof (nth i sigma (f0 F))
    | S O => k1 CF
    | _ => cof (ksqrt (nth i sigma (f0 F)))
    end.
  Definition wright (distr : nat) (sigma : list F) (i : nat) : CF :=
    match distr with
    | O => k1 CF
    | S O => cof (nth i sigma (f0 F))
    | _ => cof (ksqrt (nth i sigma (f0 F)))
    end.

  (* the matrix and the two charge vectors handed to split_matrix_svd *)
  Definition split_arg_M (A : site) (qd0 qd1 : list Z) : mx := split_matrix (length qd0) (length qd1) A.
  Definition split_arg_q0 (qd0 qD0 : list Z) : list Z := qflat qd0 qD0.
  Definition split_arg_q1 (qd1 qD2 : list Z) : list Z := qflat (map Z.opp qd1) qD2.

  Definition split_mps_tensor_full (A : site) (qd0 qd1 : list Z) (qD : list (list Z)) (distr : nat) (tol : F)
      : option (site * site * list Z) :=
    match qD with
    | qD0 :: qD2 :: _ =>
        let d0 := length qd0 in let d1 := length qd1 in
        let D0 := nr (sel A 0) in let D2 := nc (sel A 0) in
        (* A is an ndarray of shape (d0*d1, D0, D2):  assert d0 * d1 == A.shape[0] *)
        if negb (site_shape (d0 * d1) D0 D2 A) then None else
        match block_svd dsvd pick (split_arg_M A qd0 qd1) (split_arg_q0 qd0 qD0) (split_arg_q1 qd1 qD2) tol with
        | None => None
        | Some (U, sigma, V, qbond) =>
            if Nat.ltb 2 distr then None else          (* ValueError, raised after the split *)
            let k := length sigma in
            Some (stab d0 (fun s0 => tab D0 k (fun a i => kmul CF (get U (s0 * D0 + a) i) (wleft distr sigma i))),
                  stab d1 (fun s1 => tab k D2 (fun i c => kmul CF (wright distr sigma i) (get V i (s1 * D2 + c)))),
                  qbond)
        end
    | _ => None
    end.

  (* the oracle calls issued (arguments of numpy.linalg.svd, in order) and the list of all block singular values
     are those of the inner split_matrix_svd call *)
  Definition split_mps_calls (A : site) (qd0 qd1 : list Z) (qD0 qD2 : list Z) : list mx :=
    block_svd_calls (split_arg_M A qd0 qd1) (split_arg_q0 qd0 qD0) (split_arg_q1 qd1 qD2).

  (* split_matrix_svd as given by [block_svd], in the form expected by Model/MPSOps.v split_mps_tensor
     (singular values embedded into the scalars; the error value becomes an answer of impossible shape) *)
  Definition svd_of_block (tol : F) (M : mx) (q0 q1 : list Z) : mx * list CF * mx * list Z :=
    match block_svd dsvd pick M q0 q1 tol with
    | Some (u, s, v, q) => (u, map (@cof F) s, v, q)
    | None => (M, [], M, [])
    end.
  Definition csqrt (z : CF) : CF := cof (ksqrt (fst z)).

  (* squared distance and squared norm of site tensors: sums over all entries *)
  Definition site_dist2 (X Y : site) : CF :=
    sumn (length X) (fun s => frob (submx (sel X s) (sel Y s)) (submx (sel X s) (sel Y s))).
  Definition site_nrm2 (X : site) : CF := sumn (length X) (fun s => frob (sel X s) (sel X s)).
  Definition site_is_zero (X : site) : bool := forallb (@is_zeromx CF) X.
  (* diag(w_0 .. w_{k-1}) *)
  Definition diagmx (w : list F) : mx :=
    @tab CF (length w) (length w) (fun i j => if Nat.eqb i j then cof (nth i w (f0 F)) : CF else k0 CF).
End SplitMps.

Arguments wleft {F} ksqrt distr sigma i. Arguments wright {F} ksqrt distr sigma i.
Arguments split_arg_M {F} A qd0 qd1.
Arguments split_mps_tensor_full {F} dsvd pick ksqrt A qd0 qd1 qD distr tol.
Arguments split_mps_calls {F} A qd0 qd1 qD0 qD2.
Arguments svd_of_block {F} dsvd pick tol M q0 q1.
Arguments csqrt {F} ksqrt z.
Arguments site_dist2 {F} X Y. Arguments site_nrm2 {F} X. Arguments site_is_zero {F} X.
Arguments diagmx {F} w.

(* ------------------------------------------------------------------ *)
(* comparison helpers for the correspondence check (form R)             *)
(* ------------------------------------------------------------------ *)
Section CheckSplit.
  Variable F : ofield.
  Notation CF := (Cx F).
  Notation mx := (mx CF).
  Notation site := (site CF).
  (* |a - b| <= eps, componentwise; the implementation's factors went through one float multiplication by sigma *)
  Definition f_close (eps a b : F) : bool := fleb F (fsub F a b) eps && fleb F (fsub F b a) eps.
  Definition c_close (eps : F) (x y : CF) : bool := f_close eps (fst x) (fst y) && f_close eps (snd x) (snd y).
  Definition mx_close (eps : F) (A B : mx) : bool :=
    wfb B && Nat.eqb (nr A) (nr B) && Nat.eqb (nc A) (nc B) &&
    forallb (fun i => forallb (fun j => c_close eps (get A i j) (get B i j)) (seq 0 (nc A))) (seq 0 (nr A)).
  Definition site_close (eps : F) (X Y : site) : bool :=
    Nat.eqb (length X) (length Y) && forallb (fun p => mx_close eps (fst p) (snd p)) (combine X Y).
  (* recorded numpy.sqrt answers, looked up by exact argument *)
  Fixpoint f_lookup (tbl : list (F * F)) (x : F) : F :=
    match tbl with [] => f0 F | (k, v) :: t => if feqb F k x then v else f_lookup t x end.
  (* the composed model, run with the recorded oracle answers, returns the implementation's (A0, A1, qbond):
     qbond and all shapes exactly, entries within eps *)
  Definition check_split_full (tbl : list (mx * (mx * list F * mx))) (sort_idx : list nat) (sqtbl : list (F * F))
             (A : site) (qd0 qd1 qD0 qD2 : list Z) (distr : nat) (tol eps : F)
             (expect : option (site * site * list Z)) : bool :=
    match split_mps_tensor_full (svd_oracle tbl) (fun _ => sort_idx) (f_lookup sqtbl) A qd0 qd1 [qD0; qD2] distr tol, expect with
    | Some (B0, B1, qb), Some (A0, A1, qb') => site_close eps B0 A0 && site_close eps B1 A1 && zlist_eqb qb qb'
    | None, None => true
    | _, _ => false
    end.
End CheckSplit.
Arguments site_close {F} eps X Y. Arguments mx_close {F} eps A B.
Arguments f_lookup {F} tbl x.
Arguments check_split_full {F} tbl sort_idx sqtbl A qd0 qd1 qD0 qD2 distr tol eps expect.
