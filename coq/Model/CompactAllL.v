(* C20, all lattice sizes: the executable notions used by the statements that hold FOR EVERY L.
   [cover_sizes cover n s] = sizes |u_cover| + |v_cover| of the covers chosen during the next n passes of the site loop of
   from_opchains started in state s (Model/FromOpchains.v): the number of nodes the construction creates per site. *)
From Coq Require Import ZArith List Lia Bool.
From PT Require Import Base.Scalar Base.BigSum Model.OpGraph Model.Bipartite Model.FromOpchains.
Import ListNotations.
Open Scope Z_scope.

Section AllL.
  Variable R : cring.

  Fixpoint cover_sizes (cover : cover_t) (n : nat) (s : st R) : list nat :=
    match n with
    | O => []
    | S m => let '(nu, nv, es) := site_call s in
             (length (fst (cover nu nv es)) + length (snd (cover nu nv es)))%nat ::
             match site cover s with Ok s' => cover_sizes cover m s' | Err _ => [] end
    end.
End AllL.
Arguments cover_sizes {R} _ _ _.
