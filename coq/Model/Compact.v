(* C20 — compactness of compiled MPOs: the executable notions the statements and the correspondence check use.
   [bond_dims g] (Model/Hamiltonians.v) = widths of the node layers MPO.from_opgraph discovers = MPO.bond_dims.
   A cover answer is CERTIFIED for a site graph if it is a valid vertex cover and a matching of the same size exists
   (exactly what C18_mvc_total proves of minimum_vertex_cover). *)
From Coq Require Import ZArith List Lia Bool.
From PT Require Import Base.Scalar Base.BigSum Base.Mx Model.OpGraph Model.Bipartite Model.FromOpchains Model.GraphMPO
                       Model.Rewrites Model.Hamiltonians.
Import ListNotations.
Open Scope Z_scope.

(* a matching of the site graph: pairs taken from the edge list, pairwise vertex disjoint *)
Definition matchingb (es m : list (nat * nat)) : bool :=
  forallb (fun e => pmem e es) m && nodupn (map fst m) && nodupn (map snd m).
(* a valid vertex cover of the site graph: duplicate-free index lists touching every edge *)
Definition valid_coverb (es : list (nat * nat)) (cv : list nat * list nat) : bool :=
  nodupn (fst cv) && nodupn (snd cv) &&
  forallb (fun e => existsb (Nat.eqb (fst e)) (fst cv) || existsb (Nat.eqb (snd e)) (snd cv)) es.
Definition certifiedb (nu nv : nat) (es : list (nat * nat)) (cv : list nat * list nat) (m : list (nat * nat)) : bool :=
  valid_coverb es cv && matchingb es m && Nat.eqb (length m) (length (fst cv) + length (snd cv)).
Definition certified (nu nv : nat) (es : list (nat * nat)) (cv : list nat * list nat) : Prop :=
  exists m, certifiedb nu nv es cv m = true.

Section Compact.
  Variable R : cring.
  Notation chain := (chain R).
  Notation graph := (graph R).

  Definition nz_count (chains : list chain) : nat := length (filter (@nonzero R) chains).
  Definition all_le (ws : list nat) (n : nat) : bool := forallb (fun w => Nat.leb w n) ws.
  Fixpoint pointwise_le (a b : list nat) : bool :=
    match a, b with [], [] => true | x :: a', y :: b' => Nat.leb x y && pointwise_le a' b' | _, _ => false end.

  (* every cover answer issued during the sweep is certified *)
  Fixpoint calls_certified (cover : cover_t) (n : nat) (s : st R) : Prop :=
    match n with
    | O => True
    | S m => (let '(nu, nv, es) := site_call s in certified nu nv es (cover nu nv es)) /\
             match site cover s with Ok s' => calls_certified cover m s' | Err _ => True end
    end.
  (* the model's matching for a site graph, in the index types of from_opchains *)
  Definition matching_model (nu nv : nat) (es : list (nat * nat)) : list (nat * nat) :=
    match hopcroft_karp (mk_bg nu nv (map (fun e => (Z.of_nat (fst e), Z.of_nat (snd e))) es)) with
    | Some m => map (fun p => (Z.to_nat (fst p), Z.to_nat (snd p))) m
    | None => []
    end.
  Fixpoint calls_certifiedb (cover : cover_t) (n : nat) (s : st R) : bool :=
    match n with
    | O => true
    | S m => (let '(nu, nv, es) := site_call s in certifiedb nu nv es (cover nu nv es) (matching_model nu nv es)) &&
             match site cover s with Ok s' => calls_certifiedb cover m s' | Err _ => true end
    end.
  Definition start_state (chains : list chain) (L : nat) (idn : Z) : option (st R) :=
    match pad_all L idn (filter (@nonzero R) chains) with
    | Ok cs => Some (mkst init_graph 1 0 (init_next idn cs) [])
    | Err _ => None
    end.

  (* ---- correspondence predicates ---- *)
  (* arbitrary chain lists: the model graph (recorded covers; the model's own cover routine gives the same graph) has the
     implementation's bond dimensions, every recorded cover is certified by the model's matching, and every bond
     dimension is at most the number of chains with non-zero coefficient *)
  Definition check_chain_bound (tbl : list ((nat * nat * list (nat * nat)) * (list nat * list nat)))
             (chains : list chain) (L : nat) (idn : Z) (dims : list nat) : bool :=
    match from_opchains (cover_table tbl) chains L idn, from_opchains cover_model chains L idn with
    | Ok g, Ok g' =>
        graph_eqb g g' &&
        match bond_dims g with Some ws => nat_list_eqb ws dims && all_le ws (nz_count chains) | None => false end &&
        match start_state chains L idn with Some s0 => calls_certifiedb (cover_table tbl) L s0 | None => false end
    | _, _ => false
    end.
  (* built-in chain models: bond dimensions of the model graph built with the model's cover routine *)
  Definition check_builtin_dims (sp : hamspec R) (L : nat) (dims : list nat) : bool :=
    match spec_graph cover_model sp L with
    | Ok g => match bond_dims g with Some ws => nat_list_eqb ws dims | None => false end
    | Err _ => false
    end.
  Definition check_graph_dims (g : graph) (dims : list nat) : bool :=
    match bond_dims g with Some ws => nat_list_eqb ws dims | None => false end.
  (* simplify: model result has the implementation's bond dimensions after simplification; none increased *)
  Definition check_simplify (g : graph) (before after : list nat) : bool :=
    check_graph_dims g before &&
    match simplify g with
    | Some g' => check_graph_dims g' after && pointwise_le after before && wfb g && wfb g'
    | None => false
    end.

  (* closed forms of the bond dimensions (measured on the code) *)
  Definition dims_const (L w : nat) : list nat := [1%nat] ++ repeat w (L - 1) ++ [1%nat].
  Definition dims_xxz (L : nat) : list nat :=
    if Nat.ltb L 4 then dims_const L 4 else [1; 4]%nat ++ repeat 5%nat (L - 3) ++ [4; 1]%nat.
End Compact.
Arguments nz_count {R} _. Arguments calls_certified {R} _ _ _. Arguments calls_certifiedb {R} _ _ _. Arguments start_state {R} _ _ _.
Arguments check_chain_bound {R} _ _ _ _ _. Arguments check_builtin_dims {R} _ _ _. Arguments check_graph_dims {R} _ _.
Arguments check_simplify {R} _ _ _.
