(* Replay check (form R) for split_mps_tensor: the model runs with the recorded answer of split_matrix_svd as its
   oracle, at Gaussian rationals; reshapes and quantum numbers must agree exactly, values that went through a float
   multiplication by the singular values within a tolerance (compared in exact rational arithmetic). *)
From Coq Require Import ZArith QArith Qcanon List Bool.
From PT Require Import Base.Scalar Base.BigSum Base.Mx Model.Tensor Model.MPSOps.
Import ListNotations.

Definition qc_leb (a b : Qc) : bool := Qle_bool (this a) (this b).
Definition qc_close (tol a b : Qc) : bool := qc_leb (a - b)%Qc tol && qc_leb (b - a)%Qc tol.
Definition qi_close (tol : Qc) (x y : QI) : bool := qc_close tol (fst x) (fst y) && qc_close tol (snd x) (snd y).
Definition mx_close (tol : Qc) (A B : mx QIring) : bool :=
  Nat.eqb (nr A) (nr B) && Nat.eqb (nc A) (nc B) &&
  forallb (fun i => forallb (fun j => qi_close tol (get A i j) (get B i j)) (seq 0 (nc A))) (seq 0 (nr A)).
Definition site_close (tol : Qc) (A B : site QIring) : bool := list_eqb (mx_close tol) A B.

Fixpoint qi_lookup (tbl : list (QI * QI)) (x : QI) : QI :=
  match tbl with [] => (0%Qc, 0%Qc) | (k, v) :: t => if qieqb k x then v else qi_lookup t x end.

Definition check_split (A : site QIring) (qd0 qd1 qD0 qD2 : list Z) (distr : nat)
    (Mrec : mx QIring) (q0rec q1rec : list Z)
    (U : mx QIring) (sigma sq : list QI) (V : mx QIring) (qb : list Z)
    (A0 A1 : site QIring) (qbond : list Z) (tol : Qc) : bool :=
  let svd := fun (_ : mx QIring) (_ _ : list Z) => (U, sigma, V, qb) in
  let ksqrt := qi_lookup (combine sigma sq) in
  let '(B0, B1, qb') := @split_mps_tensor QIring svd ksqrt A qd0 qd1 qD0 qD2 distr in
  mxeqb (split_matrix (length qd0) (length qd1) A) Mrec &&
  zl_eqb (qflat qd0 qD0) q0rec && zl_eqb (qflat (map Z.opp qd1) qD2) q1rec &&
  site_close tol B0 A0 && site_close tol B1 A1 && zl_eqb qb' qbond &&
  (* merging the model's split reproduces the tensor (tolerance: the recorded factors are floats) *)
  site_close tol (merge_mps_tensor_pair B0 B1) A.
