(* Executable mirror of pytenet/bipartite_graph.py: BipartiteGraph, HopcroftKarp, minimum_vertex_cover. *)
From Coq Require Import ZArith List Bool Lia.
Import ListNotations.
Open Scope Z_scope.

(* BipartiteGraph: adjacency lists with duplicate suppression, in edge-list order *)
Definition add_adj (i : nat) (x : Z) (adj : list (list Z)) : list (list Z) :=
  map (fun p => let '(k, l) := p in if Nat.eqb k i then (if existsb (Z.eqb x) l then l else l ++ [x]) else l)
      (combine (seq 0 (length adj)) adj).
Record bg := { nu : nat; nv : nat; adju : list (list Z); adjv : list (list Z) }.
Definition mk_bg (n_u n_v : nat) (edges : list (Z * Z)) : bg :=
  let '(au, av) := fold_left (fun acc e => let '(au, av) := acc in let '(u, v) := e in
                      (add_adj (Z.to_nat u) v au, add_adj (Z.to_nat v) u av))
                    edges (repeat [] n_u, repeat [] n_v) in
  {| nu := n_u; nv := n_v; adju := au; adjv := av |}.

(* arrays indexed by Z; dist has key -1 stored at position 0 *)
Definition zget (l : list Z) (i : Z) : Z := nth (Z.to_nat i) l 0.
Fixpoint upd {A} (l : list A) (i : nat) (x : A) : list A :=
  match l, i with [], _ => [] | _ :: t, O => x :: t | h :: t, S j => h :: upd t j x end.
Definition zset (l : list Z) (i : Z) (x : Z) : list Z := upd l (Z.to_nat i) x.
Definition dget (d : list Z) (u : Z) := zget d (u + 1).
Definition dset (d : list Z) (u : Z) (x : Z) := zset d (u + 1) x.

Record hk := { mu : list Z; mv : list Z; dist : list Z }.

Section G.
  Variable g : bg.
  Definition inf : Z := Z.of_nat (nu g) + 1.
  Definition adj_u (u : Z) : list Z := nth (Z.to_nat u) (adju g) [].
  Definition adj_v (v : Z) : list Z := nth (Z.to_nat v) (adjv g) [].
  Definition us : list Z := map Z.of_nat (seq 0 (nu g)).

  (* BFS *)
  Definition bfs_init (s : hk) : list Z * list Z :=   (* dist, queue *)
    fold_left (fun acc u => let '(d, q) := acc in
                 if zget (mu s) u =? -1 then (dset d u 0, q ++ [u]) else (dset d u inf, q))
              us (dist s, []).
  Definition bfs_visit (s : hk) (u : Z) (dq : list Z * list Z) : list Z * list Z :=
    fold_left (fun acc v => let '(d, q) := acc in
                 let u' := zget (mv s) v in
                 if dget d u' =? inf then (dset d u' (dget d u + 1), q ++ [u']) else (d, q))
              (adj_u u) dq.
  Fixpoint bfs_loop (fuel : nat) (s : hk) (d : list Z) (q : list Z) : option (list Z) :=
    match q with
    | [] => Some d
    | u :: q' => match fuel with O => None | S f =>
        if dget d u <? dget d (-1) then let '(d', q'') := bfs_visit s u (d, q') in bfs_loop f s d' q''
        else bfs_loop f s d q' end
    end.
  Definition bfs (s : hk) : option (hk * bool) :=
    let '(d0, q0) := bfs_init s in
    let d1 := dset d0 (-1) inf in
    match bfs_loop (nu g + 2) s d1 q0 with
    | Some d => Some ({| mu := mu s; mv := mv s; dist := d |}, negb (dget d (-1) =? inf))
    | None => None end.

  (* DFS with the for-loop as a recursion over the remaining adjacency list *)
  Fixpoint dfs (fuel : nat) (s : hk) (u : Z) : option (hk * bool) :=
    match fuel with O => None | S f =>
      if u =? -1 then Some (s, true) else
      (fix loop (vs : list Z) (s : hk) : option (hk * bool) :=
         match vs with
         | [] => Some ({| mu := mu s; mv := mv s; dist := dset (dist s) u inf |}, false)
         | v :: vs' =>
             if dget (dist s) (zget (mv s) v) =? dget (dist s) u + 1 then
               match dfs f s (zget (mv s) v) with
               | None => None
               | Some (s', true) => Some ({| mu := zset (mu s') u v; mv := zset (mv s') v u; dist := dist s' |}, true)
               | Some (s', false) => loop vs' s'
               end
             else loop vs' s
         end) (adj_u u) s
    end.

  Definition phase (s : hk) : option hk :=
    fold_left (fun acc u => match acc with None => None | Some s =>
                 if zget (mu s) u =? -1 then option_map fst (dfs (nu g + 2) s u) else Some s end)
              us (Some s).
  Fixpoint outer (fuel : nat) (s : hk) : option hk :=
    match fuel with O => None | S f =>
      match bfs s with None => None
      | Some (s1, false) => Some s1
      | Some (s1, true) => match phase s1 with None => None | Some s2 => outer f s2 end end
    end.
  Definition hopcroft_karp : option (list (Z * Z)) :=
    let s0 := {| mu := repeat (-1) (nu g); mv := repeat (-1) (nv g); dist := repeat 0 (nu g + 1) |} in
    match outer (nu g + 2) s0 with
    | Some s => Some (filter (fun p => negb (snd p =? -1)) (combine us (mu s)))
    | None => None end.

  (* Koenig *)
  Definition inm (m : list (Z*Z)) (u v : Z) := existsb (fun p => (fst p =? u) && (snd p =? v)) m.
  Definition mem (x : Z) (l : list Z) := existsb (Z.eqb x) l.
  Fixpoint explore (fuel : nat) (m : list (Z*Z)) (u0 : Z) (uv : list Z * list Z) : option (list Z * list Z) :=
    match fuel with O => None | S f =>
      let '(uvis, vvis) := uv in
      if mem u0 uvis then Some uv else
      fold_left (fun acc v => match acc with None => None | Some (uvis, vvis) =>
                   if inm m u0 v then Some (uvis, vvis) else
                   if mem v vvis then Some (uvis, vvis) else
                   fold_left (fun acc u => match acc with None => None | Some uv' =>
                                if inm m u v then explore f m u uv' else Some uv' end)
                             (adj_v v) (Some (uvis, vvis ++ [v])) end)
                (adj_u u0) (Some (uvis ++ [u0], vvis))
    end.
  Fixpoint insert_sorted (x : Z) (l : list Z) : list Z :=
    match l with [] => [x] | y :: t => if x <? y then x :: l else if x =? y then l else y :: insert_sorted x t end.
  Definition min_vertex_cover : option (list Z * list Z) :=
    match hopcroft_karp with None => None | Some m =>
      let alist := filter (fun u => negb (existsb (fun p => fst p =? u) m)) us in
      let res := fold_left (fun acc u => match acc with None => None | Some (uc, vc) =>
                     match explore (nu g + 2) m u ([], []) with None => None
                     | Some (uvis, vvis) => Some (filter (fun x => negb (mem x uvis)) uc,
                                                  fold_left (fun l v => insert_sorted v l) vvis vc) end end)
                  alist (Some (us, [])) in
      match res with None => None | Some (uc, vc) =>
        if Nat.eqb (length uc + length vc) (length m) then Some (uc, vc) else None end
    end.
End G.



(* ---- executable certificates ---- *)
Definition in_range (n : nat) (x : Z) : bool := (0 <=? x) && (x <? Z.of_nat n).
Definition has_edge (g : bg) (u v : Z) : bool := in_range (nu g) u && in_range (nv g) v && mem v (adj_u g u).
Fixpoint nodupb (l : list Z) : bool :=
  match l with [] => true | x :: t => negb (mem x t) && nodupb t end.
(* a matching: existing edges, pairwise vertex disjoint *)
Definition is_matching (g : bg) (m : list (Z * Z)) : bool :=
  forallb (fun p => has_edge g (fst p) (snd p)) m && nodupb (map fst m) && nodupb (map snd m).
(* all edges of the graph, from the adjacency lists *)
Definition all_edges (g : bg) : list (Z * Z) :=
  flat_map (fun u => map (fun v => (u, v)) (adj_u g u)) (us g).
Definition is_cover (g : bg) (c : list Z * list Z) : bool :=
  forallb (in_range (nu g)) (fst c) && forallb (in_range (nv g)) (snd c) &&
  forallb (fun e => mem (fst e) (fst c) || mem (snd e) (snd c)) (all_edges g).
Fixpoint sortedb (l : list Z) : bool :=
  match l with x :: ((y :: _) as t) => (x <? y) && sortedb t | _ => true end.

(* what the harness compares: matching and cover returned for an edge list *)
Definition run (n_u n_v : nat) (edges : list (Z*Z)) : option (list (Z*Z)) * option (list Z * list Z) :=
  let g := mk_bg n_u n_v edges in (hopcroft_karp g, min_vertex_cover g).

Fixpoint zlist_eqb (a b : list Z) : bool :=
  match a, b with [], [] => true | x :: a', y :: b' => (x =? y) && zlist_eqb a' b' | _, _ => false end.
Fixpoint zzlist_eqb (a b : list (Z*Z)) : bool :=
  match a, b with [], [] => true
  | (x1, x2) :: a', (y1, y2) :: b' => (x1 =? y1) && (x2 =? y2) && zzlist_eqb a' b' | _, _ => false end.
(* correspondence predicate: the model returns exactly the implementation's matching and cover,
   and both pass the certificate checkers *)
Definition check_run (n_u n_v : nat) (edges : list (Z*Z)) (m : list (Z*Z)) (uc vc : list Z) : bool :=
  let g := mk_bg n_u n_v edges in
  match hopcroft_karp g, min_vertex_cover g with
  | Some m', Some (uc', vc') =>
      zzlist_eqb m' m && zlist_eqb uc' uc && zlist_eqb vc' vc &&
      is_matching g m' && is_cover g (uc', vc') && Nat.eqb (length uc' + length vc') (length m') &&
      sortedb uc' && sortedb vc'
  | _, _ => false
  end.
