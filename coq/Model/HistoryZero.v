(* C02 — the state machine of Model/History.v with the SplitMerge step instantiated by the mirror of split_matrix_svd as it stands
   (Model/BondOpsF5.v) for histories whose merged tensors are all ZERO (zero states, states in an unreachable charge sector):
   on a zero matrix numpy.linalg.svd is either not called (no shared charge: dummy bond) or returns singular values that are all
   zero, so that retained_bond_indices keeps nothing and the factors U, Vh never reach the result (Proofs/Hist4Zero.v
   block_svd_zero_common: for EVERY answer meeting LAPACK's contract).  [zero_dsvd] is what LAPACK returns on a zero block
   (U = I[:, :k], s = 0, Vh = I[:k, :]); numpy.argsort is never called; numpy.sqrt is only applied to 0.
   Used by the correspondence check (harness/props/c02.py, cases 'zsplit'): every object written by such a history is compared
   exactly with the implementation's.  Definitions only. *)
From Coq Require Import ZArith QArith Qcanon List Bool.
From PT Require Import Base.Scalar Base.Field Base.BigSum Base.Mx Model.Tensor Model.MPSOps Model.BondOps Model.BondOpsF5 Model.History.
Import ListNotations.

Section ZeroSplit.
  Variable F : ofield.
  Notation CF := (Cx F).
  Definition zero_dsvd (B : mx CF) : mx CF * list F * mx CF :=
    let k := Nat.min (nr B) (nc B) in
    (tab (nr B) k (fun i j => if Nat.eqb i j then k1 CF else k0 CF), repeat (f0 F) k,
     tab k (nc B) (fun i j => if Nat.eqb i j then k1 CF else k0 CF)).
  Definition zsplit_oracles (tolf : nat -> F) : oracles CF :=
    mkoracles (fun tag => svd_result5 zero_dsvd (fun _ => []) (tolf tag)) (fun x => x) (fun _ p => p) (fun _ _ p => p) (fun _ o => o)
              (fun _ _ _ _ => []) (fun _ _ _ p => p) (fun _ _ _ p => p).
End ZeroSplit.
Arguments zero_dsvd {F} B.

(* literals of the correspondence check: integer-valued entries over Q[i]; tolerance by tag: 0 -> tol = 0, otherwise tol = 1/4 *)
Definition qcx (a b : Z) : Cx QcF := (Q2Qc (Qmake a 1), Q2Qc (Qmake b 1)).
Definition ztol (tag : nat) : QcF := match tag with O => Q2Qc (Qmake 0 1) | _ => Q2Qc (Qmake 1 4) end.
Definition zsplit_check := @check_history (Cx QcF) (zsplit_oracles QcF ztol).
